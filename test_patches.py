#!/usr/bin/env python3
"""Regression for the checker itself, run on scratch worktrees of /repo (never on /repo's own working tree).

  ./test_patches.py seeds   [id ...]     every seeded/<id>/patch.diff must be reported (exit 1) by each check named
                                          under detected_by in its meta.json
  ./test_patches.py neutral [file ...]   every neutral/*.diff (behaviour-preserving refactorings written by
                                          independent sub-agents) must leave EVERY claimed check silent (exit 0)

Not part of MANIFEST.json. Worktrees live under /tmp/t38wt.<pid>/ and are removed at the end.
"""
import json, os, subprocess, sys, glob, shutil, tempfile
from concurrent.futures import ThreadPoolExecutor
import queue

VERIF = os.path.dirname(os.path.abspath(__file__))
REPO = "/repo"
NWT = int(os.environ.get("T38_WORKTREES", "4"))
PER = int(os.environ.get("T38_PER_WORKTREE", "4"))

def sh(cmd, **kw):
    return subprocess.run(cmd, shell=isinstance(cmd, str), capture_output=True, text=True, **kw)

def props_all():
    m = json.load(open(os.path.join(VERIF, "MANIFEST.json")))
    ps = [c["property_id"] for c in m["checks"]]
    only = os.environ.get("T38_PROPS")  # e.g. T38_PROPS=C06,C10 restricts the neutral run to these checks
    if only:
        ps = [p for p in ps if p in only.split(",")]
    return ps

BIN = None  # private build of the checker: edits under t38check/ during a run do not disturb it

def goenv():
    env = dict(os.environ, GOFLAGS="-mod=mod", GOPROXY="off", GOWORK="off")
    env.pop("GOTOOLCHAIN", None)
    env.pop("GOSUMDB", None)
    return env

def run_check(wt, prop, evdir):
    r = sh([BIN, "-property", prop, "-tier", "quick", "-repo", wt, "-verif", VERIF,
            "-evidence", os.path.join(evdir, prop + ".json")], env=goenv(), cwd=VERIF)
    return prop, r.returncode, r.stdout + r.stderr

def job(kind, name, patch, props, wtq, evroot):
    wt = wtq.get()
    try:
        r = sh(["git", "-C", wt, "apply", patch])
        if r.returncode != 0:
            return name, False, ["PATCH DOES NOT APPLY: " + r.stderr.strip()[:200]]
        evdir = tempfile.mkdtemp(dir=evroot)
        with ThreadPoolExecutor(PER) as ex:
            res = list(ex.map(lambda p: run_check(wt, p, evdir), props))
        lines, ok = [], True
        for p, rc, out in res:
            if kind == "seeds":
                if rc == 1:
                    lines.append(f"{p} reports it ({out.count('VIOLATION ')} violations)")
                else:
                    ok = False
                    lines.append(f"{p} exit={rc} NOT REPORTED")
            else:
                if rc != 0:
                    ok = False
                    det = [l[:400] for l in out.splitlines() if l.startswith("  R") or "UNDECIDED" in l][:6]
                    lines.append(f"{p}(exit={rc})")
                    lines += ["    " + d for d in det]
        return name, ok, lines
    finally:
        sh(["git", "-C", wt, "checkout", "--", "."])
        sh(["git", "-C", wt, "clean", "-fdq"])
        wtq.put(wt)

def main():
    kind = sys.argv[1]
    sel = sys.argv[2:]
    jobs = []
    if kind == "seeds":
        for d in sorted(glob.glob(os.path.join(VERIF, "seeded", "*/"))):
            name = os.path.basename(d.rstrip("/"))
            if sel and name not in sel:
                continue
            meta = json.load(open(os.path.join(d, "meta.json")))
            if not meta.get("detected_by"):
                continue
            jobs.append((name, os.path.join(d, "patch.diff"), list(meta["detected_by"].keys())))
    elif kind == "neutral":
        allp = props_all()
        files = sel or sorted(glob.glob(os.path.join(VERIF, "neutral", "*.diff")))
        for f in files:
            jobs.append((os.path.basename(f), os.path.abspath(f), allp))
    else:
        sys.exit(__doc__)
    root = f"/tmp/t38wt.{os.getpid()}"
    os.makedirs(root)
    global BIN
    BIN = os.path.join(root, "t38check")
    b = sh(["go", "build", "-o", BIN, "."], cwd=os.path.join(VERIF, "t38check"), env=goenv())
    if b.returncode != 0:
        shutil.rmtree(root, ignore_errors=True)
        sys.exit("checker does not build:\n" + b.stderr)
    wtq = queue.Queue()
    wts = []
    try:
        for i in range(NWT):
            wt = os.path.join(root, f"wt{i}")
            r = sh(["git", "-C", REPO, "worktree", "add", "--detach", wt, "HEAD"])
            if r.returncode != 0:
                sys.exit("worktree add failed: " + r.stderr)
            wts.append(wt)
            wtq.put(wt)
        evroot = os.path.join(root, "ev")
        os.makedirs(evroot)
        rc = 0
        with ThreadPoolExecutor(NWT) as ex:
            futs = [ex.submit(job, kind, n, p, pr, wtq, evroot) for n, p, pr in jobs]
            for f in futs:
                name, ok, lines = f.result()
                if kind == "seeds":
                    print(f"{name}: " + ("; ".join(lines)), flush=True)
                else:
                    print(f"{name}: " + ("silent" if ok else "ALARMS:\n  " + "\n  ".join(lines)), flush=True)
                if not ok:
                    rc = 1
        sys.exit(rc)
    finally:
        for wt in wts:
            sh(["git", "-C", REPO, "worktree", "remove", "--force", wt])
        sh(["git", "-C", REPO, "worktree", "prune"])
        shutil.rmtree(root, ignore_errors=True)

if __name__ == "__main__":
    main()
