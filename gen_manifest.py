#!/usr/bin/env python3
"""Regenerates MANIFEST.json. Edit CLAIMED / NOT_APPLICABLE here."""
import json, subprocess, os

BASE = json.load(open('/root/.vp/BASELINE.json'))

# property -> (technique, what is decided, what is not decided)
CLAIMED = {
 "C13": ("provenance and argument-order rules over the typed AST (parameter-to-argument identity, axis/index agreement); dominating-fact extraction on go/cfg for the radius cut-off",
         "the plumbing between the ordering and what is reported: the best-first traversal in Collection.Nearby is ordered by geodeticDistAlgo of the query's own centre with boxes forwarded one-to-one, the distance handed to the user iterator is the traversal's own distance for that item; for stored objects the distance is computed from the object's exact rectangle with consistent (lat, lng) argument pairs; in cmdNearby an object is delivered only where `radius > 0 && dist > radius` is known false, against the query circle's Meters(), and the DISTANCE delivered is that same dist; a filter never ends the traversal (R12.filters-never-stop)",
         "everything numeric: that the geodesic point-to-rectangle distance is an admissible lower bound for tree nodes, the haversine values themselves, the R-tree's best-first traversal (library), k-closest over all datasets"),
 "C01": ("path search with boolean correlation on go/cfg from every effective mutation site of the write handlers; must-pass-through of the empty-collection cleanup",
         "two clauses only: (a) 'an error or negative answer changes nothing' — in every write handler no feasible path leads from an effective mutation of the keyspace, a collection or the hook registry to a return carrying a non-nil error or the NX/XX negative reply; (b) 'a collection exists iff it holds an object' — every deletion of an object from a keyspace collection is followed on all normal paths by the Count() == 0 → cols.Delete cleanup, and a collection registered while empty receives an object on every path that follows; Count(), which the cleanup tests, is maintained symmetrically by every insertion and removal site (R19.delta); (c) two-key commands stay correct when the keys are equal: no keyspace delete is reachable after a keyspace store with a different key expression unless the keys are known to differ; (d) a command that names the same field twice equals the two commands in sequence: the loop that folds a command's items into an accumulator reads only the accumulator, never the stored state again",
         "equivalence of replies and visible state with the map model over all programs, and exact read-back of objects and field values (value-level; no static argument in reach)"),
 "C03": ("call-graph effect analysis vs extracted command tables; must-pass-through on go/cfg",
         "logging discipline: every handler that can mutate persistent state is in the logged/exclusive/gated write class (computed effects vs the lock table), every apply site passes writeAOF on all non-error paths inside the same critical section, mutations are followed by commandDetails.updated, a registered hook is never modified in place (its definition fields are stored only through a freshly allocated hook), the script class lists agree with the lock table, every name that can reach the log is re-executable at start-up",
         "crash instants and the determinism of replaying a logged command (value-level)"),
 "C07": ("interprocedural lock-state dataflow (go/cfg) with command-table join",
         "lock discipline: every write of a Server.mu-guarded location runs exclusively and every read at least shared, on every path from every goroutine root; acquire/release pairing in every function; nobody releases a caller's lock; the queues that carry applied writes from the log writer to the live connections are consumed in the order they were filled",
         "linearizability of actual histories (a property of executions)"),
 "C15": ("command-table extraction and gate-shape matching; effect analysis; dominance on go/cfg",
         "the gate matrix is structural: every write-class arm (and eval/evalsha) carries the follower and read-only gates before dispatch; every object-reading handler is behind the catching-up gate; the three script class switches agree with each other and with the lock table; the authentication test dominates the lock switch with a fixed exemption set; authd is only set on the password-equality edge; the protected-mode test precedes the first read; every documented command has a dispatch arm",
         "the final reply texts and the config setters themselves (value-level)"),
 "C08": ("lock-state dataflow for the dirty flag; must-pass-through on go/cfg with helper summaries",
         "the pre-write protocol: every store to the dirty flag happens under the exclusive lock (so flush and clear are one critical section), every socket write of buffered replies is separated from the handled command by the dirty test or a flush under the lock, every append sets the flag, flushAOF writes the whole buffer before truncating it, does not drop the error, and can skip the write only when the buffer is empty",
         "kill instants (write(2) durability is trusted) — interleavings are covered by the lock argument, not enumerated"),
 "C18": ("lock-table extraction; effect analysis of the read-only script class; enumeration of the Lua global environment from source (tile38 literals and pinned gopher-lua/gopher-json tables); set/clear pairing of per-call globals on go/cfg",
         "EVAL/EVALSHA hold the exclusive lock for the whole script and EVALRO the shared lock, with no lock operation inside; the read-only class offers no handler with a write effect; script writes pass writeAOF in the same critical section; the script environment equals the reviewed allow-list and its Go functions reach no os/net/syscall function; new globals raise; per-call globals are cleared on every path before a state returns to the pool; the script class is bound to EVAL_CMD which only cmdEvalUnified sets",
         "the Go-level behaviour of the allow-listed gopher-lua builtins (trusted); interleavings are covered by the lock argument, not enumerated"),
 "C09": ("dominance and who-may-call rules on go/cfg; table agreement between the rewrite's emitter and the command parsers",
         "the rewrite protocol: writes during a shrink are captured whenever they reach the live log; the final step is one exclusive critical section ordered flush → copy shrink log → sync → close → rename(new→live) → reopen → seek → size update; the live log is never renamed away or removed; followers streaming the old log are registered and closed before the rename (R6.stream-registered); the option words the rewrite emits are parsed by SET / SETHOOK, and each component of an object's or hook's state (fields, deadline, geometry/string, metas, message) is emitted under exactly its own guard; the batch cursors resume at the element that stopped the batch; the rewrite file starts empty (os.Create / O_TRUNC / removed first), so nothing of an interrupted earlier shrink follows the new content into the live log",
         "value-level round trip of every object and field kind through the emitted SET, and crash instants inside the individual system calls"),
 "C12": ("table agreement (byte and string case-label sets), dominating-guard extraction on go/cfg, sibling agreement, always-true result analysis of the filter stage, form classification of the range limits",
         "the shortcut/range machinery around the filters: a filter never ends an iteration (globMatch/testObject report keepGoing = true on every non-error return, pushObject stops only on error, limit or the COUNT comparison); the far range limit of glob.Parse is the successor of the literal prefix (two known findings: prefixes ending in 0xFF); in multiGlobParse every pattern, the first included, passes the 'no literal prefix' test before its limits are merged, and an unbounded pattern unbounds the range and ends the merge; the literal-prefix scan of glob.Parse stops at every byte the matcher treats as an operator; an empty prefix leaves the range unbounded; every glob-bounded iteration still matches each candidate; a COUNT answered from a counter uses the counter of the index the fallback iterates and is guarded by the absence of every filter the fallback applies; parser and matcher agree on the WHERE operators; the per-kind counters the shortcut reads are maintained by effect tables over every situation of the replaced and the new object (R19.delta)",
         "the glob matching semantics and the value ordering themselves (value-level)"),
 "C19": ("action-set abstraction of the bookkeeping sites (AST), sibling and inverse comparison; who-may-write over resolved field objects",
         "bookkeeping symmetry in internal/collection: both removal sites agree and are the exact inverse of the insertion site in every secondary index and counter, with the same guards and measures; Collection fields are written only by the bookkeeping functions and object fields only by constructors (indexed objects are immutable); the counter accessors return the fields they name; the COUNT shortcuts use the counter of the index they replace",
         "arithmetic equality with a recomputation over all histories (follows from symmetry only under the library containers' correctness)"),
 "C02": ("provenance of index rectangles and dominating-predicate extraction on go/cfg; sibling agreement of the two area parsers; repo-wide self-operand lint on resolved geojson methods",
         "index writer and reader use the same quantiser (rtreeRect) for every rectangle; in WITHIN/INTERSECTS, sparse and plain, the user iterator runs only on the true edge of the exact predicate applied to the query object and the index is searched with the query's rectangle; index insert/delete are symmetric (R19.delta); the two float32 quantisers move a value outward for either sign of the input (symbolic evaluation of a·d + b·|d| on exact rational constants; the magnitude of the nudge is not decided); TEST's area parser and the search parser build each area keyword with the same constructors; no geometric predicate is applied to an object and itself",
         "that outward float32 rounding contains every float64 box (numeric), the R-tree itself and the geometric predicates (libraries)"),
 "C20": ("dominating-guard extraction with operand provenance on go/cfg; must-pass-through for in-loop removals",
         "an element removed from a slice inside an index loop is followed by i-- before the increment, and two local slices that share an array are not used independently after one was modified in place (fenceMatchRoam's neighbour lists); in fenceMatchNearbys a candidate is appended only under distance(moved object, candidate) <= roam.meters and an id filter that is glob.Match under roam.pattern and equality otherwise; the reported meters is the distance between those two objects; faraway distances are recomputed against the new position; no self-operand distance",
         "the nearby/faraway set algebra with NODWELL and the distance values themselves"),
 "C11": ("normal-form extraction of the cursor iterators on go/cfg; forward dataflow counting cursor steps per item (exactly-once); who-may-write on the cursor counters; always-true result analysis of the filter stage",
         "the cursor protocol: along every path through a per-item callback the cursor is stepped zero times for an item skipped by the offset test and exactly once otherwise, before the user iterator, and the stepping helper itself steps exactly once whenever the cursor is not nil; filters never end the iteration; every Collection iterator with a Cursor pre-steps the offset once under cursor != nil, and its per-item callback counts, skips while count <= offset without calling the user iterator, steps, then calls the user iterator; scanWriter sets hitLimit only at numberItems == limit and stops there, reports numberIters iff hitLimit, and the counters have single writers",
         "that concatenated pages equal the unlimited reply (behaviour over datasets and filters)"),
 "C14": ("reviewed provenance table over resolved object.New call sites; structural checks of comparator, scan direction and sweeper callbacks on go/cfg; bookkeeping symmetry of the expiry index",
         "expiry as a logged delete (the sweepers pass writeAOF under the exclusive lock), symmetric maintenance of the expiry index with the same guard on insert and delete, the deadline each handler stores (SET/EXPIRE new, FSET inherited, PERSIST/JSET/JDEL none), the expiry index ordered by deadline first and scanned ascending with the sweepers stopping at the first future deadline; a hook's deadline is part of what Hook.Equals compares, and a follower's reset clears the hook expiry queue with the other registries",
         "timing (never early / bounded delay against the wall clock) and TTL arithmetic"),
 "C04": ("affine-equality abstract interpretation (Karr) over the go/cfg of loadAOF for the file offsets; must-dataflow for the carry buffer; dominance and must-pass-through",
         "the tail-repair arithmetic of loadAOF, whatever its shape: the arguments of Truncate and Seek and the final aofsz equal (entry offset + bytes read) - len(carry buffer) on every path (affine invariant; library contracts used: os.File.Read returns io.EOF only with n == 0, redcon.ReadNextCommand consumes nothing when incomplete); truncate and seek are paired on all normal paths and their errors returned; the carry buffer holds exactly the unparsed remainder before every read; NUL bytes are tested and skipped before every parse; a non-empty remainder is carried to the next chunk; every byte that was read and counted is either consumed by the parser (or the NUL skip) or still in the carry: at the normal return aofsz equals entry offset plus bytes consumed",
         "that the recovered state equals the prefix state (value-level) and RESP framing (library)"),
 "C06": ("dominating-guard extraction and must-pass-through on go/cfg; sibling agreement reset ~ FLUSHDB; command-table read gate; lock-state analysis of the follower registry",
         "the resync protocol: the leader registers a follower's log handle in aofconnM in the same exclusive critical section that opens it and before any byte is streamed, and AOFSHRINK closes every registered connection and file before the rename (no follower keeps streaming a replaced log); caught-up is declared only under own position >= leader's aof_size and cleared before every reconnect; the position handed to the leader describes the local state (position 0 only after the log was re-created and the dataset reset; a truncated position only after truncate → reset → reload → size check); reset clears everything FLUSHDB clears; replicated commands are applied and logged under one exclusive critical section that also covers the generation test; object reads are gated until the follower has caught up once",
         "convergence under arbitrary fault sequences and the checksum search itself"),
 "C05": ("co-update and guard-agreement rules over the hook registries (AST with enclosing guards); table agreement of detect names; lock-state analysis for fence evaluation",
         "the candidate-selection machinery: the seven hook registries are inserted, deleted and cleared together, with the same guards on the respective hook for the two spatial indexes; getQueueCandidates consults all three candidate indexes; the detect names fenceMatch produces are those DETECT accepts (plus roam); evaluating a fence leaves its shared switches unchanged (a field changed for the 'cross' test is restored on every path, through the pointer or an alias); a registered hook is never modified in place; fence evaluation and queueing run under the exclusive lock; no geometric predicate compares an object with itself; Hook.Equals, which decides whether a re-issued SETHOOK is a no-op, compares every field cmdSetHook sets from the command (seven reviewed fields excepted); the queues that carry applied writes to the live connections are consumed oldest-first",
         "the enter/exit/inside/outside/cross classification itself and the equality of results over the three transports (value-level)"),
 "C10": ("per-lock interprocedural lock-state dataflow (six auxiliary locks); must-pass-through on go/cfg; table agreement for endpoint protocols",
         "queue discipline: every access to a subscriber queue, the live-fence stack and buffers, the pub/sub hub table, the follower publish queue and the hook state holds the lock guarding it; the queue index advances under the exclusive server lock; all writes to a subscriber connection go through one closure holding the write lock; a consumer that takes a queue's pending batch resets the queue to a slice with its own backing array; Hook.proc reports the queue drained only after an exhaustive scan and a send loop over the whole collected slice, and the manager waits only after that with an unchanged signal counter; a failed webhook send re-inserts the unsent tail (keys, values and ttls from the same index) before giving up; the endpoint manager's mutex is released on every reachable exit; the counter that numbers the queued notifications' keys is the one persisted for start-up, after its last increment, on every committing path; the live-connection queues are consumed oldest-first",
         "delivery under endpoint failure patterns and exactly-once at the receiver"),
 "C16": ("zone (difference-bound) abstract interpretation over go/cfg for index/slice bounds, with call-site preconditions, return summaries and verified type invariants; must-pass-through rules for pool pairing; dominance rules for reply writers",
         "'malformed input never crashes the server or affects other connections': every index and slice on strings, argument vectors, byte buffers and arrays in internal/server and internal/glob is proved within bounds on every path (about 450 sites by the analysis, the rest by reviewed exemptions naming one construct or one server-internal unit each); messages are never given an empty argument vector; reply builders that dereference their object are only called with a definitely assigned one; every pooled Lua state is released on every exit, including error returns; handleInputCommand writes exactly one reply per path; every dispatcher recovers the deadline panic; the carry buffers of the stream readers (PipelineReader.ReadMessages, loadAOF) hold exactly the unparsed remainder before the next read and at every normal return (must-dataflow); state written per message and consulted afterwards in the connection loop is scoped to the connection, not to one conn.Read; hand-built RESP lines cannot contain a CR or LF from client text",
         "independence of the replies from TCP segmentation beyond the carry-buffer invariant (the parsers' own behaviour over all splits)"),
 "C17": ("JSON fragment typing: a JSON lexer over the literal pieces of every hand-assembled chain plus producer classification of every hole (resolved callees, reviewed tables); exhaustiveness of output-mode switches",
         "'every reply is one valid JSON document': in every hand-assembled JSON chain of the server (concatenations, byte-buffer append sequences, Sprintf formats; about 190 holes) a hole between double quotes is produced by a quote-free text producer and a hole at value position by a JSON value producer, no chain ends inside a string; the repository's JSON string encoders take the json.Marshal path for every byte that needs escaping (the byte test is evaluated for all 256 values) and nothing but json.Marshal produces the escaped form; field values that Value.JSON() splices verbatim (Number, JSON) are only ever built from text validated with gjson.Valid or from valid constants; every OutputType switch has both arms; RESP simple strings and errors assembled by hand stay on one line (every non-literal piece is a producer that cannot contain a control character); reply builders get a definitely assigned object and exactly one reply is written per path (R16 rules)",
         "agreement of the RESP and JSON encodings on the conveyed result (value-level)"),
}


# clauses added in the fourth session (appended to the texts above): property -> (technique suffix, decided suffix, replaces the not-decided text or None)
EXTRA = {
 "C01": ("", "; (e) visibility is decided by the indexes alone: no handler compares the wall clock with an object's deadline, so an object past its deadline stays visible to GET as to every other access path until the sweeper's logged DEL; (f) the early exit of the sorted field scan (List.Get) compares the key that is matched", None),
 "C02": ("; path query with the exact predicate as a scenario atom", "; conversely, after the per-item cursor step every path on which the exact predicate holds reaches the user iterator (no second condition in front of the exact test), and the index search is recognised by role", None),
 "C03": ("", "; an error or negative reply is not reachable after an effective mutation and an empty collection is never left registered (a command that mutates and then fails skips the log)", None),
 "C04": ("", "; the entry assumption of that proof (aofsz = file offset = 0) is discharged at every call site of the loader", None),
 "C05": ("; decision-table evaluation (path-sensitive constant propagation over fenceMatch, 70 scenarios, about 21 000 leaves)", "; the enter/exit/inside/outside/cross classification as a table: for SET and FSET, WITHIN and INTERSECTS fences, the default detection and each of the 32 DETECT subsets, the sequence of detect values handed to the message builder equals the documented list in every leaf of the evaluation (the spatial tests of the previous and the new object, 'there was a previous object' and 'the path crosses' are atoms; WHERE/MATCH filters pass), a DEL yields one 'del' and a DROP one 'drop' message; a live connection's queue is not consumed through an aliased batch; fence evaluation never reads a stored collection pointer", "what 'inside' means for a geometry (the spatial predicates), the interplay of WHERE/MATCH with the classification, and the equality of payloads over the three transports (value-level)"),
 "C06": ("", "; every new handle stored into Server.aof is followed on every path to a normal return by a statement that settles aofsz for that file (0 for a file created empty, the loader or Seek(0,end) otherwise), and the loader is entered with aofsz = 0", None),
 "C07": ("", "; every write of the log file happens under the exclusive lock, also through a local that holds the handle", None),
 "C09": ("", "; a resume cursor of the rewrite is a key, never a position kept across critical sections; a logged command that moves an existing collection to another key runs only while no rewrite is in progress (one known finding: RENAME)", None),
 "C12": ("", "; in field.List.Get every early exit of the sorted scan that can precede a match in the same iteration compares the key that is matched", None),
 "C13": ("", "; every object is in the spatial index the traversal walks (R19.delta: insertion independent of the previous object, removal the exact inverse)", None),
 "C14": ("; scenario evaluation of the sweepers' stop test", "; the stop at the first future deadline ends the scan of that one expiry index only: the result of one collection's expiry scan does not decide whether the walk over the collections continues", None),
 "C16": ("", "; the buffer handed to conn.Read is not longer than the array the pipeline reader drains its source into with one Read; Lua states are handed back to the pool (directly or through a release helper) on every path", None),
 "C17": ("; totality analysis of json.Marshal arguments; who-may-call on strconv.ParseFloat; role-based check of the script-result converter", "; json.Marshal is used with a discarded error only where it cannot fail (static type total, or a dynamic map every stored value of which is total, finite by construction or finite-guarded); every client number parsed with strconv.ParseFloat is tested for NaN and the infinities before use (so the float formatters only see finite values); the converter of script results prints numbers only under finiteness tests and writes object keys through a string encoder; a container appended to a list in a loop is created in that iteration (the JSON branch of STATS)", None),
 "C18": ("", "; a release helper that hands the state back resets every per-call global the call set", None),
 "C19": ("", "; no command handler decides an object's visibility by comparing the wall clock with its deadline (GET agrees with SCAN, COUNT and STATS at every instant)", None),
 "C20": ("; static call closure from the fence evaluation entry", "; no function reachable from the fence evaluation reads a stored *collection.Collection (the collection a fence searches is looked up in the keyspace when the fence is evaluated)", None),
}
EXTRA5 = {'C02': '; the index search is conditioned only on the query rectangle; every return of the quantiser hands back the rounded-down lower and the rounded-up upper corner', 'C03': '; every socket write of buffered replies is preceded by the dirty test or a flush under the lock, and the log buffer and file are written only under the exclusive lock', 'C05': '; field lists are persistent (no function of internal/field writes into memory of an existing list); a variable whose address the live-fence queue retains is not reused across loop iterations', 'C07': "; the repository's own lock implementations acquire only by a guarded compare-and-swap (spin lock) or reach only the matching sync.RWMutex method (wrapper)", 'C08': '; every write of the log buffer and of the log file happens under the exclusive lock, also in the background flusher and through a local that holds the handle', 'C09': '; the live log receives a command whether or not a rewrite is running', 'C10': '; no statement stores through the shared retention default (a package-level pointer) or a local alias of it', 'C12': '; Value.Equals is the equality of the order (derived from Less)', 'C13': '; every return of the quantiser hands back the rounded-down lower and the rounded-up upper corner, so an index box contains the box it stands for', 'C14': '; a variable whose address writeAOF retains for the live-fence queue is declared in the iteration that fills it', 'C15': "; the caught-up state the read gate consults is set only where the follower's position was compared with the leader's log size", 'C16': '; a message is handed on by the pipeline reader only where it is known to have an argument', 'C17': '; an object kept for a search reply has its field names recorded on every path (JSON and RESP print the same fields)', 'C19': '; the index search is never skipped on derived state; the previous object is removed from every index before the new one is entered (anchored on Collection.Set/Delete by role)', 'C20': '; the per-candidate callback of the roaming neighbour search never ends the search; positional accessors on the previous object are dominated by a spatial test'}
EXTRA6 = {
 'C01': '; a write handler builds its positive acknowledgement (OK, 1) only on paths on which it stored something (a JSET of an unchanged text still replaces the object)',
 'C03': '; no write of the live log file is reachable from a running script (an atomic script reaches the file as a whole); every byte reaches the log file through the one buffer',
 'C05': '; an event the fence has classified is rendered whatever the long-lived scan writer of the fence accumulated (the premise of the decision table)',
 'C06': '; HEALTHZ and the caught_up member of SERVER test the live caught-up bit, not the sticky one the command gate uses',
 'C07': '; every write to the live log file hands over the log buffer itself, so the file order is the append order',
 'C08': '; the dirty flag is not cleared between its setting and the append of the command to the buffer',
 'C09': '; field values are rewritten in their JSON form; every object the rewrite visits is emitted; every state-dependent sentinel refusal of a write handler is tolerated by the loader (one known finding: RENAME after SETHOOK/SETCHAN)',
 'C10': '; a subscription is acknowledged only after it is registered in the hub',
 'C11': '; a request cursor is handed to one iteration only (no second iterator, no loop, skips the offset again)',
 'C12': '; the glob matcher tries every offset after a star unless the head of the next chunk is a literal byte; Equals is decided as a table over the order atom',
 'C13': '; every argument of an inverse trigonometric function in the traversal distance is bounded (no NaN distance)',
 'C14': '; the rewrite of the log emits every object it visits, also one that is about to expire',
 'C15': '; the protected-mode peer test is evaluated in its parsed form too: a peer without loop-back evidence is never classified as local',
 'C16': '; nothing a command can change (output format, strict RESP) is fixed once per read',
 'C17': '; the websocket length field carries a length only below 126; every argument of an inverse trigonometric function that feeds a distance is bounded',
 'C18': '; no write of the live log file is reachable from a running script',
}
EXTRA7 = {
 'C05': '; the queue index is encoded with a fixed width (string order of the queue keys = delivery order); a registered hook owns the argument vector of the command that defined it',
 'C06': '; a registered hook owns the argument vector of the command that defined it (the replication loop may reuse its buffer)',
 'C10': '; the queue index is encoded with a fixed width; every webhook HTTP client bounds the whole exchange with a positive Timeout',
 'C14': '; no function outside New/Set/Delete and their helpers writes the collection\'s bookkeeping (an expiry path with bookkeeping of its own leaves index entries behind)',
 'C03': '; a registered hook owns the argument vector of the command that defined it',
}
for _pid, _d in EXTRA7.items():
    EXTRA6[_pid] = EXTRA6.get(_pid, '') + _d
for _pid, _d in EXTRA5.items():
    _t0, _d0, _n0 = EXTRA.get(_pid, ('', '', None))
    EXTRA[_pid] = (_t0, _d0 + _d, _n0)
TECH6 = {
 'C01': '; acknowledgement-needs-effect path search (zero values of declared locals and fields of local struct values as facts)',
 'C02': '; component-wise forward dataflow for the quantiser corners; path enumeration with exact rational arithmetic for the rounding direction',
 'C03': '; static call-graph reachability from the script call path to writes of the log file; who-may-write on the log file',
 'C05': '; scenario must-pass-through for the rendering of a classified event',
 'C06': '; scenario evaluation of the HEALTHZ handler (follower, live bit false)',
 'C07': '; who-may-write on the log file (every write hands over the log buffer); decision of the lock primitives by guarded compare-and-swap',
 'C08': '; path search from flag-clearing calls (call-graph summary) to the append',
 'C09': '; taint dataflow from the guarded registries to the conditions of sentinel error returns, compared with a decision-table evaluation of the loader predicate; must-pass-through of the emission in the rewrite callback',
 'C10': '; path search with boolean correlation from the selection of subscribe to the acknowledgement, avoiding the registration',
 'C11': '; path search between the calls that receive the request cursor',
 'C12': '; decision tables (DT) for Less/Equals over the comparison atom; guard extraction for offset skipping in the star loop against the chunk matcher\'s case labels',
 'C13': '; bounded-magnitude reasoning for inverse trigonometric arguments (clamp on every path)',
 'C14': '; must-pass-through of the emission in the rewrite callback',
 'C15': '; scenario evaluation of the connection closure with the peer test in prefix or parsed form, helpers evaluated under the scenario',
 'C16': '; def-use of locals across the per-read command loop against the fields the loop assigns',
 'C17': '; interval facts from dominating comparisons for the websocket length field; bounded-magnitude reasoning for inverse trigonometric arguments',
 'C18': '; static call-graph reachability from the script call path to writes of the log file',
}
for _pid, _d in EXTRA6.items():
    _t0, _d0, _n0 = EXTRA.get(_pid, ('', '', None))
    EXTRA[_pid] = (_t0 + TECH6.get(_pid, ''), _d0 + _d, _n0)
for _pid, _t in TECH6.items():
    if _pid not in EXTRA6:
        _t0, _d0, _n0 = EXTRA.get(_pid, ('', '', None))
        EXTRA[_pid] = (_t0 + _t, _d0, _n0)
for _pid, (_t, _d, _n) in EXTRA.items():
    _tech, _dec, _not = CLAIMED[_pid]
    CLAIMED[_pid] = (_tech + _t, _dec + _d, _n if _n else _not)

NOT_APPLICABLE = {
}

PENDING_REASON = "static check for this property is not built yet in this revision (DESIGN.md section 4 describes the planned structural clauses)"

def main():
    checks = []
    for pid in sorted(CLAIMED):
        tech, decided, notdec = CLAIMED[pid]
        checks.append({
            "property_id": pid,
            "quick_cmd": f"./check {pid} quick",
            "thorough_cmd": f"./check {pid} thorough",
            "evidence_file": f"/verif/evidence/{pid}.json",
            "replay_cmd_template": f"./check {pid} --replay {{path}}",
            "engine": "t38check",
            "level_claimed": {
                "category": "other",
                "text": f"Static analysis of the current source decides structural necessary conditions of {pid}: {decided}. Breaking one of them breaks the behaviour for some input, schedule or crash point; the behavioural statement as a whole is not decided ({notdec}).",
                "design_ref": f"DESIGN.md section 4, {pid}",
            },
            "level_note": "Trusted: Go type checker, x/tools go/cfg and go/ssa, sync.RWMutex semantics, the restricted call model of DESIGN.md 3.3 (static callees, lexical closures, command-table join; unmodelled escapes become roots in the weakest context), anchor function names given by the property.",
            "technique": "static analysis: " + tech,
        })
    na = []
    allp = [json.loads(l)["id"] for l in open('/verif/properties.jsonl')]
    for pid in allp:
        if pid in CLAIMED:
            continue
        na.append({"property_id": pid, "reason": NOT_APPLICABLE.get(pid, PENDING_REASON)})
    m = {
        "version": 1,
        "setup_cmd": "cd /verif/t38check && GOFLAGS=-mod=mod GOPROXY=off GOWORK=off go build -o ../bin/t38check . && cd /repo && GOFLAGS=-mod=mod GOPROXY=off go build ./...",
        "hooks": {
            "guard": "verif",
            "enable": "none needed: the checks analyse the source and execute nothing; no hook exists in /repo",
            "baseline_off_cmd": BASE["cmd"],
            "source_commits": [],
            "add_only": True,
        },
        "engines": [{
            "name": "t38check",
            "path": "/verif/t38check",
            "serves_properties": sorted(CLAIMED),
            "kind_free_text": "repository-specific static checker (Go, go/packages + go/types + go/cfg from x/tools v0.29.0): command-table extraction, interprocedural lock-state dataflow, effect summaries, path rules with boolean correlation, table agreement, JSON fragment typing, zone-domain bounds prover, affine-equality (Karr) analysis, scenario evaluation, effect tables, decision-table evaluation by path-sensitive constant propagation, small must/count dataflows",
        }],
        "checks": checks,
        "not_applicable": na,
        "notes": "All claimed properties are claimed at level 'other': each check decides structural necessary conditions (DESIGN.md section 4), not the behavioural statement. Exit 0 pass, 1 VIOLATION, 2 UNDECIDED (also a failure). Repaired defects and known findings: known_findings.txt.",
    }
    json.dump(m, open('/verif/MANIFEST.json', 'w'), indent=1)
    if os.path.exists('/verif/bin/t38check'):
        md = subprocess.run(['/verif/bin/t38check', '-list'], env=dict(os.environ, T38_LIST_MD='1'), capture_output=True, text=True).stdout
        if md.startswith('# Rules'):
            open('/verif/RULES.md', 'w').write(md)
    print("wrote MANIFEST.json with", len(checks), "checks,", len(na), "not claimed")

main()
