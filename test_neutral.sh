#!/bin/bash
# Regression for the checker itself: every stored behaviour-preserving refactoring (neutral/*.diff, written by
# independent sub-agents that saw only a property's text) must leave EVERY check silent. Not part of
# MANIFEST.json: it temporarily modifies /repo's working tree. Refuses to run on a dirty tree.
# usage: ./test_neutral.sh [patch ...]   (default: all of neutral/*.diff)
cd "$(dirname "$0")"
if [ -n "$(git -C /repo status --porcelain)" ]; then echo "refusing: /repo has local changes"; exit 2; fi
export VERIF_EVIDENCE_DIR=$(mktemp -d /tmp/neutral-evidence.XXXXXX)
props=$(python3 -c "import json;print(' '.join(c['property_id'] for c in json.load(open('MANIFEST.json'))['checks']))")
rc=0
./check C11 quick >/dev/null 2>&1   # builds the checker once, before the parallel runs
files=("$@"); [ ${#files[@]} -eq 0 ] && files=(neutral/*.diff)
for f in "${files[@]}"; do
  if ! git -C /repo apply "$PWD/$f" 2>/dev/null; then echo "$f: PATCH DOES NOT APPLY"; rc=1; continue; fi
  out=$VERIF_EVIDENCE_DIR/out; rm -rf $out; mkdir -p $out
  echo $props | tr ' ' '\n' | xargs -P 10 -I{} sh -c "./check {} quick >$out/{}.txt 2>&1; echo \$? >$out/{}.rc"
  alarms=""
  for p in $props; do
    e=$(cat $out/$p.rc)
    if [ "$e" != 0 ]; then alarms="$alarms $p(exit=$e)"; grep "^  R\|UNDECIDED" $out/$p.txt | cut -c1-400 | sed "s|^|    [$p] |" ; fi
  done
  git -C /repo checkout -- .
  if [ -n "$alarms" ]; then echo "$f: ALARMS:$alarms"; rc=1; else echo "$f: silent"; fi
done
rm -rf "$VERIF_EVIDENCE_DIR"
[ -z "$(git -C /repo status --porcelain)" ] || { echo "/repo left dirty"; rc=1; }
exit $rc
