#!/bin/bash
# Regression for the checker itself: every stored seeded change must be reported by the checks named in
# its meta.json (exit 1), and /repo must be clean afterwards. Not part of MANIFEST.json: it temporarily
# modifies /repo's working tree (git apply / git checkout -- .). Refuses to run on a dirty tree.
cd "$(dirname "$0")"
if [ -n "$(git -C /repo status --porcelain)" ]; then echo "refusing: /repo has local changes"; exit 2; fi
rc=0
# evidence of these runs (on a modified tree) must not replace the committed evidence
export VERIF_EVIDENCE_DIR=$(mktemp -d /tmp/seed-evidence.XXXXXX)
for d in seeded/*/; do
  id=$(basename "$d")
  props=$(python3 -c "import json,sys;m=json.load(open('$d/meta.json'));print(' '.join(m['detected_by'].keys()))")
  if ! git -C /repo apply "$PWD/$d/patch.diff" 2>/dev/null; then echo "$id: PATCH DOES NOT APPLY"; rc=1; continue; fi
  for p in $props; do
    ./check "$p" quick >/tmp/seedcheck.$$ 2>&1; e=$?
    if [ $e -eq 1 ]; then echo "$id: $p reports it ($(grep -c '^VIOLATION' /tmp/seedcheck.$$) violations)"; else echo "$id: $p exit=$e  NOT REPORTED"; rc=1; fi
  done
  git -C /repo checkout -- .
done
rm -f /tmp/seedcheck.$$; rm -rf "$VERIF_EVIDENCE_DIR"
[ -z "$(git -C /repo status --porcelain)" ] || { echo "/repo left dirty"; rc=1; }
exit $rc
