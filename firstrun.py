#!/usr/bin/env python3
"""usage: firstrun.py <patch.diff> [prop ...] — applies the patch to a scratch worktree of /repo and runs the
quick checks (all claimed ones by default) on it; prints which fire and their violation lines."""
import sys, os, subprocess, json, tempfile, shutil
from concurrent.futures import ThreadPoolExecutor
V = os.path.dirname(os.path.abspath(__file__))
patch = os.path.abspath(sys.argv[1])
props = sys.argv[2:] or [c["property_id"] for c in json.load(open(V + "/MANIFEST.json"))["checks"]]
wt = tempfile.mkdtemp(prefix="t38fr.")
os.rmdir(wt)
def sh(*a, **k): return subprocess.run(a, capture_output=True, text=True, **k)
r = sh("git", "-C", "/repo", "worktree", "add", "--detach", wt, "HEAD")
try:
    r = sh("git", "-C", wt, "apply", patch)
    if r.returncode: sys.exit("patch does not apply: " + r.stderr)
    ev = tempfile.mkdtemp()
    def run(p):
        r = sh(V + "/check", p, "quick", env=dict(os.environ, VERIF_REPO=wt, VERIF_EVIDENCE_DIR=ev))
        return p, r.returncode, r.stdout + r.stderr
    with ThreadPoolExecutor(8) as ex:
        for p, rc, out in ex.map(run, props):
            if rc:
                print(f"== {p} exit={rc}")
                for l in out.splitlines():
                    if l.startswith("  R") or "UNDECIDED" in l: print("   ", l.strip()[:600])
            else:
                print(f"== {p} silent")
    shutil.rmtree(ev, ignore_errors=True)
finally:
    sh("git", "-C", "/repo", "worktree", "remove", "--force", wt)
