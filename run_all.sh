#!/bin/bash
# runs every claimed check (quick, or the tier given) and prints one line per property
cd "$(dirname "$0")"
tier=${1:-quick}
rc=0
for id in $(python3 -c "import json;print(' '.join(c['property_id'] for c in json.load(open('MANIFEST.json'))['checks']))"); do
  out=$(./check $id $tier 2>&1); e=$?
  echo "$id exit=$e $(echo "$out" | tail -1)"
  if [ $e -ne 0 ]; then rc=1; echo "$out" | grep "VIOLATION\|UNDECIDED" | head -5 | cut -c1-300; fi
done
exit $rc
