package main

import (
	"fmt"
	"go/ast"
	"go/constant"
	"go/token"
	"go/types"
	"sort"
	"strings"

	"golang.org/x/tools/go/cfg"
)

const globPath = modPath + "/internal/glob"
const colPath = modPath + "/internal/collection"

func init() {
	register(&Rule{ID: "R12.stop-set", Props: []string{"C12"}, Floor: 3,
		Text: "the bytes at which glob.Parse ends the literal prefix include every byte the matcher treats specially (the case labels of matchChunk's operator switch and the chunk terminator of scanChunk): otherwise an id matched through an operator lies outside the scanned range [lo,hi)",
		Run:  ruleStopSet})
	register(&Rule{ID: "R12.empty-prefix-unbounded", Props: []string{"C12"}, Floor: 1,
		Text: "on every path of glob.Parse on which the literal prefix is empty (n == 0) the limits left in the result are both the empty string (scan everything)",
		Run:  ruleEmptyPrefix})
	register(&Rule{ID: "R12.count-shortcut", Props: []string{"C12", "C19"}, Floor: 4,
		Text: "where a handler answers COUNT from a collection counter, the counter corresponds to the index its fallback iterates (Scan/ScanRange ↔ Count, SearchValues* ↔ StringCount) and the guard requires every filter the fallback applies to be absent: len(x)==0 for every slice filter read by scanWriter.fieldMatch, and globEverything; sibling handlers agree",
		Run:  ruleCountShortcut})
	register(&Rule{ID: "R12.range-then-match", Props: []string{"C12"}, Floor: 5,
		Text: "every function that bounds an iteration with glob limits (Glob.Limits or multiGlobParse) filters every candidate with glob.Match, directly in the iterator callback or through scanWriter.pushObject/testObject",
		Run:  ruleRangeThenMatch})
	register(&Rule{ID: "R12.where-operators", Props: []string{"C12"}, Floor: 6,
		Text: "the comparison operators accepted by the WHERE parser are exactly the case labels of whereT.matchField",
		Run:  ruleWhereOperators})
}

// byteSwitchLabels: byte/rune constant labels of switches in fn whose tag is an index expression of a string.
func byteSwitchLabels(fn *FuncInfo, filter func(sw *ast.SwitchStmt, cc *ast.CaseClause) bool) map[byte]bool {
	info := fn.Info()
	out := map[byte]bool{}
	ast.Inspect(fn.Decl.Body, func(n ast.Node) bool {
		sw, ok := n.(*ast.SwitchStmt)
		if !ok || sw.Tag == nil {
			return true
		}
		if _, ok := ast.Unparen(sw.Tag).(*ast.IndexExpr); !ok {
			return true
		}
		for _, c := range sw.Body.List {
			cc := c.(*ast.CaseClause)
			if filter != nil && !filter(sw, cc) {
				continue
			}
			for _, e := range cc.List {
				if tv, ok := info.Types[e]; ok && tv.Value != nil && tv.Value.Kind() == constant.Int {
					if v, ok := constant.Int64Val(tv.Value); ok && v >= 0 && v < 256 {
						out[byte(v)] = true
					}
				}
			}
		}
		return true
	})
	return out
}

func bytesStr(m map[byte]bool) string {
	var bs []int
	for b := range m {
		bs = append(bs, int(b))
	}
	sort.Ints(bs)
	var s []string
	for _, b := range bs {
		s = append(s, fmt.Sprintf("%q", rune(b)))
	}
	return strings.Join(s, " ")
}

func ruleStopSet(c *Ctx) {
	parse := c.Func("internal/glob", "", "Parse")
	mc := c.Func("internal/glob", "", "matchChunk")
	sc := c.Func("internal/glob", "", "scanChunk")
	if parse == nil || mc == nil || sc == nil {
		c.und("anchors", 0, "glob.Parse, matchChunk or scanChunk not found")
		return
	}
	stop := byteSwitchLabels(parse, nil)
	special := byteSwitchLabels(mc, nil)
	// scanChunk: labels whose arm can terminate the chunk (contains a labelled break)
	term := byteSwitchLabels(sc, func(sw *ast.SwitchStmt, cc *ast.CaseClause) bool {
		has := false
		for _, st := range cc.Body {
			ast.Inspect(st, func(n ast.Node) bool {
				if br, ok := n.(*ast.BranchStmt); ok && br.Tok == token.BREAK && br.Label != nil {
					has = true
				}
				return true
			})
		}
		return has
	})
	for b := range term {
		special[b] = true
	}
	c.stat("matcher_special_bytes", len(special))
	if len(special) < 3 {
		c.und("special-bytes", mc.Decl.Pos(), "fewer than 3 special bytes extracted from the matcher (%s): extraction has gone vacuous", bytesStr(special))
		return
	}
	for b := range special {
		key := fmt.Sprintf("stop-byte/%q", rune(b))
		if stop[b] {
			c.ok(key, parse.Decl.Pos(), true, "the literal-prefix scan of Parse stops at this byte")
		} else {
			c.bad(key, parse.Decl.Pos(), "glob.Parse does not end the literal prefix at %q although the matcher treats it as an operator: ids matched through it fall outside the scanned range (stop set {%s}, matcher {%s})", rune(b), bytesStr(stop), bytesStr(special))
		}
	}
}

// emptyPair: e is []string{"", ""}.
func emptyPair(info *types.Info, e ast.Expr) bool {
	cl, ok := ast.Unparen(e).(*ast.CompositeLit)
	if !ok || len(cl.Elts) != 2 {
		return false
	}
	for _, el := range cl.Elts {
		if s, ok := constString(info, el); !ok || s != "" {
			return false
		}
	}
	return true
}

func ruleEmptyPrefix(c *Ctx) {
	parse := c.Func("internal/glob", "", "Parse")
	if parse == nil {
		c.und("anchors", 0, "glob.Parse not found")
		return
	}
	info := parse.Info()
	limits := c.Field("internal/glob", "Glob", "Limits")
	fg := newFlowGraph(info, parse.Decl.Body)
	// the prefix counter: the int variable incremented inside the prefix loop and compared with 0
	var test *cfg.Block
	var counter types.Object
	for _, b := range fg.G.Blocks {
		cond, _ := fg.condOf(b)
		be, ok := ast.Unparen(cond).(*ast.BinaryExpr)
		if !ok || be.Op != token.EQL {
			continue
		}
		id, ok := ast.Unparen(be.X).(*ast.Ident)
		if !ok {
			continue
		}
		if tv, ok := info.Types[be.Y]; !ok || tv.Value == nil || tv.Value.String() != "0" {
			continue
		}
		// incremented somewhere
		inc := false
		ast.Inspect(parse.Decl.Body, func(n ast.Node) bool {
			if s, ok := n.(*ast.IncDecStmt); ok && s.Tok == token.INC {
				if x, ok := s.X.(*ast.Ident); ok && info.ObjectOf(x) == info.ObjectOf(id) {
					inc = true
				}
			}
			return true
		})
		if inc {
			test, counter = b, info.ObjectOf(id)
		}
	}
	if test == nil {
		c.bad("empty-prefix-test", parse.Decl.Pos(), "glob.Parse has no test of the literal-prefix length against 0: a pattern that starts with an operator is indexed with an empty prefix")
		return
	}
	_ = counter
	isLimitsStore := func(n ast.Node) (ast.Expr, bool) {
		switch x := n.(type) {
		case *ast.AssignStmt:
			for i, l := range x.Lhs {
				if selField(info, l) == limits && len(x.Lhs) == len(x.Rhs) {
					return x.Rhs[i], true
				}
			}
		case *ast.KeyValueExpr:
			if id, ok := x.Key.(*ast.Ident); ok && info.ObjectOf(id) == limits {
				return x.Value, true
			}
		}
		return nil, false
	}
	// stores dominating the test must be the empty pair; stores reachable on the n==0 side must be the empty pair
	ok := true
	why := ""
	testLoc := Loc{test, len(test.Nodes) - 1, nil}
	nStores := 0
	for _, l := range fg.Find(func(n ast.Node) bool { _, is := isLimitsStore(n); return is }) {
		rhs, _ := isLimitsStore(l.Node)
		if fg.Dominates(l, testLoc) {
			nStores++
			if !emptyPair(info, rhs) {
				ok, why = false, "the limits are initialised to something other than the unbounded pair"
			}
			continue
		}
		// reachable from the true edge of n == 0?
		r, _ := fg.Reach(PathQuery{From: testLoc, Target: func(x Loc) bool { return x.Block == l.Block && x.Idx == l.Idx },
			EdgeOK: func(b *cfg.Block, si int) bool { return !(b == test && si == 1) }})
		if r {
			nStores++
			if !emptyPair(info, rhs) {
				ok, why = false, fmt.Sprintf("with an empty literal prefix the limits are set to %s", exprStr(rhs))
			}
		}
	}
	if nStores == 0 {
		ok, why = false, "no initialisation of Limits found"
	}
	if ok {
		c.ok("limits-when-prefix-empty", test.Nodes[len(test.Nodes)-1].Pos(), true, "on the n == 0 side every value Limits can hold is the unbounded pair")
	} else {
		c.bad("limits-when-prefix-empty", test.Nodes[len(test.Nodes)-1].Pos(), "%s: a pattern starting with an operator (?k, [ab]c) scans an empty or wrong range", why)
	}
}

// ---------------------------------------------------------------------------

var iterIndex = map[string]string{
	"Scan": "Count", "ScanRange": "Count", "ScanGreaterOrEqual": "Count",
	"SearchValues": "StringCount", "SearchValuesRange": "StringCount",
}

func ruleCountShortcut(c *Ctx) {
	swCount := c.Field("internal/server", "scanWriter", "count")
	fm := c.Func("internal/server", "scanWriter", "fieldMatch")
	if swCount == nil || fm == nil {
		c.und("anchors", 0, "scanWriter.count or scanWriter.fieldMatch not found")
		return
	}
	// filters the fallback applies: slice-typed fields of scanWriter read by fieldMatch
	swType := c.Pkgs["internal/server"].Types.Scope().Lookup("scanWriter")
	filters := map[*types.Var]bool{}
	ast.Inspect(fm.Decl.Body, func(n ast.Node) bool {
		if se, ok := n.(*ast.SelectorExpr); ok {
			if f := selField(fm.Info(), se); f != nil {
				if _, isSlice := f.Type().Underlying().(*types.Slice); isSlice && fieldOf(swType.Type(), f) {
					filters[f] = true
				}
			}
		}
		return true
	})
	globEv := c.Field("internal/server", "scanWriter", "globEverything")
	if len(filters) < 2 {
		c.und("filters", fm.Decl.Pos(), "fewer than 2 slice filters found in scanWriter.fieldMatch")
		return
	}
	var fnames []string
	for f := range filters {
		fnames = append(fnames, f.Name())
	}
	sort.Strings(fnames)
	c.stat("filters_applied_by_fallback", len(filters)+1)
	n := 0
	for _, fn := range c.AllFuncs("internal/server") {
		info := fn.Info()
		var stores []*ast.AssignStmt
		inspectNoLit(fn.Decl.Body, func(x ast.Node) bool {
			if as, ok := x.(*ast.AssignStmt); ok {
				for _, l := range as.Lhs {
					if selField(info, l) == swCount {
						stores = append(stores, as)
					}
				}
			}
			return true
		})
		if len(stores) == 0 {
			continue
		}
		fg := newFlowGraph(info, fn.Decl.Body)
		for _, st := range stores {
			l := fg.LocOf(st)
			if !l.Valid() {
				continue
			}
			// the counter used: a Collection counter call that dominates the store (count := sw.col.Count() - cursor)
			var counter string
			for _, cl := range fg.FindCalls(func(f *types.Func, call *ast.CallExpr) bool {
				return f != nil && isMethod(f, colPath, "Collection", f.Name()) && (f.Name() == "Count" || f.Name() == "StringCount" || f.Name() == "PointCount")
			}) {
				if fg.Dominates(cl, l) {
					facts := fg.DominatingFacts(cl)
					_ = facts
					counter = callee(info, cl.Node.(*ast.CallExpr)).Name()
				}
			}
			if counter == "" {
				continue // count accumulated item by item, not a shortcut
			}
			n++
			base := funcName(fn.Obj)
			// (a) fallback iterators: Collection iterator calls in the function not dominated by the shortcut's guard
			iters := map[string]bool{}
			ast.Inspect(fn.Decl.Body, func(x ast.Node) bool {
				if call, ok := x.(*ast.CallExpr); ok {
					if f := callee(info, call); f != nil && isMethod(f, colPath, "Collection", f.Name()) && iterIndex[f.Name()] != "" {
						iters[f.Name()] = true
					}
				}
				return true
			})
			okIdx := len(iters) > 0
			for it := range iters {
				if iterIndex[it] != counter {
					okIdx = false
				}
			}
			c.check(okIdx, base+"→counter-matches-index", st.Pos(), fmt.Sprintf("shortcut uses %s and the fallback iterates %v", counter, sortedKeys(iters)),
				fmt.Sprintf("the COUNT shortcut answers from %s() but the fallback iterates %v, which visits a different set of objects", counter, sortedKeys(iters)))
			// (b) guard (a named part of it — unfiltered := len(…) == 0 && … — counts as what it names)
			facts := expandBoolLocals(info, fn.Decl.Body, fg.DominatingFacts(l))
			has := func(pred func(f Fact) bool) bool {
				for _, f := range facts {
					if pred(f) {
						return true
					}
				}
				return false
			}
			var missing []string
			for f := range filters {
				fld := f
				if !has(func(ft Fact) bool { return !ft.Neg && isLenZero(info, ft.E, fld) }) {
					missing = append(missing, "len("+f.Name()+") == 0")
				}
			}
			if !has(func(ft Fact) bool { return !ft.Neg && selField(info, ft.E) == globEv }) {
				missing = append(missing, "globEverything")
			}
			sort.Strings(missing)
			c.check(len(missing) == 0, base+"→guard-covers-filters", st.Pos(), fmt.Sprintf("guard requires %v empty and globEverything", fnames),
				fmt.Sprintf("the COUNT shortcut is taken although filters may be present: guard lacks %v; COUNT then differs from the number of ids the same query returns", missing))
		}
	}
	if n == 0 {
		c.bad("no-shortcut", 0, "no COUNT shortcut found (expected in cmdScan and cmdSearch)")
	}
}

func fieldOf(t types.Type, f *types.Var) bool {
	st, ok := t.Underlying().(*types.Struct)
	if !ok {
		return false
	}
	for i := 0; i < st.NumFields(); i++ {
		if st.Field(i) == f {
			return true
		}
	}
	return false
}

// isLenZero: e is len(<x>.f) == 0.
func isLenZero(info *types.Info, e ast.Expr, f *types.Var) bool {
	be, ok := ast.Unparen(e).(*ast.BinaryExpr)
	if !ok || be.Op != token.EQL {
		return false
	}
	call, ok := ast.Unparen(be.X).(*ast.CallExpr)
	if !ok || len(call.Args) != 1 {
		return false
	}
	if id, ok := ast.Unparen(call.Fun).(*ast.Ident); !ok || id.Name != "len" {
		return false
	}
	if tv, ok := info.Types[be.Y]; !ok || tv.Value == nil || tv.Value.String() != "0" {
		return false
	}
	return selField(info, call.Args[0]) == f
}

func ruleRangeThenMatch(c *Ctx) {
	limits := c.Field("internal/glob", "Glob", "Limits")
	n := 0
	for _, fn := range c.AllFuncs("internal/server") {
		info := fn.Info()
		uses := false
		ast.Inspect(fn.Decl.Body, func(x ast.Node) bool {
			switch e := x.(type) {
			case *ast.SelectorExpr:
				if selField(info, e) == limits {
					uses = true
				}
			case *ast.CallExpr:
				if f := callee(info, e); f != nil && f.Name() == "multiGlobParse" {
					uses = true
				}
			}
			return true
		})
		if !uses || fn.Obj.Name() == "multiGlobParse" {
			continue
		}
		// iteration calls with a callback literal
		ast.Inspect(fn.Decl.Body, func(x ast.Node) bool {
			call, ok := x.(*ast.CallExpr)
			if !ok || len(call.Args) == 0 {
				return true
			}
			lit := resolveLit(fn, call.Args[len(call.Args)-1])
			if lit == nil {
				return true
			}
			f := callee(info, call)
			if f == nil {
				return true
			}
			isIter := isMethod(f, colPath, "Collection", f.Name()) || strings.HasPrefix(f.Pkg().Path(), "github.com/tidwall/btree")
			if !isIter {
				return true
			}
			n++
			key := funcName(fn.Obj) + "→" + exprStr(call.Fun)
			matches := false
			ast.Inspect(lit.Body, func(y ast.Node) bool {
				if c2, ok := y.(*ast.CallExpr); ok {
					g := callee(info, c2)
					// a local closure bound once (collect := func(key string) {…}) or a tile38 helper that matches
					if id, ok := ast.Unparen(c2.Fun).(*ast.Ident); ok && g == nil {
						if fl, ok := ast.Unparen(resolveLocal(info, fn.Decl.Body, id)).(*ast.FuncLit); ok {
							if callsThrough(c, info, fl.Body, func(h *types.Func, _ *ast.CallExpr) bool { return isFunc(h, globPath, "Match") }, 1) {
								matches = true
							}
						}
					}
					if g != nil && c.FuncOf(g) != nil && callsThrough(c, info, c2, func(h *types.Func, _ *ast.CallExpr) bool { return isFunc(h, globPath, "Match") }, 2) {
						matches = true
					}
					if isFunc(g, globPath, "Match") {
						matches = true
					}
					if g != nil && isMethod(g, modPath+"/internal/server", "scanWriter", g.Name()) && (g.Name() == "pushObject" || g.Name() == "testObject" || g.Name() == "globMatch") {
						matches = true
					}
					// a callback parameter invoked from a helper that matched already (forEachHookByPattern passes matching hooks on)
				}
				return true
			})
			c.check(matches, key, call.Pos(), "every candidate of the bounded iteration is filtered with glob.Match", "the iteration is bounded by the glob's literal-prefix limits but candidates are not matched against the pattern: everything inside the prefix range is selected")
			return true
		})
	}
	if n == 0 {
		c.bad("no-sites", 0, "no glob-bounded iteration found")
	}
}

func ruleWhereOperators(c *Ctx) {
	mf := c.Func("internal/server", "whereT", "matchField")
	ps := c.Func("internal/server", "Server", "parseSearchScanBaseTokens")
	if mf == nil || ps == nil {
		c.und("anchors", 0, "whereT.matchField or parseSearchScanBaseTokens not found")
		return
	}
	isOp := func(s string) bool {
		if s == "" {
			return false
		}
		for _, r := range s {
			if strings.ContainsRune("<>=!", r) == false {
				return false
			}
		}
		return true
	}
	opLabels := func(fn *FuncInfo) map[string]bool {
		out := map[string]bool{}
		ast.Inspect(fn.Decl.Body, func(n ast.Node) bool {
			sw, ok := n.(*ast.SwitchStmt)
			if !ok {
				return true
			}
			for _, cc := range sw.Body.List {
				var ops []string
				all := true
				for _, e := range cc.(*ast.CaseClause).List {
					s, ok := constString(fn.Info(), e)
					if !ok || !isOp(s) {
						all = false
						break
					}
					ops = append(ops, s)
				}
				if all {
					for _, o := range ops {
						out[o] = true
					}
				}
			}
			return true
		})
		return out
	}
	accepted, handled := opLabels(ps), opLabels(mf)
	if len(handled) < 4 {
		c.und("operators", mf.Decl.Pos(), "fewer than 4 comparison operators extracted from matchField")
		return
	}
	for op := range accepted {
		c.check(handled[op], "accepted/"+op, ps.Decl.Pos(), "accepted by the parser and handled by matchField", fmt.Sprintf("the WHERE parser accepts operator %q which matchField does not handle (it falls into the range comparison)", op))
	}
	for op := range handled {
		c.check(accepted[op], "handled/"+op, mf.Decl.Pos(), "handled by matchField and accepted by the parser", fmt.Sprintf("matchField handles operator %q which the parser never produces as an operator", op))
	}
}

// resolveLit: e is a function literal or a local variable bound to exactly one.
func resolveLit(fn *FuncInfo, e ast.Expr) *ast.FuncLit {
	switch x := ast.Unparen(e).(type) {
	case *ast.FuncLit:
		return x
	case *ast.Ident:
		return findLitBinding(fn, x)
	}
	return nil
}

func init() {
	register(&Rule{ID: "R12.filters-never-stop", Props: []string{"C12", "C11", "C13"}, Floor: 3,
		Text: "a filter decides whether an object is reported, never whether the iteration continues: on every non-error return, scanWriter.globMatch and scanWriter.testObject report keepGoing = true (constant true, or a variable whose every definition is true or such a result), and scanWriter.pushObject stops the iteration only with an error, when numberItems reached the limit, or by the COUNT comparison count < limit",
		Run:  ruleFiltersNeverStop})
}

// trueValued: e evaluates to true on every execution: the constant, or a variable all of whose
// definitions in fn are true-valued, or result k of a call to a function whose k-th result is always true.
func trueValued(c *Ctx, fn *FuncInfo, e ast.Expr, seen map[string]bool) bool {
	info := fn.Info()
	e = ast.Unparen(e)
	if boolConst(info, e) == '1' {
		return true
	}
	id, ok := e.(*ast.Ident)
	if !ok {
		return false
	}
	obj := info.ObjectOf(id)
	if obj == nil {
		return false
	}
	ndefs := 0
	allTrue := true
	ast.Inspect(fn.Decl, func(n ast.Node) bool {
		switch x := n.(type) {
		case *ast.AssignStmt:
			for i, l := range x.Lhs {
				lid, ok := ast.Unparen(l).(*ast.Ident)
				if !ok || info.ObjectOf(lid) != obj {
					continue
				}
				ndefs++
				switch {
				case len(x.Lhs) == len(x.Rhs):
					if !trueValued(c, fn, x.Rhs[i], seen) {
						allTrue = false
					}
				case len(x.Rhs) == 1:
					call, ok := ast.Unparen(x.Rhs[0]).(*ast.CallExpr)
					if !ok {
						allTrue = false
						break
					}
					g := callee(info, call)
					gi := c.FuncOf(g)
					if g == nil || gi == nil || !resultAlwaysTrue(c, gi, i, seen) {
						allTrue = false
					}
				default:
					allTrue = false
				}
			}
		case *ast.ValueSpec:
			for i, nm := range x.Names {
				if info.ObjectOf(nm) == obj && len(x.Values) > 0 {
					ndefs++
					if i >= len(x.Values) || !trueValued(c, fn, x.Values[i], seen) {
						allTrue = false
					}
				} else if info.ObjectOf(nm) == obj {
					ndefs++
					allTrue = false // zero value false
				}
			}
		case *ast.RangeStmt:
			for _, kv := range []ast.Expr{x.Key, x.Value} {
				if kid, ok := kv.(*ast.Ident); ok && info.ObjectOf(kid) == obj {
					ndefs++
					allTrue = false
				}
			}
		}
		return true
	})
	// a named result or parameter without definitions is not known to be true
	return ndefs > 0 && allTrue
}

// resultAlwaysTrue: on every return of fn that does not carry a non-nil error, result k is true-valued.
func resultAlwaysTrue(c *Ctx, fn *FuncInfo, k int, seen map[string]bool) bool {
	key := fmt.Sprintf("%s#%d", funcName(fn.Obj), k)
	if seen[key] {
		return true // optimistic on recursion (greatest fixpoint)
	}
	seen[key] = true
	info := fn.Info()
	ok := true
	sig := fn.Obj.Type().(*types.Signature)
	inspectNoLit(fn.Decl.Body, func(n ast.Node) bool {
		r, isRet := n.(*ast.ReturnStmt)
		if !isRet {
			return true
		}
		if returnsError(info, fn, r) {
			return true
		}
		if len(r.Results) == 0 {
			// bare return: the named result
			if sig.Results().Len() > k && fn.Decl.Type.Results != nil {
				var names []*ast.Ident
				for _, f := range fn.Decl.Type.Results.List {
					names = append(names, f.Names...)
				}
				if k < len(names) && trueValued(c, fn, names[k], seen) {
					return true
				}
			}
			ok = false
			return true
		}
		if len(r.Results) != sig.Results().Len() {
			ok = false
			return true
		}
		if !trueValued(c, fn, r.Results[k], seen) {
			ok = false
		}
		return true
	})
	return ok
}

func ruleFiltersNeverStop(c *Ctx) {
	pk := "internal/server"
	gm := c.Func(pk, "scanWriter", "globMatch")
	to := c.Func(pk, "scanWriter", "testObject")
	po := c.Func(pk, "scanWriter", "pushObject")
	if gm == nil || to == nil || po == nil {
		c.und("anchors", 0, "scanWriter.globMatch / testObject / pushObject not found")
		return
	}
	resIdx := func(fn *FuncInfo, name string) int {
		i := 0
		if fn.Decl.Type.Results != nil {
			for _, f := range fn.Decl.Type.Results.List {
				for _, nm := range f.Names {
					if nm.Name == name {
						return i
					}
					i++
				}
			}
		}
		return -1
	}
	for _, fn := range []*FuncInfo{gm, to} {
		k := resIdx(fn, "keepGoing")
		if k < 0 {
			c.und(fn.Obj.Name()+"/keep-going", fn.Decl.Pos(), "result keepGoing not found")
			continue
		}
		c.check(resultAlwaysTrue(c, fn, k, map[string]bool{}), fn.Obj.Name()+"/keep-going", fn.Decl.Pos(),
			"keepGoing is true on every non-error return", "a filter result can end the iteration (keepGoing is not always true on a non-error return): objects after the first match, or after the first mismatch, are never examined, so MATCH/WHERE results are incomplete and disagree with COUNT")
	}
	// pushObject: classify every return
	info := po.Info()
	fg := newFlowGraph(info, po.Decl.Body)
	items := c.Field(pk, "scanWriter", "numberItems")
	limit := c.Field(pk, "scanWriter", "limit")
	count := c.Field(pk, "scanWriter", "count")
	lfh := limitFlagHelpers(c, po, items, limit)
	okAll := true
	var at token.Pos
	why := ""
	for _, r := range fg.Returns() {
		rs := r.Node.(*ast.ReturnStmt)
		if returnsError(info, po, rs) || len(rs.Results) == 0 {
			if len(rs.Results) == 0 {
				okAll, at, why = false, rs.Pos(), "bare return"
			}
			continue
		}
		e := ast.Unparen(rs.Results[0])
		if trueValued(c, po, e, map[string]bool{}) {
			continue
		}
		if be, ok := e.(*ast.BinaryExpr); ok && be.Op == token.LSS && selField(info, be.X) == count && selField(info, be.Y) == limit {
			continue
		}
		atLimit := false
		for _, f := range fg.DominatingFacts(r) {
			if be, ok := ast.Unparen(f.E).(*ast.BinaryExpr); ok && (!f.Neg && be.Op == token.EQL || f.Neg && be.Op == token.NEQ) &&
				(selField(info, be.X) == items && selField(info, be.Y) == limit || selField(info, be.X) == limit && selField(info, be.Y) == items) {
				atLimit = true
			}
		}
		// … or a helper of pushObject that answers true only at the limit has answered true
		for _, f := range fg.DominatingFacts(r) {
			if call, ok := ast.Unparen(f.E).(*ast.CallExpr); ok && !f.Neg {
				if g := callee(info, call); g != nil && lfh[g] != nil {
					atLimit = true
				}
			}
		}
		if atLimit && boolConst(info, e) == '0' {
			continue
		}
		okAll, at, why = false, rs.Pos(), exprStr(e)
	}
	if at == token.NoPos {
		at = po.Decl.Pos()
	}
	c.check(okAll, "pushObject/stop-reasons", at, "pushObject stops the iteration only on error, at numberItems == limit, or by count < limit",
		"pushObject can stop the iteration for another reason ("+why+"): remaining objects that satisfy the filters are not reported")
}

func init() {
	register(&Rule{ID: "R12.far-limit-covers-prefix", Props: []string{"C12"}, Floor: 4,
		Text: "in glob.Parse the limit on the far side of the literal prefix (Limits[1] ascending, Limits[0] descending) is greater than every string that starts with the prefix: every value it receives is the prefix with its last byte incremented, under a guard that this byte is not 0xFF; a value of the form prefix+byte(c) bounds only extensions whose next byte is <= c and is reported",
		Run:  ruleFarLimit})
}

func ruleFarLimit(c *Ctx) {
	fn := c.Func("internal/glob", "", "Parse")
	if fn == nil {
		c.und("anchors", 0, "glob.Parse not found")
		return
	}
	info := fn.Info()
	fg := newFlowGraph(info, fn.Decl.Body)
	// the bool parameter that selects the direction
	var descObj types.Object
	for _, p := range fn.Decl.Type.Params.List {
		for _, nm := range p.Names {
			if b, ok := info.ObjectOf(nm).Type().Underlying().(*types.Basic); ok && b.Kind() == types.Bool {
				descObj = info.ObjectOf(nm)
			}
		}
	}
	// g.Limits = []string{x, y}
	var lim0, lim1 types.Object
	var limPos token.Pos
	inspectNoLit(fn.Decl.Body, func(n ast.Node) bool {
		as, ok := n.(*ast.AssignStmt)
		if !ok || len(as.Lhs) != 1 || len(as.Rhs) != 1 {
			return true
		}
		se, ok := ast.Unparen(as.Lhs[0]).(*ast.SelectorExpr)
		if !ok || se.Sel.Name != "Limits" {
			return true
		}
		cl, ok := ast.Unparen(as.Rhs[0]).(*ast.CompositeLit)
		if !ok || len(cl.Elts) != 2 {
			return true
		}
		i0, ok0 := ast.Unparen(cl.Elts[0]).(*ast.Ident)
		i1, ok1 := ast.Unparen(cl.Elts[1]).(*ast.Ident)
		if ok0 && ok1 {
			lim0, lim1, limPos = info.ObjectOf(i0), info.ObjectOf(i1), as.Pos()
		}
		return true
	})
	if descObj == nil || lim0 == nil || lim1 == nil {
		c.und("anchors", fn.Decl.Pos(), "direction parameter or the store g.Limits = []string{x, y} not found")
		return
	}
	// prefix-valued variables: assigned pattern[:n] or another prefix variable
	prefixVars := map[types.Object]bool{}
	for changed := true; changed; {
		changed = false
		inspectNoLit(fn.Decl.Body, func(n ast.Node) bool {
			as, ok := n.(*ast.AssignStmt)
			if !ok || len(as.Lhs) != 1 || len(as.Rhs) != 1 {
				return true
			}
			l, ok := as.Lhs[0].(*ast.Ident)
			if !ok || prefixVars[info.ObjectOf(l)] {
				return true
			}
			r := ast.Unparen(as.Rhs[0])
			isP := false
			if sl, ok := r.(*ast.SliceExpr); ok && sl.Low == nil && sl.High != nil {
				if id, ok := ast.Unparen(sl.X).(*ast.Ident); ok {
					if _, isParam := info.ObjectOf(id).(*types.Var); isParam && info.ObjectOf(id).Type().String() == "string" && info.ObjectOf(id).Parent() == info.Scopes[fn.Decl.Type] {
						isP = true
					}
				}
			}
			if id, ok := r.(*ast.Ident); ok && prefixVars[info.ObjectOf(id)] {
				isP = true
			}
			if isP {
				prefixVars[info.ObjectOf(l)] = true
				changed = true
			}
			return true
		})
	}
	// classify string(append([]byte(X[:k]), X[k]+1)) and string(append([]byte(X), c))
	type form struct {
		kind string // "succ", "append", "other"
		x    types.Object
		k    ast.Expr
		c    string
	}
	classify := func(e ast.Expr) form {
		conv, ok := ast.Unparen(e).(*ast.CallExpr)
		if !ok || len(conv.Args) != 1 {
			return form{kind: "other"}
		}
		if tv, ok := info.Types[conv.Fun]; !ok || !tv.IsType() {
			return form{kind: "other"}
		}
		ap, ok := ast.Unparen(conv.Args[0]).(*ast.CallExpr)
		if !ok || len(ap.Args) != 2 || ap.Ellipsis.IsValid() {
			return form{kind: "other"}
		}
		if id, ok := ast.Unparen(ap.Fun).(*ast.Ident); !ok || id.Name != "append" {
			return form{kind: "other"}
		}
		bc, ok := ast.Unparen(ap.Args[0]).(*ast.CallExpr) // []byte(...)
		if !ok || len(bc.Args) != 1 {
			return form{kind: "other"}
		}
		switch base := ast.Unparen(bc.Args[0]).(type) {
		case *ast.Ident:
			if tv, ok := info.Types[ap.Args[1]]; ok && tv.Value != nil {
				return form{kind: "append", x: info.ObjectOf(base), c: tv.Value.String()}
			}
		case *ast.SliceExpr:
			id, ok := ast.Unparen(base.X).(*ast.Ident)
			if !ok || base.Low != nil || base.High == nil {
				break
			}
			// second argument X[k]+1 with the same k as the slice bound
			be, ok := ast.Unparen(ap.Args[1]).(*ast.BinaryExpr)
			if !ok || be.Op != token.ADD {
				break
			}
			if tv, ok := info.Types[be.Y]; !ok || tv.Value == nil || tv.Value.String() != "1" {
				break
			}
			ix, ok := ast.Unparen(be.X).(*ast.IndexExpr)
			if !ok {
				break
			}
			xid, ok := ast.Unparen(ix.X).(*ast.Ident)
			if ok && info.ObjectOf(xid) == info.ObjectOf(id) && exprStr(ix.Index) == exprStr(base.High) {
				return form{kind: "succ", x: info.ObjectOf(id), k: ix.Index}
			}
		}
		return form{kind: "other"}
	}
	for _, dir := range []struct {
		name string
		desc bool
		far  types.Object
	}{{"asc", false, lim1}, {"desc", true, lim0}} {
		n := 0
		for _, l := range fg.Find(func(x ast.Node) bool {
			as, ok := x.(*ast.AssignStmt)
			if !ok || len(as.Lhs) != 1 || len(as.Rhs) != 1 {
				return false
			}
			id, ok := as.Lhs[0].(*ast.Ident)
			return ok && info.ObjectOf(id) == dir.far
		}) {
			as := l.Node.(*ast.AssignStmt)
			// only stores on this direction's paths
			onDir := false
			var ffFact *bool // true: X[k] == 0xFF known, false: X[k] != 0xFF known
			var ffX types.Object
			var ffK string
			for _, f := range fg.DominatingFacts(l) {
				if id, ok := ast.Unparen(f.E).(*ast.Ident); ok && info.ObjectOf(id) == descObj && f.Neg != dir.desc {
					onDir = true
				}
				if be, ok := ast.Unparen(f.E).(*ast.BinaryExpr); ok && (be.Op == token.EQL || be.Op == token.NEQ) {
					if ix, ok := ast.Unparen(be.X).(*ast.IndexExpr); ok {
						if tv, ok := info.Types[be.Y]; ok && tv.Value != nil && tv.Value.String() == "255" {
							if xid, ok := ast.Unparen(ix.X).(*ast.Ident); ok {
								isFF := be.Op == token.EQL && !f.Neg || be.Op == token.NEQ && f.Neg
								ffFact, ffX, ffK = &isFF, info.ObjectOf(xid), exprStr(ix.Index)
							}
						}
					}
				}
			}
			if !onDir {
				continue
			}
			r := ast.Unparen(as.Rhs[0])
			// the initial prefix itself
			if sl, ok := r.(*ast.SliceExpr); ok && sl.Low == nil {
				_ = sl
				continue
			}
			if id, ok := r.(*ast.Ident); ok && prefixVars[info.ObjectOf(id)] {
				continue
			}
			n++
			f := classify(r)
			switch {
			case f.kind == "succ" && prefixVars[f.x] && ffFact != nil && !*ffFact && ffX == f.x && ffK == exprStr(f.k):
				c.ok("Parse/"+dir.name+"/successor", as.Pos(), true, "far limit = prefix with its last byte incremented, under the guard that the byte is not 0xFF")
			case f.kind == "succ" && prefixVars[f.x]:
				c.bad("Parse/"+dir.name+"/successor-unguarded", as.Pos(), "the far limit increments the last prefix byte without a dominating guard that it is not 0xFF: 0xFF+1 wraps to 0x00 and the limit falls below the prefix")
			case f.kind == "append" && prefixVars[f.x]:
				c.bad("Parse/"+dir.name+"/append-"+f.c, as.Pos(), "the far limit is prefix+byte(%s): it bounds only ids whose next byte after the prefix is <= %s, so an id that starts with the prefix and continues with a larger byte lies outside the scanned range and is never matched (for a prefix ending in 0xFF the successor is the prefix without its trailing 0xFF bytes, last byte incremented; none if all bytes are 0xFF)", f.c, f.c)
			default:
				c.und("Parse/"+dir.name+"/form", as.Pos(), "far limit receives %s: not one of the recognised forms (prefix successor, prefix+byte)", exprStr(r))
			}
		}
		if n == 0 {
			c.bad("Parse/"+dir.name+"/far-limit", limPos, "on the %s path the far limit is never moved beyond the literal prefix", dir.name)
		}
	}
}

func init() {
	register(&Rule{ID: "R12.sorted-lookup-consistent", Props: []string{"C12", "C01"}, Floor: 1,
		Text: "the field list is ordered by name and List.Get leaves its scan early: every test `Y < entryName` whose true edge ends the scan and whose false edge leads to a match `entryName == X` (the true edge of which returns the entry) compares the same key that is matched (Y and X are the same expression) — an early exit taken on a shorter key (the part of a dotted name before the dot, say) ends the scan before the entry that would match the full name, and the field then reads as 0 in every WHERE / WHEREIN filter and in FGET",
		Run:  ruleSortedLookupConsistent})
}

func ruleSortedLookupConsistent(c *Ctx) {
	get := c.Func("internal/field", "List", "Get")
	if get == nil {
		c.und("anchors", 0, "field.List.Get not found")
		return
	}
	info := get.Info()
	fg := newFlowGraph(info, get.Decl.Body)
	type site struct {
		b   *cfg.Block
		at  Loc
		e   *ast.BinaryExpr // the match  N == X  /  an ordering atom  Y < N
		cnd ast.Expr
	}
	var matches, exits []site
	leaves := func(b *cfg.Block) bool {
		for _, nd := range b.Nodes {
			if _, ok := nd.(*ast.ReturnStmt); ok {
				return true
			}
		}
		// `break`: go/cfg turns it into an edge to the loop's done block
		if len(b.Nodes) == 0 && len(b.Succs) == 1 {
			switch b.Succs[0].Kind {
			case cfg.KindForDone, cfg.KindRangeDone:
				return true
			}
		}
		return false
	}
	for _, b := range fg.G.Blocks {
		if !fg.Reachable(b) {
			continue
		}
		cond, _ := fg.condOf(b)
		if cond == nil {
			continue
		}
		at := Loc{b, len(b.Nodes) - 1, b.Nodes[len(b.Nodes)-1]}
		if be, ok := ast.Unparen(cond).(*ast.BinaryExpr); ok && (be.Op == token.EQL || be.Op == token.NEQ) {
			if t := info.TypeOf(be.X); t != nil && isStringType(t) {
				// the edge on which the two are equal: the true edge of ==, the false edge of !=
				eqSucc := b.Succs[0]
				if be.Op == token.NEQ {
					eqSucc = b.Succs[1]
				}
				if returns, _ := reachBlockAvoiding2(fg, eqSucc, func(l Loc) bool {
					r, ok := l.Node.(*ast.ReturnStmt)
					if !ok || len(r.Results) != 1 {
						return false
					}
					// a return of a found entry, not of the package's zero value
					_, isIdent := ast.Unparen(r.Results[0]).(*ast.Ident)
					return !isIdent
				}); returns {
					matches = append(matches, site{b, at, be, cond})
				}
			}
		}
		// an exit: the true edge leaves the scan; its ordering atoms are the string comparisons in the condition
		if leaves(b.Succs[0]) {
			ast.Inspect(cond, func(n ast.Node) bool {
				if le, ok := n.(*ast.BinaryExpr); ok && (le.Op == token.LSS || le.Op == token.GTR) {
					if t := info.TypeOf(le.X); t != nil && isStringType(t) {
						exits = append(exits, site{b, at, le, cond})
					}
				}
				return true
			})
		}
	}
	// conj: the conjuncts of a condition
	var conj func(e ast.Expr, out *[]ast.Expr)
	conj = func(e ast.Expr, out *[]ast.Expr) {
		e = ast.Unparen(e)
		if be, ok := e.(*ast.BinaryExpr); ok && be.Op == token.LAND {
			conj(be.X, out)
			conj(be.Y, out)
			return
		}
		*out = append(*out, e)
	}
	// exclusive: one site lies under a condition whose negation dominates the other
	exclusive := func(a, b Loc) bool {
		fa, fb := fg.DominatingFacts(a), fg.DominatingFacts(b)
		one := func(pos, neg []Fact) bool {
			for _, nf := range neg {
				if !nf.Neg {
					continue
				}
				var cs []ast.Expr
				conj(nf.E, &cs)
				all := len(cs) > 0
				for _, cj := range cs {
					found := false
					for _, pf := range pos {
						if !pf.Neg && sameExpr(info, pf.E, cj) {
							found = true
						}
					}
					if !found {
						all = false
					}
				}
				if all {
					return true
				}
			}
			return false
		}
		return one(fa, fb) || one(fb, fa)
	}
	n := 0
	for _, m := range matches {
		for _, x := range exits {
			// the exit can precede the match in the same iteration: it is not in an exclusive branch, and the match is
			// reachable from the exit's false edge or the exit's block is the match's own
			if x.b != m.b {
				if exclusive(x.at, m.at) {
					continue
				}
				if r, _ := reachBlockAvoiding2(fg, x.b, func(l Loc) bool { return l.Block == m.b }); !r {
					continue
				}
			}
			// normalise the atom to  Y < N  and find the entry name N shared with the match
			y, nm := x.e.X, x.e.Y
			if x.e.Op == token.GTR {
				y, nm = x.e.Y, x.e.X
			}
			var key ast.Expr
			switch {
			case sameExpr(info, nm, m.e.X):
				key = m.e.Y
			case sameExpr(info, nm, m.e.Y):
				key = m.e.X
			default:
				continue
			}
			n++
			k := "Get/" + exprStr(x.e) + "⇒" + exprStr(m.e)
			c.check(sameExpr(info, y, key), k, x.e.Pos(),
				"the early exit and the match compare the same key "+exprStr(key),
				"the scan is left when "+exprStr(y)+" sorts before the entry's name, but the entry is matched against "+exprStr(key)+": when the two differ (a dotted field name: the part before the dot sorts before the full name) the scan ends before the matching entry and the stored field reads as missing")
		}
	}
	c.stat("lookup_exit_match_pairs", n)
}

func init() {
	register(&Rule{ID: "R12.equals-from-order", Props: []string{"C12"}, Floor: 1,
		Text: "WHERE f == v, WHERE f != v and every WHEREIN test use field.Value.Equals; the range and ordering filters use Less. The two agree for every kind of value only if equality is the equality of the order: Equals is defined through the order's one definition — both Less(a, b) and Less(b, a) are false — and not by a comparison of its own (a direct comparison that folds case for every kind makes {\"tag\":\"AB\"} == {\"tag\":\"ab\"} while the order, which folds case for strings only, still separates them)",
		Run:  ruleEqualsFromOrder})
}

func ruleEqualsFromOrder(c *Ctx) {
	eq := c.Func("internal/field", "Value", "Equals")
	less := c.Func("internal/field", "Value", "Less")
	if eq == nil || eq.Decl.Body == nil || less == nil || less.Decl.Body == nil {
		c.und("anchors", 0, "field.Value.Equals / field.Value.Less not found")
		return
	}
	// Both functions are evaluated as decision tables (DT). The operands are the symbols A (receiver) and
	// B (parameter); a call of a method of Value that is not evaluated in place (the comparison proper:
	// LessCase with its loops) is an atom named by callee, operands and the constant flags it receives, the
	// same atom wherever it is consulted. The order is whatever single atom Less(A, B) returns; Equals must
	// consult only that atom and its mirror image, return true when both are false and false when one holds.
	table := func(fn *FuncInfo) []dtLeaf {
		info := fn.Info()
		if len(fn.Decl.Recv.List) != 1 || len(fn.Decl.Recv.List[0].Names) != 1 {
			return []dtLeaf{{Undecided: "unnamed receiver"}}
		}
		recv := info.ObjectOf(fn.Decl.Recv.List[0].Names[0])
		var param types.Object
		if ps := fn.Decl.Type.Params.List; len(ps) == 1 && len(ps[0].Names) == 1 {
			param = info.ObjectOf(ps[0].Names[0])
		}
		if param == nil {
			return []dtLeaf{{Undecided: "expected one named parameter"}}
		}
		t := &DTable{c: c, fn: fn, info: info}
		t.Inline = func(f *types.Func) bool {
			return f.Pkg() != nil && f.Pkg().Path() == modPath+"/internal/field" && f != fn.Obj
		}
		t.Bind = func(r *dtRun, e ast.Expr, sym string) (dtVal, bool) {
			if id, ok := e.(*ast.Ident); ok {
				switch info.ObjectOf(id) {
				case recv:
					return dtVal{sym: "A"}, true
				case param:
					return dtVal{sym: "B"}, true
				}
			}
			return dtVal{}, false
		}
		t.AtomName = func(e ast.Expr, sym string) string {
			if strings.HasPrefix(sym, "cmp:") {
				return sym
			}
			return ""
		}
		t.Call = func(r *dtRun, call *ast.CallExpr, f *types.Func, args []dtVal) (dtVal, bool) {
			if f == nil || f.Pkg() == nil || f.Pkg().Path() != modPath+"/internal/field" {
				return dtVal{}, false
			}
			sig := f.Type().(*types.Signature)
			if sig.Recv() == nil || sig.Results().Len() != 1 || !types.Identical(sig.Results().At(0).Type(), types.Typ[types.Bool]) {
				return dtVal{}, false
			}
			// evaluated in place when it is a thin wrapper; an atom when it is the comparison itself
			if fi := c.FuncOf(f); fi != nil && fi.Decl.Body != nil && !hasLoopOrManyBranches(fi.Decl.Body) {
				return dtVal{}, false
			}
			se, ok := ast.Unparen(call.Fun).(*ast.SelectorExpr)
			if !ok {
				return dtVal{}, false
			}
			rv := r.eval(se.X)
			parts := []string{rv.sym}
			if rv.k != dtUnknown || rv.sym == "" {
				parts[0] = r.sym(se.X)
			}
			for i, a := range args {
				if a.k == dtUnknown {
					if a.sym != "" {
						parts = append(parts, a.sym)
					} else {
						parts = append(parts, r.sym(call.Args[i]))
					}
				} else {
					parts = append(parts, a.label())
				}
			}
			name := "cmp:" + f.Name() + "(" + strings.Join(parts, ",") + ")"
			return dtVal{k: dtBool, b: r.atom(call, name)}, true
		}
		return t.Run()
	}
	lt := table(less)
	order := ""
	okOrder := len(lt) == 2
	for _, lf := range lt {
		if lf.Undecided != "" || len(lf.Order) != 1 || len(lf.Ret) != 1 || lf.Ret[0].k != dtBool || lf.Ret[0].b != lf.Atoms[lf.Order[0]] {
			okOrder = false
			break
		}
		if order != "" && order != lf.Order[0] {
			okOrder = false
		}
		order = lf.Order[0]
	}
	if !okOrder || !strings.Contains(order, "(A,B") {
		why := "Less does not reduce to one comparison of its two operands"
		for _, lf := range lt {
			if lf.Undecided != "" {
				why = lf.Undecided
			}
		}
		c.und("Value.Less", less.Decl.Pos(), "the order is not recognised: %s", why)
		return
	}
	mirror := strings.Replace(order, "(A,B", "(B,A", 1)
	et := table(eq)
	bad := ""
	var at token.Pos = eq.Decl.Pos()
	for _, lf := range et {
		if lf.Undecided != "" {
			c.und("Value.Equals", eq.Decl.Pos(), "%s", lf.Undecided)
			return
		}
		if lf.RetPos.IsValid() {
			at = lf.RetPos
		}
		if len(lf.Ret) != 1 || lf.Ret[0].k != dtBool {
			bad = "a result that is not decided by the order [" + lf.atomsStr() + "]"
			break
		}
		foreign := ""
		for _, a := range lf.Order {
			if a != order && a != mirror {
				foreign = a
			}
		}
		if foreign != "" {
			bad = "the result depends on " + foreign + ", which is not the order Less defines"
			break
		}
		ab, hasAB := lf.Atoms[order]
		ba, hasBA := lf.Atoms[mirror]
		if lf.Ret[0].b {
			if !(hasAB && hasBA && !ab && !ba) {
				bad = "true is returned without both Less(a, b) and Less(b, a) having been found false [" + lf.atomsStr() + "]"
				break
			}
		} else if !(hasAB && ab || hasBA && ba) {
			bad = "false is returned although neither value orders before the other [" + lf.atomsStr() + "]"
			break
		}
	}
	c.stat("equals_leaves", len(et))
	c.check(bad == "" && len(et) > 0, "Value.Equals", at, "Equals is true exactly when neither Less(a, b) nor Less(b, a): the equality of the order ("+order+")",
		"Value.Equals compares the values itself instead of deriving equality from Less ("+bad+"): equality filters (==, !=, WHEREIN) and order filters (<, <=, ranges) can now disagree on whether two values are the same — the documented value order is defined in one place, Less")
}

// hasLoopOrManyBranches: the body is more than a thin wrapper (a loop, or more than two branch statements).
func hasLoopOrManyBranches(body *ast.BlockStmt) bool {
	loops, branches := 0, 0
	ast.Inspect(body, func(n ast.Node) bool {
		switch n.(type) {
		case *ast.ForStmt, *ast.RangeStmt:
			loops++
		case *ast.IfStmt, *ast.SwitchStmt, *ast.TypeSwitchStmt:
			branches++
		}
		return true
	})
	return loops > 0 || branches > 2
}

func flattenOr(e ast.Expr, out *[]ast.Expr) {
	e = ast.Unparen(e)
	if be, ok := e.(*ast.BinaryExpr); ok && be.Op == token.LOR {
		flattenOr(be.X, out)
		flattenOr(be.Y, out)
		return
	}
	*out = append(*out, e)
}

// R12.star-tries-every-offset
func init() {
	register(&Rule{ID: "R12.star-tries-every-offset", Props: []string{"C12"}, Floor: 1,
		Text: "after a '*' the matcher has to try the rest of the pattern at every offset of the name; an offset may be skipped on the strength of the next pattern byte only when that byte stands for itself. In the function of internal/glob that slides a chunk along the name (found by role: the loop that calls the chunk matcher with name[i+1:]), the loop variable is advanced only by the loop's own step, unless the statement that advances it (or leaves the loop) is guarded, for the first byte of the chunk, by the exclusion of every byte the chunk matcher treats specially at the head of a chunk (the case labels of its switch on chunk[0]: class, any-one, escape) — a jump to the next occurrence of an escape character looks for a backslash in the name instead of the escaped byte, and MATCH, KEYS, PDEL, HOOKS select the wrong ids",
		Run:  ruleStarTriesEveryOffset})
}

func ruleStarTriesEveryOffset(c *Ctx) {
	mc := c.Func("internal/glob", "", "matchChunk")
	if mc == nil || mc.Decl.Body == nil {
		c.und("anchors", 0, "glob.matchChunk not found")
		return
	}
	// the bytes the chunk matcher treats specially at the head of a chunk
	metas := map[string]bool{}
	{
		info := mc.Info()
		ast.Inspect(mc.Decl.Body, func(n ast.Node) bool {
			sw, ok := n.(*ast.SwitchStmt)
			if !ok || sw.Tag == nil {
				return true
			}
			ix, ok := ast.Unparen(sw.Tag).(*ast.IndexExpr)
			if !ok {
				return true
			}
			if tv, ok := info.Types[ix.Index]; !ok || tv.Value == nil || tv.Value.String() != "0" {
				return true
			}
			for _, cc := range sw.Body.List {
				for _, e := range cc.(*ast.CaseClause).List {
					if tv, ok := info.Types[e]; ok && tv.Value != nil {
						metas[tv.Value.String()] = true
					}
				}
			}
			return false
		})
	}
	if len(metas) == 0 {
		c.und("metas", mc.Decl.Pos(), "matchChunk has no switch on the first byte of the chunk")
		return
	}
	n := 0
	for _, fn := range c.AllFuncs("internal/glob") {
		if fn.Decl.Body == nil || fn.Obj == mc.Obj {
			continue
		}
		info := fn.Info()
		ast.Inspect(fn.Decl.Body, func(x ast.Node) bool {
			loop, ok := x.(*ast.ForStmt)
			if !ok || loop.Post == nil {
				return true
			}
			// the loop variable and the call matchChunk(chunk, name[i+…:])
			var iv types.Object
			switch p := loop.Post.(type) {
			case *ast.IncDecStmt:
				if id, ok := ast.Unparen(p.X).(*ast.Ident); ok {
					iv = info.ObjectOf(id)
				}
			case *ast.AssignStmt:
				if len(p.Lhs) == 1 {
					if id, ok := ast.Unparen(p.Lhs[0]).(*ast.Ident); ok {
						iv = info.ObjectOf(id)
					}
				}
			}
			if iv == nil {
				return true
			}
			var chunk types.Object
			ast.Inspect(loop.Body, func(y ast.Node) bool {
				call, ok := y.(*ast.CallExpr)
				if !ok || callee(info, call) != mc.Obj || len(call.Args) != 2 {
					return true
				}
				mentions := false
				ast.Inspect(call.Args[1], func(z ast.Node) bool {
					if id, ok := z.(*ast.Ident); ok && info.ObjectOf(id) == iv {
						mentions = true
					}
					return true
				})
				if id, ok := ast.Unparen(call.Args[0]).(*ast.Ident); ok && mentions {
					chunk = info.ObjectOf(id)
				}
				return true
			})
			if chunk == nil {
				return true
			}
			n++
			key := funcName(fn.Obj) + "/star-loop"
			fg := newFlowGraph(info, fn.Decl.Body)
			// locals that hold the first byte of the chunk
			headVars := map[types.Object]bool{}
			isHead := func(e ast.Expr) bool {
				e = ast.Unparen(e)
				if ix, ok := e.(*ast.IndexExpr); ok {
					if id, ok := ast.Unparen(ix.X).(*ast.Ident); ok && info.ObjectOf(id) == chunk {
						if tv, ok := info.Types[ix.Index]; ok && tv.Value != nil && tv.Value.String() == "0" {
							return true
						}
					}
				}
				id, ok := e.(*ast.Ident)
				return ok && headVars[info.ObjectOf(id)]
			}
			ast.Inspect(loop.Body, func(y ast.Node) bool {
				if as, ok := y.(*ast.AssignStmt); ok && len(as.Lhs) == len(as.Rhs) {
					for i, l := range as.Lhs {
						if id, ok := ast.Unparen(l).(*ast.Ident); ok && isHead(as.Rhs[i]) {
							headVars[info.ObjectOf(id)] = true
						}
					}
				}
				return true
			})
			// statements in the body that advance the loop variable, or leave the loop without a match
			var prunes []ast.Node
			ast.Inspect(loop.Body, func(y ast.Node) bool {
				switch st := y.(type) {
				case *ast.FuncLit:
					return false
				case *ast.AssignStmt:
					for _, l := range st.Lhs {
						if id, ok := ast.Unparen(l).(*ast.Ident); ok && info.ObjectOf(id) == iv {
							prunes = append(prunes, st)
						}
					}
				case *ast.IncDecStmt:
					if id, ok := ast.Unparen(st.X).(*ast.Ident); ok && info.ObjectOf(id) == iv {
						prunes = append(prunes, st)
					}
				case *ast.BranchStmt:
					if st.Tok == token.BREAK && st.Label == nil {
						prunes = append(prunes, st)
					}
				}
				return true
			})
			bad := ""
			var badAt ast.Node = loop
			for _, p := range prunes {
				excluded := map[string]bool{}
				l := fg.LocOfOuter(p)
				var pfacts []Fact
				if l.Valid() {
					pfacts = fg.DominatingFacts(l)
				} else if blk, ok := c.Parent(p).(*ast.BlockStmt); ok {
					// a break is no node of the flow graph: what holds where the enclosing if was decided, and its condition
					if ifs, ok := c.Parent(blk).(*ast.IfStmt); ok {
						if cl := fg.LocOfOuter(ifs.Cond); cl.Valid() {
							pfacts = append(pfacts, fg.DominatingFacts(cl)...)
							pfacts = append(pfacts, Fact{E: ifs.Cond, Neg: blk != ifs.Body})
							l = cl
						}
					}
				}
				if l.Valid() {
					for _, f := range pfacts {
						if f.Tag != nil {
							continue
						}
						var atoms []Fact
						var flat func(f Fact)
						flat = func(f Fact) {
							e := ast.Unparen(f.E)
							if be, ok := e.(*ast.BinaryExpr); ok && (be.Op == token.LAND && !f.Neg || be.Op == token.LOR && f.Neg) {
								flat(Fact{E: be.X, Neg: f.Neg})
								flat(Fact{E: be.Y, Neg: f.Neg})
								return
							}
							atoms = append(atoms, Fact{E: e, Neg: f.Neg})
						}
						flat(f)
						for _, a := range atoms {
							be, ok := ast.Unparen(a.E).(*ast.BinaryExpr)
							if !ok {
								continue
							}
							ne := be.Op == token.NEQ && !a.Neg || be.Op == token.EQL && a.Neg
							if !ne {
								continue
							}
							for _, pr := range [][2]ast.Expr{{be.X, be.Y}, {be.Y, be.X}} {
								if isHead(pr[0]) {
									if tv, ok := info.Types[pr[1]]; ok && tv.Value != nil {
										excluded[tv.Value.String()] = true
									}
								}
							}
						}
					}
				}
				var missing []string
				for m := range metas {
					if !excluded[m] {
						missing = append(missing, m)
					}
				}
				sort.Strings(missing)
				if len(missing) > 0 {
					bad = fmt.Sprintf("the statement at %s is not guarded by the exclusion of the special head bytes %v (code points)", c.posStr(p.Pos()), missing)
					badAt = p
					break
				}
			}
			c.check(bad == "", key, badAt.Pos(), "every offset is tried: the loop variable advances only by the loop's own step (or where the head of the chunk is a literal byte)",
				"the star loop skips offsets of the name: "+bad+" — for a chunk that starts with an escape (or a class, or '?') the skipped offsets can hold the match, so the pattern selects the wrong names")
			return true
		})
	}
	if n == 0 {
		c.und("loop", 0, "no loop of internal/glob slides a chunk along the name with matchChunk")
	}
}
