package main

import (
	"fmt"
	"go/ast"
	"go/constant"
	"go/token"
	"go/types"
	"sort"
	"strings"

	"golang.org/x/tools/go/cfg"
)

const globPath = modPath + "/internal/glob"
const colPath = modPath + "/internal/collection"

func init() {
	register(&Rule{ID: "R12.stop-set", Props: []string{"C12"}, Floor: 3,
		Text: "the bytes at which glob.Parse ends the literal prefix include every byte the matcher treats specially (the case labels of matchChunk's operator switch and the chunk terminator of scanChunk): otherwise an id matched through an operator lies outside the scanned range [lo,hi)",
		Run:  ruleStopSet})
	register(&Rule{ID: "R12.empty-prefix-unbounded", Props: []string{"C12"}, Floor: 1,
		Text: "on every path of glob.Parse on which the literal prefix is empty (n == 0) the limits left in the result are both the empty string (scan everything)",
		Run:  ruleEmptyPrefix})
	register(&Rule{ID: "R12.count-shortcut", Props: []string{"C12", "C19"}, Floor: 4,
		Text: "where a handler answers COUNT from a collection counter, the counter corresponds to the index its fallback iterates (Scan/ScanRange ↔ Count, SearchValues* ↔ StringCount) and the guard requires every filter the fallback applies to be absent: len(x)==0 for every slice filter read by scanWriter.fieldMatch, and globEverything; sibling handlers agree",
		Run:  ruleCountShortcut})
	register(&Rule{ID: "R12.range-then-match", Props: []string{"C12"}, Floor: 5,
		Text: "every function that bounds an iteration with glob limits (Glob.Limits or multiGlobParse) filters every candidate with glob.Match, directly in the iterator callback or through scanWriter.pushObject/testObject",
		Run:  ruleRangeThenMatch})
	register(&Rule{ID: "R12.where-operators", Props: []string{"C12"}, Floor: 6,
		Text: "the comparison operators accepted by the WHERE parser are exactly the case labels of whereT.matchField",
		Run:  ruleWhereOperators})
}

// byteSwitchLabels: byte/rune constant labels of switches in fn whose tag is an index expression of a string.
func byteSwitchLabels(fn *FuncInfo, filter func(sw *ast.SwitchStmt, cc *ast.CaseClause) bool) map[byte]bool {
	info := fn.Info()
	out := map[byte]bool{}
	ast.Inspect(fn.Decl.Body, func(n ast.Node) bool {
		sw, ok := n.(*ast.SwitchStmt)
		if !ok || sw.Tag == nil {
			return true
		}
		if _, ok := ast.Unparen(sw.Tag).(*ast.IndexExpr); !ok {
			return true
		}
		for _, c := range sw.Body.List {
			cc := c.(*ast.CaseClause)
			if filter != nil && !filter(sw, cc) {
				continue
			}
			for _, e := range cc.List {
				if tv, ok := info.Types[e]; ok && tv.Value != nil && tv.Value.Kind() == constant.Int {
					if v, ok := constant.Int64Val(tv.Value); ok && v >= 0 && v < 256 {
						out[byte(v)] = true
					}
				}
			}
		}
		return true
	})
	return out
}

func bytesStr(m map[byte]bool) string {
	var bs []int
	for b := range m {
		bs = append(bs, int(b))
	}
	sort.Ints(bs)
	var s []string
	for _, b := range bs {
		s = append(s, fmt.Sprintf("%q", rune(b)))
	}
	return strings.Join(s, " ")
}

func ruleStopSet(c *Ctx) {
	parse := c.Func("internal/glob", "", "Parse")
	mc := c.Func("internal/glob", "", "matchChunk")
	sc := c.Func("internal/glob", "", "scanChunk")
	if parse == nil || mc == nil || sc == nil {
		c.und("anchors", 0, "glob.Parse, matchChunk or scanChunk not found")
		return
	}
	stop := byteSwitchLabels(parse, nil)
	special := byteSwitchLabels(mc, nil)
	// scanChunk: labels whose arm can terminate the chunk (contains a labelled break)
	term := byteSwitchLabels(sc, func(sw *ast.SwitchStmt, cc *ast.CaseClause) bool {
		has := false
		for _, st := range cc.Body {
			ast.Inspect(st, func(n ast.Node) bool {
				if br, ok := n.(*ast.BranchStmt); ok && br.Tok == token.BREAK && br.Label != nil {
					has = true
				}
				return true
			})
		}
		return has
	})
	for b := range term {
		special[b] = true
	}
	c.stat("matcher_special_bytes", len(special))
	if len(special) < 3 {
		c.und("special-bytes", mc.Decl.Pos(), "fewer than 3 special bytes extracted from the matcher (%s): extraction has gone vacuous", bytesStr(special))
		return
	}
	for b := range special {
		key := fmt.Sprintf("stop-byte/%q", rune(b))
		if stop[b] {
			c.ok(key, parse.Decl.Pos(), true, "the literal-prefix scan of Parse stops at this byte")
		} else {
			c.bad(key, parse.Decl.Pos(), "glob.Parse does not end the literal prefix at %q although the matcher treats it as an operator: ids matched through it fall outside the scanned range (stop set {%s}, matcher {%s})", rune(b), bytesStr(stop), bytesStr(special))
		}
	}
}

// emptyPair: e is []string{"", ""}.
func emptyPair(info *types.Info, e ast.Expr) bool {
	cl, ok := ast.Unparen(e).(*ast.CompositeLit)
	if !ok || len(cl.Elts) != 2 {
		return false
	}
	for _, el := range cl.Elts {
		if s, ok := constString(info, el); !ok || s != "" {
			return false
		}
	}
	return true
}

func ruleEmptyPrefix(c *Ctx) {
	parse := c.Func("internal/glob", "", "Parse")
	if parse == nil {
		c.und("anchors", 0, "glob.Parse not found")
		return
	}
	info := parse.Info()
	limits := c.Field("internal/glob", "Glob", "Limits")
	fg := newFlowGraph(info, parse.Decl.Body)
	// the prefix counter: the int variable incremented inside the prefix loop and compared with 0
	var test *cfg.Block
	var counter types.Object
	for _, b := range fg.G.Blocks {
		cond, _ := fg.condOf(b)
		be, ok := ast.Unparen(cond).(*ast.BinaryExpr)
		if !ok || be.Op != token.EQL {
			continue
		}
		id, ok := ast.Unparen(be.X).(*ast.Ident)
		if !ok {
			continue
		}
		if tv, ok := info.Types[be.Y]; !ok || tv.Value == nil || tv.Value.String() != "0" {
			continue
		}
		// incremented somewhere
		inc := false
		ast.Inspect(parse.Decl.Body, func(n ast.Node) bool {
			if s, ok := n.(*ast.IncDecStmt); ok && s.Tok == token.INC {
				if x, ok := s.X.(*ast.Ident); ok && info.ObjectOf(x) == info.ObjectOf(id) {
					inc = true
				}
			}
			return true
		})
		if inc {
			test, counter = b, info.ObjectOf(id)
		}
	}
	if test == nil {
		c.bad("empty-prefix-test", parse.Decl.Pos(), "glob.Parse has no test of the literal-prefix length against 0: a pattern that starts with an operator is indexed with an empty prefix")
		return
	}
	_ = counter
	isLimitsStore := func(n ast.Node) (ast.Expr, bool) {
		switch x := n.(type) {
		case *ast.AssignStmt:
			for i, l := range x.Lhs {
				if selField(info, l) == limits && len(x.Lhs) == len(x.Rhs) {
					return x.Rhs[i], true
				}
			}
		case *ast.KeyValueExpr:
			if id, ok := x.Key.(*ast.Ident); ok && info.ObjectOf(id) == limits {
				return x.Value, true
			}
		}
		return nil, false
	}
	// stores dominating the test must be the empty pair; stores reachable on the n==0 side must be the empty pair
	ok := true
	why := ""
	testLoc := Loc{test, len(test.Nodes) - 1, nil}
	nStores := 0
	for _, l := range fg.Find(func(n ast.Node) bool { _, is := isLimitsStore(n); return is }) {
		rhs, _ := isLimitsStore(l.Node)
		if fg.Dominates(l, testLoc) {
			nStores++
			if !emptyPair(info, rhs) {
				ok, why = false, "the limits are initialised to something other than the unbounded pair"
			}
			continue
		}
		// reachable from the true edge of n == 0?
		r, _ := fg.Reach(PathQuery{From: testLoc, Target: func(x Loc) bool { return x.Block == l.Block && x.Idx == l.Idx },
			EdgeOK: func(b *cfg.Block, si int) bool { return !(b == test && si == 1) }})
		if r {
			nStores++
			if !emptyPair(info, rhs) {
				ok, why = false, fmt.Sprintf("with an empty literal prefix the limits are set to %s", exprStr(rhs))
			}
		}
	}
	if nStores == 0 {
		ok, why = false, "no initialisation of Limits found"
	}
	if ok {
		c.ok("limits-when-prefix-empty", test.Nodes[len(test.Nodes)-1].Pos(), true, "on the n == 0 side every value Limits can hold is the unbounded pair")
	} else {
		c.bad("limits-when-prefix-empty", test.Nodes[len(test.Nodes)-1].Pos(), "%s: a pattern starting with an operator (?k, [ab]c) scans an empty or wrong range", why)
	}
}

// ---------------------------------------------------------------------------

var iterIndex = map[string]string{
	"Scan": "Count", "ScanRange": "Count", "ScanGreaterOrEqual": "Count",
	"SearchValues": "StringCount", "SearchValuesRange": "StringCount",
}

func ruleCountShortcut(c *Ctx) {
	swCount := c.Field("internal/server", "scanWriter", "count")
	fm := c.Func("internal/server", "scanWriter", "fieldMatch")
	if swCount == nil || fm == nil {
		c.und("anchors", 0, "scanWriter.count or scanWriter.fieldMatch not found")
		return
	}
	// filters the fallback applies: slice-typed fields of scanWriter read by fieldMatch
	swType := c.Pkgs["internal/server"].Types.Scope().Lookup("scanWriter")
	filters := map[*types.Var]bool{}
	ast.Inspect(fm.Decl.Body, func(n ast.Node) bool {
		if se, ok := n.(*ast.SelectorExpr); ok {
			if f := selField(fm.Info(), se); f != nil {
				if _, isSlice := f.Type().Underlying().(*types.Slice); isSlice && fieldOf(swType.Type(), f) {
					filters[f] = true
				}
			}
		}
		return true
	})
	globEv := c.Field("internal/server", "scanWriter", "globEverything")
	if len(filters) < 2 {
		c.und("filters", fm.Decl.Pos(), "fewer than 2 slice filters found in scanWriter.fieldMatch")
		return
	}
	var fnames []string
	for f := range filters {
		fnames = append(fnames, f.Name())
	}
	sort.Strings(fnames)
	c.stat("filters_applied_by_fallback", len(filters)+1)
	n := 0
	for _, fn := range c.AllFuncs("internal/server") {
		info := fn.Info()
		var stores []*ast.AssignStmt
		inspectNoLit(fn.Decl.Body, func(x ast.Node) bool {
			if as, ok := x.(*ast.AssignStmt); ok {
				for _, l := range as.Lhs {
					if selField(info, l) == swCount {
						stores = append(stores, as)
					}
				}
			}
			return true
		})
		if len(stores) == 0 {
			continue
		}
		fg := newFlowGraph(info, fn.Decl.Body)
		for _, st := range stores {
			l := fg.LocOf(st)
			if !l.Valid() {
				continue
			}
			// the counter used: a Collection counter call that dominates the store (count := sw.col.Count() - cursor)
			var counter string
			for _, cl := range fg.FindCalls(func(f *types.Func, call *ast.CallExpr) bool {
				return f != nil && isMethod(f, colPath, "Collection", f.Name()) && (f.Name() == "Count" || f.Name() == "StringCount" || f.Name() == "PointCount")
			}) {
				if fg.Dominates(cl, l) {
					facts := fg.DominatingFacts(cl)
					_ = facts
					counter = callee(info, cl.Node.(*ast.CallExpr)).Name()
				}
			}
			if counter == "" {
				continue // count accumulated item by item, not a shortcut
			}
			n++
			base := funcName(fn.Obj)
			// (a) fallback iterators: Collection iterator calls in the function not dominated by the shortcut's guard
			iters := map[string]bool{}
			ast.Inspect(fn.Decl.Body, func(x ast.Node) bool {
				if call, ok := x.(*ast.CallExpr); ok {
					if f := callee(info, call); f != nil && isMethod(f, colPath, "Collection", f.Name()) && iterIndex[f.Name()] != "" {
						iters[f.Name()] = true
					}
				}
				return true
			})
			okIdx := len(iters) > 0
			for it := range iters {
				if iterIndex[it] != counter {
					okIdx = false
				}
			}
			c.check(okIdx, base+"→counter-matches-index", st.Pos(), fmt.Sprintf("shortcut uses %s and the fallback iterates %v", counter, sortedKeys(iters)),
				fmt.Sprintf("the COUNT shortcut answers from %s() but the fallback iterates %v, which visits a different set of objects", counter, sortedKeys(iters)))
			// (b) guard
			facts := fg.DominatingFacts(l)
			has := func(pred func(f Fact) bool) bool {
				for _, f := range facts {
					if pred(f) {
						return true
					}
				}
				return false
			}
			var missing []string
			for f := range filters {
				fld := f
				if !has(func(ft Fact) bool { return !ft.Neg && isLenZero(info, ft.E, fld) }) {
					missing = append(missing, "len("+f.Name()+") == 0")
				}
			}
			if !has(func(ft Fact) bool { return !ft.Neg && selField(info, ft.E) == globEv }) {
				missing = append(missing, "globEverything")
			}
			sort.Strings(missing)
			c.check(len(missing) == 0, base+"→guard-covers-filters", st.Pos(), fmt.Sprintf("guard requires %v empty and globEverything", fnames),
				fmt.Sprintf("the COUNT shortcut is taken although filters may be present: guard lacks %v; COUNT then differs from the number of ids the same query returns", missing))
		}
	}
	if n == 0 {
		c.bad("no-shortcut", 0, "no COUNT shortcut found (expected in cmdScan and cmdSearch)")
	}
}

func fieldOf(t types.Type, f *types.Var) bool {
	st, ok := t.Underlying().(*types.Struct)
	if !ok {
		return false
	}
	for i := 0; i < st.NumFields(); i++ {
		if st.Field(i) == f {
			return true
		}
	}
	return false
}

// isLenZero: e is len(<x>.f) == 0.
func isLenZero(info *types.Info, e ast.Expr, f *types.Var) bool {
	be, ok := ast.Unparen(e).(*ast.BinaryExpr)
	if !ok || be.Op != token.EQL {
		return false
	}
	call, ok := ast.Unparen(be.X).(*ast.CallExpr)
	if !ok || len(call.Args) != 1 {
		return false
	}
	if id, ok := ast.Unparen(call.Fun).(*ast.Ident); !ok || id.Name != "len" {
		return false
	}
	if tv, ok := info.Types[be.Y]; !ok || tv.Value == nil || tv.Value.String() != "0" {
		return false
	}
	return selField(info, call.Args[0]) == f
}

func ruleRangeThenMatch(c *Ctx) {
	limits := c.Field("internal/glob", "Glob", "Limits")
	n := 0
	for _, fn := range c.AllFuncs("internal/server") {
		info := fn.Info()
		uses := false
		ast.Inspect(fn.Decl.Body, func(x ast.Node) bool {
			switch e := x.(type) {
			case *ast.SelectorExpr:
				if selField(info, e) == limits {
					uses = true
				}
			case *ast.CallExpr:
				if f := callee(info, e); f != nil && f.Name() == "multiGlobParse" {
					uses = true
				}
			}
			return true
		})
		if !uses || fn.Obj.Name() == "multiGlobParse" {
			continue
		}
		// iteration calls with a callback literal
		ast.Inspect(fn.Decl.Body, func(x ast.Node) bool {
			call, ok := x.(*ast.CallExpr)
			if !ok || len(call.Args) == 0 {
				return true
			}
			lit := resolveLit(fn, call.Args[len(call.Args)-1])
			if lit == nil {
				return true
			}
			f := callee(info, call)
			if f == nil {
				return true
			}
			isIter := isMethod(f, colPath, "Collection", f.Name()) || strings.HasPrefix(f.Pkg().Path(), "github.com/tidwall/btree")
			if !isIter {
				return true
			}
			n++
			key := funcName(fn.Obj) + "→" + exprStr(call.Fun)
			matches := false
			ast.Inspect(lit.Body, func(y ast.Node) bool {
				if c2, ok := y.(*ast.CallExpr); ok {
					g := callee(info, c2)
					if isFunc(g, globPath, "Match") {
						matches = true
					}
					if g != nil && isMethod(g, modPath+"/internal/server", "scanWriter", g.Name()) && (g.Name() == "pushObject" || g.Name() == "testObject" || g.Name() == "globMatch") {
						matches = true
					}
					// a callback parameter invoked from a helper that matched already (forEachHookByPattern passes matching hooks on)
				}
				return true
			})
			c.check(matches, key, call.Pos(), "every candidate of the bounded iteration is filtered with glob.Match", "the iteration is bounded by the glob's literal-prefix limits but candidates are not matched against the pattern: everything inside the prefix range is selected")
			return true
		})
	}
	if n == 0 {
		c.bad("no-sites", 0, "no glob-bounded iteration found")
	}
}

func ruleWhereOperators(c *Ctx) {
	mf := c.Func("internal/server", "whereT", "matchField")
	ps := c.Func("internal/server", "Server", "parseSearchScanBaseTokens")
	if mf == nil || ps == nil {
		c.und("anchors", 0, "whereT.matchField or parseSearchScanBaseTokens not found")
		return
	}
	isOp := func(s string) bool {
		if s == "" {
			return false
		}
		for _, r := range s {
			if strings.ContainsRune("<>=!", r) == false {
				return false
			}
		}
		return true
	}
	opLabels := func(fn *FuncInfo) map[string]bool {
		out := map[string]bool{}
		ast.Inspect(fn.Decl.Body, func(n ast.Node) bool {
			sw, ok := n.(*ast.SwitchStmt)
			if !ok {
				return true
			}
			for _, cc := range sw.Body.List {
				var ops []string
				all := true
				for _, e := range cc.(*ast.CaseClause).List {
					s, ok := constString(fn.Info(), e)
					if !ok || !isOp(s) {
						all = false
						break
					}
					ops = append(ops, s)
				}
				if all {
					for _, o := range ops {
						out[o] = true
					}
				}
			}
			return true
		})
		return out
	}
	accepted, handled := opLabels(ps), opLabels(mf)
	if len(handled) < 4 {
		c.und("operators", mf.Decl.Pos(), "fewer than 4 comparison operators extracted from matchField")
		return
	}
	for op := range accepted {
		c.check(handled[op], "accepted/"+op, ps.Decl.Pos(), "accepted by the parser and handled by matchField", fmt.Sprintf("the WHERE parser accepts operator %q which matchField does not handle (it falls into the range comparison)", op))
	}
	for op := range handled {
		c.check(accepted[op], "handled/"+op, mf.Decl.Pos(), "handled by matchField and accepted by the parser", fmt.Sprintf("matchField handles operator %q which the parser never produces as an operator", op))
	}
}

// resolveLit: e is a function literal or a local variable bound to exactly one.
func resolveLit(fn *FuncInfo, e ast.Expr) *ast.FuncLit {
	switch x := ast.Unparen(e).(type) {
	case *ast.FuncLit:
		return x
	case *ast.Ident:
		return findLitBinding(fn, x)
	}
	return nil
}
