package main

import (
	"go/ast"
	"strings"

	"golang.org/x/tools/go/cfg"
)

type muAnalysis struct {
	lk  *LK
	ct  *CT
	err string
}

var muCache = map[*Program]*muAnalysis{}

// muLK runs the Server.mu lock-state analysis over internal/server with the
// command-table join (DESIGN.md 3.1, 3.3).
func (p *Program) muLK() *muAnalysis {
	if a, ok := muCache[p]; ok {
		return a
	}
	a := &muAnalysis{}
	muCache[p] = a
	ct := p.CT()
	a.ct = ct
	if ct.Err != "" {
		a.err = ct.Err
		return a
	}
	lk := newLK(p, p.muSpec(true), "internal/server")
	a.lk = lk
	cmdU := lk.ofDecl[ct.Command.Obj]
	// join 1: handleInputCommand → command. The abstract state carries the
	// set of commands msg.Command() may denote; the lock switch refines it
	// per arm, the dispatch switch of command prunes the arms it cannot
	// reach. The 'config'/'script' re-dispatch rewrites the command into
	// its two-word form; the log replayers (start-up, follower) only feed
	// commands of the write class (obligation R3.vocabulary).
	var loggable []string
	for _, cl := range ct.LT.Clauses {
		if ct.LTClass[cl].Write {
			loggable = append(loggable, cl.Strings...)
		}
	}
	loggableSet := lk.cmdSetOf(loggable...)
	// cmdMassInsert (dev mode) generates literal "set" commands and applies them like a replayer
	// (a step of a replayer extracted into a helper that only replayers call is still a replayer)
	replayerFuncs := p.calledOnlyFrom("loadAOF", "followHandleCommand", "cmdMassInsert")
	replayers := map[string]bool{}
	for f := range replayerFuncs {
		replayers[f.Name()] = true
	}
	lk.callCmds = func(from, to *Unit, cm cmdSet) cmdSet {
		if to != cmdU {
			return cm
		}
		if from.Fn.Obj == ct.Command.Obj {
			// re-dispatch: {config, script} → {"config get", ...}
			var out cmdSet
			for i, n := range lk.cmdNames {
				if j := strings.IndexByte(n, ' '); j >= 0 && i < 256 {
					if pi, ok := lk.cmdIdx[n[:j]]; ok && cm.has(pi) {
						out.set(i)
					}
				}
			}
			return out
		}
		if replayers[from.Fn.Obj.Name()] {
			return cm.and(loggableSet)
		}
		return cm
	}

	// join 2: Lua tile38.call → luaTile38Call, per evalcmd arm the LT class
	if ltc := p.Func("internal/server", "Server", "luaTile38Call"); ltc != nil {
		ltcU := lk.ofDecl[ltc.Obj]
		info := ltc.Info()
		var evalSwitch *strSwitch
		for _, ss := range stringSwitches(ltc, func(e ast.Expr) bool {
			id, ok := ast.Unparen(e).(*ast.Ident)
			if !ok {
				return false
			}
			// the parameter that carries EVAL_CMD: first parameter
			params := ltc.Decl.Type.Params.List
			return len(params) > 0 && len(params[0].Names) > 0 && info.ObjectOf(id) == info.ObjectOf(params[0].Names[0])
		}) {
			evalSwitch = ss
		}
		if evalSwitch == nil {
			a.err = "luaTile38Call: switch on the eval command not found"
			return a
		}
		evClause := map[*ast.CaseClause]*strClause{}
		for _, c := range evalSwitch.Clauses {
			evClause[c.Clause] = c
		}
		for _, u := range lk.units {
			if lk.skipCall[u] == nil {
				lk.skipCall[u] = map[*Unit]bool{}
			}
			lk.skipCall[u][ltcU] = true
		}
		lk.override[ltcU] = func(b *cfg.Block) (int, bool) {
			if b.Kind != cfg.KindSwitchCaseBody {
				return 0, false
			}
			cc, ok := b.Stmt.(*ast.CaseClause)
			if !ok {
				return 0, false
			}
			sc := evClause[cc]
			if sc == nil || sc.IsDefault {
				return 0, false
			}
			mask := 0
			for _, s := range sc.Strings {
				if lc := ct.classOf(s); lc != nil {
					mask |= lc.Lock
				}
			}
			return mask, true
		}
		lk.enter(ltcU, ctxJoined, &witness{How: "script join: tile38.call → luaTile38Call with the lock class of the enclosing EVAL command"})
	}

	// Serve: start-up and shut-down phases are single-threaded with respect
	// to commands (justified by R7.startup-gate); its own body and its
	// direct calls are analysed as if exclusive. Goroutines it spawns are
	// ordinary roots.
	var roots []*Unit
	if sv := p.Func("internal/server", "", "Serve"); sv != nil {
		su := lk.ofDecl[sv.Obj]
		lk.force[su] = LX
		lk.exempt[su] = true
		// its deferred literals run in the shut-down phase
		for _, u := range lk.units {
			if u.Parent == su && isDeferredLit(sv.Decl.Body, u.Lit) {
				lk.force[u] = LX
				lk.exempt[u] = true
			}
		}
		roots = append(roots, su)
	} else {
		a.err = "Serve not found"
		return a
	}
	lk.Run(roots)
	return a
}

func isDeferredLit(body *ast.BlockStmt, lit *ast.FuncLit) bool {
	found := false
	ast.Inspect(body, func(n ast.Node) bool {
		if d, ok := n.(*ast.DeferStmt); ok && ast.Unparen(d.Call.Fun) == lit {
			found = true
		}
		return !found
	})
	return found
}
