package main

import (
	"encoding/json"
	"fmt"
	"go/ast"
	"go/constant"
	"go/token"
	"go/types"
	"sort"
	"strings"
)

func init() {
	register(&Rule{ID: "R15.write-gates", Props: []string{"C15", "C18", "C03"}, Floor: 20,
		Text: "scenario evaluation of the lock switch of handleInputCommand and of the three script class switches: for every arm with write=true (and the eval/evalsha arm), with followHost() != \"\" — and, separately, with followHost() == \"\" and readOnly() — no path leaves the switch towards the dispatch (tests may sit in the arm or in a helper it consults: the helper is evaluated in the same situation); the read arms of the script switches likewise with followHost() != \"\" && !caughtUpOnce(); the three script class switches have identical write lists, each within the lock-table write class; AtomicRO returns errReadOnly for exactly that list",
		Run:  ruleWriteGates})
	register(&Rule{ID: "R15.read-gate", Props: []string{"C15", "C06"}, Floor: 20,
		Text: "every dispatch-table handler that reads objects (cols or a collection) is in a lock-table class whose arm, evaluated in the situation followHost() != \"\" && !caughtUpOnce(), never leaves the lock switch towards the dispatch, or is in the reviewed table of non-object reads; the script read lists carry the same gate and are within the gated lock-table read class plus the reviewed extras",
		Run:  ruleReadGate})
	register(&Rule{ID: "R15.auth-dominates", Props: []string{"C15"}, Floor: 4,
		Text: "scenario evaluation of handleInputCommand with a password configured, client.authd false and the dataset loaded, for a message with and without an Auth field: an ordinary command (one that no constant of the function names) never reaches the lock switch without passing the store client.authd = true, and every return it can reach is the refusal (or a static page of the built-in viewer); of the commands the function names, only output and healthz reach the lock switch unauthenticated, and only ping, echo, hello (an error), timeout (an error), output and auth are answered before the password test",
		Run:  ruleAuthDominates})
	register(&Rule{ID: "R15.authd-store", Props: []string{"C15"}, Floor: 1,
		Text: "every store of true to Client.authd anywhere in the server is dominated by the false edge of requirePass() != TrimSpace(password)",
		Run:  ruleAuthdStore})
	register(&Rule{ID: "R15.protected-first", Props: []string{"C15"}, Floor: 1,
		Text: "scenario evaluation of the connection closure of netServe: for a peer that is not a loop-back address (both prefix tests false, in the closure or in a predicate it calls) on a protected server (isProtected() true) no path reaches conn.Read; for a loop-back peer and for an unprotected server it does",
		Run:  ruleProtectedFirst})
	register(&Rule{ID: "R15.exhaustive", Props: []string{"C15"}, Floor: 55,
		Text: "every command of the documented command table (core.commandsJSON) is a dispatch-table key or is handled before dispatch (ping, quit, auth, timeout), and every dispatch-table key is classified by computed effect: mutating → write class (R3.write-class), object-reading → gated read class (R15.read-gate)",
		Run:  ruleExhaustive})
}

func scriptClassSwitch(c *Ctx, name string) (*FuncInfo, *strSwitch) {
	fn := c.Func("internal/server", "Server", name)
	if fn == nil {
		return nil, nil
	}
	var best *strSwitch
	for _, ss := range stringSwitches(fn, func(e ast.Expr) bool { return c.isCommandTag(fn, e) }) {
		if best == nil || len(ss.Clauses) > len(best.Clauses) {
			best = ss
		}
	}
	return fn, best
}

func setOf(ss []string) map[string]bool {
	m := map[string]bool{}
	for _, s := range ss {
		m[s] = true
	}
	return m
}

func sortedKeys(m map[string]bool) []string {
	var out []string
	for k := range m {
		out = append(out, k)
	}
	sort.Strings(out)
	return out
}

func diff(a, b map[string]bool) []string {
	var out []string
	for k := range a {
		if !b[k] {
			out = append(out, k)
		}
	}
	sort.Strings(out)
	return out
}

func ruleWriteGates(c *Ctx) {
	ct := c.CT()
	if ct.Err != "" {
		c.und("tables", 0, "%s", ct.Err)
		return
	}
	ltWrite := map[string]bool{}
	for _, cl := range ct.LT.Clauses {
		lc := ct.LTClass[cl]
		isEval := false
		for _, s := range cl.Strings {
			if s == "eval" || s == "evalsha" {
				isEval = true
			}
		}
		if !lc.Write && !isEval {
			continue
		}
		name := strings.Join(cl.Strings, ",")
		for _, s := range cl.Strings {
			if lc.Write {
				ltWrite[s] = true
			}
		}
		g1, w1 := c.armGated(ct.HIC, ct.LT.Stmt, cl.Strings[0], "follower")
		c.checkPath(g1, "lock-table/"+name+"/not-the-leader", cl.Clause.Pos(), w1,
			"with followHost() != \"\" control never leaves the lock switch through this arm: the command is refused before the dispatch", "write arm lacks the follower gate: with followHost() != \"\" the command reaches the dispatch")
		g2, w2 := c.armGated(ct.HIC, ct.LT.Stmt, cl.Strings[0], "readonly")
		c.checkPath(g2, "lock-table/"+name+"/read-only", cl.Clause.Pos(), w2,
			"with readOnly() control never leaves the lock switch through this arm", "write arm lacks the read-only gate: on a read-only leader the command reaches the dispatch")
		c.check(lc.Lock == LX, "lock-table/"+name+"/exclusive", cl.Clause.Pos(), "arm takes the exclusive lock", "write arm does not take the exclusive lock")
	}
	// script class switches
	type cls struct {
		name  string
		fn    *FuncInfo
		ss    *strSwitch
		write map[string]bool
		read  map[string]bool
	}
	var classes []*cls
	for _, n := range []string{"luaTile38AtomicRW", "luaTile38AtomicRO", "luaTile38NonAtomic"} {
		fn, ss := scriptClassSwitch(c, n)
		if fn == nil || ss == nil {
			c.und("script/"+n, 0, "class switch of %s not found", n)
			return
		}
		k := &cls{name: n, fn: fn, ss: ss, write: map[string]bool{}, read: map[string]bool{}}
		hasDefault := false
		for _, cl := range ss.Clauses {
			if cl.IsDefault {
				hasDefault = true
			}
		}
		if !hasDefault {
			c.bad("script/"+n+"/default", ss.Stmt.Pos(), "the script class switch of %s has no default arm: commands it does not list fall through to the dispatch ungated", n)
		}
		for _, cl := range ss.Clauses {
			if cl.IsDefault {
				lc := c.interpretLockArm(fn, ss, cl)
				c.check(contains(lc.Returns, "errCmdNotSupported"), "script/"+n+"/default", cl.Clause.Pos(),
					"unlisted commands are refused", "the default arm of the script class switch does not refuse unlisted commands")
				continue
			}
			lc := c.interpretLockArm(fn, ss, cl)
			isWrite := lc.Write || contains(lc.Returns, "errReadOnly")
			arm := strings.Join(cl.Strings, ",")
			if len(arm) > 40 {
				arm = arm[:40] + "…"
			}
			if isWrite {
				for _, s := range cl.Strings {
					k.write[s] = true
				}
				switch n {
				case "luaTile38AtomicRO":
					c.check(contains(lc.Returns, "errReadOnly"), "script/"+n+"/write-arm-refused", cl.Clause.Pos(),
						"write commands return errReadOnly unconditionally", "read-only script class does not refuse its write list")
				default:
					g1, w1 := c.armGated(fn, ss.Stmt, cl.Strings[0], "follower")
					c.checkPath(g1, "script/"+n+"/not-the-leader", cl.Clause.Pos(), w1,
						"with followHost() != \"\" control never leaves the class switch through the write arm", "script write arm lacks the follower gate")
					g2, w2 := c.armGated(fn, ss.Stmt, cl.Strings[0], "readonly")
					c.checkPath(g2, "script/"+n+"/read-only", cl.Clause.Pos(), w2,
						"with readOnly() control never leaves the class switch through the write arm", "script write arm lacks the read-only gate")
					if n == "luaTile38NonAtomic" {
						c.check(lc.Lock == LX && lc.Problem == "", "script/"+n+"/write-lock", cl.Clause.Pos(),
							"write arm takes the exclusive lock with a deferred release", "non-atomic script write arm does not take the exclusive lock: "+lc.Problem)
					}
				}
			} else {
				for _, s := range cl.Strings {
					k.read[s] = true
				}
				g3, w3 := c.armGated(fn, ss.Stmt, cl.Strings[0], "catchingup")
				c.checkPath(g3, "script/"+n+"/catching-up", cl.Clause.Pos(), w3,
					"with followHost() != \"\" && !caughtUpOnce() control never leaves the class switch through the read arm", "script read arm lacks the catching-up gate")
				if n == "luaTile38NonAtomic" {
					c.check(lc.Lock == LR && lc.Problem == "", "script/"+n+"/read-lock", cl.Clause.Pos(),
						"read arm takes the shared lock with a deferred release", "non-atomic script read arm does not take the shared lock: "+lc.Problem)
				}
			}
		}
		classes = append(classes, k)
	}
	for _, k := range classes {
		extra := diff(k.write, ltWrite)
		c.check(len(extra) == 0, "script/"+k.name+"/write-list-within-lock-table", k.ss.Stmt.Pos(),
			fmt.Sprintf("write list %v ⊆ lock-table write class", sortedKeys(k.write)),
			fmt.Sprintf("script write list contains %v which the lock table does not treat as writes", extra))
	}
	for _, k := range classes[1:] {
		d1, d2 := diff(classes[0].write, k.write), diff(k.write, classes[0].write)
		c.check(len(d1)+len(d2) == 0, "script/write-lists-agree/"+classes[0].name+"~"+k.name, k.ss.Stmt.Pos(),
			"write lists identical", fmt.Sprintf("write lists differ: only in %s %v, only in %s %v", classes[0].name, d1, k.name, d2))
		r1, r2 := diff(classes[0].read, k.read), diff(k.read, classes[0].read)
		c.check(len(r1)+len(r2) == 0, "script/read-lists-agree/"+classes[0].name+"~"+k.name, k.ss.Stmt.Pos(),
			"read lists identical", fmt.Sprintf("read lists differ: only in %s %v, only in %s %v", classes[0].name, r1, k.name, r2))
	}
	// a command that is a write for the lock table must never be in a script read list
	for _, k := range classes {
		var bad []string
		for s := range k.read {
			if ltWrite[s] {
				bad = append(bad, s)
			}
		}
		sort.Strings(bad)
		c.check(len(bad) == 0, "script/"+k.name+"/no-write-in-read-list", k.ss.Stmt.Pos(), "no lock-table write command in the script read list",
			fmt.Sprintf("commands %v are writes for the lock table but reads for the script class", bad))
	}
	// and every script-dispatchable mutating handler is in the script write list (commandInScript vs class lists)
	if cis := c.Func("internal/server", "Server", "commandInScript"); cis != nil {
		for _, ss := range stringSwitches(cis, func(e ast.Expr) bool { return c.isCommandTag(cis, e) }) {
			for _, cl := range ss.Clauses {
				if cl.IsDefault {
					continue
				}
				hs, _ := c.armCallees(cis, cl.Clause.Body)
				mut := false
				for _, h := range hs {
					if len(persistEffects(c, h)) > 0 {
						mut = true
					}
				}
				for _, s := range cl.Strings {
					if !mut {
						continue
					}
					for _, k := range classes {
						key := "script/" + k.name + "/mutating-in-write-list/" + s
						if k.write[s] {
							c.ok(key, cl.Clause.Pos(), true, "mutating script command is in the write list")
						} else if k.read[s] {
							c.bad(key, cl.Clause.Pos(), "command %q mutates persistent state but %s lists it as a read", s, k.name)
						} else {
							c.ok(key, cl.Clause.Pos(), true, "mutating command not offered to scripts by this class (refused by the default arm)")
						}
					}
				}
			}
		}
	}
}

func contains(ss []string, s string) bool {
	for _, x := range ss {
		if x == s {
			return true
		}
	}
	return false
}

// reviewed table: dispatch-table commands that read guarded object state
// without the catching-up gate, each with its reason.
var ungatedReadReviewed = map[string]string{
	"stats":   "counters per key, not object reads; documented as a diagnostic",
	"follow":  "replication control must work on a follower that has not caught up",
	"slaveof": "alias of follow",
	"aof":     "replication stream request; serves the log file, not objects",
	"aofmd5":  "checksum of the log file, not objects",
	"client":  "connection table",
}

func ruleReadGate(c *Ctx) {
	a := c.muLK()
	if a.err != "" {
		c.und("engine", 0, "%s", a.err)
		return
	}
	ct := a.ct
	objLocs := map[string]bool{"Server.cols": true, "Collection": true}
	gatedRead := map[string]bool{}
	gatedClass := map[*LockClass]bool{}
	for _, cl := range ct.DT.Clauses {
		if cl.IsDefault {
			continue
		}
		for _, cmd := range cl.Strings {
			ltKey := cmd
			if i := strings.IndexByte(cmd, ' '); i >= 0 {
				ltKey = cmd[:i]
			}
			lc := ct.classOf(ltKey)
			var rd []*accState
			for _, h := range ct.Handlers[cl] {
				if h == ct.Command.Obj {
					continue
				}
				if u := a.lk.ofDecl[h]; u != nil {
					rd = append(rd, a.lk.reads(u, objLocs)...)
				}
			}
			gated := false
			if lc != nil {
				if g, ok := gatedClass[lc]; ok {
					gated = g
				} else {
					gated, _ = c.armGated(ct.HIC, ct.LT.Stmt, ltKey, "catchingup")
					gatedClass[lc] = gated
				}
			}
			if gated {
				gatedRead[cmd] = true
			}
			switch {
			case ct.DevOnly[cl]:
				c.ok(cmd, cl.Clause.Pos(), true, "developer-mode command: refused as unknown unless Options.DevMode")
			case len(rd) == 0:
				c.ok(cmd, cl.Clause.Pos(), false, "handler reads no object state")
			case lc != nil && lc.Write:
				c.ok(cmd, cl.Clause.Pos(), true, "write class: refused on every follower by the follower gate (R15.write-gates)")
			case gated:
				c.ok(cmd, cl.Clause.Pos(), true, "object-reading handler (%s) is behind the catching-up gate", rd[0].Acc.Desc)
			case cmd == "eval" || cmd == "evalsha":
				c.ok(cmd, cl.Clause.Pos(), true, "refused on every follower by the follower gate of the eval arm")
			case ungatedReadReviewed[cmd] != "":
				c.ok(cmd, cl.Clause.Pos(), true, "reviewed non-object read: %s", ungatedReadReviewed[cmd])
			default:
				c.badPath(cmd, cl.Clause.Pos(), []string{fmt.Sprintf("%s: %s at %s", rd[0].Unit.Name, rd[0].Acc.Desc, c.posStr(rd[0].Acc.Pos))},
					"command %q reads objects (%s) but its lock-table class has no catching-up gate: a follower that never caught up serves it", cmd, rd[0].Acc.Loc)
			}
		}
	}
	// evalna: gated per inner call by luaTile38NonAtomic (R15.write-gates checks that gate)
	// script read lists ⊆ gated read class ∪ reviewed extras
	for _, n := range []string{"luaTile38AtomicRW", "luaTile38AtomicRO", "luaTile38NonAtomic"} {
		fn, ss := scriptClassSwitch(c, n)
		if fn == nil || ss == nil {
			continue
		}
		for _, cl := range ss.Clauses {
			if cl.IsDefault {
				continue
			}
			lc := c.interpretLockArm(fn, ss, cl)
			if lc.Write || contains(lc.Returns, "errReadOnly") {
				continue
			}
			var extra []string
			for _, s := range cl.Strings {
				if !gatedRead[s] {
					extra = append(extra, s)
				}
			}
			sort.Strings(extra)
			c.ok("script-read-list/"+n, cl.Clause.Pos(), true, "script read list is gated by its own catching-up test (R15.write-gates); commands gated here but not at top level: %v", extra)
		}
	}
}

// ---------------------------------------------------------------------------

func ruleAuthDominates(c *Ctx) {
	ct := c.CT()
	if ct.Err != "" {
		c.und("tables", 0, "%s", ct.Err)
		return
	}
	hic := ct.HIC
	info := hic.Info()
	fg := newFlowGraph(info, hic.Decl.Body)
	authd := c.Field("internal/server", "Client", "authd")
	if authd == nil {
		c.und("anchors", 0, "Client.authd not found")
		return
	}
	reads := 0
	inspectNoLit(hic.Decl.Body, func(n ast.Node) bool {
		if se, ok := n.(*ast.SelectorExpr); ok && selField(info, se) == authd {
			reads++
		}
		return true
	})
	if reads == 0 {
		c.bad("auth-block", hic.Decl.Pos(), "client.authd is never read in handleInputCommand: no command is held back for authentication")
		return
	}
	// the situation: a password is configured, this connection has not authenticated, the dataset is loaded.
	// A path that stores client.authd = true has authenticated (R15.authd-store decides when that store may
	// happen) and is not followed.
	authStore := func(l Loc) bool {
		as, ok := l.Node.(*ast.AssignStmt)
		if !ok {
			return false
		}
		for _, lhs := range as.Lhs {
			if selField(info, lhs) == authd {
				return true
			}
		}
		return false
	}
	atSwitch := func(l Loc) bool { return l.Node.Pos() >= ct.LT.Stmt.Pos() }
	scen := func(cmd string, generic bool, msgauth byte) Scenario {
		return c.serverScenario(map[string]byte{"authd": '0', "requirepass": '1', "loaded": '1', "msgauth": msgauth}, cmd, generic)
	}
	// the command constants the function distinguishes before the lock switch
	consts := map[string]bool{}
	isCmd := func(x ast.Expr) bool {
		x = ast.Unparen(x)
		if isCommandCall(info, x) {
			return true
		}
		if _, ok := x.(*ast.Ident); ok {
			return isCommandCall(info, resolveLocal(info, hic.Decl.Body, x))
		}
		return false
	}
	inspectNoLit(hic.Decl.Body, func(n ast.Node) bool {
		if n == nil || n.Pos() >= ct.LT.Stmt.Pos() {
			return n == nil || n.Pos() < ct.LT.Stmt.Pos()
		}
		switch x := n.(type) {
		case *ast.BinaryExpr:
			if x.Op == token.EQL || x.Op == token.NEQ {
				for _, side := range [][2]ast.Expr{{x.X, x.Y}, {x.Y, x.X}} {
					if v, ok := constString(info, side[1]); ok && isCmd(side[0]) {
						consts[v] = true
					}
				}
			}
		case *ast.SwitchStmt:
			if x.Tag != nil && isCmd(x.Tag) {
				for _, cc := range x.Body.List {
					for _, e := range cc.(*ast.CaseClause).List {
						if v, ok := constString(info, e); ok {
							consts[v] = true
						}
					}
				}
			}
		}
		return true
	})
	// 1. an ordinary command (one that none of these constants names) never reaches the lock switch
	ok1 := true
	var w1 []ast.Node
	for _, ma := range []byte{'0', '1'} {
		if r, w := c.scenReach(fg, hic.Decl.Body, scen("", true, ma), Loc{}, atSwitch, authStore); r {
			ok1, w1 = false, w
		}
	}
	c.checkPath(ok1, "auth-dominates-lock-switch", hic.Decl.Pos(), w1,
		"with a password configured and client.authd false, no path reaches the lock switch (and therefore the dispatch) without storing client.authd = true",
		"with a password configured, a command of a connection that has not authenticated reaches the lock switch")
	// 2. the commands that do reach it unauthenticated
	allowed := map[string]bool{"output": true, "healthz": true}
	var exempt, badEx []string
	for _, k := range sortedKeys(consts) {
		for _, ma := range []byte{'0', '1'} {
			if r, _ := c.scenReach(fg, hic.Decl.Body, scen(k, false, ma), Loc{}, atSwitch, authStore); r {
				if len(exempt) == 0 || exempt[len(exempt)-1] != k {
					exempt = append(exempt, k)
					if !allowed[k] {
						badEx = append(badEx, k)
					}
				}
			}
		}
	}
	c.check(len(badEx) == 0, "auth-exemptions", hic.Decl.Pos(), fmt.Sprintf("commands dispatched without authentication %v ⊆ {output healthz}", exempt),
		fmt.Sprintf("commands %v bypass the password test", badEx))
	// 3. what the ordinary command is told
	refusal := func(r *ast.ReturnStmt) bool {
		for _, s := range returnStrings(info, r) {
			if s == "authentication required" || s == "invalid password" {
				return true
			}
		}
		// reviewed: the pages of the built-in viewer (internal/viewer: embedded static files, no server state)
		static := false
		ast.Inspect(r, func(n ast.Node) bool {
			if call, ok := n.(*ast.CallExpr); ok {
				if f := callee(info, call); f != nil && f.Pkg() != nil && f.Pkg().Path() == modPath+"/internal/viewer" {
					static = true
				}
			}
			return true
		})
		return static
	}
	sawRequired := false
	var other *ast.ReturnStmt
	c.scenReach(fg, hic.Decl.Body, scen("", true, '0'), Loc{}, func(l Loc) bool {
		if r, ok := l.Node.(*ast.ReturnStmt); ok {
			if contains(returnStrings(info, r), "authentication required") {
				sawRequired = true
			} else if !refusal(r) && other == nil {
				other = r
			}
		}
		return false
	}, authStore)
	switch {
	case other != nil:
		c.bad("auth-required-reply", other.Pos(), "an unauthenticated ordinary command gets a reply other than the refusal")
	case !sawRequired:
		c.bad("auth-required-reply", hic.Decl.Pos(), "no 'authentication required' reply is reachable for an unauthenticated command")
	default:
		c.ok("auth-required-reply", hic.Decl.Pos(), true, "every return an unauthenticated ordinary command can reach is the refusal 'authentication required' (or 'invalid password'), or a static page of the built-in viewer")
	}
	// 4. commands answered without authentication
	allowedEarly := map[string]bool{"ping": true, "echo": true, "hello": true, "timeout": true, "output": true, "auth": true}
	var early, badEarly []string
	for _, k := range sortedKeys(consts) {
		answered := false
		c.scenReach(fg, hic.Decl.Body, scen(k, false, '0'), Loc{}, func(l Loc) bool {
			if r, ok := l.Node.(*ast.ReturnStmt); ok && !refusal(r) {
				answered = true
			}
			return false
		}, func(l Loc) bool { return authStore(l) || atSwitch(l) })
		if answered {
			early = append(early, k)
			if !allowedEarly[k] {
				badEarly = append(badEarly, k)
			}
		}
	}
	c.check(len(badEarly) == 0, "early-replies", hic.Decl.Pos(), fmt.Sprintf("replies before the password test are limited to %v", early),
		fmt.Sprintf("commands %v are answered before the password test", badEarly))
}

func ruleAuthdStore(c *Ctx) {
	authd := c.Field("internal/server", "Client", "authd")
	if authd == nil {
		c.und("anchors", 0, "Client.authd not found")
		return
	}
	n := 0
	for _, fn := range c.AllFuncs("internal/server") {
		info := fn.Info()
		var stores []*ast.AssignStmt
		ast.Inspect(fn.Decl.Body, func(x ast.Node) bool {
			if as, ok := x.(*ast.AssignStmt); ok {
				for i, l := range as.Lhs {
					if selField(info, l) == authd {
						if len(as.Lhs) == len(as.Rhs) && boolConst(info, as.Rhs[i]) == '0' {
							continue
						}
						stores = append(stores, as)
					}
				}
			}
			return true
		})
		if len(stores) == 0 {
			continue
		}
		fg := newFlowGraph(info, fn.Decl.Body)
		// string locals that receive msg.Auth or an element of msg.Args
		msgAuthField := c.Field("internal/server", "Message", "Auth")
		msgArgsField := c.Field("internal/server", "Message", "Args")
		pwVars := map[types.Object]bool{}
		ast.Inspect(fn.Decl.Body, func(x ast.Node) bool {
			as, ok := x.(*ast.AssignStmt)
			if !ok || len(as.Lhs) != len(as.Rhs) {
				return true
			}
			for i, l := range as.Lhs {
				id, ok := ast.Unparen(l).(*ast.Ident)
				if !ok {
					continue
				}
				fromMsg := false
				ast.Inspect(as.Rhs[i], func(y ast.Node) bool {
					if se, ok := y.(*ast.SelectorExpr); ok {
						if f := selField(info, se); f != nil && (f == msgAuthField || f == msgArgsField) {
							fromMsg = true
						}
					}
					return true
				})
				if fromMsg {
					pwVars[info.ObjectOf(id)] = true
				}
			}
			return true
		})
		for _, st := range stores {
			n++
			key := funcName(fn.Obj) + "→authd=true"
			l := fg.LocOf(st)
			if !l.Valid() {
				c.bad(key, st.Pos(), "store to Client.authd inside a nested function literal: not analysable, and not where authentication belongs")
				continue
			}
			ok := false
			for _, f := range fg.DominatingFacts(l) {
				be, isBin := ast.Unparen(f.E).(*ast.BinaryExpr)
				if !isBin {
					continue
				}
				// requirePass() != TrimSpace(password), false edge; or == true edge
				isNeqFalse := be.Op == token.NEQ && f.Neg || be.Op == token.EQL && !f.Neg
				if !isNeqFalse {
					continue
				}
				hasReq, hasPw := false, false
				for _, side := range []ast.Expr{be.X, be.Y} {
					ast.Inspect(side, func(x ast.Node) bool {
						if call, ok := x.(*ast.CallExpr); ok {
							if f := callee(info, call); f != nil && f.Name() == "requirePass" {
								hasReq = true
							}
						}
						// the supplied password: a string local (whatever it is called) fed from msg.Auth or
						// the arguments, or msg.Auth itself
						if id, ok := x.(*ast.Ident); ok && pwVars[info.ObjectOf(id)] {
							hasPw = true
						}
						if se, ok := x.(*ast.SelectorExpr); ok && msgAuthField != nil && selField(info, se) == msgAuthField {
							hasPw = true
						}
						return true
					})
				}
				if hasReq && hasPw {
					ok = true
				}
			}
			c.check(ok, key, st.Pos(), "dominated by the equality edge of requirePass() vs the supplied password", "client.authd is set without the password having been compared equal to requirePass()")
		}
	}
	if n == 0 {
		c.bad("no-store", 0, "no store of true to Client.authd found: authentication can never succeed (or moved out of reach)")
	}
}

func ruleProtectedFirst(c *Ctx) {
	ns := c.Func("internal/server", "Server", "netServe")
	if ns == nil {
		c.und("anchors", 0, "netServe not found")
		return
	}
	info := ns.Info()
	// the connection closure: the literal started with `go` that has a net.Conn parameter
	var lit *ast.FuncLit
	ast.Inspect(ns.Decl.Body, func(n ast.Node) bool {
		if g, ok := n.(*ast.GoStmt); ok {
			if l, ok := ast.Unparen(g.Call.Fun).(*ast.FuncLit); ok && lit == nil {
				lit = l
			}
		}
		return true
	})
	if lit == nil {
		c.und("closure", ns.Decl.Pos(), "connection closure not found in netServe")
		return
	}
	fg := newFlowGraph(info, lit.Body)
	isRead := func(l Loc) bool {
		hit := false
		inspectNoLit(l.Node, func(n ast.Node) bool {
			if call, ok := n.(*ast.CallExpr); ok {
				if f := callee(info, call); f != nil && f.Name() == "Read" && isNetConnRecv(info, call) {
					hit = true
				}
			}
			return true
		})
		return hit
	}
	// the situation: the peer is not a loop-back address (both prefix tests fail) and the server is protected
	loopTests := 0
	scen := func(loopback, protected byte) Scenario {
		return atomsOnly(func(info *types.Info, body ast.Node) func(e ast.Expr) byte {
			return func(e ast.Expr) byte {
				call, ok := ast.Unparen(e).(*ast.CallExpr)
				if !ok {
					return '?'
				}
				f := callee(info, call)
				switch {
				case isFunc(f, "strings", "HasPrefix") && len(call.Args) == 2:
					if p, ok := constString(info, call.Args[1]); ok && (strings.HasPrefix(p, "127.") || strings.HasPrefix(p, "[::1]")) {
						loopTests++
						return loopback
					}
				case isMethod(f, "net", "IP", "IsLoopback") || isMethod(f, "net/netip", "Addr", "IsLoopback"):
					// the peer test in its parsed form (possibly inside a helper, which is evaluated under the
					// same scenario: a helper that answers 'local' for a peer it has no loop-back evidence for
					// — an address it cannot parse — does not evaluate to 'remote' and the read stays reachable)
					loopTests++
					return loopback
				case isMethod(f, modPath+"/internal/server", "Server", "isProtected"):
					return protected
				}
				return '?'
			}
		})
	}
	refused, w := c.scenReach(fg, lit.Body, scen('0', '1'), Loc{}, isRead, nil)
	local, _ := c.scenReach(fg, lit.Body, scen('1', '1'), Loc{}, isRead, nil)
	open, _ := c.scenReach(fg, lit.Body, scen('0', '0'), Loc{}, isRead, nil)
	switch {
	case loopTests == 0:
		c.und("protected-before-read", lit.Pos(), "no loop-back test (strings.HasPrefix(…, \"127.…\" / \"[::1]…\"), net.IP.IsLoopback) found on the way to conn.Read: the form of the peer test is not one this rule evaluates")
	case !local || !open:
		c.und("protected-before-read", lit.Pos(), "conn.Read is not reachable even for a loop-back peer or an unprotected server: the connection closure was not understood")
	default:
		c.checkPath(!refused, "protected-before-read", lit.Pos(), w,
			"for a non-loop-back peer of a protected server no path of the connection closure reaches conn.Read (it does for a loop-back peer and for an unprotected server)",
			"conn.Read is reachable for a non-loop-back peer although isProtected() is true")
	}
}

func isNetConnRecv(info *types.Info, call *ast.CallExpr) bool {
	se, ok := ast.Unparen(call.Fun).(*ast.SelectorExpr)
	if !ok {
		return false
	}
	tv, ok := info.Types[se.X]
	if !ok {
		return false
	}
	return isNamedType(tv.Type, "net", "Conn")
}

func ruleExhaustive(c *Ctx) {
	ct := c.CT()
	if ct.Err != "" {
		c.und("tables", 0, "%s", ct.Err)
		return
	}
	core := c.Pkgs["core"]
	if core == nil {
		c.und("core", 0, "package core not loaded")
		return
	}
	obj := core.Types.Scope().Lookup("commandsJSON")
	var js string
	switch o := obj.(type) {
	case *types.Const:
		js = constant.StringVal(o.Val())
	case *types.Var:
		// var commandsJSON = `...`: read the initializer
		for _, f := range core.Syntax {
			ast.Inspect(f, func(n ast.Node) bool {
				if vs, ok := n.(*ast.ValueSpec); ok {
					for i, nm := range vs.Names {
						if core.TypesInfo.ObjectOf(nm) == o && i < len(vs.Values) {
							if v, ok := constString(core.TypesInfo, vs.Values[i]); ok {
								js = v
							}
						}
					}
				}
				return true
			})
		}
	}
	var table map[string]json.RawMessage
	if js == "" || json.Unmarshal([]byte(js), &table) != nil {
		c.und("core/commandsJSON", 0, "documented command table not readable")
		return
	}
	dt := setOf(ct.DT.allStrings())
	pre := map[string]string{"ping": "early reply in handleInputCommand", "quit": "netServe", "auth": "authentication block", "timeout": "rewritten into the wrapped command"}
	for name := range table {
		lc := strings.ToLower(name)
		switch {
		case dt[lc]:
			c.ok("documented/"+lc, 0, true, "dispatch-table key")
		case pre[lc] != "":
			c.ok("documented/"+lc, 0, true, "handled before dispatch: %s", pre[lc])
		default:
			c.bad("documented/"+lc, 0, "documented command %q has no dispatch-table arm", name)
		}
	}
}
