package main

import (
	"encoding/json"
	"fmt"
	"go/ast"
	"go/constant"
	"go/token"
	"go/types"
	"sort"
	"strings"
)

func init() {
	register(&Rule{ID: "R15.write-gates", Props: []string{"C15", "C18", "C03"}, Floor: 20,
		Text: "every lock-table arm with write=true, and the eval/evalsha arm, tests followHost() != \"\" and readOnly() and returns the error before dispatch; the three script class switches have identical write lists, each within the lock-table write class; AtomicRW/NonAtomic gate their write arm the same way and AtomicRO returns errReadOnly for exactly that list",
		Run:  ruleWriteGates})
	register(&Rule{ID: "R15.read-gate", Props: []string{"C15", "C06"}, Floor: 20,
		Text: "every dispatch-table handler that reads objects (cols or a collection) is in a lock-table class with the catching-up gate (followHost() != \"\" && !caughtUpOnce()), or is in the reviewed table of non-object reads; the script read lists carry the same gate and are within the gated lock-table read class plus the reviewed extras",
		Run:  ruleReadGate})
	register(&Rule{ID: "R15.auth-dominates", Props: []string{"C15"}, Floor: 4,
		Text: "in handleInputCommand the authentication block dominates the lock switch and the dispatch; the commands that bypass it (early replies before it, exemptions in its condition) are within {ping echo output healthz auth} plus hello (error only)",
		Run:  ruleAuthDominates})
	register(&Rule{ID: "R15.authd-store", Props: []string{"C15"}, Floor: 1,
		Text: "every store of true to Client.authd anywhere in the server is dominated by the false edge of requirePass() != TrimSpace(password)",
		Run:  ruleAuthdStore})
	register(&Rule{ID: "R15.protected-first", Props: []string{"C15"}, Floor: 1,
		Text: "in the connection closure of netServe the loop-back prefix test and isProtected() dominate the first conn.Read, and the protected branch returns",
		Run:  ruleProtectedFirst})
	register(&Rule{ID: "R15.exhaustive", Props: []string{"C15"}, Floor: 55,
		Text: "every command of the documented command table (core.commandsJSON) is a dispatch-table key or is handled before dispatch (ping, quit, auth, timeout), and every dispatch-table key is classified by computed effect: mutating → write class (R3.write-class), object-reading → gated read class (R15.read-gate)",
		Run:  ruleExhaustive})
}

func scriptClassSwitch(c *Ctx, name string) (*FuncInfo, *strSwitch) {
	fn := c.Func("internal/server", "Server", name)
	if fn == nil {
		return nil, nil
	}
	info := fn.Info()
	var best *strSwitch
	for _, ss := range stringSwitches(fn, func(e ast.Expr) bool { return isCommandCall(info, e) }) {
		if best == nil || len(ss.Clauses) > len(best.Clauses) {
			best = ss
		}
	}
	return fn, best
}

func setOf(ss []string) map[string]bool {
	m := map[string]bool{}
	for _, s := range ss {
		m[s] = true
	}
	return m
}

func sortedKeys(m map[string]bool) []string {
	var out []string
	for k := range m {
		out = append(out, k)
	}
	sort.Strings(out)
	return out
}

func diff(a, b map[string]bool) []string {
	var out []string
	for k := range a {
		if !b[k] {
			out = append(out, k)
		}
	}
	sort.Strings(out)
	return out
}

func ruleWriteGates(c *Ctx) {
	ct := c.CT()
	if ct.Err != "" {
		c.und("tables", 0, "%s", ct.Err)
		return
	}
	ltWrite := map[string]bool{}
	for _, cl := range ct.LT.Clauses {
		lc := ct.LTClass[cl]
		isEval := false
		for _, s := range cl.Strings {
			if s == "eval" || s == "evalsha" {
				isEval = true
			}
		}
		if !lc.Write && !isEval {
			continue
		}
		name := strings.Join(cl.Strings, ",")
		for _, s := range cl.Strings {
			if lc.Write {
				ltWrite[s] = true
			}
		}
		c.check(lc.GateKind["not the leader"] == "follower", "lock-table/"+name+"/not-the-leader", cl.Clause.Pos(),
			"arm returns 'not the leader' when followHost() != \"\"", "write arm lacks the follower gate (followHost() != \"\" → 'not the leader')")
		c.check(lc.GateKind["read only"] == "readonly", "lock-table/"+name+"/read-only", cl.Clause.Pos(),
			"arm returns 'read only' when readOnly()", "write arm lacks the read-only gate (readOnly() → 'read only')")
		c.check(lc.Lock == LX, "lock-table/"+name+"/exclusive", cl.Clause.Pos(), "arm takes the exclusive lock", "write arm does not take the exclusive lock")
	}
	// script class switches
	type cls struct {
		name  string
		fn    *FuncInfo
		ss    *strSwitch
		write map[string]bool
		read  map[string]bool
	}
	var classes []*cls
	for _, n := range []string{"luaTile38AtomicRW", "luaTile38AtomicRO", "luaTile38NonAtomic"} {
		fn, ss := scriptClassSwitch(c, n)
		if fn == nil || ss == nil {
			c.und("script/"+n, 0, "class switch of %s not found", n)
			return
		}
		k := &cls{name: n, fn: fn, ss: ss, write: map[string]bool{}, read: map[string]bool{}}
		hasDefault := false
		for _, cl := range ss.Clauses {
			if cl.IsDefault {
				hasDefault = true
			}
		}
		if !hasDefault {
			c.bad("script/"+n+"/default", ss.Stmt.Pos(), "the script class switch of %s has no default arm: commands it does not list fall through to the dispatch ungated", n)
		}
		for _, cl := range ss.Clauses {
			if cl.IsDefault {
				lc := c.interpretLockArm(fn, ss, cl)
				c.check(contains(lc.Returns, "errCmdNotSupported"), "script/"+n+"/default", cl.Clause.Pos(),
					"unlisted commands are refused", "the default arm of the script class switch does not refuse unlisted commands")
				continue
			}
			lc := c.interpretLockArm(fn, ss, cl)
			isWrite := lc.Write || contains(lc.Returns, "errReadOnly")
			arm := strings.Join(cl.Strings, ",")
			if len(arm) > 40 {
				arm = arm[:40] + "…"
			}
			if isWrite {
				for _, s := range cl.Strings {
					k.write[s] = true
				}
				switch n {
				case "luaTile38AtomicRO":
					c.check(contains(lc.Returns, "errReadOnly"), "script/"+n+"/write-arm-refused", cl.Clause.Pos(),
						"write commands return errReadOnly unconditionally", "read-only script class does not refuse its write list")
				default:
					c.check(lc.GateKind["errNotLeader"] == "follower", "script/"+n+"/not-the-leader", cl.Clause.Pos(),
						"write arm returns errNotLeader when followHost() != \"\"", "script write arm lacks the follower gate")
					c.check(lc.GateKind["errReadOnly"] == "readonly", "script/"+n+"/read-only", cl.Clause.Pos(),
						"write arm returns errReadOnly when readOnly()", "script write arm lacks the read-only gate")
					if n == "luaTile38NonAtomic" {
						c.check(lc.Lock == LX && lc.Problem == "", "script/"+n+"/write-lock", cl.Clause.Pos(),
							"write arm takes the exclusive lock with a deferred release", "non-atomic script write arm does not take the exclusive lock: "+lc.Problem)
					}
				}
			} else {
				for _, s := range cl.Strings {
					k.read[s] = true
				}
				c.check(lc.GateKind["errCatchingUp"] == "catchingup", "script/"+n+"/catching-up", cl.Clause.Pos(),
					"read arm returns errCatchingUp when followHost() != \"\" && !caughtUpOnce()", "script read arm lacks the catching-up gate")
				if n == "luaTile38NonAtomic" {
					c.check(lc.Lock == LR && lc.Problem == "", "script/"+n+"/read-lock", cl.Clause.Pos(),
						"read arm takes the shared lock with a deferred release", "non-atomic script read arm does not take the shared lock: "+lc.Problem)
				}
			}
		}
		classes = append(classes, k)
	}
	for _, k := range classes {
		extra := diff(k.write, ltWrite)
		c.check(len(extra) == 0, "script/"+k.name+"/write-list-within-lock-table", k.ss.Stmt.Pos(),
			fmt.Sprintf("write list %v ⊆ lock-table write class", sortedKeys(k.write)),
			fmt.Sprintf("script write list contains %v which the lock table does not treat as writes", extra))
	}
	for _, k := range classes[1:] {
		d1, d2 := diff(classes[0].write, k.write), diff(k.write, classes[0].write)
		c.check(len(d1)+len(d2) == 0, "script/write-lists-agree/"+classes[0].name+"~"+k.name, k.ss.Stmt.Pos(),
			"write lists identical", fmt.Sprintf("write lists differ: only in %s %v, only in %s %v", classes[0].name, d1, k.name, d2))
		r1, r2 := diff(classes[0].read, k.read), diff(k.read, classes[0].read)
		c.check(len(r1)+len(r2) == 0, "script/read-lists-agree/"+classes[0].name+"~"+k.name, k.ss.Stmt.Pos(),
			"read lists identical", fmt.Sprintf("read lists differ: only in %s %v, only in %s %v", classes[0].name, r1, k.name, r2))
	}
	// a command that is a write for the lock table must never be in a script read list
	for _, k := range classes {
		var bad []string
		for s := range k.read {
			if ltWrite[s] {
				bad = append(bad, s)
			}
		}
		sort.Strings(bad)
		c.check(len(bad) == 0, "script/"+k.name+"/no-write-in-read-list", k.ss.Stmt.Pos(), "no lock-table write command in the script read list",
			fmt.Sprintf("commands %v are writes for the lock table but reads for the script class", bad))
	}
	// and every script-dispatchable mutating handler is in the script write list (commandInScript vs class lists)
	if cis := c.Func("internal/server", "Server", "commandInScript"); cis != nil {
		info := cis.Info()
		for _, ss := range stringSwitches(cis, func(e ast.Expr) bool { return isCommandCall(info, e) }) {
			for _, cl := range ss.Clauses {
				if cl.IsDefault {
					continue
				}
				hs, _ := c.armCallees(cis, cl.Clause.Body)
				mut := false
				for _, h := range hs {
					if len(persistEffects(c, h)) > 0 {
						mut = true
					}
				}
				for _, s := range cl.Strings {
					if !mut {
						continue
					}
					for _, k := range classes {
						key := "script/" + k.name + "/mutating-in-write-list/" + s
						if k.write[s] {
							c.ok(key, cl.Clause.Pos(), true, "mutating script command is in the write list")
						} else if k.read[s] {
							c.bad(key, cl.Clause.Pos(), "command %q mutates persistent state but %s lists it as a read", s, k.name)
						} else {
							c.ok(key, cl.Clause.Pos(), true, "mutating command not offered to scripts by this class (refused by the default arm)")
						}
					}
				}
			}
		}
	}
}

func contains(ss []string, s string) bool {
	for _, x := range ss {
		if x == s {
			return true
		}
	}
	return false
}

// reviewed table: dispatch-table commands that read guarded object state
// without the catching-up gate, each with its reason.
var ungatedReadReviewed = map[string]string{
	"stats":   "counters per key, not object reads; documented as a diagnostic",
	"follow":  "replication control must work on a follower that has not caught up",
	"slaveof": "alias of follow",
	"aof":     "replication stream request; serves the log file, not objects",
	"aofmd5":  "checksum of the log file, not objects",
	"client":  "connection table",
}

func ruleReadGate(c *Ctx) {
	a := c.muLK()
	if a.err != "" {
		c.und("engine", 0, "%s", a.err)
		return
	}
	ct := a.ct
	objLocs := map[string]bool{"Server.cols": true, "Collection": true}
	gatedRead := map[string]bool{}
	for _, cl := range ct.DT.Clauses {
		if cl.IsDefault {
			continue
		}
		for _, cmd := range cl.Strings {
			ltKey := cmd
			if i := strings.IndexByte(cmd, ' '); i >= 0 {
				ltKey = cmd[:i]
			}
			lc := ct.classOf(ltKey)
			var rd []*accState
			for _, h := range ct.Handlers[cl] {
				if h == ct.Command.Obj {
					continue
				}
				if u := a.lk.ofDecl[h]; u != nil {
					rd = append(rd, a.lk.reads(u, objLocs)...)
				}
			}
			gated := lc != nil && lc.GateKind["catching up to leader"] == "catchingup"
			if gated {
				gatedRead[cmd] = true
			}
			switch {
			case ct.DevOnly[cl]:
				c.ok(cmd, cl.Clause.Pos(), true, "developer-mode command: refused as unknown unless Options.DevMode")
			case len(rd) == 0:
				c.ok(cmd, cl.Clause.Pos(), false, "handler reads no object state")
			case lc != nil && lc.Write:
				c.ok(cmd, cl.Clause.Pos(), true, "write class: refused on every follower by the follower gate (R15.write-gates)")
			case gated:
				c.ok(cmd, cl.Clause.Pos(), true, "object-reading handler (%s) is behind the catching-up gate", rd[0].Acc.Desc)
			case cmd == "eval" || cmd == "evalsha":
				c.ok(cmd, cl.Clause.Pos(), true, "refused on every follower by the follower gate of the eval arm")
			case ungatedReadReviewed[cmd] != "":
				c.ok(cmd, cl.Clause.Pos(), true, "reviewed non-object read: %s", ungatedReadReviewed[cmd])
			default:
				c.badPath(cmd, cl.Clause.Pos(), []string{fmt.Sprintf("%s: %s at %s", rd[0].Unit.Name, rd[0].Acc.Desc, c.posStr(rd[0].Acc.Pos))},
					"command %q reads objects (%s) but its lock-table class has no catching-up gate: a follower that never caught up serves it", cmd, rd[0].Acc.Loc)
			}
		}
	}
	// evalna: gated per inner call by luaTile38NonAtomic (R15.write-gates checks that gate)
	// script read lists ⊆ gated read class ∪ reviewed extras
	for _, n := range []string{"luaTile38AtomicRW", "luaTile38AtomicRO", "luaTile38NonAtomic"} {
		fn, ss := scriptClassSwitch(c, n)
		if fn == nil || ss == nil {
			continue
		}
		for _, cl := range ss.Clauses {
			if cl.IsDefault {
				continue
			}
			lc := c.interpretLockArm(fn, ss, cl)
			if lc.Write || contains(lc.Returns, "errReadOnly") {
				continue
			}
			var extra []string
			for _, s := range cl.Strings {
				if !gatedRead[s] {
					extra = append(extra, s)
				}
			}
			sort.Strings(extra)
			c.ok("script-read-list/"+n, cl.Clause.Pos(), true, "script read list is gated by its own catching-up test (R15.write-gates); commands gated here but not at top level: %v", extra)
		}
	}
}

// ---------------------------------------------------------------------------

func ruleAuthDominates(c *Ctx) {
	ct := c.CT()
	if ct.Err != "" {
		c.und("tables", 0, "%s", ct.Err)
		return
	}
	hic := ct.HIC
	info := hic.Info()
	fg := newFlowGraph(info, hic.Decl.Body)
	authd := c.Field("internal/server", "Client", "authd")
	// the auth block: the if statement whose condition reads client.authd
	var authIf *ast.IfStmt
	inspectNoLit(hic.Decl.Body, func(n ast.Node) bool {
		if s, ok := n.(*ast.IfStmt); ok && authIf == nil {
			reads := false
			ast.Inspect(s.Cond, func(x ast.Node) bool {
				if se, ok := x.(*ast.SelectorExpr); ok && selField(info, se) == authd {
					reads = true
				}
				return true
			})
			if reads {
				authIf = s
			}
		}
		return true
	})
	if authIf == nil {
		c.bad("auth-block", hic.Decl.Pos(), "no test of client.authd in handleInputCommand")
		return
	}
	al := fg.LocOf(authIf.Cond)
	sl := fg.LocOf(ct.LT.Stmt.Tag)
	c.check(al.Valid() && sl.Valid() && fg.Dominates(al, sl), "auth-dominates-lock-switch", authIf.Pos(),
		"the authd test dominates the lock switch (and therefore the dispatch)", "the lock switch is reachable without passing the authentication test")
	// exemptions in the condition: cmd != "x" conjuncts; and `cmd == "auth"` disjunct
	allowed := map[string]bool{"ping": true, "echo": true, "output": true, "healthz": true, "auth": true}
	var exempt []string
	ast.Inspect(authIf.Cond, func(n ast.Node) bool {
		if be, ok := n.(*ast.BinaryExpr); ok && be.Op == token.NEQ {
			if v, ok := constString(info, be.Y); ok {
				exempt = append(exempt, v)
			} else if v, ok := constString(info, be.X); ok {
				exempt = append(exempt, v)
			}
		}
		return true
	})
	var badEx []string
	for _, e := range exempt {
		if !allowed[e] {
			badEx = append(badEx, e)
		}
	}
	c.check(len(badEx) == 0, "auth-exemptions", authIf.Pos(), fmt.Sprintf("commands exempt from the password test %v ⊆ {ping echo output healthz auth}", exempt),
		fmt.Sprintf("commands %v bypass the password test", badEx))
	// the condition must enter the block when !authd (the negation of authd is a disjunct of the entry condition)
	shapeOK := false
	ast.Inspect(authIf.Cond, func(n ast.Node) bool {
		if ue, ok := n.(*ast.UnaryExpr); ok && ue.Op == token.NOT {
			if se, ok := ast.Unparen(ue.X).(*ast.SelectorExpr); ok && selField(info, se) == authd {
				shapeOK = true
			}
		}
		return true
	})
	c.check(shapeOK, "auth-entry-on-unauthenticated", authIf.Pos(), "the block is entered when !client.authd", "the authentication block is not entered on !client.authd")
	// inside the block: when requirePass() != "" and the command is not auth and carries no Auth → return error
	// (structural: the block contains a return of "authentication required" dominated by requirePass() != "")
	found := false
	ast.Inspect(authIf.Body, func(n ast.Node) bool {
		if r, ok := n.(*ast.ReturnStmt); ok {
			for _, s := range returnStrings(info, r) {
				if s == "authentication required" {
					found = true
				}
			}
		}
		return true
	})
	c.check(found, "auth-required-reply", authIf.Pos(), "unauthenticated commands are answered 'authentication required'", "no 'authentication required' reply in the authentication block")
	// early replies before the auth block: returns that are reachable from entry without passing the auth test
	early := map[string]bool{}
	for _, r := range fg.Returns() {
		if !fg.Dominates(al, r) {
			// which command constants guard it?
			for _, f := range fg.DominatingFacts(r) {
				if f.Neg {
					continue
				}
				ast.Inspect(f.E, func(n ast.Node) bool {
					if be, ok := n.(*ast.BinaryExpr); ok && be.Op == token.EQL {
						if v, ok := constString(info, be.Y); ok {
							early[v] = true
						}
					}
					return true
				})
				if f.Tag != nil {
					if v, ok := constString(info, f.E); ok {
						early[v] = true
					}
				}
			}
		}
	}
	allowedEarly := map[string]bool{"ping": true, "echo": true, "hello": true, "timeout": true, "output": true, "auth": true, "viewer": true, "viewer/": true}
	var badEarly []string
	for e := range early {
		if !allowedEarly[e] {
			badEarly = append(badEarly, e)
		}
	}
	sort.Strings(badEarly)
	c.check(len(badEarly) == 0, "early-replies", hic.Decl.Pos(), fmt.Sprintf("replies before the password test are limited to %v", sortedKeys(early)),
		fmt.Sprintf("commands %v are answered before the password test", badEarly))
}

func ruleAuthdStore(c *Ctx) {
	authd := c.Field("internal/server", "Client", "authd")
	if authd == nil {
		c.und("anchors", 0, "Client.authd not found")
		return
	}
	n := 0
	for _, fn := range c.AllFuncs("internal/server") {
		info := fn.Info()
		var stores []*ast.AssignStmt
		ast.Inspect(fn.Decl.Body, func(x ast.Node) bool {
			if as, ok := x.(*ast.AssignStmt); ok {
				for i, l := range as.Lhs {
					if selField(info, l) == authd {
						if len(as.Lhs) == len(as.Rhs) && boolConst(info, as.Rhs[i]) == '0' {
							continue
						}
						stores = append(stores, as)
					}
				}
			}
			return true
		})
		if len(stores) == 0 {
			continue
		}
		fg := newFlowGraph(info, fn.Decl.Body)
		for _, st := range stores {
			n++
			key := funcName(fn.Obj) + "→authd=true"
			l := fg.LocOf(st)
			if !l.Valid() {
				c.bad(key, st.Pos(), "store to Client.authd inside a nested function literal: not analysable, and not where authentication belongs")
				continue
			}
			ok := false
			for _, f := range fg.DominatingFacts(l) {
				be, isBin := ast.Unparen(f.E).(*ast.BinaryExpr)
				if !isBin {
					continue
				}
				// requirePass() != TrimSpace(password), false edge; or == true edge
				isNeqFalse := be.Op == token.NEQ && f.Neg || be.Op == token.EQL && !f.Neg
				if !isNeqFalse {
					continue
				}
				hasReq, hasPw := false, false
				for _, side := range []ast.Expr{be.X, be.Y} {
					ast.Inspect(side, func(x ast.Node) bool {
						if call, ok := x.(*ast.CallExpr); ok {
							if f := callee(info, call); f != nil && f.Name() == "requirePass" {
								hasReq = true
							}
						}
						if id, ok := x.(*ast.Ident); ok && id.Name == "password" {
							hasPw = true
						}
						return true
					})
				}
				if hasReq && hasPw {
					ok = true
				}
			}
			c.check(ok, key, st.Pos(), "dominated by the equality edge of requirePass() vs the supplied password", "client.authd is set without the password having been compared equal to requirePass()")
		}
	}
	if n == 0 {
		c.bad("no-store", 0, "no store of true to Client.authd found: authentication can never succeed (or moved out of reach)")
	}
}

func ruleProtectedFirst(c *Ctx) {
	ns := c.Func("internal/server", "Server", "netServe")
	if ns == nil {
		c.und("anchors", 0, "netServe not found")
		return
	}
	info := ns.Info()
	// the connection closure: the literal started with `go` that has a net.Conn parameter
	var lit *ast.FuncLit
	ast.Inspect(ns.Decl.Body, func(n ast.Node) bool {
		if g, ok := n.(*ast.GoStmt); ok {
			if l, ok := ast.Unparen(g.Call.Fun).(*ast.FuncLit); ok && lit == nil {
				lit = l
			}
		}
		return true
	})
	if lit == nil {
		c.und("closure", ns.Decl.Pos(), "connection closure not found in netServe")
		return
	}
	fg := newFlowGraph(info, lit.Body)
	reads := fg.FindCalls(func(f *types.Func, call *ast.CallExpr) bool {
		return f != nil && f.Name() == "Read" && isNetConnRecv(info, call)
	})
	prot := fg.FindCalls(func(f *types.Func, call *ast.CallExpr) bool {
		return isMethod(f, modPath+"/internal/server", "Server", "isProtected")
	})
	if len(reads) == 0 || len(prot) == 0 {
		c.bad("protected-before-read", lit.Pos(), "conn.Read or isProtected() not found in the connection closure")
		return
	}
	for _, r := range reads {
		// every path from entry to the read passes the loop-back test; on the
		// non-loop-back side it passes isProtected() whose true edge returns.
		okDom := false
		for _, p := range prot {
			// the block testing isProtected must be reached on all non-loopback paths: the
			// HasPrefix test dominates the read and the isProtected block is its true-branch
			_ = p
		}
		pref := fg.FindCalls(func(f *types.Func, call *ast.CallExpr) bool { return isFunc(f, "strings", "HasPrefix") })
		for _, h := range pref {
			if fg.Dominates(h, r) {
				okDom = true
			}
		}
		// the read must not be reachable from the true edge of isProtected()
		leak := false
		for _, p := range prot {
			b := p.Block
			if len(b.Succs) == 2 {
				reach, _ := fg.Reach(PathQuery{From: Loc{b, len(b.Nodes) - 1, nil}, Target: func(l Loc) bool { return l.Block == r.Block && l.Idx == r.Idx },
					EdgeOK: func(from *cfgBlock, si int) bool { return !(from == b && si == 1) }})
				if reach {
					leak = true
				}
			}
			// and isProtected must be tested before the read on the non-loopback path: p dominates r is too strong (loop-back skips it),
			// so require: r not reachable from entry when the HasPrefix true-branch... covered by okDom + leak.
			if !fg.Reachable(b) {
				leak = true
			}
		}
		c.check(okDom && !leak, "protected-before-read", r.Node.Pos(),
			"the loop-back test dominates conn.Read and the protected branch cannot reach it", "conn.Read is reachable without the loop-back/protected-mode test, or after isProtected() returned true")
	}
}

func isNetConnRecv(info *types.Info, call *ast.CallExpr) bool {
	se, ok := ast.Unparen(call.Fun).(*ast.SelectorExpr)
	if !ok {
		return false
	}
	tv, ok := info.Types[se.X]
	if !ok {
		return false
	}
	return isNamedType(tv.Type, "net", "Conn")
}

func ruleExhaustive(c *Ctx) {
	ct := c.CT()
	if ct.Err != "" {
		c.und("tables", 0, "%s", ct.Err)
		return
	}
	core := c.Pkgs["core"]
	if core == nil {
		c.und("core", 0, "package core not loaded")
		return
	}
	obj := core.Types.Scope().Lookup("commandsJSON")
	var js string
	switch o := obj.(type) {
	case *types.Const:
		js = constant.StringVal(o.Val())
	case *types.Var:
		// var commandsJSON = `...`: read the initializer
		for _, f := range core.Syntax {
			ast.Inspect(f, func(n ast.Node) bool {
				if vs, ok := n.(*ast.ValueSpec); ok {
					for i, nm := range vs.Names {
						if core.TypesInfo.ObjectOf(nm) == o && i < len(vs.Values) {
							if v, ok := constString(core.TypesInfo, vs.Values[i]); ok {
								js = v
							}
						}
					}
				}
				return true
			})
		}
	}
	var table map[string]json.RawMessage
	if js == "" || json.Unmarshal([]byte(js), &table) != nil {
		c.und("core/commandsJSON", 0, "documented command table not readable")
		return
	}
	dt := setOf(ct.DT.allStrings())
	pre := map[string]string{"ping": "early reply in handleInputCommand", "quit": "netServe", "auth": "authentication block", "timeout": "rewritten into the wrapped command"}
	for name := range table {
		lc := strings.ToLower(name)
		switch {
		case dt[lc]:
			c.ok("documented/"+lc, 0, true, "dispatch-table key")
		case pre[lc] != "":
			c.ok("documented/"+lc, 0, true, "handled before dispatch: %s", pre[lc])
		default:
			c.bad("documented/"+lc, 0, "documented command %q has no dispatch-table arm", name)
		}
	}
}
