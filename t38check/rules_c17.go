package main

import (
	"fmt"
	"go/ast"
	"go/types"
)

func init() {
	register(&Rule{ID: "R17.json-fragments", Props: []string{"C17", "C05", "C10"}, Floor: 100,
		Text: "JSON fragment typing over all hand-assembled JSON of internal/server (string concatenations, appends to byte buffers, Sprintf formats with JSON-looking literals): the literal text is scanned with a JSON lexer; a hole between double quotes must be produced by a quote-free text producer, a hole after ':' by a JSON value producer (jsonString, appendJSONString, JSON(), AppendJSON, strconv integer/bool/'f' float formatters, jsonTimeFormat, ConvertToJSON, nested checked builders), any other hole by a reviewed value, fragment, list or text producer; a chain must not end inside a string",
		Run:  ruleJSONFragments})
	register(&Rule{ID: "R17.both-modes", Props: []string{"C17"}, Floor: 30,
		Text: "every handler that switches on msg.OutputType has both a JSON and a RESP arm (or a default), so that no mode falls through to an empty reply by omission",
		Run:  ruleBothModes})
}

func ruleJSONFragments(c *Ctx) {
	nChains, nHoles := 0, 0
	for _, rel := range []string{"internal/server", "internal/field", "internal/collection"} {
		for _, fn := range c.AllFuncs(rel) {
			ord := map[string]int{}
			for _, ch := range collectChains(c, fn) {
				nChains++
				for _, f := range checkChain(c, ch) {
					nHoles++
					desc := "end-of-chain"
					if f.hole != nil {
						desc = exprStr(f.hole)
					}
					ord[desc]++
					key := fmt.Sprintf("%s→%s@%s", funcName(fn.Obj), desc, f.where)
					if ord[desc] > 1 {
						key = fmt.Sprintf("%s#%d", key, ord[desc])
					}
					pos := ch.pos
					if f.hole != nil {
						pos = f.hole.Pos()
					}
					if f.hole == nil && f.msg != "" {
						c.bad(key, pos, "%s", f.msg)
					} else if f.ok {
						c.ok(key, pos, true, "%s position: %s", f.where, f.why)
					} else {
						c.bad(key, pos, "%s", f.msg)
					}
				}
			}
		}
	}
	c.stat("json_chains", nChains)
	c.stat("json_holes", nHoles)
}

func ruleBothModes(c *Ctx) {
	ot := c.Field("internal/server", "Message", "OutputType")
	for _, fn := range c.AllFuncs("internal/server") {
		info := fn.Info()
		n := 0
		ast.Inspect(fn.Decl.Body, func(x ast.Node) bool {
			sw, ok := x.(*ast.SwitchStmt)
			if !ok || sw.Tag == nil || selField(info, sw.Tag) != ot {
				return true
			}
			n++
			hasJSON, hasRESP, hasDefault := false, false, false
			for _, cc := range sw.Body.List {
				cl := cc.(*ast.CaseClause)
				if cl.List == nil {
					hasDefault = true
				}
				for _, e := range cl.List {
					if id, ok := ast.Unparen(e).(*ast.Ident); ok {
						if o, ok := info.ObjectOf(id).(*types.Const); ok {
							switch o.Name() {
							case "JSON":
								hasJSON = true
							case "RESP":
								hasRESP = true
							}
						}
					}
				}
			}
			key := fmt.Sprintf("%s#%d", funcName(fn.Obj), n)
			c.check((hasJSON && hasRESP) || hasDefault, key, sw.Pos(), "JSON and RESP arms present", fmt.Sprintf("the OutputType switch has JSON=%v RESP=%v default=%v: one output mode silently gets an empty reply", hasJSON, hasRESP, hasDefault))
			return true
		})
	}
}
