package main

import (
	"encoding/json"
	"fmt"
	"go/ast"
	"go/constant"
	"go/token"
	"go/types"
	"regexp"
	"sort"
	"strconv"
	"strings"
)

func init() {
	register(&Rule{ID: "R17.json-fragments", Props: []string{"C17", "C05", "C10"}, Floor: 100,
		Text: "JSON fragment typing over all hand-assembled JSON of internal/server (string concatenations, appends to byte buffers, Sprintf formats with JSON-looking literals): the literal text is scanned with a JSON lexer; a hole between double quotes must be produced by a quote-free text producer, a hole after ':' by a JSON value producer (jsonString, appendJSONString, JSON(), AppendJSON, strconv integer/bool/'f' float formatters, jsonTimeFormat, ConvertToJSON, nested checked builders), any other hole by a reviewed value, fragment, list or text producer; a chain must not end inside a string",
		Run:  ruleJSONFragments})
	register(&Rule{ID: "R17.both-modes", Props: []string{"C17"}, Floor: 30,
		Text: "every handler that switches on msg.OutputType has both a JSON and a RESP arm (or a default), so that no mode falls through to an empty reply by omission",
		Run:  ruleBothModes})
}

func ruleJSONFragments(c *Ctx) {
	nChains, nHoles := 0, 0
	for _, rel := range []string{"internal/server", "internal/field", "internal/collection"} {
		for _, fn := range c.AllFuncs(rel) {
			ord := map[string]int{}
			for _, ch := range collectChains(c, fn) {
				nChains++
				for _, f := range checkChain(c, ch) {
					nHoles++
					desc := "end-of-chain"
					if f.hole != nil {
						desc = exprStr(f.hole)
					}
					ord[desc]++
					key := fmt.Sprintf("%s→%s@%s", funcName(fn.Obj), desc, f.where)
					if ord[desc] > 1 {
						key = fmt.Sprintf("%s#%d", key, ord[desc])
					}
					pos := ch.pos
					if f.hole != nil {
						pos = f.hole.Pos()
					}
					if f.hole == nil && f.msg != "" {
						c.bad(key, pos, "%s", f.msg)
					} else if f.ok {
						c.ok(key, pos, true, "%s position: %s", f.where, f.why)
					} else {
						c.bad(key, pos, "%s", f.msg)
					}
				}
			}
		}
	}
	c.stat("json_chains", nChains)
	c.stat("json_holes", nHoles)
}

func ruleBothModes(c *Ctx) {
	ot := c.Field("internal/server", "Message", "OutputType")
	for _, fn := range c.AllFuncs("internal/server") {
		info := fn.Info()
		n := 0
		ast.Inspect(fn.Decl.Body, func(x ast.Node) bool {
			sw, ok := x.(*ast.SwitchStmt)
			if !ok || sw.Tag == nil || selField(info, sw.Tag) != ot {
				return true
			}
			n++
			hasJSON, hasRESP, hasDefault := false, false, false
			for _, cc := range sw.Body.List {
				cl := cc.(*ast.CaseClause)
				if cl.List == nil {
					hasDefault = true
				}
				for _, e := range cl.List {
					if id, ok := ast.Unparen(e).(*ast.Ident); ok {
						if o, ok := info.ObjectOf(id).(*types.Const); ok {
							switch o.Name() {
							case "JSON":
								hasJSON = true
							case "RESP":
								hasRESP = true
							}
						}
					}
				}
			}
			key := fmt.Sprintf("%s#%d", funcName(fn.Obj), n)
			c.check((hasJSON && hasRESP) || hasDefault, key, sw.Pos(), "JSON and RESP arms present", fmt.Sprintf("the OutputType switch has JSON=%v RESP=%v default=%v: one output mode silently gets an empty reply", hasJSON, hasRESP, hasDefault))
			return true
		})
	}
}

func init() {
	register(&Rule{ID: "R17.string-encoder", Props: []string{"C17"}, Floor: 2,
		Text: "the repository's own JSON string encoders (jsonString, appendJSONString — the producers the fragment typing trusts for every id, field name, payload and error text): every return is either the quote-wrapped input on the fast path or the output of encoding/json.Marshal on the slow path, and the fast path is reachable only for inputs all of whose bytes are printable ASCII other than '\"' and '\\\\' — the byte test is evaluated for all 256 byte values",
		Run:  ruleStringEncoder})
}

// evalByteCond evaluates a boolean expression over a single byte operand (an index expression) for one byte value.
func evalByteCond(info *types.Info, e ast.Expr, b int64) (val bool, ok bool) {
	var num func(e ast.Expr) (int64, bool)
	num = func(e ast.Expr) (int64, bool) {
		e = ast.Unparen(e)
		if tv, has := info.Types[e]; has && tv.Value != nil {
			if v, exact := constant.Int64Val(constant.ToInt(tv.Value)); exact {
				return v, true
			}
		}
		if _, isIdx := e.(*ast.IndexExpr); isIdx {
			return b, true
		}
		return 0, false
	}
	e = ast.Unparen(e)
	switch x := e.(type) {
	case *ast.UnaryExpr:
		if x.Op == token.NOT {
			v, ok := evalByteCond(info, x.X, b)
			return !v, ok
		}
	case *ast.BinaryExpr:
		switch x.Op {
		case token.LOR, token.LAND:
			l, ok1 := evalByteCond(info, x.X, b)
			r, ok2 := evalByteCond(info, x.Y, b)
			if !ok1 || !ok2 {
				return false, false
			}
			if x.Op == token.LOR {
				return l || r, true
			}
			return l && r, true
		case token.LSS, token.GTR, token.LEQ, token.GEQ, token.EQL, token.NEQ:
			l, ok1 := num(x.X)
			r, ok2 := num(x.Y)
			if !ok1 || !ok2 {
				return false, false
			}
			switch x.Op {
			case token.LSS:
				return l < r, true
			case token.GTR:
				return l > r, true
			case token.LEQ:
				return l <= r, true
			case token.GEQ:
				return l >= r, true
			case token.EQL:
				return l == r, true
			default:
				return l != r, true
			}
		}
	}
	return false, false
}

func ruleStringEncoder(c *Ctx) {
	for _, name := range []string{"jsonString", "appendJSONString"} {
		fn := c.Func("internal/server", "", name)
		if fn == nil {
			c.und(name, 0, "%s not found", name)
			continue
		}
		info := fn.Info()
		fg := newFlowGraph(info, fn.Decl.Body)
		// the string parameter
		var sObj types.Object
		for _, p := range fn.Decl.Type.Params.List {
			for _, nm := range p.Names {
				if b, ok := info.ObjectOf(nm).Type().Underlying().(*types.Basic); ok && b.Kind() == types.String {
					sObj = info.ObjectOf(nm)
				}
			}
		}
		if sObj == nil {
			c.und(name, fn.Decl.Pos(), "string parameter not found")
			continue
		}
		// the scan loop with the byte test
		var test *ast.IfStmt
		var loop *ast.ForStmt
		inspectNoLit(fn.Decl.Body, func(n ast.Node) bool {
			fs, ok := n.(*ast.ForStmt)
			if !ok || loop != nil {
				return true
			}
			for _, st := range fs.Body.List {
				if ifs, ok := st.(*ast.IfStmt); ok && ifs.Init == nil && ifs.Else == nil {
					test, loop = ifs, fs
				}
			}
			return true
		})
		if test == nil {
			c.bad(name+"/byte-test", fn.Decl.Pos(), "no loop over the bytes of the input with an escape test: the input is emitted between quotes unexamined")
			continue
		}
		// the loop visits every byte: for i := 0; i < len(s); i++
		full := false
		if be, ok := loop.Cond.(*ast.BinaryExpr); ok && be.Op == token.LSS {
			if call, ok := ast.Unparen(be.Y).(*ast.CallExpr); ok && len(call.Args) == 1 {
				if id, ok := ast.Unparen(call.Args[0]).(*ast.Ident); ok && info.ObjectOf(id) == sObj {
					if as, ok := loop.Init.(*ast.AssignStmt); ok && len(as.Rhs) == 1 {
						if tv, ok := info.Types[as.Rhs[0]]; ok && tv.Value != nil && tv.Value.String() == "0" {
							if inc, ok := loop.Post.(*ast.IncDecStmt); ok && inc.Tok == token.INC {
								full = true
							}
						}
					}
				}
			}
		}
		c.check(full, name+"/scans-every-byte", loop.Pos(), "the escape test runs for i = 0 .. len(s)-1", "the loop with the escape test does not visit every byte of the input")
		// evaluate the test for all byte values
		var missed []string
		undecided := false
		for b := int64(0); b < 256; b++ {
			v, ok := evalByteCond(info, test.Cond, b)
			if !ok {
				undecided = true
				break
			}
			needs := b < 0x20 || b == '"' || b == '\\' || b >= 0x80
			if needs && !v {
				missed = append(missed, fmt.Sprintf("0x%02x", b))
			}
		}
		switch {
		case undecided:
			c.und(name+"/byte-test", test.Pos(), "the escape test %s is not a comparison of the current byte with constants", exprStr(test.Cond))
		case len(missed) > 0:
			if len(missed) > 8 {
				missed = append(missed[:8], "...")
			}
			c.bad(name+"/byte-test", test.Pos(), "the fast path (input copied between quotes) is taken for bytes that need escaping in JSON: %s", strings.Join(missed, " "))
		default:
			c.ok(name+"/byte-test", test.Pos(), true, "every control byte, '\"', '\\\\' and every byte >= 0x80 takes the slow path (evaluated for all 256 byte values)")
		}
		// slow path: every return inside the test's body derives from json.Marshal(s)
		okSlow, nSlow := true, 0
		var badAt token.Pos
		marshalVars := map[types.Object]bool{}
		ast.Inspect(test.Body, func(n ast.Node) bool {
			if as, ok := n.(*ast.AssignStmt); ok && len(as.Rhs) == 1 {
				if call, ok := ast.Unparen(as.Rhs[0]).(*ast.CallExpr); ok {
					if f := callee(info, call); funcKey(f) == "encoding/json.Marshal" && len(call.Args) == 1 {
						if id, ok := ast.Unparen(call.Args[0]).(*ast.Ident); ok && info.ObjectOf(id) == sObj {
							if l, ok := as.Lhs[0].(*ast.Ident); ok {
								marshalVars[info.ObjectOf(l)] = true
							}
						}
					}
				}
			}
			return true
		})
		fromMarshal := func(e ast.Expr) bool {
			hit, other := false, false
			ast.Inspect(e, func(n ast.Node) bool {
				switch x := n.(type) {
				case *ast.Ident:
					o := info.ObjectOf(x)
					if marshalVars[o] {
						hit = true
					} else if o == sObj {
						other = true // the raw input
					}
				case *ast.CallExpr:
					if f := callee(info, x); f != nil && f.Pkg() != nil && funcKey(f) != "encoding/json.Marshal" {
						other = true // some other producer
					}
				case *ast.BasicLit:
					if x.Kind == token.STRING || x.Kind == token.CHAR {
						other = true
					}
				}
				return true
			})
			return hit && !other
		}
		ast.Inspect(test.Body, func(n ast.Node) bool {
			if r, ok := n.(*ast.ReturnStmt); ok {
				nSlow++
				if len(r.Results) != 1 || !fromMarshal(r.Results[0]) {
					okSlow, badAt = false, r.Pos()
				}
			}
			return true
		})
		if nSlow == 0 {
			okSlow, badAt = false, test.Pos()
		}
		if badAt == token.NoPos {
			badAt = test.Pos()
		}
		c.check(okSlow, name+"/slow-path-json-encoder", badAt, "strings that need escaping are encoded by encoding/json.Marshal", "a string that needs escaping is not encoded by encoding/json.Marshal (Go quoting such as strconv.Quote emits \\\\x01, \\\\a, \\\\v, \\\\U…, which are not JSON escapes): replies carrying such ids, field names or error texts are not valid JSON")
		// every other return lies after the loop (fast path)
		okFast := true
		for _, r := range fg.Returns() {
			if r.Node.Pos() >= test.Body.Pos() && r.Node.End() <= test.Body.End() {
				continue
			}
			if r.Node.Pos() < loop.End() {
				okFast = false
			}
		}
		c.check(okFast, name+"/fast-path-after-scan", fn.Decl.Pos(), "the quote-wrapped copy is returned only after the whole input passed the test", "a return outside the escape test precedes the end of the scan")
	}
}

func init() {
	register(&Rule{ID: "R17.raw-kinds-validated", Props: []string{"C17"}, Floor: 4,
		Text: "field values whose text Value.JSON() splices into replies verbatim (the kinds whose arm returns the stored data: Number except the three quoted specials, JSON) only ever hold valid JSON: every construction Value{kind: K, data: X} of such a kind in internal/field stores either a constant that is valid JSON (or one of the specials JSON() quotes), or an expression X for which gjson.Valid(X) — of that same X, possibly whitespace-trimmed or passed through pretty.Ugly afterwards — is known true at the construction; the decoder of the packed field list is the one reviewed exception (it rebuilds what the encoder stored)",
		Run:  ruleRawKindsValidated})
}

func ruleRawKindsValidated(c *Ctx) {
	pk := "internal/field"
	jf := c.Func(pk, "Value", "JSON")
	if jf == nil {
		c.und("anchors", 0, "field.Value.JSON not found")
		return
	}
	jinfo := jf.Info()
	// raw kinds and quoted specials, from the kind switch of JSON()
	raw := map[string]bool{}
	specials := map[string]bool{}
	ast.Inspect(jf.Decl.Body, func(n ast.Node) bool {
		cc, ok := n.(*ast.CaseClause)
		if !ok || len(cc.List) == 0 {
			return true
		}
		kindName := ""
		if id, ok := ast.Unparen(cc.List[0]).(*ast.Ident); ok {
			if cn, ok := jinfo.ObjectOf(id).(*types.Const); ok && isNamedType(cn.Type(), modPath+"/"+pk, "Kind") {
				kindName = id.Name
			}
		}
		if kindName == "" {
			// inner switch on v.Data(): string constants are the specials
			for _, e := range cc.List {
				if s, ok := constString(jinfo, e); ok {
					specials[s] = true
				}
			}
			return true
		}
		ast.Inspect(cc, func(m ast.Node) bool {
			r, ok := m.(*ast.ReturnStmt)
			if !ok || len(r.Results) != 1 {
				return true
			}
			switch x := ast.Unparen(r.Results[0]).(type) {
			case *ast.CallExpr:
				if se, ok := ast.Unparen(x.Fun).(*ast.SelectorExpr); ok && se.Sel.Name == "Data" && len(x.Args) == 0 {
					raw[kindName] = true
				}
			case *ast.SelectorExpr:
				if x.Sel.Name == "data" {
					raw[kindName] = true
				}
			}
			return true
		})
		return true
	})
	if len(raw) == 0 {
		c.und("raw-kinds", jf.Decl.Pos(), "no kind of Value.JSON returns the stored text verbatim (the rule has nothing to check)")
		return
	}
	var rk []string
	for k := range raw {
		rk = append(rk, k)
	}
	sort.Strings(rk)
	c.ok("raw-kinds", jf.Decl.Pos(), true, "kinds spliced verbatim: %v; quoted specials: %d", rk, len(specials))
	jsonNumber := regexp.MustCompile(`^-?(0|[1-9][0-9]*)(\.[0-9]+)?([eE][+-]?[0-9]+)?$`)
	n := 0
	for _, fn := range c.AllFuncs(pk) {
		info := fn.Info()
		var fg *FlowGraph
		ast.Inspect(fn.Decl.Body, func(x ast.Node) bool {
			cl, ok := x.(*ast.CompositeLit)
			if !ok || !isNamedType(info.TypeOf(cl), modPath+"/"+pk, "Value") {
				return true
			}
			var kindE, dataE ast.Expr
			for _, el := range cl.Elts {
				if kv, ok := el.(*ast.KeyValueExpr); ok {
					if id, ok := kv.Key.(*ast.Ident); ok {
						switch id.Name {
						case "kind":
							kindE = kv.Value
						case "data":
							dataE = kv.Value
						}
					}
				}
			}
			if kindE == nil {
				return true
			}
			kid, isConstKind := ast.Unparen(kindE).(*ast.Ident)
			if !isConstKind {
				n++
				// the decoder: kind computed from stored bytes
				c.ok(funcName(fn.Obj)+"/decoder", cl.Pos(), false, "reviewed exception: rebuilds a value from the packed list the encoder wrote")
				return true
			}
			if !raw[kid.Name] {
				return true
			}
			n++
			key := fmt.Sprintf("%s/%s@%s", funcName(fn.Obj), kid.Name, exprStr(dataE))
			if dataE == nil {
				c.bad(key, cl.Pos(), "a %s value is built without data", kid.Name)
				return true
			}
			if s, ok := constString(info, dataE); ok {
				valid := specials[s] && kid.Name == "Number" || kid.Name == "Number" && jsonNumber.MatchString(s) || kid.Name != "Number" && json.Valid([]byte(s))
				c.check(valid, key, cl.Pos(), "constant "+strconv.Quote(s)+" is valid JSON (or a quoted special)", "the constant "+strconv.Quote(s)+" is stored in a "+kid.Name+" value but is not valid JSON: Value.JSON() splices it into replies verbatim")
				return true
			}
			if fg == nil {
				fg = newFlowGraph(info, fn.Decl.Body)
			}
			// strip validity-preserving wrappers: string(pretty.Ugly([]byte(X))), strings.TrimSpace(X)
			core := ast.Unparen(dataE)
			for {
				call, ok := core.(*ast.CallExpr)
				if !ok || len(call.Args) != 1 {
					break
				}
				if tv, ok := info.Types[call.Fun]; ok && tv.IsType() { // conversion
					core = ast.Unparen(call.Args[0])
					continue
				}
				f := callee(info, call)
				if f != nil && (funcKey(f) == "github.com/tidwall/pretty.Ugly" || funcKey(f) == "strings.TrimSpace") {
					core = ast.Unparen(call.Args[0])
					continue
				}
				break
			}
			id, ok := core.(*ast.Ident)
			loc := fg.LocOfOuter(cl)
			validated := false
			var factPos token.Pos
			if ok && loc.Valid() {
				for _, f := range fg.DominatingFacts(loc) {
					call, isCall := ast.Unparen(f.E).(*ast.CallExpr)
					if !isCall || f.Neg || f.Tag != nil || len(call.Args) != 1 {
						continue
					}
					if g := callee(info, call); g == nil || funcKey(g) != "github.com/tidwall/gjson.Valid" {
						continue
					}
					if aid, ok := ast.Unparen(call.Args[0]).(*ast.Ident); ok && info.ObjectOf(aid) == info.ObjectOf(id) {
						validated, factPos = true, call.Pos()
						break
					}
				}
			}
			// between the test and the construction the variable is only re-assigned by whitespace trimming of itself
			if validated {
				ast.Inspect(fn.Decl.Body, func(y ast.Node) bool {
					as, ok := y.(*ast.AssignStmt)
					if !ok || as.Pos() < factPos || as.End() > cl.Pos() {
						return true
					}
					for i, l := range as.Lhs {
						lid, ok := ast.Unparen(l).(*ast.Ident)
						if !ok || info.ObjectOf(lid) != info.ObjectOf(id) {
							continue
						}
						okTrim := false
						if i < len(as.Rhs) && len(as.Lhs) == len(as.Rhs) {
							if call, ok := ast.Unparen(as.Rhs[i]).(*ast.CallExpr); ok && len(call.Args) == 1 {
								if f := callee(info, call); f != nil && funcKey(f) == "strings.TrimSpace" {
									if aid, ok := ast.Unparen(call.Args[0]).(*ast.Ident); ok && info.ObjectOf(aid) == info.ObjectOf(id) {
										okTrim = true
									}
								}
							}
						}
						if !okTrim {
							validated = false
						}
					}
					return true
				})
			}
			c.check(validated, key, cl.Pos(), "gjson.Valid of the stored text is known true here", "the text stored in this "+kid.Name+" value is not the text that was validated with gjson.Valid (or was not validated at all): Value.JSON() splices it into replies verbatim, so an input such as +5 or 0x10 makes every reply that prints the field invalid JSON")
			return true
		})
	}
	c.stat("raw_kind_constructions", n)
}
