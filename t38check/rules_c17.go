package main

import (
	"encoding/json"
	"fmt"
	"go/ast"
	"go/constant"
	"go/token"
	"go/types"
	"regexp"
	"sort"
	"strconv"
	"strings"
)

func init() {
	register(&Rule{ID: "R17.json-fragments", Props: []string{"C17", "C05", "C10"}, Floor: 100,
		Text: "JSON fragment typing over all hand-assembled JSON of internal/server (string concatenations, appends to byte buffers, Sprintf formats with JSON-looking literals): the literal text is scanned with a JSON lexer; a hole between double quotes must be produced by a quote-free text producer, a hole after ':' by a JSON value producer (jsonString, appendJSONString, JSON(), AppendJSON, strconv integer/bool/'f' float formatters, jsonTimeFormat, ConvertToJSON, nested checked builders), any other hole by a reviewed value, fragment, list or text producer; a chain must not end inside a string",
		Run:  ruleJSONFragments})
	register(&Rule{ID: "R17.both-modes", Props: []string{"C17"}, Floor: 20,
		Text: "every function that switches on msg.OutputType has a JSON and a RESP arm (or a default) among its OutputType switches taken together, so that no mode falls through to an empty reply by omission (an arm left out of one of several switches is the same as an empty arm there)",
		Run:  ruleBothModes})
}

func ruleJSONFragments(c *Ctx) {
	nChains, nHoles := 0, 0
	for _, rel := range []string{"internal/server", "internal/field", "internal/collection"} {
		for _, fn := range c.AllFuncs(rel) {
			ord := map[string]int{}
			for _, ch := range collectChains(c, fn) {
				nChains++
				for _, f := range checkChain(c, ch) {
					nHoles++
					desc := "end-of-chain"
					if f.hole != nil {
						desc = exprStr(f.hole)
					}
					ord[desc]++
					key := fmt.Sprintf("%s→%s@%s", funcName(fn.Obj), desc, f.where)
					if ord[desc] > 1 {
						key = fmt.Sprintf("%s#%d", key, ord[desc])
					}
					pos := ch.pos
					if f.hole != nil {
						pos = f.hole.Pos()
					}
					if f.hole == nil && f.msg != "" {
						c.bad(key, pos, "%s", f.msg)
					} else if f.ok {
						c.ok(key, pos, true, "%s position: %s", f.where, f.why)
					} else {
						c.bad(key, pos, "%s", f.msg)
					}
				}
			}
		}
	}
	c.stat("json_chains", nChains)
	c.stat("json_holes", nHoles)
}

func ruleBothModes(c *Ctx) {
	ot := c.Field("internal/server", "Message", "OutputType")
	for _, fn := range c.AllFuncs("internal/server") {
		info := fn.Info()
		// the arms of all the OutputType switches of the function together: a mode that has an arm in one of
		// them is handled by the function (an arm left out of one switch is the same as an empty arm there)
		n := 0
		hasJSON, hasRESP := false, false
		var first *ast.SwitchStmt
		var lacking []*ast.SwitchStmt
		ast.Inspect(fn.Decl.Body, func(x ast.Node) bool {
			sw, ok := x.(*ast.SwitchStmt)
			if !ok || sw.Tag == nil || selField(info, sw.Tag) != ot {
				return true
			}
			n++
			if first == nil {
				first = sw
			}
			j, r, d := false, false, false
			for _, cc := range sw.Body.List {
				cl := cc.(*ast.CaseClause)
				if cl.List == nil {
					d = true
				}
				for _, e := range cl.List {
					if id, ok := ast.Unparen(e).(*ast.Ident); ok {
						if o, ok := info.ObjectOf(id).(*types.Const); ok {
							switch o.Name() {
							case "JSON":
								j = true
							case "RESP":
								r = true
							}
						}
					}
				}
			}
			if d {
				j, r = true, true
			}
			if !(j && r) {
				lacking = append(lacking, sw)
			}
			hasJSON = hasJSON || j
			hasRESP = hasRESP || r
			return true
		})
		if n == 0 {
			continue
		}
		pos := first.Pos()
		if len(lacking) > 0 {
			pos = lacking[0].Pos()
		}
		c.check(hasJSON && hasRESP, funcName(fn.Obj), pos, "JSON and RESP arms present among the function's OutputType switches", fmt.Sprintf("the OutputType switches of the function have JSON=%v RESP=%v (no default): one output mode silently gets an empty reply", hasJSON, hasRESP))
	}
}

func init() {
	register(&Rule{ID: "R17.string-encoder", Props: []string{"C17"}, Floor: 2,
		Text: "the repository's own JSON string encoders (jsonString, appendJSONString — the producers the fragment typing trusts for every id, field name, payload and error text): a loop over the bytes of the input (in the encoder or in a predicate it calls with the input) visits every byte and tests it; the test, evaluated for all 256 byte values, is true for every control byte, '\"', '\\' and every byte >= 0x80; when the test is true every return the scanner can reach is the escape verdict (the output of encoding/json.Marshal of the input, respectively true) and with the predicate true every return of the encoder is the Marshal output; while the test is false no return is reached except through the loop head, and no quote-wrapped return precedes the scan",
		Run:  ruleStringEncoder})
}

// evalByteCond evaluates a boolean expression over a single byte operand (an expression for which cur is
// true) for one byte value.
func evalByteCond(info *types.Info, e ast.Expr, b int64, cur func(ast.Expr) bool) (val bool, ok bool) {
	var num func(e ast.Expr) (int64, bool)
	num = func(e ast.Expr) (int64, bool) {
		e = ast.Unparen(e)
		if tv, has := info.Types[e]; has && tv.Value != nil {
			if v, exact := constant.Int64Val(constant.ToInt(tv.Value)); exact {
				return v, true
			}
		}
		if cur(e) {
			return b, true
		}
		return 0, false
	}
	e = ast.Unparen(e)
	switch x := e.(type) {
	case *ast.UnaryExpr:
		if x.Op == token.NOT {
			v, ok := evalByteCond(info, x.X, b, cur)
			return !v, ok
		}
	case *ast.BinaryExpr:
		switch x.Op {
		case token.LOR, token.LAND:
			l, ok1 := evalByteCond(info, x.X, b, cur)
			r, ok2 := evalByteCond(info, x.Y, b, cur)
			if !ok1 || !ok2 {
				return false, false
			}
			if x.Op == token.LOR {
				return l || r, true
			}
			return l && r, true
		case token.LSS, token.GTR, token.LEQ, token.GEQ, token.EQL, token.NEQ:
			l, ok1 := num(x.X)
			r, ok2 := num(x.Y)
			if !ok1 || !ok2 {
				return false, false
			}
			switch x.Op {
			case token.LSS:
				return l < r, true
			case token.GTR:
				return l > r, true
			case token.LEQ:
				return l <= r, true
			case token.GEQ:
				return l >= r, true
			case token.EQL:
				return l == r, true
			default:
				return l != r, true
			}
		}
	}
	return false, false
}

// byteScan: a loop over the bytes of a string with a test of the current byte.
type byteScan struct {
	fn   *FuncInfo
	fg   *FlowGraph
	s    types.Object
	loop ast.Stmt
	test *ast.IfStmt
	full bool // the loop visits every byte
	cur  func(ast.Expr) bool
}

// findByteScan looks in fn (outside literals) for a loop over string parameter s that tests the current byte
// against constants.
func findByteScan(fn *FuncInfo, s types.Object) *byteScan {
	info := fn.Info()
	var out *byteScan
	inspectNoLit(fn.Decl.Body, func(n ast.Node) bool {
		if out != nil {
			return false
		}
		var body *ast.BlockStmt
		var idx, val types.Object
		full := false
		isS := func(e ast.Expr) bool {
			id, ok := ast.Unparen(e).(*ast.Ident)
			return ok && info.ObjectOf(id) == s
		}
		isLenS := func(e ast.Expr) bool {
			call, ok := ast.Unparen(e).(*ast.CallExpr)
			if !ok || len(call.Args) != 1 || !isS(call.Args[0]) {
				return false
			}
			id, ok := ast.Unparen(call.Fun).(*ast.Ident)
			return ok && info.Uses[id] == types.Universe.Lookup("len")
		}
		switch l := n.(type) {
		case *ast.ForStmt:
			// for i := 0; i < len(s); i++
			as, ok := l.Init.(*ast.AssignStmt)
			if !ok || len(as.Lhs) != 1 || len(as.Rhs) != 1 {
				return true
			}
			iv, ok := as.Lhs[0].(*ast.Ident)
			if !ok {
				return true
			}
			idx = info.ObjectOf(iv)
			body = l.Body
			zero := false
			if tv, ok := info.Types[as.Rhs[0]]; ok && tv.Value != nil && tv.Value.String() == "0" {
				zero = true
			}
			be, ok := l.Cond.(*ast.BinaryExpr)
			if !ok {
				return true
			}
			upTo := false
			if id, ok := ast.Unparen(be.X).(*ast.Ident); ok && info.ObjectOf(id) == idx && be.Op == token.LSS && isLenS(be.Y) {
				upTo = true
			}
			if id, ok := ast.Unparen(be.Y).(*ast.Ident); ok && info.ObjectOf(id) == idx && be.Op == token.GTR && isLenS(be.X) {
				upTo = true
			}
			inc := false
			if p, ok := l.Post.(*ast.IncDecStmt); ok && p.Tok == token.INC {
				if id, ok := ast.Unparen(p.X).(*ast.Ident); ok && info.ObjectOf(id) == idx {
					inc = true
				}
			}
			if !upTo && !isLenSAnywhere(info, l.Cond, s) {
				return true // not a loop over s
			}
			full = zero && upTo && inc
			// the index must not be assigned in the body
			ast.Inspect(l.Body, func(m ast.Node) bool {
				switch a := m.(type) {
				case *ast.AssignStmt:
					for _, lh := range a.Lhs {
						if id, ok := ast.Unparen(lh).(*ast.Ident); ok && info.ObjectOf(id) == idx {
							full = false
						}
					}
				case *ast.IncDecStmt:
					if id, ok := ast.Unparen(a.X).(*ast.Ident); ok && info.ObjectOf(id) == idx {
						full = false
					}
				}
				return true
			})
		case *ast.RangeStmt:
			body = l.Body
			x := ast.Unparen(l.X)
			switch {
			case isS(x) || isLenS(x):
				// for i := range s (index of each rune start: bytes of multi-byte runes are skipped, but their first byte is >= 0x80)
				// for i := range len(s)
				if l.Value != nil {
					return true
				}
				if id, ok := l.Key.(*ast.Ident); ok {
					idx = info.ObjectOf(id)
				}
				full = isLenS(x)
			default:
				// for _, c := range []byte(s)
				call, ok := x.(*ast.CallExpr)
				if !ok || len(call.Args) != 1 || !isS(call.Args[0]) {
					return true
				}
				if tv, ok := info.Types[call.Fun]; !ok || !tv.IsType() || !isByteSlice(tv.Type) {
					return true
				}
				if id, ok := l.Value.(*ast.Ident); ok {
					val = info.ObjectOf(id)
				}
				if id, ok := l.Key.(*ast.Ident); ok && id.Name != "_" {
					idx = info.ObjectOf(id)
				}
				full = true
			}
		default:
			return true
		}
		if body == nil {
			return true
		}
		var cur func(e ast.Expr) bool
		cur = func(e ast.Expr) bool {
			e = ast.Unparen(e)
			switch x := e.(type) {
			case *ast.IndexExpr:
				if !isS(x.X) || idx == nil {
					return false
				}
				id, ok := ast.Unparen(x.Index).(*ast.Ident)
				return ok && info.ObjectOf(id) == idx
			case *ast.Ident:
				if val != nil && info.ObjectOf(x) == val {
					return true
				}
				if r := resolveLocal(info, body, x); r != ast.Expr(x) {
					return cur(r)
				}
			}
			return false
		}
		var test *ast.IfStmt
		ast.Inspect(body, func(m ast.Node) bool {
			switch t := m.(type) {
			case *ast.FuncLit, *ast.ForStmt, *ast.RangeStmt:
				return false
			case *ast.IfStmt:
				if test == nil {
					if _, ok := evalByteCond(info, t.Cond, 0, cur); ok {
						test = t
					}
				}
			}
			return true
		})
		if test != nil {
			out = &byteScan{fn: fn, fg: newFlowGraph(info, fn.Decl.Body), s: s, loop: n.(ast.Stmt), test: test, full: full, cur: cur}
		}
		return true
	})
	return out
}

func isLenSAnywhere(info *types.Info, e ast.Expr, s types.Object) bool {
	hit := false
	ast.Inspect(e, func(n ast.Node) bool {
		if call, ok := n.(*ast.CallExpr); ok && len(call.Args) == 1 {
			if id, ok := ast.Unparen(call.Fun).(*ast.Ident); ok && info.Uses[id] == types.Universe.Lookup("len") {
				if a, ok := ast.Unparen(call.Args[0]).(*ast.Ident); ok && info.ObjectOf(a) == s {
					hit = true
				}
			}
		}
		return true
	})
	return hit
}

// loopHead: the nodes every iteration (and the exit) of the loop passes.
func (bs *byteScan) loopHead(n ast.Node) bool {
	switch l := bs.loop.(type) {
	case *ast.ForStmt:
		return n == ast.Node(l.Cond) || (l.Post != nil && n == ast.Node(l.Post))
	case *ast.RangeStmt:
		return (l.Key != nil && n == ast.Node(l.Key)) || (l.Value != nil && n == ast.Node(l.Value))
	}
	return false
}

func stringParam(fn *FuncInfo) types.Object {
	info := fn.Info()
	var sObj types.Object
	for _, p := range fn.Decl.Type.Params.List {
		for _, nm := range p.Names {
			if b, ok := info.ObjectOf(nm).Type().Underlying().(*types.Basic); ok && b.Kind() == types.String {
				sObj = info.ObjectOf(nm)
			}
		}
	}
	return sObj
}

func ruleStringEncoder(c *Ctx) {
	for _, name := range []string{"jsonString", "appendJSONString"} {
		fn := c.Func("internal/server", "", name)
		if fn == nil {
			c.und(name, 0, "%s not found", name)
			continue
		}
		info := fn.Info()
		fg := newFlowGraph(info, fn.Decl.Body)
		sObj := stringParam(fn)
		if sObj == nil {
			c.und(name, fn.Decl.Pos(), "string parameter not found")
			continue
		}
		// returns of the encoder that derive from json.Marshal(s) and from nothing else
		marshalVars := map[types.Object]bool{}
		ast.Inspect(fn.Decl.Body, func(n ast.Node) bool {
			if as, ok := n.(*ast.AssignStmt); ok && len(as.Rhs) == 1 {
				if call, ok := ast.Unparen(as.Rhs[0]).(*ast.CallExpr); ok {
					if f := callee(info, call); funcKey(f) == "encoding/json.Marshal" && len(call.Args) == 1 {
						if id, ok := ast.Unparen(call.Args[0]).(*ast.Ident); ok && info.ObjectOf(id) == sObj {
							if l, ok := as.Lhs[0].(*ast.Ident); ok {
								marshalVars[info.ObjectOf(l)] = true
							}
						}
					}
				}
			}
			return true
		})
		fromMarshal := func(r *ast.ReturnStmt) bool {
			if len(r.Results) != 1 {
				return false
			}
			hit, other := false, false
			ast.Inspect(r.Results[0], func(n ast.Node) bool {
				switch x := n.(type) {
				case *ast.Ident:
					o := info.ObjectOf(x)
					if marshalVars[o] {
						hit = true
					} else if o == sObj {
						other = true // the raw input
					}
				case *ast.CallExpr:
					if f := callee(info, x); f != nil && f.Pkg() != nil && funcKey(f) != "encoding/json.Marshal" {
						other = true // some other producer
					}
				case *ast.BasicLit:
					if x.Kind == token.STRING || x.Kind == token.CHAR {
						other = true
					}
				}
				return true
			})
			return hit && !other
		}
		// the scan: in the encoder itself, or in a predicate helper called with the input
		scan := findByteScan(fn, sObj)
		var helper *FuncInfo
		var helperCalls []*ast.CallExpr
		verdict := func(r *ast.ReturnStmt) bool { return fromMarshal(r) }
		if scan == nil {
			inspectNoLit(fn.Decl.Body, func(n ast.Node) bool {
				call, ok := n.(*ast.CallExpr)
				if !ok || len(call.Args) != 1 {
					return true
				}
				if id, ok := ast.Unparen(call.Args[0]).(*ast.Ident); !ok || info.ObjectOf(id) != sObj {
					return true
				}
				f := callee(info, call)
				fi := c.FuncOf(f)
				if fi == nil || !strings.HasPrefix(f.Pkg().Path(), modPath) {
					return true
				}
				sig := f.Type().(*types.Signature)
				if sig.Results().Len() != 1 {
					return true
				}
				if b, ok := sig.Results().At(0).Type().Underlying().(*types.Basic); !ok || b.Kind() != types.Bool {
					return true
				}
				if hs := stringParam(fi); hs != nil {
					if sc := findByteScan(fi, hs); sc != nil && (helper == nil || helper.Obj == fi.Obj) {
						scan, helper = sc, fi
						helperCalls = append(helperCalls, call)
					}
				}
				return true
			})
			if helper != nil {
				hinfo := helper.Info()
				verdict = func(r *ast.ReturnStmt) bool { return len(r.Results) == 1 && boolConst(hinfo, r.Results[0]) == '1' }
			}
		}
		if scan == nil {
			c.bad(name+"/byte-test", fn.Decl.Pos(), "no loop over the bytes of the input with an escape test (in the encoder or in a predicate it calls with the input): the input is emitted between quotes unexamined")
			continue
		}
		where := ""
		if helper != nil {
			where = " (in " + funcName(helper.Obj) + ")"
		}
		c.check(scan.full, name+"/scans-every-byte", scan.loop.Pos(), "the escape test runs for every byte of the input"+where, "the loop with the escape test does not visit every byte of the input")
		// evaluate the test for all byte values
		var missed []string
		undecided := false
		sinfo := scan.fn.Info()
		for b := int64(0); b < 256; b++ {
			v, ok := evalByteCond(sinfo, scan.test.Cond, b, scan.cur)
			if !ok {
				undecided = true
				break
			}
			needs := b < 0x20 || b == '"' || b == '\\' || b >= 0x80
			if needs && !v {
				missed = append(missed, fmt.Sprintf("0x%02x", b))
			}
		}
		switch {
		case undecided:
			c.und(name+"/byte-test", scan.test.Pos(), "the escape test %s is not a comparison of the current byte with constants", exprStr(scan.test.Cond))
		case len(missed) > 0:
			if len(missed) > 8 {
				missed = append(missed[:8], "...")
			}
			c.bad(name+"/byte-test", scan.test.Pos(), "the fast path (input copied between quotes) is taken for bytes that need escaping in JSON: %s", strings.Join(missed, " "))
		default:
			c.ok(name+"/byte-test", scan.test.Pos(), true, "every control byte, '\"', '\\\\' and every byte >= 0x80 takes the slow path (evaluated for all 256 byte values)%s", where)
		}
		// when the test is true for some byte: every return the scanner can then reach is the escape verdict
		testAtom := func(v byte) func(e ast.Expr) byte {
			return func(e ast.Expr) byte {
				if e == ast.Unparen(scan.test.Cond) || e == scan.test.Cond {
					return v
				}
				return '?'
			}
		}
		from := scan.fg.LocOf(scan.test.Cond)
		okSlow, nSlow := true, 0
		badAt := scan.test.Pos()
		if !from.Valid() {
			okSlow = false
		} else {
			// the condition node itself is the last node of its block: search from the node before it
			from.Idx--
			scan.fg.Reach(PathQuery{From: from, Correlate: true, Atom: testAtom('1'), Target: func(l Loc) bool {
				if r, ok := l.Node.(*ast.ReturnStmt); ok {
					nSlow++
					if !verdict(r) {
						okSlow, badAt = false, r.Pos()
					}
				}
				return false
			}})
		}
		if nSlow == 0 {
			okSlow = false
		}
		// with a predicate helper: when it says "needs escaping" every return of the encoder is the json.Marshal output
		if helper != nil && okSlow {
			n := 0
			fg.Reach(PathQuery{Correlate: true, Atom: func(e ast.Expr) byte {
				for _, hc := range helperCalls {
					if e == ast.Expr(hc) {
						return '1'
					}
				}
				return '?'
			}, Target: func(l Loc) bool {
				if r, ok := l.Node.(*ast.ReturnStmt); ok {
					n++
					if !fromMarshal(r) {
						okSlow, badAt = false, r.Pos()
					}
				}
				return false
			}})
			if n == 0 {
				okSlow = false
			}
		}
		c.check(okSlow, name+"/slow-path-json-encoder", badAt, "strings that need escaping are encoded by encoding/json.Marshal", "a string that needs escaping is not encoded by encoding/json.Marshal (Go quoting such as strconv.Quote emits \\\\x01, \\\\a, \\\\v, \\\\U…, which are not JSON escapes): replies carrying such ids, field names or error texts are not valid JSON")
		// the other verdict is given only after the whole input passed the test: while the test is false no
		// return is reached without going through the loop head again, and no return precedes the loop
		okFast := true
		if from.Valid() {
			if r, _ := scan.fg.Reach(PathQuery{From: from, Correlate: true, Atom: testAtom('0'),
				Target: func(l Loc) bool { _, ok := l.Node.(*ast.ReturnStmt); return ok },
				Avoid:  func(l Loc) bool { return scan.loopHead(l.Node) }}); r {
				okFast = false
			}
		}
		if r, _ := scan.fg.Reach(PathQuery{
			Target: func(l Loc) bool { r, ok := l.Node.(*ast.ReturnStmt); return ok && !verdict(r) },
			Avoid:  func(l Loc) bool { return scan.loopHead(l.Node) }}); r {
			okFast = false
		}
		if helper != nil {
			// the encoder's quote-wrapped return is reached only after the predicate was consulted
			if r, _ := fg.Reach(PathQuery{
				Target: func(l Loc) bool { r, ok := l.Node.(*ast.ReturnStmt); return ok && !fromMarshal(r) },
				Avoid: func(l Loc) bool {
					hit := false
					inspectNoLit(l.Node, func(n ast.Node) bool {
						for _, hc := range helperCalls {
							if n == ast.Node(hc) {
								hit = true
							}
						}
						return true
					})
					return hit
				}}); r {
				okFast = false
			}
		}
		c.check(okFast, name+"/fast-path-after-scan", fn.Decl.Pos(), "the quote-wrapped copy is returned only after the whole input passed the test", "a return outside the escape test precedes the end of the scan")
	}
}

func init() {
	register(&Rule{ID: "R17.raw-kinds-validated", Props: []string{"C17"}, Floor: 4,
		Text: "field values whose text Value.JSON() splices into replies verbatim (the kinds whose arm returns the stored data: Number except the three quoted specials, JSON) only ever hold valid JSON: every construction Value{kind: K, data: X} of such a kind in internal/field stores either a constant that is valid JSON (or one of the specials JSON() quotes), or an expression X for which gjson.Valid(X) — of that same X, possibly whitespace-trimmed or passed through pretty.Ugly afterwards — is known true at the construction; the decoder of the packed field list is the one reviewed exception (it rebuilds what the encoder stored)",
		Run:  ruleRawKindsValidated})
}

func ruleRawKindsValidated(c *Ctx) {
	pk := "internal/field"
	jf := c.Func(pk, "Value", "JSON")
	if jf == nil {
		c.und("anchors", 0, "field.Value.JSON not found")
		return
	}
	jinfo := jf.Info()
	// raw kinds and quoted specials, from the kind switch of JSON()
	raw := map[string]bool{}
	specials := map[string]bool{}
	ast.Inspect(jf.Decl.Body, func(n ast.Node) bool {
		cc, ok := n.(*ast.CaseClause)
		if !ok || len(cc.List) == 0 {
			return true
		}
		kindName := ""
		if id, ok := ast.Unparen(cc.List[0]).(*ast.Ident); ok {
			if cn, ok := jinfo.ObjectOf(id).(*types.Const); ok && isNamedType(cn.Type(), modPath+"/"+pk, "Kind") {
				kindName = id.Name
			}
		}
		if kindName == "" {
			// inner switch on v.Data(): string constants are the specials
			for _, e := range cc.List {
				if s, ok := constString(jinfo, e); ok {
					specials[s] = true
				}
			}
			return true
		}
		ast.Inspect(cc, func(m ast.Node) bool {
			r, ok := m.(*ast.ReturnStmt)
			if !ok || len(r.Results) != 1 {
				return true
			}
			switch x := ast.Unparen(r.Results[0]).(type) {
			case *ast.CallExpr:
				if se, ok := ast.Unparen(x.Fun).(*ast.SelectorExpr); ok && se.Sel.Name == "Data" && len(x.Args) == 0 {
					raw[kindName] = true
				}
			case *ast.SelectorExpr:
				if x.Sel.Name == "data" {
					raw[kindName] = true
				}
			}
			return true
		})
		return true
	})
	if len(raw) == 0 {
		c.und("raw-kinds", jf.Decl.Pos(), "no kind of Value.JSON returns the stored text verbatim (the rule has nothing to check)")
		return
	}
	var rk []string
	for k := range raw {
		rk = append(rk, k)
	}
	sort.Strings(rk)
	c.ok("raw-kinds", jf.Decl.Pos(), true, "kinds spliced verbatim: %v; quoted specials: %d", rk, len(specials))
	jsonNumber := regexp.MustCompile(`^-?(0|[1-9][0-9]*)(\.[0-9]+)?([eE][+-]?[0-9]+)?$`)
	n := 0
	for _, fn := range c.AllFuncs(pk) {
		info := fn.Info()
		var fg *FlowGraph
		ast.Inspect(fn.Decl.Body, func(x ast.Node) bool {
			cl, ok := x.(*ast.CompositeLit)
			if !ok || !isNamedType(info.TypeOf(cl), modPath+"/"+pk, "Value") {
				return true
			}
			var kindE, dataE ast.Expr
			for _, el := range cl.Elts {
				if kv, ok := el.(*ast.KeyValueExpr); ok {
					if id, ok := kv.Key.(*ast.Ident); ok {
						switch id.Name {
						case "kind":
							kindE = kv.Value
						case "data":
							dataE = kv.Value
						}
					}
				}
			}
			if kindE == nil {
				return true
			}
			kid, isConstKind := ast.Unparen(kindE).(*ast.Ident)
			if !isConstKind {
				n++
				// the decoder: kind computed from stored bytes
				c.ok(funcName(fn.Obj)+"/decoder", cl.Pos(), false, "reviewed exception: rebuilds a value from the packed list the encoder wrote")
				return true
			}
			if !raw[kid.Name] {
				return true
			}
			n++
			key := fmt.Sprintf("%s/%s@%s", funcName(fn.Obj), kid.Name, exprStr(dataE))
			if dataE == nil {
				c.bad(key, cl.Pos(), "a %s value is built without data", kid.Name)
				return true
			}
			if s, ok := constString(info, dataE); ok {
				valid := specials[s] && kid.Name == "Number" || kid.Name == "Number" && jsonNumber.MatchString(s) || kid.Name != "Number" && json.Valid([]byte(s))
				c.check(valid, key, cl.Pos(), "constant "+strconv.Quote(s)+" is valid JSON (or a quoted special)", "the constant "+strconv.Quote(s)+" is stored in a "+kid.Name+" value but is not valid JSON: Value.JSON() splices it into replies verbatim")
				return true
			}
			if fg == nil {
				fg = newFlowGraph(info, fn.Decl.Body)
			}
			// strip validity-preserving wrappers: string(pretty.Ugly([]byte(X))), strings.TrimSpace(X)
			core := ast.Unparen(dataE)
			for {
				call, ok := core.(*ast.CallExpr)
				if !ok || len(call.Args) != 1 {
					break
				}
				if tv, ok := info.Types[call.Fun]; ok && tv.IsType() { // conversion
					core = ast.Unparen(call.Args[0])
					continue
				}
				f := callee(info, call)
				if f != nil && (funcKey(f) == "github.com/tidwall/pretty.Ugly" || funcKey(f) == "strings.TrimSpace") {
					core = ast.Unparen(call.Args[0])
					continue
				}
				break
			}
			id, ok := core.(*ast.Ident)
			loc := fg.LocOfOuter(cl)
			validated := false
			var factPos token.Pos
			if ok && loc.Valid() {
				for _, f := range fg.DominatingFacts(loc) {
					call, isCall := ast.Unparen(f.E).(*ast.CallExpr)
					if !isCall || f.Neg || f.Tag != nil || len(call.Args) != 1 {
						continue
					}
					if g := callee(info, call); g == nil || funcKey(g) != "github.com/tidwall/gjson.Valid" {
						continue
					}
					if aid, ok := ast.Unparen(call.Args[0]).(*ast.Ident); ok && info.ObjectOf(aid) == info.ObjectOf(id) {
						validated, factPos = true, call.Pos()
						break
					}
				}
			}
			// between the test and the construction the variable is only re-assigned by whitespace trimming of itself
			if validated {
				ast.Inspect(fn.Decl.Body, func(y ast.Node) bool {
					as, ok := y.(*ast.AssignStmt)
					if !ok || as.Pos() < factPos || as.End() > cl.Pos() {
						return true
					}
					for i, l := range as.Lhs {
						lid, ok := ast.Unparen(l).(*ast.Ident)
						if !ok || info.ObjectOf(lid) != info.ObjectOf(id) {
							continue
						}
						okTrim := false
						if i < len(as.Rhs) && len(as.Lhs) == len(as.Rhs) {
							if call, ok := ast.Unparen(as.Rhs[i]).(*ast.CallExpr); ok && len(call.Args) == 1 {
								if f := callee(info, call); f != nil && funcKey(f) == "strings.TrimSpace" {
									if aid, ok := ast.Unparen(call.Args[0]).(*ast.Ident); ok && info.ObjectOf(aid) == info.ObjectOf(id) {
										okTrim = true
									}
								}
							}
						}
						if !okTrim {
							validated = false
						}
					}
					return true
				})
			}
			c.check(validated, key, cl.Pos(), "gjson.Valid of the stored text is known true here", "the text stored in this "+kid.Name+" value is not the text that was validated with gjson.Valid (or was not validated at all): Value.JSON() splices it into replies verbatim, so an input such as +5 or 0x10 makes every reply that prints the field invalid JSON")
			return true
		})
	}
	c.stat("raw_kind_constructions", n)
}
