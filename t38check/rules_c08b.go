package main

import (
	"go/ast"
	"go/types"
	"sort"
	"strings"
)

// Rules added after the sixth seeding round for the log writer (aof.go): three changes of that round moved
// a flush, or a direct file write, into writeAOF. Each is harmless for one command on one connection and
// breaks a different clause: the acknowledgement order of C08 (bytes appended after the flag was cleared),
// the log order of C07 (a direct write overtakes buffered bytes) and the all-or-nothing clause of C03 for
// atomic scripts (a prefix of the script reaches the file while it still runs).

func init() {
	register(&Rule{ID: "R8.dirty-holds-at-append", Props: []string{"C08"}, Floor: 1,
		Text: "when bytes are appended to Server.aofbuf the dirty flag is true and stays true until the function returns to the connection's pre-write: in every function that grows the buffer, no call that clears the flag — aofdirty.Store of anything but the constant true, directly or in a function reached through static calls — lies on a path to the append after the last Store(true) (path search on go/cfg: from the clearing call to the append, avoiding Store(true)). 'Set the flag, flush the backlog (which clears it), then append' leaves bytes in the buffer that the pre-write test skips: the reply is sent before the command is handed to the file",
		Run:  ruleDirtyHoldsAtAppend})
	register(&Rule{ID: "R7.log-single-writer", Props: []string{"C07", "C03", "C08"}, Floor: 1,
		Text: "the order of the log is the order of the appends to Server.aofbuf only if every byte reaches the live log file through that buffer: every Write/WriteString/WriteAt/ReadFrom on Server.aof (also through a local that holds the handle) hands over Server.aofbuf itself (or a local view of it) — a command written to the file directly overtakes the commands that are still buffered, and the log then records an order no client saw",
		Run:  ruleLogSingleWriter})
	register(&Rule{ID: "R3.script-log-buffered", Props: []string{"C03", "C18"}, Floor: 3,
		Text: "an atomic script is all-or-nothing across a crash because nothing it logs reaches the file before it returns: from the functions that execute a script's tile38.call (those that call commandInScript) no write of the live log file (a Write on Server.aof, or a function that performs one: flushAOF) is reachable through synchronous static calls (go statements are not followed) — a threshold flush inside writeAOF would put a prefix of a running script into the file",
		Run:  ruleScriptLogBuffered})
}

// dirtyClearers: functions of internal/server that (transitively, synchronously) store something other than
// the constant true to Server.aofdirty. The result maps a function to the chain that shows it.
func dirtyClearers(c *Ctx) map[*types.Func]string {
	dirty := c.Field("internal/server", "Server", "aofdirty")
	direct := map[*types.Func]string{}
	funcs := c.AllFuncs("internal/server")
	for _, fn := range funcs {
		if fn.Decl.Body == nil {
			continue
		}
		info := fn.Info()
		ast.Inspect(fn.Decl.Body, func(n ast.Node) bool {
			if isDirtyClear(info, n, dirty) {
				direct[fn.Obj] = fn.Obj.Name()
			}
			return true
		})
	}
	out := map[*types.Func]string{}
	for f, w := range direct {
		out[f] = w
	}
	for changed := true; changed; {
		changed = false
		for _, fn := range funcs {
			if fn.Decl.Body == nil || out[fn.Obj] != "" {
				continue
			}
			info := fn.Info()
			ast.Inspect(fn.Decl.Body, func(n ast.Node) bool {
				switch x := n.(type) {
				case *ast.GoStmt:
					return false
				case *ast.CallExpr:
					if f := callee(info, x); f != nil && out[f] != "" && out[fn.Obj] == "" {
						out[fn.Obj] = fn.Obj.Name() + " → " + out[f]
						changed = true
					}
				}
				return true
			})
		}
	}
	return out
}

func isDirtyClear(info *types.Info, n ast.Node, dirty *types.Var) bool {
	call, ok := n.(*ast.CallExpr)
	if !ok {
		return false
	}
	se, ok := ast.Unparen(call.Fun).(*ast.SelectorExpr)
	if !ok || selField(info, se.X) != dirty {
		return false
	}
	switch se.Sel.Name {
	case "Store", "Swap":
		return len(call.Args) == 1 && boolConst(info, call.Args[0]) != '1'
	case "CompareAndSwap":
		return len(call.Args) == 2 && boolConst(info, call.Args[1]) != '1'
	}
	return false
}

func ruleDirtyHoldsAtAppend(c *Ctx) {
	aofbuf := c.Field("internal/server", "Server", "aofbuf")
	dirty := c.Field("internal/server", "Server", "aofdirty")
	if aofbuf == nil || dirty == nil {
		c.und("anchors", 0, "Server.aofbuf or Server.aofdirty not found")
		return
	}
	clearers := dirtyClearers(c)
	n := 0
	for _, fn := range c.AllFuncs("internal/server") {
		if fn.Decl.Body == nil {
			continue
		}
		info := fn.Info()
		grows := bufferGrowSites(info, fn.Decl.Body, aofbuf)
		if len(grows) == 0 {
			continue
		}
		fg := newFlowGraph(info, fn.Decl.Body)
		isGrow := map[ast.Node]bool{}
		for _, g := range grows {
			isGrow[g] = true
		}
		containsGrow := func(n ast.Node) bool {
			hit := false
			inspectNoLit(n, func(m ast.Node) bool {
				if isGrow[m] {
					hit = true
				}
				return !hit
			})
			return hit
		}
		isSet := func(n ast.Node) bool {
			hit := false
			inspectNoLit(n, func(m ast.Node) bool {
				call, ok := m.(*ast.CallExpr)
				if !ok || len(call.Args) != 1 {
					return true
				}
				se, ok := ast.Unparen(call.Fun).(*ast.SelectorExpr)
				if ok && se.Sel.Name == "Store" && selField(info, se.X) == dirty && boolConst(info, call.Args[0]) == '1' {
					hit = true
				}
				return true
			})
			return hit
		}
		// clearing statements of this function
		var clears []Loc
		why := map[ast.Node]string{}
		for _, b := range fg.G.Blocks {
			if !fg.Reachable(b) {
				continue
			}
			for i, nd := range b.Nodes {
				w := ""
				inspectNoLit(nd, func(m ast.Node) bool {
					if w != "" {
						return false
					}
					if isDirtyClear(info, m, dirty) {
						w = "aofdirty.Store(false)"
					} else if call, ok := m.(*ast.CallExpr); ok {
						if f := callee(info, call); f != nil && clearers[f] != "" {
							w = clearers[f]
						}
					}
					return true
				})
				if w != "" {
					clears = append(clears, Loc{b, i, nd})
					why[nd] = w
				}
			}
		}
		n++
		key := funcName(fn.Obj) + "→aofbuf-append"
		bad := ""
		var badPos ast.Node = grows[0]
		for _, cl := range clears {
			reach, _ := fg.Reach(PathQuery{
				From:   cl,
				Target: func(l Loc) bool { return containsGrow(l.Block.Nodes[l.Idx]) },
				Avoid:  func(l Loc) bool { return isSet(l.Block.Nodes[l.Idx]) },
			})
			if reach {
				bad = why[cl.Node]
				badPos = cl.Node
				break
			}
		}
		c.check(bad == "", key, badPos.Pos(), "no call that clears the dirty flag lies between the last Store(true) and the append",
			"the dirty flag can be cleared ("+bad+") after it was set and before the bytes are appended to Server.aofbuf: the function returns with bytes in the buffer and the flag false, the connection's pre-write test skips the flush and the reply is sent before the command has been handed to the file")
	}
	if n == 0 {
		c.bad("no-append", 0, "no function grows Server.aofbuf")
	}
}

// bufferGrowSites: assignments  s.aofbuf = f(s.aofbuf, …)  (append, redcon.AppendX, a helper) or of a local
// that holds such a grown view.
func bufferGrowSites(info *types.Info, body ast.Node, aofbuf *types.Var) []ast.Node {
	grown := map[types.Object]bool{}
	takesBuf := func(e ast.Expr) bool {
		call, ok := ast.Unparen(e).(*ast.CallExpr)
		if !ok {
			return false
		}
		for _, a := range call.Args {
			if selField(info, a) == aofbuf {
				return true
			}
			if id, ok := ast.Unparen(a).(*ast.Ident); ok && grown[info.ObjectOf(id)] {
				return true
			}
		}
		return false
	}
	for changed := true; changed; {
		changed = false
		inspectNoLit(body, func(x ast.Node) bool {
			as, ok := x.(*ast.AssignStmt)
			if !ok || len(as.Lhs) != len(as.Rhs) {
				return true
			}
			for i, l := range as.Lhs {
				if id, ok := ast.Unparen(l).(*ast.Ident); ok && takesBuf(as.Rhs[i]) {
					if o := info.ObjectOf(id); o != nil && !grown[o] {
						grown[o] = true
						changed = true
					}
				}
			}
			return true
		})
	}
	var out []ast.Node
	inspectNoLit(body, func(x ast.Node) bool {
		as, ok := x.(*ast.AssignStmt)
		if !ok || len(as.Lhs) != 1 || len(as.Rhs) != 1 || selField(info, as.Lhs[0]) != aofbuf {
			return true
		}
		if takesBuf(as.Rhs[0]) {
			out = append(out, as)
		} else if id, ok := ast.Unparen(as.Rhs[0]).(*ast.Ident); ok && grown[info.ObjectOf(id)] {
			out = append(out, as)
		}
		return true
	})
	return out
}

var fileWriteMethods = map[string]bool{"Write": true, "WriteString": true, "WriteAt": true, "ReadFrom": true}

// logFileWrites: the calls in body that write the live log file: a write method of *os.File on Server.aof
// or on a local that was assigned from it in the same function.
func logFileWrites(info *types.Info, body ast.Node, aof *types.Var) []*ast.CallExpr {
	alias := map[types.Object]bool{}
	ast.Inspect(body, func(n ast.Node) bool {
		as, ok := n.(*ast.AssignStmt)
		if !ok || len(as.Lhs) != len(as.Rhs) {
			return true
		}
		for i, l := range as.Lhs {
			if id, ok := ast.Unparen(l).(*ast.Ident); ok && selField(info, as.Rhs[i]) == aof {
				alias[info.ObjectOf(id)] = true
			}
		}
		return true
	})
	var out []*ast.CallExpr
	ast.Inspect(body, func(n ast.Node) bool {
		call, ok := n.(*ast.CallExpr)
		if !ok {
			return true
		}
		se, ok := ast.Unparen(call.Fun).(*ast.SelectorExpr)
		if !ok || !fileWriteMethods[se.Sel.Name] {
			return true
		}
		onLog := selField(info, se.X) == aof
		if id, ok := ast.Unparen(se.X).(*ast.Ident); ok && alias[info.ObjectOf(id)] {
			onLog = true
		}
		if onLog {
			out = append(out, call)
		}
		return true
	})
	// fmt.Fprintf(s.aof, …), io.WriteString(s.aof, …), io.Copy(s.aof, …)
	ast.Inspect(body, func(n ast.Node) bool {
		call, ok := n.(*ast.CallExpr)
		if !ok || len(call.Args) == 0 {
			return true
		}
		f := callee(info, call)
		if f == nil || f.Pkg() == nil || f.Type().(*types.Signature).Recv() != nil {
			return true
		}
		if p := f.Pkg().Path(); p != "fmt" && p != "io" && p != "bufio" {
			return true
		}
		a0 := call.Args[0]
		onLog := selField(info, a0) == aof
		if id, ok := ast.Unparen(a0).(*ast.Ident); ok && alias[info.ObjectOf(id)] {
			onLog = true
		}
		if onLog {
			out = append(out, call)
		}
		return true
	})
	return out
}

func ruleLogSingleWriter(c *Ctx) {
	aofbuf := c.Field("internal/server", "Server", "aofbuf")
	aof := c.Field("internal/server", "Server", "aof")
	if aofbuf == nil || aof == nil {
		c.und("anchors", 0, "Server.aofbuf or Server.aof not found")
		return
	}
	n := 0
	for _, fn := range c.AllFuncs("internal/server") {
		if fn.Decl.Body == nil {
			continue
		}
		info := fn.Info()
		// local views of the buffer: buf := s.aofbuf, buf := s.aofbuf[:k]
		view := map[types.Object]bool{}
		isBuf := func(e ast.Expr) bool {
			e = ast.Unparen(e)
			if sl, ok := e.(*ast.SliceExpr); ok && sl.Low == nil {
				e = ast.Unparen(sl.X)
			}
			if selField(info, e) == aofbuf {
				return true
			}
			id, ok := e.(*ast.Ident)
			return ok && view[info.ObjectOf(id)]
		}
		ast.Inspect(fn.Decl.Body, func(x ast.Node) bool {
			as, ok := x.(*ast.AssignStmt)
			if !ok || len(as.Lhs) != len(as.Rhs) {
				return true
			}
			for i, l := range as.Lhs {
				if id, ok := ast.Unparen(l).(*ast.Ident); ok && isBuf(as.Rhs[i]) {
					view[info.ObjectOf(id)] = true
				}
			}
			return true
		})
		ord := map[string]int{}
		for _, call := range logFileWrites(info, fn.Decl.Body, aof) {
			n++
			desc := exprStr(call)
			ord[desc]++
			key := funcName(fn.Obj) + "→" + desc
			if ord[desc] > 1 {
				key += "#" + string(rune('0'+ord[desc]))
			}
			se, isMethod := ast.Unparen(call.Fun).(*ast.SelectorExpr)
			okk := false
			if isMethod && fileWriteMethods[se.Sel.Name] && len(call.Args) >= 1 && isBuf(call.Args[0]) {
				okk = true
			}
			c.check(okk, key, call.Pos(), "the live log file receives Server.aofbuf", "bytes are written to the live log file that did not pass through Server.aofbuf: they overtake the commands that are still buffered (applied earlier, written later), so the order in the file is not the order in which the writes were applied and acknowledged")
		}
	}
	if n == 0 {
		c.bad("no-writer", 0, "no function writes the live log file")
	}
	c.stat("log_file_write_sites", n)
}

func ruleScriptLogBuffered(c *Ctx) {
	aof := c.Field("internal/server", "Server", "aof")
	cis := c.Func("internal/server", "Server", "commandInScript")
	if aof == nil || cis == nil {
		c.und("anchors", 0, "Server.aof or commandInScript not found")
		return
	}
	funcs := c.AllFuncs("internal/server")
	// functions that write the live log file themselves
	writer := map[*types.Func]bool{}
	for _, fn := range funcs {
		if fn.Decl.Body != nil && len(logFileWrites(fn.Info(), fn.Decl.Body, aof)) > 0 {
			writer[fn.Obj] = true
		}
	}
	if len(writer) == 0 {
		c.und("writers", 0, "no function writes the live log file")
		return
	}
	// synchronous call graph (static callees; literals belong to the enclosing function; go statements skipped)
	callees := func(fn *FuncInfo) []*types.Func {
		var out []*types.Func
		seen := map[*types.Func]bool{}
		info := fn.Info()
		ast.Inspect(fn.Decl.Body, func(n ast.Node) bool {
			switch x := n.(type) {
			case *ast.GoStmt:
				return false
			case *ast.CallExpr:
				if f := callee(info, x); f != nil && !seen[f] {
					seen[f] = true
					out = append(out, f)
				}
			}
			return true
		})
		return out
	}
	var roots []*FuncInfo
	for _, fn := range funcs {
		if fn.Decl.Body == nil || fn.Obj == cis.Obj {
			continue
		}
		info := fn.Info()
		calls := false
		ast.Inspect(fn.Decl.Body, func(n ast.Node) bool {
			if call, ok := n.(*ast.CallExpr); ok && callee(info, call) == cis.Obj {
				calls = true
			}
			return true
		})
		if calls {
			roots = append(roots, fn)
		}
	}
	sort.Slice(roots, func(i, j int) bool { return roots[i].Obj.Name() < roots[j].Obj.Name() })
	for _, root := range roots {
		// breadth-first search for a writer
		type item struct {
			f     *types.Func
			chain []string
		}
		seen := map[*types.Func]bool{root.Obj: true}
		queue := []item{{root.Obj, []string{root.Obj.Name()}}}
		found := ""
		visited := 0
		for len(queue) > 0 && found == "" {
			it := queue[0]
			queue = queue[1:]
			visited++
			if writer[it.f] {
				found = strings.Join(it.chain, " → ")
				break
			}
			fi := c.FuncOf(it.f)
			if fi == nil || fi.Decl.Body == nil {
				continue
			}
			for _, g := range callees(fi) {
				if !seen[g] {
					seen[g] = true
					queue = append(queue, item{g, append(append([]string(nil), it.chain...), g.Name())})
				}
			}
		}
		c.stat("functions_reachable_from_script_calls", visited)
		c.check(found == "", funcName(root.Obj), root.Decl.Pos(), "no write of the live log file is reachable from the script's call into the server",
			"a write of the live log file is reachable while a script runs ("+found+"): the commands an atomic script has issued so far reach the file before the script returns, so a crash in the middle of the script leaves a prefix of it in the log — a state no client ever saw")
	}
	if len(roots) == 0 {
		c.und("roots", cis.Decl.Pos(), "no function calls commandInScript")
	}
}
