package main

import (
	"fmt"
	"go/ast"
	"go/token"
	"go/types"
	"os"
	"sort"
	"strings"

	"golang.org/x/tools/go/packages"
	"golang.org/x/tools/go/ssa"
	"golang.org/x/tools/go/ssa/ssautil"
	"golang.org/x/tools/go/types/typeutil"
)

const modPath = "github.com/tidwall/tile38"

// Program is the loaded, type-checked tile38 source.
type Program struct {
	Repo string
	Fset *token.FileSet
	// tile38 packages by import path suffix ("internal/server", ...)
	Pkgs map[string]*packages.Package
	All  map[string]*packages.Package // every package by full path
	// lazily built
	ssaProg *ssa.Program
	ssaPkgs map[string]*ssa.Package

	funcDecls map[*types.Func]*ast.FuncDecl
	declPkg   map[*ast.FuncDecl]*packages.Package
	parents   map[ast.Node]ast.Node // lazily: parent links for tile38 files

	onlyFromCache map[string]map[*types.Func]bool
}

// RelPaths lists the tile38 packages by their path relative to the module.
func (p *Program) RelPaths() []string {
	var out []string
	for rel := range p.Pkgs {
		out = append(out, rel)
	}
	sort.Strings(out)
	return out
}

type loadOpts struct {
	repo    string
	overlay map[string][]byte
	env     []string // extra env (GOOS=..., GOARCH=...)
}

func load(o loadOpts) (*Program, error) {
	env := append(os.Environ(), "GOFLAGS=-mod=mod", "GOPROXY=off", "GOWORK=off")
	// GOTOOLCHAIN must stay "auto" and GOSUMDB must not be "off" on this
	// image (see DESIGN.md section 1); strip them if the caller set them.
	var clean []string
	for _, e := range env {
		if strings.HasPrefix(e, "GOTOOLCHAIN=") || strings.HasPrefix(e, "GOSUMDB=") {
			continue
		}
		clean = append(clean, e)
	}
	clean = append(clean, o.env...)
	fset := token.NewFileSet()
	cfg := &packages.Config{
		Mode:    packages.LoadAllSyntax,
		Dir:     o.repo,
		Fset:    fset,
		Env:     clean,
		Overlay: o.overlay,
		Tests:   false,
	}
	pkgs, err := packages.Load(cfg, "./internal/...", "./cmd/tile38-server", "./core")
	if err != nil {
		return nil, err
	}
	if len(pkgs) == 0 {
		return nil, fmt.Errorf("no packages loaded from %s", o.repo)
	}
	p := &Program{Repo: o.repo, Fset: fset, Pkgs: map[string]*packages.Package{}, All: map[string]*packages.Package{},
		funcDecls: map[*types.Func]*ast.FuncDecl{}, declPkg: map[*ast.FuncDecl]*packages.Package{}}
	var errs []string
	packages.Visit(pkgs, nil, func(pk *packages.Package) {
		p.All[pk.PkgPath] = pk
		if strings.HasPrefix(pk.PkgPath, modPath) {
			for _, e := range pk.Errors {
				errs = append(errs, e.Error())
			}
			if pk.IllTyped {
				errs = append(errs, pk.PkgPath+": ill-typed")
			}
			rel := strings.TrimPrefix(strings.TrimPrefix(pk.PkgPath, modPath), "/")
			p.Pkgs[rel] = pk
		}
	})
	if len(errs) > 0 {
		sort.Strings(errs)
		return nil, fmt.Errorf("type-check errors in tile38: %s", strings.Join(errs, "; "))
	}
	if p.Pkgs["internal/server"] == nil || p.Pkgs["internal/collection"] == nil {
		return nil, fmt.Errorf("tile38 packages not found under %s (got %d packages)", o.repo, len(p.Pkgs))
	}
	for _, pk := range p.Pkgs {
		for _, f := range pk.Syntax {
			for _, d := range f.Decls {
				if fd, ok := d.(*ast.FuncDecl); ok {
					if obj, ok := pk.TypesInfo.Defs[fd.Name].(*types.Func); ok {
						p.funcDecls[obj] = fd
						p.declPkg[fd] = pk
					}
				}
			}
		}
	}
	return p, nil
}

// SSA builds (once) SSA bodies for the tile38 packages only, plus any extra
// package paths requested.
func (p *Program) SSA(extra ...string) *ssa.Program {
	if p.ssaProg == nil {
		var initial []*packages.Package
		for _, pk := range p.All {
			initial = append(initial, pk)
		}
		sort.Slice(initial, func(i, j int) bool { return initial[i].PkgPath < initial[j].PkgPath })
		prog, spkgs := ssautil.Packages(initial, ssa.InstantiateGenerics)
		p.ssaProg = prog
		p.ssaPkgs = map[string]*ssa.Package{}
		for i, sp := range spkgs {
			if sp != nil {
				p.ssaPkgs[initial[i].PkgPath] = sp
			}
		}
		for path, sp := range p.ssaPkgs {
			if strings.HasPrefix(path, modPath) {
				sp.Build()
			}
		}
	}
	for _, e := range extra {
		if sp := p.ssaPkgs[e]; sp != nil {
			sp.Build()
		}
	}
	return p.ssaProg
}

func (p *Program) SSAPkg(rel string) *ssa.Package {
	p.SSA()
	return p.ssaPkgs[modPath+"/"+rel]
}

// FuncInfo bundles the views of one declared function.
type FuncInfo struct {
	Obj  *types.Func
	Decl *ast.FuncDecl
	Pkg  *packages.Package
}

func (f *FuncInfo) Info() *types.Info { return f.Pkg.TypesInfo }

// Func finds a function or method by package (relative path), receiver type
// name ("" for a plain function) and name.
func (p *Program) Func(rel, recv, name string) *FuncInfo {
	pk := p.Pkgs[rel]
	if pk == nil {
		return nil
	}
	var obj types.Object
	if recv == "" {
		obj = pk.Types.Scope().Lookup(name)
	} else {
		t := pk.Types.Scope().Lookup(recv)
		if t == nil {
			return nil
		}
		obj, _, _ = types.LookupFieldOrMethod(types.NewPointer(t.Type()), true, pk.Types, name)
	}
	fn, ok := obj.(*types.Func)
	if !ok {
		return nil
	}
	fd := p.funcDecls[fn]
	if fd == nil {
		return nil
	}
	return &FuncInfo{fn, fd, pk}
}

func (p *Program) FuncOf(fn *types.Func) *FuncInfo {
	fd := p.funcDecls[fn]
	if fd == nil {
		return nil
	}
	return &FuncInfo{fn, fd, p.declPkg[fd]}
}

// AllFuncs returns every declared function of the given tile38 package.
func (p *Program) AllFuncs(rel string) []*FuncInfo {
	pk := p.Pkgs[rel]
	if pk == nil {
		return nil
	}
	var out []*FuncInfo
	for _, f := range pk.Syntax {
		for _, d := range f.Decls {
			if fd, ok := d.(*ast.FuncDecl); ok && fd.Body != nil {
				if obj, ok := pk.TypesInfo.Defs[fd.Name].(*types.Func); ok {
					out = append(out, &FuncInfo{obj, fd, pk})
				}
			}
		}
	}
	return out
}

// Field returns the *types.Var of a struct field.
func (p *Program) Field(rel, typ, field string) *types.Var {
	pk := p.Pkgs[rel]
	if pk == nil {
		return nil
	}
	t := pk.Types.Scope().Lookup(typ)
	if t == nil {
		return nil
	}
	st, ok := t.Type().Underlying().(*types.Struct)
	if !ok {
		return nil
	}
	for i := 0; i < st.NumFields(); i++ {
		if st.Field(i).Name() == field {
			return st.Field(i)
		}
	}
	return nil
}

// funcName gives a short stable name: (*Server).cmdSET, collection.(*Collection).Set
func funcName(fn *types.Func) string {
	if fn == nil {
		return "<nil>"
	}
	sig := fn.Type().(*types.Signature)
	pk := ""
	if fn.Pkg() != nil {
		pk = fn.Pkg().Name()
	}
	if r := sig.Recv(); r != nil {
		t := r.Type()
		ptr := ""
		if pt, ok := t.(*types.Pointer); ok {
			t = pt.Elem()
			ptr = "*"
		}
		tn := "?"
		if n, ok := t.(*types.Named); ok {
			tn = n.Obj().Name()
		}
		return fmt.Sprintf("%s.(%s%s).%s", pk, ptr, tn, fn.Name())
	}
	return pk + "." + fn.Name()
}

// callee resolves the static callee of a call (functions, concrete methods,
// interface methods as abstract *types.Func).
func callee(info *types.Info, call *ast.CallExpr) *types.Func {
	if f, ok := typeutil.Callee(info, call).(*types.Func); ok {
		return f
	}
	return nil
}

// isFunc reports whether fn is pkgpath.name (plain function).
func isFunc(fn *types.Func, pkgPath, name string) bool {
	return fn != nil && fn.Pkg() != nil && fn.Pkg().Path() == pkgPath && fn.Name() == name &&
		fn.Type().(*types.Signature).Recv() == nil
}

// recvNamed returns the receiver's named type (through pointer), or nil.
func recvNamed(fn *types.Func) *types.Named {
	if fn == nil {
		return nil
	}
	r := fn.Type().(*types.Signature).Recv()
	if r == nil {
		return nil
	}
	t := r.Type()
	if pt, ok := t.(*types.Pointer); ok {
		t = pt.Elem()
	}
	n, _ := t.(*types.Named)
	return n
}

// isMethod reports whether fn is a method named name on type pkgPath.typ.
func isMethod(fn *types.Func, pkgPath, typ, name string) bool {
	n := recvNamed(fn)
	if n == nil || fn.Name() != name {
		return false
	}
	o := n.Obj()
	return o.Name() == typ && o.Pkg() != nil && o.Pkg().Path() == pkgPath
}

func namedOf(t types.Type) *types.Named {
	for {
		switch x := t.(type) {
		case *types.Pointer:
			t = x.Elem()
		case *types.Named:
			return x
		case *types.Alias:
			t = types.Unalias(x)
		default:
			return nil
		}
	}
}

func isNamedType(t types.Type, pkgPath, name string) bool {
	n := namedOf(t)
	if n == nil {
		return false
	}
	o := n.Origin().Obj()
	return o.Name() == name && o.Pkg() != nil && o.Pkg().Path() == pkgPath
}

// selField returns the field object a selector expression denotes, or nil.
func selField(info *types.Info, e ast.Expr) *types.Var {
	se, ok := ast.Unparen(e).(*ast.SelectorExpr)
	if !ok {
		return nil
	}
	if sel := info.Selections[se]; sel != nil && sel.Kind() == types.FieldVal {
		if v, ok := sel.Obj().(*types.Var); ok {
			return v
		}
	}
	return nil
}

// strConst returns the constant string value of e, if any.
func strConst(info *types.Info, e ast.Expr) (string, bool) {
	tv, ok := info.Types[e]
	if !ok || tv.Value == nil {
		return "", false
	}
	if tv.Value.Kind().String() != "String" {
		return "", false
	}
	s := tv.Value.ExactString()
	// ExactString is quoted
	var out string
	if _, err := fmt.Sscanf(s, "%q", &out); err != nil {
		return "", false
	}
	return out, true
}

// Parents lazily computes parent links for all tile38 files.
func (p *Program) Parent(n ast.Node) ast.Node {
	if p.parents == nil {
		p.parents = map[ast.Node]ast.Node{}
		for _, pk := range p.Pkgs {
			for _, f := range pk.Syntax {
				var stack []ast.Node
				ast.Inspect(f, func(n ast.Node) bool {
					if n == nil {
						stack = stack[:len(stack)-1]
						return true
					}
					if len(stack) > 0 {
						p.parents[n] = stack[len(stack)-1]
					}
					stack = append(stack, n)
					return true
				})
			}
		}
	}
	return p.parents[n]
}

// exprStr renders an expression compactly (types.ExprString elides
// literals bodies, which is fine for keys).
func exprStr(e ast.Expr) string { return types.ExprString(e) }
