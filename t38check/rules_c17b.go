package main

import (
	"fmt"
	"go/ast"
	"go/token"
	"go/types"
	"regexp"
	"strings"
)

func init() {
	register(&Rule{ID: "R17.resp-lines", Props: []string{"C17", "C16"}, Floor: 2,
		Text: "RESP simple strings and errors assembled by hand in internal/server (a concatenation or Sprintf format whose first literal begins with '+' or '-' and a letter, or with '+' or '-' when the chain ends in CR LF) stay on one line: the literal pieces contain CR LF only as the terminator, and every other piece is a producer that cannot contain a control character — a constant, a number, quote-free text or a JSON value by the fragment typing's tables — or one reviewed construct; everything else must go through resp.ErrorValue / resp.SimpleStringValue, which blank control characters (an argument echoed into an error line with a CR LF in it ends the reply early and desynchronises the pipeline)",
		Run:  ruleRespLines})
}

// reviewed holes of hand-built RESP lines, one construct each
var respLineReviewed = map[string]string{
	"server.(*Server).handleInputCommand→cmd":   "the 'wrong number of arguments' line is written only for errInvalidNumberOfArguments, which only the handlers of the dispatch table (and the TIMEOUT rewrite) return: the command name then equals one of the table's lower-case constants",
	"server.(*Server).liveSubscription→command": "writeWrongNumberOfArgsErr is called with msg.Command() after the subscription switch, whose default arm continues the loop: the name equals one of the arm constants",
}

func ruleRespLines(c *Ctx) {
	head := regexp.MustCompile(`^[-+][A-Za-z]`)
	n := 0
	for _, fn := range c.AllFuncs("internal/server") {
		info := fn.Info()
		j := &jtCtx{c: c, fn: fn, info: info}
		check := func(at ast.Node, pieces []jtPiece) {
			if len(pieces) == 0 || pieces[0].hole != nil || pieces[0].lit == "" {
				return
			}
			// a RESP simple line: '+' or '-' then a letter, or '+' / '-' … CR LF
			last := pieces[len(pieces)-1]
			terminated := last.hole == nil && strings.HasSuffix(last.lit, "\r\n")
			if !head.MatchString(pieces[0].lit) && !((pieces[0].lit[0] == '+' || pieces[0].lit[0] == '-') && terminated) {
				return
			}
			n++
			base := funcName(fn.Obj) + "→"
			// literal pieces: CR LF only as the terminator of the chain
			okLit := true
			for i, p := range pieces {
				if p.hole != nil {
					continue
				}
				s := p.lit
				if i == len(pieces)-1 {
					s = strings.TrimSuffix(s, "\r\n")
				}
				if strings.ContainsAny(s, "\r\n") {
					okLit = false
				}
			}
			lit := pieces[0].lit
			if len(lit) > 24 {
				lit = lit[:24]
			}
			c.check(okLit, base+fmt.Sprintf("%q/literals", lit), at.Pos(), "CR LF occurs only as the terminator", "a literal piece of the RESP line contains CR or LF before the terminator")
			for _, p := range pieces {
				if p.hole == nil {
					continue
				}
				key := base + exprStr(p.hole)
				if why, ok := respLineReviewed[key]; ok {
					c.ok(key, p.hole.Pos(), true, "reviewed: %s", why)
					continue
				}
				t := info.TypeOf(p.hole)
				if t != nil {
					if b, ok := t.Underlying().(*types.Basic); ok && b.Info()&(types.IsNumeric|types.IsBoolean) != 0 {
						c.ok(key, p.hole.Pos(), false, "a number or boolean")
						continue
					}
				}
				cls, why := j.classify(p.hole, 0)
				if cls == jtText || cls == jtValue {
					c.ok(key, p.hole.Pos(), true, "%s: cannot contain a control character", why)
				} else if why2, ok := lineSafe(c, j, fn, p.hole, 0); ok {
					c.ok(key, p.hole.Pos(), true, "%s: cannot contain a control character", why2)
				} else {
					c.bad(key, p.hole.Pos(), "%s is copied into a hand-built RESP line (%s): a CR or LF in it ends the reply early, the rest is read as further replies and the client's replies fall out of step with its requests", exprStr(p.hole), why)
				}
			}
		}
		ast.Inspect(fn.Decl.Body, func(x ast.Node) bool {
			switch e := x.(type) {
			case *ast.BinaryExpr:
				if e.Op != token.ADD {
					return true
				}
				if tv, ok := info.Types[e]; !ok || !isStringType(tv.Type) {
					return true
				}
				// outermost concatenation only
				if p, ok := c.Parent(e).(*ast.BinaryExpr); ok && p.Op == token.ADD {
					return true
				}
				if pp, ok := c.Parent(e).(*ast.ParenExpr); ok {
					if p, ok := c.Parent(pp).(*ast.BinaryExpr); ok && p.Op == token.ADD {
						return true
					}
				}
				check(e, chainFromConcat(info, e))
			case *ast.CallExpr:
				f := callee(info, e)
				if f == nil || !(isFunc(f, "fmt", "Sprintf") || isFunc(f, "fmt", "Fprintf") || isFunc(f, "fmt", "Errorf")) {
					return true
				}
				ai := 0
				if isFunc(f, "fmt", "Fprintf") {
					ai = 1
				}
				if len(e.Args) <= ai {
					return true
				}
				format, ok := constString(info, e.Args[ai])
				if !ok || format == "" || !(head.MatchString(format) || (format[0] == '+' || format[0] == '-') && strings.HasSuffix(format, "\r\n")) {
					return true
				}
				// one literal piece (the format with its verbs removed) and one hole per argument
				ps := []jtPiece{{lit: regexp.MustCompile(`%[-+# 0-9.]*[a-zA-Z]`).ReplaceAllString(format, "")}}
				for _, a := range e.Args[ai+1:] {
					ps = append(ps, jtPiece{hole: a})
				}
				// keep the terminator check meaningful: the literal is first and last
				lit := ps[0].lit
				ps = append(ps, jtPiece{lit: ""})
				if strings.HasSuffix(lit, "\r\n") {
					ps[0].lit = strings.TrimSuffix(lit, "\r\n")
					ps[len(ps)-1].lit = "\r\n"
				}
				check(e, ps)
			}
			return true
		})
	}
	c.stat("resp_lines", n)
}

// lineSafe: the expression cannot contain a control character — beyond the fragment typing's text and value
// classes: Go-quoted text (strconv.Quote escapes every control character), the peer address of a
// connection, and locals all of whose definitions (assignments, appends) are line-safe.
func lineSafe(c *Ctx, j *jtCtx, fn *FuncInfo, e ast.Expr, depth int) (string, bool) {
	return lineSafeEnv(c, j, fn, e, depth, nil)
}

// lineSafeEnv: env lists the parameters of fn that are known to be line-safe at the call under consideration.
func lineSafeEnv(c *Ctx, j *jtCtx, fn *FuncInfo, e ast.Expr, depth int, env map[types.Object]bool) (string, bool) {
	info := fn.Info()
	e = ast.Unparen(e)
	if depth > 6 {
		return "", false
	}
	if tv, ok := info.Types[e]; ok {
		if tv.IsNil() {
			return "nil (empty)", true
		}
		if tv.Value != nil {
			if s, isStr := constString(info, e); isStr && strings.ContainsAny(s, "\r\n") {
				return "", false
			}
			return "constant", true
		}
		if b, ok := tv.Type.Underlying().(*types.Basic); ok && b.Info()&(types.IsNumeric|types.IsBoolean) != 0 {
			return "a number or boolean", true
		}
	}
	if cls, why := j.classify(e, 0); cls == jtText || cls == jtValue {
		return why, true
	}
	switch x := e.(type) {
	case *ast.BinaryExpr:
		if x.Op == token.ADD {
			if _, ok := lineSafeEnv(c, j, fn, x.X, depth+1, env); ok {
				if _, ok := lineSafeEnv(c, j, fn, x.Y, depth+1, env); ok {
					return "concatenation of line-safe pieces", true
				}
			}
		}
	case *ast.CallExpr:
		if f := callee(info, x); f != nil {
			switch funcKey(f) {
			case "strconv.Quote", "strconv.QuoteToASCII":
				return "Go-quoted text", true
			case "strconv.AppendQuote", "strconv.AppendQuoteToASCII":
				if len(x.Args) == 2 {
					if _, ok := lineSafeEnv(c, j, fn, x.Args[0], depth+1, env); ok {
						return "Go-quoted text appended to line-safe text", true
					}
				}
			}
		}
		// a repository helper all of whose results are line-safe, given what this call passes for its parameters
		if f := callee(info, x); f != nil {
			if hi := c.FuncOf(f); hi != nil && hi.Decl.Body != nil && hi.Obj != fn.Obj {
				sig := f.Type().(*types.Signature)
				if sig.Results().Len() == 1 && !sig.Variadic() && len(x.Args) == sig.Params().Len() {
					henv := map[types.Object]bool{}
					for i, a := range x.Args {
						if _, ok := lineSafeEnv(c, j, fn, a, depth+1, env); ok {
							henv[sig.Params().At(i)] = true
						}
					}
					hj := &jtCtx{c: c, fn: hi, info: hi.Info()}
					rets, all := 0, true
					inspectNoLit(hi.Decl.Body, func(n ast.Node) bool {
						if r, ok := n.(*ast.ReturnStmt); ok {
							rets++
							if len(r.Results) != 1 {
								all = false
							} else if _, ok := lineSafeEnv(c, hj, hi, r.Results[0], depth+1, henv); !ok {
								all = false
							}
						}
						return true
					})
					if rets > 0 && all {
						return "result of " + f.Name() + ", which returns line-safe text for these arguments", true
					}
				}
			}
		}
		// conversions string(x), []byte(x)
		if tv, ok := info.Types[x.Fun]; ok && tv.IsType() && len(x.Args) == 1 {
			return lineSafeEnv(c, j, fn, x.Args[0], depth+1, env)
		}
		// append(base, pieces...)
		if id, ok := ast.Unparen(x.Fun).(*ast.Ident); ok && id.Name == "append" && info.Uses[id] == types.Universe.Lookup("append") && len(x.Args) >= 1 {
			for _, a := range x.Args {
				if _, ok := lineSafeEnv(c, j, fn, a, depth+1, env); !ok {
					return "", false
				}
			}
			return "appends of line-safe pieces", true
		}
	case *ast.SelectorExpr:
		if f := selField(info, x); f != nil && f == c.Field("internal/server", "Client", "remoteAddr") {
			return "the peer address of the connection (net.Addr.String())", true
		}
	case *ast.Ident:
		v, ok := info.ObjectOf(x).(*types.Var)
		if !ok || v.IsField() || v.Parent() == v.Pkg().Scope() {
			return "", false
		}
		if why, ok := respLineReviewed[funcName(fn.Obj)+"→"+x.Name]; ok {
			return "reviewed: " + why, true
		}
		// a parameter is whatever the caller passes
		for _, p := range fn.Decl.Type.Params.List {
			for _, nm := range p.Names {
				if info.ObjectOf(nm) == v && !env[v] {
					return "", false
				}
			}
		}
		defs, okAll := 0, true
		// a parameter of a local closure is whatever its calls pass
		if args, isCl, ok := closureParamArgs(c.Program, info, fn.Decl, v); isCl {
			if !ok || len(args) == 0 {
				return "", false
			}
			for _, a := range args {
				if _, ok := lineSafeEnv(c, j, fn, a, depth+1, env); !ok {
					return "", false
				}
			}
		}
		ast.Inspect(fn.Decl.Body, func(n ast.Node) bool {
			switch s := n.(type) {
			case *ast.AssignStmt:
				for i, l := range s.Lhs {
					if id, isId := ast.Unparen(l).(*ast.Ident); isId && info.ObjectOf(id) == v {
						defs++
						if len(s.Lhs) != len(s.Rhs) {
							okAll = false
							continue
						}
						// x = append(x, …) refers to x itself: skip the base operand
						rhs := ast.Unparen(s.Rhs[i])
						if call, isCall := rhs.(*ast.CallExpr); isCall && len(call.Args) >= 1 {
							if base, isId := ast.Unparen(call.Args[0]).(*ast.Ident); isId && info.ObjectOf(base) == v {
								if fid, isF := ast.Unparen(call.Fun).(*ast.Ident); isF && fid.Name == "append" {
									for _, a := range call.Args[1:] {
										if _, ok := lineSafeEnv(c, j, fn, a, depth+1, env); !ok {
											okAll = false
										}
									}
									continue
								}
								if f := callee(info, call); f != nil && (funcKey(f) == "strconv.AppendQuote" || funcKey(f) == "strconv.AppendQuoteToASCII") {
									continue
								}
							}
						}
						if _, ok := lineSafeEnv(c, j, fn, rhs, depth+1, env); !ok {
							okAll = false
						}
					}
				}
			case *ast.RangeStmt:
				for _, kv := range []ast.Expr{s.Key, s.Value} {
					if id, isId := kv.(*ast.Ident); isId && info.ObjectOf(id) == v {
						okAll = false
					}
				}
			case *ast.UnaryExpr:
				if s.Op == token.AND {
					if id, isId := ast.Unparen(s.X).(*ast.Ident); isId && info.ObjectOf(id) == v {
						okAll = false
					}
				}
			}
			return true
		})
		if okAll {
			return fmt.Sprintf("local with %d definitions, each line-safe", defs), true
		}
	}
	return "", false
}
