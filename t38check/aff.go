package main

// AFF — affine-equality analysis (Karr 1976) over go/cfg.
//
// The abstract value at a program point is an affine subspace of Q^n (n =
// number of tracked quantities), kept as a point plus a set of linearly
// independent direction vectors. Tracked quantities of a function are its
// integer locals, the lengths of its slice locals, selected integer fields
// of the receiver, and ghost quantities introduced by the client rule.
// Assignments of affine expressions are exact; everything else havocs its
// targets. Joins are affine hulls, so the lattice has height n+1 and no
// widening is needed. Guards contribute only equalities (a == b, and
// len(x) == 0 from the false edge of len(x) > 0, using len >= 0).
//
// The client asks, at a node, whether an affine functional is identically
// zero on the space: that is a proof that the equality holds on every path
// (relative to the modelled transfer functions); a non-zero functional is
// reported as "not provable", which the rule turns into a violation.

import (
	"go/ast"
	"go/constant"
	"go/token"
	"go/types"
	"math/big"

	"golang.org/x/tools/go/cfg"
)

type affVec []*big.Rat

func newVec(n int) affVec {
	v := make(affVec, n)
	for i := range v {
		v[i] = new(big.Rat)
	}
	return v
}

func (v affVec) clone() affVec {
	w := make(affVec, len(v))
	for i := range v {
		w[i] = new(big.Rat).Set(v[i])
	}
	return w
}

func (v affVec) isZero() bool {
	for _, x := range v {
		if x.Sign() != 0 {
			return false
		}
	}
	return true
}

// affForm is an affine functional: sum coef[i]*x_i + c.
type affForm struct {
	coef affVec
	c    *big.Rat
}

func newForm(n int) *affForm { return &affForm{coef: newVec(n), c: new(big.Rat)} }

func (f *affForm) clone() *affForm { return &affForm{coef: f.coef.clone(), c: new(big.Rat).Set(f.c)} }

func (f *affForm) add(g *affForm, k int64) *affForm {
	r := f.clone()
	kk := new(big.Rat).SetInt64(k)
	for i := range r.coef {
		r.coef[i].Add(r.coef[i], new(big.Rat).Mul(kk, g.coef[i]))
	}
	r.c.Add(r.c, new(big.Rat).Mul(kk, g.c))
	return r
}

func (f *affForm) scale(k *big.Rat) *affForm {
	r := f.clone()
	for i := range r.coef {
		r.coef[i].Mul(r.coef[i], k)
	}
	r.c.Mul(r.c, k)
	return r
}

func (f *affForm) isConst() bool { return f.coef.isZero() }

type affSpace struct {
	n      int
	bottom bool
	p      affVec
	vs     []affVec
}

func affBottom(n int) *affSpace { return &affSpace{n: n, bottom: true} }

func (s *affSpace) clone() *affSpace {
	if s.bottom {
		return affBottom(s.n)
	}
	r := &affSpace{n: s.n, p: s.p.clone()}
	for _, v := range s.vs {
		r.vs = append(r.vs, v.clone())
	}
	return r
}

// normalise reduces vs to a linearly independent set (row echelon form).
func (s *affSpace) normalise() {
	var out []affVec
	rows := s.vs
	col := 0
	for col < s.n && len(rows) > 0 {
		piv := -1
		for i, r := range rows {
			if r[col].Sign() != 0 {
				piv = i
				break
			}
		}
		if piv < 0 {
			col++
			continue
		}
		pr := rows[piv]
		rows = append(rows[:piv:piv], rows[piv+1:]...)
		inv := new(big.Rat).Inv(pr[col])
		for i := range pr {
			pr[i].Mul(pr[i], inv)
		}
		var rest []affVec
		for _, r := range rows {
			if r[col].Sign() != 0 {
				k := new(big.Rat).Set(r[col])
				for i := range r {
					r[i].Sub(r[i], new(big.Rat).Mul(k, pr[i]))
				}
			}
			if !r.isZero() {
				rest = append(rest, r)
			}
		}
		for _, o := range out {
			if o[col].Sign() != 0 {
				k := new(big.Rat).Set(o[col])
				for i := range o {
					o[i].Sub(o[i], new(big.Rat).Mul(k, pr[i]))
				}
			}
		}
		out = append(out, pr)
		rows = rest
		col++
	}
	s.vs = out
}

func (s *affSpace) rank() int {
	if s.bottom {
		return -1
	}
	return len(s.vs)
}

// join returns the affine hull of s and t.
func (s *affSpace) join(t *affSpace) *affSpace {
	if s.bottom {
		return t.clone()
	}
	if t.bottom {
		return s.clone()
	}
	r := s.clone()
	for _, v := range t.vs {
		r.vs = append(r.vs, v.clone())
	}
	d := newVec(s.n)
	for i := range d {
		d[i].Sub(t.p[i], s.p[i])
	}
	if !d.isZero() {
		r.vs = append(r.vs, d)
	}
	r.normalise()
	return r
}

func (f *affForm) evalLin(v affVec) *big.Rat {
	r := new(big.Rat)
	for i := range v {
		if f.coef[i].Sign() != 0 && v[i].Sign() != 0 {
			r.Add(r, new(big.Rat).Mul(f.coef[i], v[i]))
		}
	}
	return r
}

// holds: f == 0 on the whole space.
func (s *affSpace) holds(f *affForm) bool {
	if s.bottom {
		return true
	}
	if new(big.Rat).Add(f.evalLin(s.p), f.c).Sign() != 0 {
		return false
	}
	for _, v := range s.vs {
		if f.evalLin(v).Sign() != 0 {
			return false
		}
	}
	return true
}

// assume intersects the space with f == 0.
func (s *affSpace) assume(f *affForm) *affSpace {
	if s.bottom {
		return s
	}
	r := s.clone()
	fp := new(big.Rat).Add(f.evalLin(r.p), f.c)
	pi := -1
	for i, v := range r.vs {
		if f.evalLin(v).Sign() != 0 {
			pi = i
			break
		}
	}
	if pi < 0 {
		if fp.Sign() != 0 {
			return affBottom(s.n)
		}
		return r
	}
	v0 := r.vs[pi]
	f0 := f.evalLin(v0)
	k := new(big.Rat).Quo(fp, f0)
	for i := range r.p {
		r.p[i].Sub(r.p[i], new(big.Rat).Mul(k, v0[i]))
	}
	var vs []affVec
	for i, v := range r.vs {
		if i == pi {
			continue
		}
		kv := new(big.Rat).Quo(f.evalLin(v), f0)
		if kv.Sign() != 0 {
			for j := range v {
				v[j].Sub(v[j], new(big.Rat).Mul(kv, v0[j]))
			}
		}
		vs = append(vs, v)
	}
	r.vs = vs
	r.normalise()
	return r
}

// assignMany performs the simultaneous assignment x_i := forms[i] (nil form = havoc).
func (s *affSpace) assignMany(forms map[int]*affForm) *affSpace {
	if s.bottom {
		return s
	}
	r := s.clone()
	for x, f := range forms {
		if f == nil {
			continue
		}
		r.p[x] = new(big.Rat).Add(f.evalLin(s.p), f.c)
		for i, v := range s.vs {
			r.vs[i][x] = f.evalLin(v)
		}
	}
	for x, f := range forms {
		if f == nil {
			r.p[x] = new(big.Rat)
			for _, v := range r.vs {
				v[x] = new(big.Rat)
			}
			e := newVec(s.n)
			e[x].SetInt64(1)
			r.vs = append(r.vs, e)
		}
	}
	r.normalise()
	return r
}

// ---------------------------------------------------------------------------

type affVarKind int

const (
	affInt affVarKind = iota
	affLen
	affField
	affGhost
)

type affVar struct {
	kind affVarKind
	obj  types.Object // local (affInt, affLen) or field (affField)
	name string
}

// AffClient customises the analysis of one function.
type AffClient struct {
	Fields []*types.Var // integer fields of the receiver to track
	Ghosts []string
	// After is called after the default transfer of a block node; it may
	// update ghosts. st is the state after the node.
	After func(a *Aff, n ast.Node, st *affSpace) *affSpace
	// Before is called before the default transfer of a block node (to save pre-state in ghosts).
	Before func(a *Aff, n ast.Node, st *affSpace) *affSpace
	// Edge may add equalities known on a branch edge (library contracts).
	Edge func(a *Aff, facts []Fact, st *affSpace) *affSpace
	// Init constrains the entry state.
	Init func(a *Aff, st *affSpace) *affSpace
	// FieldWrittenBy reports whether a call may (synchronously) write the field.
	FieldWrittenBy func(call *ast.CallExpr, f *types.Var) bool
	// Inline returns the function to analyse in place of the call (a helper that takes part in the
	// bookkeeping), or nil. Inlined calls are analysed over the caller's quantities plus the callee's
	// locals, with parameters bound to the argument forms; depth is bounded.
	Inline func(call *ast.CallExpr) *FuncInfo
}

type Aff struct {
	parent *Aff
	depth  int
	c      *Ctx
	fn     *FuncInfo
	info   *types.Info
	fg     *FlowGraph
	cl     *AffClient
	vars   []affVar
	idx    map[types.Object]int // locals: int var or slice (len)
	fidx   map[*types.Var]int
	gidx   map[string]int
	in     map[int32]*affSpace
	Notes  []string
}

func (a *Aff) N() int { return len(a.vars) }

func (a *Aff) Ghost(name string) int { return a.gidx[name] }

func (a *Aff) VarForm(i int) *affForm {
	f := newForm(a.N())
	f.coef[i].SetInt64(1)
	return f
}

func isSliceType(t types.Type) bool {
	_, ok := t.Underlying().(*types.Slice)
	return ok
}

// newAff prepares the analysis of fn's body (function literals are not
// entered; locals they assign or whose address is taken are not tracked).
func newAff(c *Ctx, fn *FuncInfo, cl *AffClient) *Aff {
	a := &Aff{c: c, fn: fn, info: fn.Info(), cl: cl, idx: map[types.Object]int{}, fidx: map[*types.Var]int{}, gidx: map[string]int{}, in: map[int32]*affSpace{}}
	a.fg = newFlowGraph(a.info, fn.Decl.Body)
	excluded := map[types.Object]bool{}
	var scanLit func(n ast.Node)
	scanLit = func(n ast.Node) {
		ast.Inspect(n, func(m ast.Node) bool {
			switch x := m.(type) {
			case *ast.AssignStmt:
				for _, l := range x.Lhs {
					if id, ok := ast.Unparen(l).(*ast.Ident); ok {
						excluded[a.info.ObjectOf(id)] = true
					}
				}
			case *ast.IncDecStmt:
				if id, ok := ast.Unparen(x.X).(*ast.Ident); ok {
					excluded[a.info.ObjectOf(id)] = true
				}
			}
			return true
		})
	}
	ast.Inspect(fn.Decl.Body, func(m ast.Node) bool {
		switch x := m.(type) {
		case *ast.FuncLit:
			scanLit(x.Body)
			return false
		case *ast.UnaryExpr:
			if x.Op == token.AND {
				if id, ok := ast.Unparen(x.X).(*ast.Ident); ok {
					excluded[a.info.ObjectOf(id)] = true
				}
			}
		}
		return true
	})
	add := func(v affVar) int {
		a.vars = append(a.vars, v)
		return len(a.vars) - 1
	}
	inspectNoLit(fn.Decl.Body, func(m ast.Node) bool {
		id, ok := m.(*ast.Ident)
		if !ok {
			return true
		}
		obj, ok := a.info.Defs[id].(*types.Var)
		if !ok || obj == nil || excluded[obj] || obj.IsField() {
			return true
		}
		if _, seen := a.idx[obj]; seen {
			return true
		}
		switch {
		case isIntType(obj.Type()):
			a.idx[obj] = add(affVar{affInt, obj, obj.Name()})
		case isSliceType(obj.Type()):
			a.idx[obj] = add(affVar{affLen, obj, "len(" + obj.Name() + ")"})
		}
		return true
	})
	for _, f := range cl.Fields {
		a.fidx[f] = add(affVar{affField, f, "." + f.Name()})
	}
	for _, g := range cl.Ghosts {
		a.gidx[g] = add(affVar{affGhost, nil, "#" + g})
	}
	return a
}

// Form translates an integer expression into an affine form over the tracked quantities.
func (a *Aff) Form(e ast.Expr) (*affForm, bool) {
	e = ast.Unparen(e)
	if tv, ok := a.info.Types[e]; ok && tv.Value != nil && tv.Value.Kind() == constant.Int {
		if v, exact := constant.Int64Val(tv.Value); exact {
			f := newForm(a.N())
			f.c.SetInt64(v)
			return f, true
		}
	}
	switch x := e.(type) {
	case *ast.Ident:
		if i, ok := a.idx[a.info.ObjectOf(x)]; ok && a.vars[i].kind == affInt {
			return a.VarForm(i), true
		}
	case *ast.SelectorExpr:
		if fv := selField(a.info, x); fv != nil {
			if i, ok := a.fidx[fv]; ok {
				if _, isRecv := ast.Unparen(x.X).(*ast.Ident); isRecv {
					return a.VarForm(i), true
				}
			}
		}
	case *ast.CallExpr:
		if tv, ok := a.info.Types[x.Fun]; ok && tv.IsType() && len(x.Args) == 1 && isIntType(tv.Type) {
			// integer conversion (value-preserving for the offsets concerned; overflow is out of scope)
			if at, ok := a.info.Types[x.Args[0]]; ok && isIntType(at.Type) {
				return a.Form(x.Args[0])
			}
		}
		if id, ok := ast.Unparen(x.Fun).(*ast.Ident); ok && id.Name == "len" && len(x.Args) == 1 {
			if _, isB := a.info.Uses[id].(*types.Builtin); isB {
				return a.LenForm(x.Args[0])
			}
		}
	case *ast.BinaryExpr:
		switch x.Op {
		case token.ADD, token.SUB:
			l, ok1 := a.Form(x.X)
			r, ok2 := a.Form(x.Y)
			if ok1 && ok2 {
				if x.Op == token.ADD {
					return l.add(r, 1), true
				}
				return l.add(r, -1), true
			}
		case token.MUL:
			l, ok1 := a.Form(x.X)
			r, ok2 := a.Form(x.Y)
			if ok1 && ok2 {
				if l.isConst() {
					return r.scale(l.c), true
				}
				if r.isConst() {
					return l.scale(r.c), true
				}
			}
		}
	case *ast.UnaryExpr:
		if x.Op == token.SUB {
			if f, ok := a.Form(x.X); ok {
				return f.scale(big.NewRat(-1, 1)), true
			}
		}
	}
	return nil, false
}

// LenForm: the length of a slice-valued expression as an affine form.
func (a *Aff) LenForm(e ast.Expr) (*affForm, bool) {
	e = ast.Unparen(e)
	switch x := e.(type) {
	case *ast.Ident:
		if i, ok := a.idx[a.info.ObjectOf(x)]; ok && a.vars[i].kind == affLen {
			return a.VarForm(i), true
		}
		if x.Name == "nil" {
			return newForm(a.N()), true
		}
	case *ast.SliceExpr:
		if x.Slice3 {
			return nil, false
		}
		var lo, hi *affForm
		ok := true
		if x.Low != nil {
			lo, ok = a.Form(x.Low)
			if !ok {
				return nil, false
			}
		} else {
			lo = newForm(a.N())
		}
		if x.High != nil {
			hi, ok = a.Form(x.High)
		} else {
			// x[lo:]: needs len(x); arrays have a constant length
			if t, isArr := a.info.TypeOf(x.X).Underlying().(*types.Array); isArr {
				hi = newForm(a.N())
				hi.c.SetInt64(t.Len())
			} else {
				hi, ok = a.LenForm(x.X)
			}
		}
		if !ok {
			return nil, false
		}
		return hi.add(lo, -1), true
	case *ast.CallExpr:
		if id, ok := ast.Unparen(x.Fun).(*ast.Ident); ok {
			if _, isB := a.info.Uses[id].(*types.Builtin); isB {
				switch id.Name {
				case "append":
					if len(x.Args) == 0 {
						return nil, false
					}
					base, ok := a.LenForm(x.Args[0])
					if !ok {
						return nil, false
					}
					if x.Ellipsis.IsValid() {
						if len(x.Args) != 2 {
							return nil, false
						}
						if bt, ok := a.info.TypeOf(x.Args[1]).Underlying().(*types.Basic); ok && bt.Info()&types.IsString != 0 {
							return nil, false
						}
						more, ok := a.LenForm(x.Args[1])
						if !ok {
							return nil, false
						}
						return base.add(more, 1), true
					}
					k := newForm(a.N())
					k.c.SetInt64(int64(len(x.Args) - 1))
					return base.add(k, 1), true
				case "make":
					if len(x.Args) >= 2 {
						return a.Form(x.Args[1])
					}
				}
			}
		}
	case *ast.CompositeLit:
		if _, ok := a.info.TypeOf(x).Underlying().(*types.Slice); ok {
			keyed := false
			for _, el := range x.Elts {
				if _, ok := el.(*ast.KeyValueExpr); ok {
					keyed = true
				}
			}
			if !keyed {
				f := newForm(a.N())
				f.c.SetInt64(int64(len(x.Elts)))
				return f, true
			}
		}
	}
	return nil, false
}

// target returns the tracked index assigned by an lvalue, or -1.
func (a *Aff) target(l ast.Expr) int {
	switch x := ast.Unparen(l).(type) {
	case *ast.Ident:
		if i, ok := a.idx[a.info.ObjectOf(x)]; ok {
			return i
		}
	case *ast.SelectorExpr:
		if fv := selField(a.info, x); fv != nil {
			if i, ok := a.fidx[fv]; ok {
				return i
			}
		}
	}
	return -1
}

func (a *Aff) rhsForm(i int, r ast.Expr) *affForm {
	var f *affForm
	var ok bool
	if a.vars[i].kind == affLen {
		f, ok = a.LenForm(r)
	} else {
		f, ok = a.Form(r)
	}
	if !ok {
		return nil
	}
	return f
}

// transfer applies one block node.
func (a *Aff) transfer(n ast.Node, st *affSpace) *affSpace {
	if st.bottom {
		return st
	}
	if a.cl.Before != nil {
		st = a.cl.Before(a, n, st)
	}
	inlined := map[*ast.CallExpr]bool{}
	if a.cl.Inline != nil && a.depth < 2 {
		var calls []*ast.CallExpr
		inspectNoLit(n, func(m ast.Node) bool {
			if call, ok := m.(*ast.CallExpr); ok {
				calls = append(calls, call)
			}
			return true
		})
		for _, call := range calls {
			if fi := a.cl.Inline(call); fi != nil && fi.Obj != a.fn.Obj && !a.inStack(fi) {
				st = a.inlineCall(call, fi, st)
				inlined[call] = true
			}
		}
	}
	forms := map[int]*affForm{}
	havocCalls := func(root ast.Node) {
		inspectNoLit(root, func(m ast.Node) bool {
			if call, ok := m.(*ast.CallExpr); ok && a.cl.FieldWrittenBy != nil && !inlined[call] {
				for f, i := range a.fidx {
					if a.cl.FieldWrittenBy(call, f) {
						forms[i] = nil
					}
				}
			}
			return true
		})
	}
	switch x := n.(type) {
	case *ast.AssignStmt:
		havocCalls(x)
		switch {
		case x.Tok == token.ASSIGN || x.Tok == token.DEFINE:
			if len(x.Lhs) == len(x.Rhs) {
				for k, l := range x.Lhs {
					if i := a.target(l); i >= 0 {
						forms[i] = a.rhsForm(i, x.Rhs[k])
					}
				}
			} else {
				for _, l := range x.Lhs {
					if i := a.target(l); i >= 0 {
						forms[i] = nil
					}
				}
			}
		case x.Tok == token.ADD_ASSIGN || x.Tok == token.SUB_ASSIGN:
			if i := a.target(x.Lhs[0]); i >= 0 {
				forms[i] = nil
				if a.vars[i].kind != affLen {
					if r, ok := a.Form(x.Rhs[0]); ok {
						k := int64(1)
						if x.Tok == token.SUB_ASSIGN {
							k = -1
						}
						forms[i] = a.VarForm(i).add(r, k)
					}
				}
			}
		default:
			for _, l := range x.Lhs {
				if i := a.target(l); i >= 0 {
					forms[i] = nil
				}
			}
		}
	case *ast.IncDecStmt:
		if i := a.target(x.X); i >= 0 {
			one := newForm(a.N())
			one.c.SetInt64(1)
			k := int64(1)
			if x.Tok == token.DEC {
				k = -1
			}
			forms[i] = a.VarForm(i).add(one, k)
		}
	case *ast.DeclStmt, *ast.ValueSpec:
		// go/cfg puts the value specs of a var declaration into the block, not the DeclStmt
		havocCalls(x)
		var specs []ast.Spec
		if ds, ok := x.(*ast.DeclStmt); ok {
			if gd, ok := ds.Decl.(*ast.GenDecl); ok {
				specs = gd.Specs
			}
		} else {
			specs = []ast.Spec{x.(*ast.ValueSpec)}
		}
		{
			for _, sp := range specs {
				vs, ok := sp.(*ast.ValueSpec)
				if !ok {
					continue
				}
				for k, name := range vs.Names {
					i, ok := a.idx[a.info.ObjectOf(name)]
					if !ok {
						continue
					}
					switch {
					case len(vs.Values) == 0:
						forms[i] = newForm(a.N()) // zero value: 0 / empty slice
					case len(vs.Values) == len(vs.Names):
						forms[i] = a.rhsForm(i, vs.Values[k])
					default:
						forms[i] = nil
					}
				}
			}
		}
	case *ast.Ident:
		// range key/value placed in the loop block by go/cfg
		if i, ok := a.idx[a.info.ObjectOf(x)]; ok {
			forms[i] = nil
		}
	default:
		havocCalls(n)
		// any other statement that assigns a tracked variable (e.g. a select/type switch binding)
		inspectNoLit(n, func(m ast.Node) bool {
			if as, ok := m.(*ast.AssignStmt); ok {
				for _, l := range as.Lhs {
					if i := a.target(l); i >= 0 {
						forms[i] = nil
					}
				}
			}
			return true
		})
	}
	if len(forms) > 0 {
		st = st.assignMany(forms)
	}
	if a.cl.After != nil {
		st = a.cl.After(a, n, st)
	}
	return st
}

// edgeAssume applies the equalities implied by taking successor si of b.
func (a *Aff) edgeAssume(b *cfg.Block, si int, st *affSpace) *affSpace {
	if a.cl.Edge != nil {
		st = a.cl.Edge(a, a.fg.edgeFacts(b, si), st)
	}
	for _, f := range a.fg.edgeFacts(b, si) {
		if f.Tag != nil {
			continue
		}
		be, ok := ast.Unparen(f.E).(*ast.BinaryExpr)
		if !ok {
			continue
		}
		l, ok1 := a.Form(be.X)
		r, ok2 := a.Form(be.Y)
		if !ok1 || !ok2 {
			continue
		}
		d := l.add(r, -1)
		eq := be.Op == token.EQL && !f.Neg || be.Op == token.NEQ && f.Neg
		if !eq {
			// len(x) > 0 false, len(x) >= 1 false, 0 < len(x) false  =>  len(x) == 0   (len >= 0); the same for the
			// positive forms (len(x) <= 0 true, len(x) < 1 true) and for an integer that the state proves equal to a
			// length (a parameter bound to len(buf))
			if lenTerm := a.nonNegTerm(d, st); lenTerm != nil {
				op := be.Op
				if !f.Neg {
					// turn the positive fact into the negation of its complement
					switch op {
					case token.LEQ:
						op = token.GTR
					case token.LSS:
						op = token.GEQ
					case token.GEQ:
						op = token.LSS
					case token.GTR:
						op = token.LEQ
					default:
						op = token.ILLEGAL
					}
				}
				switch {
				case op == token.GTR && d.c.Sign() == 0 && lenTerm.Sign() > 0,
					op == token.LSS && d.c.Sign() == 0 && lenTerm.Sign() < 0,
					op == token.GEQ && lenTerm.Sign() > 0 && new(big.Rat).Add(d.c, lenTerm).Sign() == 0,
					op == token.LEQ && lenTerm.Sign() < 0 && new(big.Rat).Add(d.c, lenTerm).Sign() == 0:
					z := d.clone()
					z.c.SetInt64(0)
					eq, d = true, z
				}
			}
		}
		if eq {
			st = st.assume(d)
		}
	}
	return st
}

// nonNegTerm: d is k*t + c for exactly one quantity t that cannot be negative — the length of a tracked slice,
// or an integer the state proves equal to one; returns k.
func (a *Aff) nonNegTerm(d *affForm, st *affSpace) *big.Rat {
	if k := a.singleLen(d); k != nil {
		return k
	}
	var k *big.Rat
	vi := -1
	for i, cf := range d.coef {
		if cf.Sign() == 0 {
			continue
		}
		if k != nil {
			return nil
		}
		k, vi = cf, i
	}
	if k == nil || st == nil || st.bottom {
		return nil
	}
	for j := range a.vars {
		if a.vars[j].kind == affLen && j != vi && st.holds(a.VarForm(vi).add(a.VarForm(j), -1)) {
			return k
		}
	}
	return nil
}

// singleLen: d is k*len(x) + c for exactly one tracked slice x; returns k.
func (a *Aff) singleLen(d *affForm) *big.Rat {
	var k *big.Rat
	for i, cf := range d.coef {
		if cf.Sign() == 0 {
			continue
		}
		if a.vars[i].kind != affLen || k != nil {
			return nil
		}
		k = cf
	}
	return k
}

// Run computes the fixpoint.
func (a *Aff) Run() {
	n := a.N()
	entry := &affSpace{n: n, p: newVec(n)}
	for i := 0; i < n; i++ {
		e := newVec(n)
		e[i].SetInt64(1)
		entry.vs = append(entry.vs, e)
	}
	if a.cl.Init != nil {
		entry = a.cl.Init(a, entry)
	}
	blocks := a.fg.G.Blocks
	for _, b := range blocks {
		a.in[b.Index] = affBottom(n)
	}
	a.in[0] = entry
	work := []*cfg.Block{blocks[0]}
	inWork := map[int32]bool{0: true}
	steps := 0
	for len(work) > 0 {
		steps++
		if steps > 20000 {
			a.Notes = append(a.Notes, "iteration bound hit")
			break
		}
		b := work[0]
		work = work[1:]
		inWork[b.Index] = false
		st := a.in[b.Index]
		for _, nd := range b.Nodes {
			st = a.transfer(nd, st)
		}
		for si, s := range b.Succs {
			out := st
			if len(b.Succs) == 2 {
				out = a.edgeAssume(b, si, st)
			}
			old := a.in[s.Index]
			j := old.join(out)
			// old ⊑ j always; with equal rank the two spaces are equal
			if j.rank() != old.rank() {
				a.in[s.Index] = j
				if !inWork[s.Index] {
					inWork[s.Index] = true
					work = append(work, s)
				}
			}
		}
	}
}

// At returns the state just before block node l.
func (a *Aff) At(l Loc) *affSpace {
	st := a.in[l.Block.Index]
	for i := 0; i < l.Idx; i++ {
		st = a.transfer(l.Block.Nodes[i], st)
	}
	return st
}

// After returns the state just after block node l.
func (a *Aff) AfterLoc(l Loc) *affSpace {
	return a.transfer(l.Block.Nodes[l.Idx], a.At(l))
}

// Describe renders a form for reports.
func (a *Aff) Describe(f *affForm) string {
	s := ""
	for i, cf := range f.coef {
		if cf.Sign() == 0 {
			continue
		}
		t := a.vars[i].name
		switch {
		case cf.Cmp(big.NewRat(1, 1)) == 0:
			t = "+" + t
		case cf.Cmp(big.NewRat(-1, 1)) == 0:
			t = "-" + t
		default:
			t = "+" + cf.RatString() + "*" + t
		}
		s += t
	}
	if f.c.Sign() != 0 || s == "" {
		if f.c.Sign() >= 0 {
			s += "+"
		}
		s += f.c.RatString()
	}
	return s
}

// Dump renders a space (generators) for debugging.
func (a *Aff) Dump(st *affSpace) string {
	if st.bottom {
		return "⊥"
	}
	s := "p="
	f := &affForm{coef: st.p, c: new(big.Rat)}
	s += a.Describe(f)
	for _, v := range st.vs {
		s += "\n  v=" + a.Describe(&affForm{coef: v, c: new(big.Rat)})
	}
	return s
}

func (a *Aff) inStack(fi *FuncInfo) bool {
	for x := a; x != nil; x = x.parent {
		if x.fn.Obj == fi.Obj {
			return true
		}
	}
	return false
}

// inlineCall analyses callee fi in place of the call: the space is extended by the callee's tracked
// locals, parameters are bound to the argument forms, the callee's fixpoint is computed from that entry
// state, and the join of its exit states is projected back onto the caller's quantities.
func (a *Aff) inlineCall(call *ast.CallExpr, fi *FuncInfo, st *affSpace) *affSpace {
	if st.bottom {
		return st
	}
	ch := &Aff{parent: a, depth: a.depth + 1, c: a.c, fn: fi, info: fi.Info(), cl: a.cl,
		idx: map[types.Object]int{}, fidx: a.fidx, gidx: a.gidx, in: map[int32]*affSpace{}}
	ch.fg = newFlowGraph(ch.info, fi.Decl.Body)
	ch.vars = append([]affVar(nil), a.vars...)
	n0 := len(a.vars)
	// callee locals (same selection as newAff)
	excluded := map[types.Object]bool{}
	ast.Inspect(fi.Decl.Body, func(m ast.Node) bool {
		switch x := m.(type) {
		case *ast.FuncLit:
			ast.Inspect(x.Body, func(k ast.Node) bool {
				if as, ok := k.(*ast.AssignStmt); ok {
					for _, l := range as.Lhs {
						if id, ok := ast.Unparen(l).(*ast.Ident); ok {
							excluded[ch.info.ObjectOf(id)] = true
						}
					}
				}
				return true
			})
			return false
		case *ast.UnaryExpr:
			if x.Op == token.AND {
				if id, ok := ast.Unparen(x.X).(*ast.Ident); ok {
					excluded[ch.info.ObjectOf(id)] = true
				}
			}
		}
		return true
	})
	addLocal := func(obj *types.Var) {
		if obj == nil || excluded[obj] || obj.IsField() {
			return
		}
		if _, seen := ch.idx[obj]; seen {
			return
		}
		switch {
		case isIntType(obj.Type()):
			ch.vars = append(ch.vars, affVar{affInt, obj, obj.Name()})
			ch.idx[obj] = len(ch.vars) - 1
		case isSliceType(obj.Type()):
			ch.vars = append(ch.vars, affVar{affLen, obj, "len(" + obj.Name() + ")"})
			ch.idx[obj] = len(ch.vars) - 1
		}
	}
	var params []*types.Var
	if fi.Decl.Type.Params != nil {
		for _, f := range fi.Decl.Type.Params.List {
			for _, nm := range f.Names {
				if v, ok := ch.info.ObjectOf(nm).(*types.Var); ok {
					params = append(params, v)
					addLocal(v)
				} else {
					params = append(params, nil)
				}
			}
		}
	}
	inspectNoLit(fi.Decl.Body, func(m ast.Node) bool {
		if id, ok := m.(*ast.Ident); ok {
			if v, ok := ch.info.Defs[id].(*types.Var); ok {
				addLocal(v)
			}
		}
		return true
	})
	n1 := len(ch.vars)
	// extend the state: new dimensions are unconstrained
	ext := &affSpace{n: n1, p: newVec(n1)}
	copy(ext.p, st.p.clone())
	for i := n0; i < n1; i++ {
		ext.p[i] = new(big.Rat)
	}
	for _, v := range st.vs {
		w := newVec(n1)
		for i := range v {
			w[i].Set(v[i])
		}
		ext.vs = append(ext.vs, w)
	}
	for i := n0; i < n1; i++ {
		e := newVec(n1)
		e[i].SetInt64(1)
		ext.vs = append(ext.vs, e)
	}
	// bind parameters to the argument forms (evaluated in the caller, padded to the extended space)
	bind := map[int]*affForm{}
	for k, pv := range params {
		if pv == nil || k >= len(call.Args) {
			continue
		}
		i, ok := ch.idx[pv]
		if !ok {
			continue
		}
		var f *affForm
		var okf bool
		if ch.vars[i].kind == affLen {
			f, okf = a.LenForm(call.Args[k])
		} else {
			f, okf = a.Form(call.Args[k])
		}
		if okf {
			g := newForm(n1)
			for j := range f.coef {
				g.coef[j].Set(f.coef[j])
			}
			g.c.Set(f.c)
			bind[i] = g
		}
	}
	if len(bind) > 0 {
		ext = ext.assignMany(bind)
	}
	ext.normalise()
	// fixpoint in the callee
	exit := affBottom(n1)
	ch.runFrom(ext, func(s *affSpace) { exit = exit.join(s) })
	if exit.bottom {
		return affBottom(st.n)
	}
	// project back
	out := &affSpace{n: n0, p: newVec(n0)}
	for i := 0; i < n0; i++ {
		out.p[i].Set(exit.p[i])
	}
	for _, v := range exit.vs {
		w := newVec(n0)
		for i := 0; i < n0; i++ {
			w[i].Set(v[i])
		}
		if !w.isZero() {
			out.vs = append(out.vs, w)
		}
	}
	out.normalise()
	return out
}

// runFrom computes the fixpoint from the given entry state and reports the state at every exit
// (return statements and falling off the end).
func (a *Aff) runFrom(entry *affSpace, atExit func(*affSpace)) {
	n := entry.n
	blocks := a.fg.G.Blocks
	for _, b := range blocks {
		a.in[b.Index] = affBottom(n)
	}
	a.in[0] = entry
	work := []*cfg.Block{blocks[0]}
	inWork := map[int32]bool{0: true}
	for steps := 0; len(work) > 0 && steps < 20000; steps++ {
		b := work[0]
		work = work[1:]
		inWork[b.Index] = false
		st := a.in[b.Index]
		for _, nd := range b.Nodes {
			st = a.transfer(nd, st)
		}
		for si, s := range b.Succs {
			out := st
			if len(b.Succs) == 2 {
				out = a.edgeAssume(b, si, st)
			}
			old := a.in[s.Index]
			j := old.join(out)
			if j.rank() != old.rank() {
				a.in[s.Index] = j
				if !inWork[s.Index] {
					inWork[s.Index] = true
					work = append(work, s)
				}
			}
		}
	}
	for _, b := range blocks {
		if !a.fg.Reachable(b) || len(b.Succs) != 0 {
			continue
		}
		st := a.in[b.Index]
		for _, nd := range b.Nodes {
			st = a.transfer(nd, st)
		}
		// an exit that hands back a definite error is not a completion of the helper's work; a block that ends
		// in a call that never returns is no exit at all
		if len(b.Nodes) > 0 {
			last := b.Nodes[len(b.Nodes)-1]
			if r, ok := last.(*ast.ReturnStmt); ok && a.depth > 0 && definiteErrorReturn(a.fg, a.info, a.fn, r) {
				continue
			}
			if endsInNoReturn(a.info, last) {
				continue
			}
		}
		atExit(st)
	}
}
