package main

import (
	"fmt"
	"go/ast"
	"go/token"
	"go/types"
	"sort"
	"strings"
)

const geojsonPath = "github.com/tidwall/geojson"

func init() {
	register(&Rule{ID: "R19.delta", Props: []string{"C19", "C14", "C02", "C01", "C12", "C13"}, Floor: 12,
		Text: "effect tables of the bookkeeping in internal/collection: setFill(prev, obj) and Delete are evaluated abstractly in every situation of the two objects (every assignment of truth values to the conditions the code tests on them: nil, spatial, empty geometry, deadline), helpers inlined; per counter the effect is a linear form over symbolic measures (also when a net delta is accumulated in a local), per index the ordered operations. In every situation: what setFill does for the new object is independent of the previous one and vice versa; setFill's effect for the previous object equals Delete's; it is the exact inverse of the insertion of an object in the same situation; in an index the previous object is removed before the new one is entered; every secondary field of Collection is maintained",
		Run:  ruleDelta})
	register(&Rule{ID: "R19.who-writes", Props: []string{"C19", "C14"}, Floor: 8,
		Text: "the fields of Collection are written only by New, Set, setFill, Delete and the index helpers; the fields of object.Object (and its point/geo layouts) only by the constructors: indexed objects are immutable, so no index keyed by id, value, deadline or rectangle can go stale",
		Run:  ruleWhoWrites})
	register(&Rule{ID: "R19.accessors", Props: []string{"C19"}, Floor: 4,
		Text: "Count, StringCount, PointCount and TotalWeight return the corresponding counters (objects+nobjects, nobjects, points, weight), and outside package collection the counters are reachable only through them",
		Run:  ruleAccessors})
	register(&Rule{ID: "R2.no-self-operand", Props: []string{"C02", "C20", "C05"}, Floor: 8,
		Text: "no call of a binary geometric method (Distance, Within, Intersects, Contains of geojson.Object) has the same access path as receiver and argument",
		Run:  ruleNoSelfOperand})
	register(&Rule{ID: "R2.quantiser-agreement", Props: []string{"C02"}, Floor: 3,
		Text: "every rectangle handed to the spatial index (Insert, Delete, Search on Collection.spatial) is produced by rtreeRect/rtreeItem: writer and reader of the index use the same outward-rounding quantiser",
		Run:  ruleQuantiser})
	register(&Rule{ID: "R2.exact-filter", Props: []string{"C02"}, Floor: 4,
		Text: "in Collection.Within and Collection.Intersects, in both the sparse and the plain branch, the user iterator is invoked only on the true edge of o.Geo().Within(q) / o.Geo().Intersects(q) where q is the query parameter, and the index is searched with q's own rectangle",
		Run:  ruleExactFilter})
	register(&Rule{ID: "R20.radius-operands", Props: []string{"C20"}, Floor: 3,
		Text: "in fenceMatchNearbys the append to the result is dominated by the not-greater edge of a comparison d > roam.meters where d is a Distance between the moved object (parameter) and the iterated candidate; the reported meters is a Distance between the same two; fenceMatchRoam recomputes the faraway distances against the new object",
		Run:  ruleRadiusOperands})
	register(&Rule{ID: "R20.pattern-filter", Props: []string{"C20"}, Floor: 2,
		Text: "scenario evaluation of the candidate callback of fenceMatchNearbys (predicates it calls are evaluated in the same situation): with roam.pattern true and glob.Match(roam.id, …) false, and with roam.pattern false and roam.id == … false, no path reaches the append; with the match (respectively the equality) true it does; and what roam.id is matched against is the candidate's id",
		Run:  rulePatternFilter})
}

func ruleWhoWrites(c *Ctx) {
	allowedCol := map[string]bool{"New": true, "Set": true, "setFill": true, "Delete": true, "indexInsert": true, "indexDelete": true}
	colT := c.Pkgs["internal/collection"].Types.Scope().Lookup("Collection")
	cst := colT.Type().Underlying().(*types.Struct)
	colFields := map[*types.Var]bool{}
	for i := 0; i < cst.NumFields(); i++ {
		colFields[cst.Field(i)] = true
	}
	writers := map[string]bool{}
	for _, fn := range c.AllFuncs("internal/collection") {
		info := fn.Info()
		w := false
		ast.Inspect(fn.Decl.Body, func(n ast.Node) bool {
			switch x := n.(type) {
			case *ast.AssignStmt:
				for _, l := range x.Lhs {
					if rootField(info, l, colFields) {
						w = true
					}
				}
			case *ast.IncDecStmt:
				if rootField(info, x.X, colFields) {
					w = true
				}
			case *ast.CallExpr:
				if se, ok := ast.Unparen(x.Fun).(*ast.SelectorExpr); ok && containerMutators[se.Sel.Name] {
					if f := selField(info, se.X); f != nil && colFields[f] {
						w = true
					}
				}
			case *ast.UnaryExpr:
				if x.Op == token.AND {
					if f := selField(info, x.X); f != nil && colFields[f] {
						// &c.spatial etc.: address escapes
						w = true
					}
				}
			}
			return true
		})
		if w {
			writers[fn.Obj.Name()] = true
			// the bookkeeping functions, or a helper only they call (R19.delta follows such calls)
			helper := c.calledOnlyFromIn("internal/collection", "New", "Set", "setFill", "Delete", "indexInsert", "indexDelete")[fn.Obj]
			c.check(allowedCol[fn.Obj.Name()] || helper, "collection/"+funcName(fn.Obj), fn.Decl.Pos(), "allowed writer of Collection fields",
				fmt.Sprintf("%s writes Collection fields outside New/Set/setFill/Delete: bookkeeping symmetry (R19.delta) does not cover it", funcName(fn.Obj)))
		}
	}
	for n := range allowedCol {
		if !writers[n] && n != "New" {
			c.ok("collection/expected-writer/"+n, 0, false, "no longer writes (fine)")
		}
	}
	// object immutability
	objPk := c.Pkgs["internal/object"]
	objFields := map[*types.Var]bool{}
	for _, tn := range []string{"Object", "pointObject", "geoObject"} {
		if o := objPk.Types.Scope().Lookup(tn); o != nil {
			if st, ok := o.Type().Underlying().(*types.Struct); ok {
				for i := 0; i < st.NumFields(); i++ {
					objFields[st.Field(i)] = true
				}
			}
		}
	}
	ctor := map[string]bool{"New": true, "newPoint": true, "newGeo": true}
	n := 0
	for _, fn := range c.AllFuncs("internal/object") {
		info := fn.Info()
		w := false
		ast.Inspect(fn.Decl.Body, func(x ast.Node) bool {
			switch s := x.(type) {
			case *ast.AssignStmt:
				for _, l := range s.Lhs {
					if rootField(info, l, objFields) {
						w = true
					}
				}
			case *ast.IncDecStmt:
				if rootField(info, s.X, objFields) {
					w = true
				}
			}
			return true
		})
		n++
		if w {
			c.check(ctor[fn.Obj.Name()], "object/"+funcName(fn.Obj), fn.Decl.Pos(), "constructor", fmt.Sprintf("%s stores to fields of an existing object: an indexed object changes under its indexes (id/value/deadline/rectangle keys go stale)", funcName(fn.Obj)))
		} else {
			c.ok("object/"+funcName(fn.Obj), fn.Decl.Pos(), false, "does not store to object fields")
		}
	}
	c.stat("object_functions_scanned", n)
}

// rootField: the assignment target is (a path through) one of the fields.
func rootField(info *types.Info, e ast.Expr, fields map[*types.Var]bool) bool {
	for {
		e = ast.Unparen(e)
		switch x := e.(type) {
		case *ast.SelectorExpr:
			if f := selField(info, x); f != nil && fields[f] {
				return true
			}
			e = x.X
		case *ast.IndexExpr:
			e = x.X
		case *ast.StarExpr:
			e = x.X
		default:
			return false
		}
	}
}

func ruleAccessors(c *Ctx) {
	want := map[string][]string{"Count": {"objects", "nobjects"}, "StringCount": {"nobjects"}, "PointCount": {"points"}, "TotalWeight": {"weight"}}
	for name, flds := range want {
		fn := c.Func("internal/collection", "Collection", name)
		if fn == nil {
			c.bad("accessor/"+name, 0, "Collection.%s not found", name)
			continue
		}
		info := fn.Info()
		got := map[string]bool{}
		okShape := len(fn.Decl.Body.List) == 1
		ast.Inspect(fn.Decl.Body, func(n ast.Node) bool {
			if se, ok := n.(*ast.SelectorExpr); ok {
				if f := selField(info, se); f != nil {
					got[f.Name()] = true
				}
			}
			if be, ok := n.(*ast.BinaryExpr); ok && be.Op != token.ADD {
				okShape = false
			}
			return true
		})
		c.check(okShape && len(diff(got, setOf(flds))) == 0 && len(diff(setOf(flds), got)) == 0, "accessor/"+name, fn.Decl.Pos(),
			fmt.Sprintf("returns %s", strings.Join(flds, "+")), fmt.Sprintf("Collection.%s reads %v, expected exactly %v", name, sortedKeys(got), flds))
	}
}

// ---------------------------------------------------------------------------
// R2

func isGeoBinary(f *types.Func) bool {
	if f == nil {
		return false
	}
	switch f.Name() {
	case "Distance", "Within", "Intersects", "Contains":
	default:
		return false
	}
	sig := f.Type().(*types.Signature)
	if sig.Recv() == nil || sig.Params().Len() != 1 {
		return false
	}
	return isNamedType(sig.Params().At(0).Type(), geojsonPath, "Object")
}

func ruleNoSelfOperand(c *Ctx) {
	n := 0
	for _, rel := range []string{"internal/server", "internal/collection", "internal/clip", "internal/buffer", "internal/object"} {
		for _, fn := range c.AllFuncs(rel) {
			info := fn.Info()
			ast.Inspect(fn.Decl.Body, func(x ast.Node) bool {
				call, ok := x.(*ast.CallExpr)
				if !ok || len(call.Args) != 1 {
					return true
				}
				f := callee(info, call)
				if !isGeoBinary(f) {
					return true
				}
				se, ok := ast.Unparen(call.Fun).(*ast.SelectorExpr)
				if !ok {
					return true
				}
				n++
				key := funcName(fn.Obj) + "→" + exprStr(call)
				if sameExpr(info, se.X, call.Args[0]) {
					c.bad(key, call.Pos(), "%s is applied to the same object as receiver and argument: the result is a constant (distance 0 / always true), not a relation between two objects", f.Name())
				} else {
					c.ok(key, call.Pos(), true, "receiver and argument are different access paths")
				}
				return true
			})
		}
	}
	c.stat("binary_geometric_calls", n)
}

func ruleQuantiser(c *Ctx) {
	spatial := c.Field("internal/collection", "Collection", "spatial")
	n := 0
	for _, fn := range c.AllFuncs("internal/collection") {
		info := fn.Info()
		ast.Inspect(fn.Decl.Body, func(x ast.Node) bool {
			call, ok := x.(*ast.CallExpr)
			if !ok {
				return true
			}
			se, ok := ast.Unparen(call.Fun).(*ast.SelectorExpr)
			if !ok || selField(info, se.X) != spatial {
				return true
			}
			switch se.Sel.Name {
			case "Insert", "Delete", "Search", "Replace":
			default:
				return true
			}
			n++
			key := funcName(fn.Obj) + "→spatial." + se.Sel.Name
			ok2 := false
			// pairOK: both rectangle corners are locals defined only by rtreeRect/rtreeItem
			pairOK := func(e0, e1 ast.Expr) bool {
				a0, i0 := ast.Unparen(e0).(*ast.Ident)
				a1, i1 := ast.Unparen(e1).(*ast.Ident)
				if !i0 || !i1 {
					return false
				}
				defs, bad := 0, 0
				ast.Inspect(fn.Decl.Body, func(y ast.Node) bool {
					as, ok := y.(*ast.AssignStmt)
					if !ok {
						return true
					}
					for _, l := range as.Lhs {
						id, ok := l.(*ast.Ident)
						if !ok || (info.ObjectOf(id) != info.ObjectOf(a0) && info.ObjectOf(id) != info.ObjectOf(a1)) {
							continue
						}
						if len(as.Rhs) == 1 {
							if c1, ok := ast.Unparen(as.Rhs[0]).(*ast.CallExpr); ok {
								if g := callee(info, c1); g != nil && (g.Name() == "rtreeRect" || g.Name() == "rtreeItem") {
									defs++
									continue
								}
							}
						}
						bad++
					}
					return true
				})
				return defs >= 2 && bad == 0
			}
			if se.Sel.Name == "Replace" {
				// Replace(oldMin, oldMax, old, newMin, newMax, new)
				ok2 = len(call.Args) == 6 && pairOK(call.Args[0], call.Args[1]) && pairOK(call.Args[3], call.Args[4])
				c.check(ok2, key, call.Pos(), "both rectangles come from rtreeRect/rtreeItem", "a rectangle given to the spatial index is not produced by rtreeRect/rtreeItem: index writer and reader quantise differently and boundary objects are lost")
				return true
			}
			// form 1: spatial.Insert(rtreeItem(item)) — a single call argument producing (min,max,data)
			if len(call.Args) >= 1 {
				if c1, ok := ast.Unparen(call.Args[0]).(*ast.CallExpr); ok {
					if g := callee(info, c1); g != nil && (g.Name() == "rtreeItem" || g.Name() == "rtreeRect") {
						ok2 = true
					}
				}
			}
			// form 2: min, max := rtreeRect(rect); spatial.Search(min, max, ...)
			if !ok2 && len(call.Args) >= 2 {
				a0, i0 := ast.Unparen(call.Args[0]).(*ast.Ident)
				a1, i1 := ast.Unparen(call.Args[1]).(*ast.Ident)
				if i0 && i1 {
					defs := 0
					bad := 0
					ast.Inspect(fn.Decl.Body, func(y ast.Node) bool {
						as, ok := y.(*ast.AssignStmt)
						if !ok {
							return true
						}
						for i, l := range as.Lhs {
							id, ok := l.(*ast.Ident)
							if !ok || (info.ObjectOf(id) != info.ObjectOf(a0) && info.ObjectOf(id) != info.ObjectOf(a1)) {
								continue
							}
							_ = i
							if len(as.Rhs) == 1 {
								if c1, ok := ast.Unparen(as.Rhs[0]).(*ast.CallExpr); ok {
									if g := callee(info, c1); g != nil && (g.Name() == "rtreeRect" || g.Name() == "rtreeItem") {
										defs++
										continue
									}
								}
							}
							bad++
						}
						return true
					})
					ok2 = defs >= 2 && bad == 0
				}
			}
			c.check(ok2, key, call.Pos(), "rectangle comes from rtreeRect/rtreeItem", "the rectangle given to the spatial index is not produced by rtreeRect/rtreeItem: index writer and reader quantise differently and boundary objects are lost")
			return true
		})
	}
	if n == 0 {
		c.bad("no-sites", 0, "no use of Collection.spatial found")
	}
}

func ruleExactFilter(c *Ctx) {
	for _, name := range []string{"Within", "Intersects"} {
		fn := c.Func("internal/collection", "Collection", name)
		if fn == nil {
			c.und(name, 0, "Collection.%s not found", name)
			continue
		}
		info := fn.Info()
		// parameters: q = first param (geojson.Object), iter = last param (func)
		var qObj, iterObj types.Object
		ps := fn.Decl.Type.Params.List
		if len(ps) > 0 && len(ps[0].Names) > 0 {
			qObj = info.ObjectOf(ps[0].Names[0])
		}
		last := ps[len(ps)-1]
		if len(last.Names) > 0 {
			iterObj = info.ObjectOf(last.Names[len(last.Names)-1])
		}
		if qObj == nil || iterObj == nil {
			c.und(name, fn.Decl.Pos(), "parameters not recognised")
			continue
		}
		// each literal that calls iter
		nl := 0
		ast.Inspect(fn.Decl.Body, func(x ast.Node) bool {
			lit, ok := x.(*ast.FuncLit)
			if !ok {
				return true
			}
			fg := newFlowGraph(info, lit.Body)
			calls := fg.Find(func(n ast.Node) bool {
				call, ok := n.(*ast.CallExpr)
				if !ok {
					return false
				}
				id, ok := ast.Unparen(call.Fun).(*ast.Ident)
				return ok && info.ObjectOf(id) == iterObj
			})
			for _, cl := range calls {
				nl++
				key := fmt.Sprintf("%s/branch%d", name, nl)
				okk := false
				for _, f := range fg.DominatingFacts(cl) {
					if f.Neg {
						continue
					}
					// f.E is the predicate call, or `match = pred(...)` assignment condition, or ident bound to it
					var pred *ast.CallExpr
					// the fact itself must be the predicate (facts are already decomposed over && / || / !):
					// a predicate that is only one disjunct of the guard does not hold on the edge
					if cc, ok := ast.Unparen(f.E).(*ast.CallExpr); ok {
						if g := callee(info, cc); g != nil && g.Name() == name && isGeoBinary(g) {
							pred = cc
						}
					}
					if pred == nil {
						// if match = o.Geo().Within(obj); match { ... }: the init statement precedes the condition in the same block
						if id, ok := ast.Unparen(f.E).(*ast.Ident); ok {
							for _, nd := range cl.Block.Nodes {
								_ = nd
							}
							ast.Inspect(lit.Body, func(y ast.Node) bool {
								if as, ok := y.(*ast.AssignStmt); ok && len(as.Lhs) == 1 && len(as.Rhs) == 1 {
									if l, ok := as.Lhs[0].(*ast.Ident); ok && info.ObjectOf(l) == info.ObjectOf(id) {
										if cc, ok := ast.Unparen(as.Rhs[0]).(*ast.CallExpr); ok {
											if g := callee(info, cc); g != nil && g.Name() == name && isGeoBinary(g) {
												pred = cc
											}
										}
									}
								}
								return true
							})
						}
					}
					if pred != nil && len(pred.Args) == 1 {
						if a, ok := ast.Unparen(pred.Args[0]).(*ast.Ident); ok && info.ObjectOf(a) == qObj {
							okk = true
						}
					}
				}
				c.check(okk, key, cl.Node.Pos(), "the iterator call is dominated by the true edge of "+name+"(query)", "the user iterator is reachable without the exact "+name+" predicate on the query object having held: index candidates are returned unfiltered")
			}
			// the converse: an item that was counted (the cursor was stepped for it) and satisfies the exact
			// predicate reaches the user iterator — no other condition may divert it
			if len(calls) > 0 {
				key := fmt.Sprintf("%s/branch%d/complete", name, nl)
				steps := fg.FindCalls(func(f *types.Func, call *ast.CallExpr) bool {
					if f == nil {
						return false
					}
					for _, a := range call.Args {
						if t := info.TypeOf(a); t != nil && isNamedType(t, colPath, "Cursor") {
							return true
						}
					}
					return false
				})
				// the step may be made by a local prologue closure the callback calls (advance := func() (skip bool) {…}):
				// start at that call, with its result fixed to the value it returns after stepping
				var stepClosure types.Object
				stepResult := byte('?')
				if len(steps) == 0 {
					for _, cl := range fg.Find(func(n ast.Node) bool { _, ok := n.(*ast.CallExpr); return ok }) {
						call := cl.Node.(*ast.CallExpr)
						id, ok := ast.Unparen(call.Fun).(*ast.Ident)
						if !ok || len(call.Args) != 0 {
							continue
						}
						plit, ok := ast.Unparen(resolveLocal(info, fn.Decl.Body, id)).(*ast.FuncLit)
						if !ok {
							continue
						}
						pfg := newFlowGraph(info, plit.Body)
						psteps := pfg.FindCalls(func(f *types.Func, pc *ast.CallExpr) bool {
							if f == nil {
								return false
							}
							for _, a := range pc.Args {
								if t := info.TypeOf(a); t != nil && isNamedType(t, colPath, "Cursor") {
									return true
								}
							}
							return false
						})
						if len(psteps) == 0 {
							continue
						}
						// the constant the closure returns after it stepped
						vals := map[byte]bool{}
						for _, rl := range pfg.Returns() {
							r := rl.Node.(*ast.ReturnStmt)
							if len(r.Results) != 1 {
								continue
							}
							if after, _ := pfg.Reach(PathQuery{From: psteps[0], Target: func(l Loc) bool { return l.Block == rl.Block && l.Idx == rl.Idx }}); after {
								vals[boolConst(info, r.Results[0])] = true
							}
						}
						if len(vals) == 1 && (vals['0'] || vals['1']) {
							stepClosure = info.ObjectOf(id)
							if vals['1'] {
								stepResult = '1'
							} else {
								stepResult = '0'
							}
							steps = append(steps, cl)
							break
						}
					}
				}
				if len(steps) == 0 {
					c.und(key, lit.Pos(), "the per-item cursor step was not found in this callback, so the paths of a counted item cannot be enumerated")
				} else {
					isPred := func(e ast.Expr) bool {
						cc, ok := ast.Unparen(e).(*ast.CallExpr)
						if !ok || len(cc.Args) != 1 {
							return false
						}
						g := callee(info, cc)
						if g == nil || g.Name() != name || !isGeoBinary(g) {
							return false
						}
						a, ok := ast.Unparen(cc.Args[0]).(*ast.Ident)
						return ok && info.ObjectOf(a) == qObj
					}
					isIterCall := func(n ast.Node) bool {
						hit := false
						inspectNoLit(n, func(m ast.Node) bool {
							if call, ok := m.(*ast.CallExpr); ok {
								if id, ok := ast.Unparen(call.Fun).(*ast.Ident); ok && info.ObjectOf(id) == iterObj {
									hit = true
								}
							}
							return true
						})
						return hit
					}
					lost, wit := fg.Reach(PathQuery{From: steps[0], Correlate: true,
						Atom: func(e ast.Expr) byte {
							if isPred(e) {
								return '1'
							}
							if call, ok := ast.Unparen(e).(*ast.CallExpr); ok && stepClosure != nil {
								if id, ok := ast.Unparen(call.Fun).(*ast.Ident); ok && info.ObjectOf(id) == stepClosure {
									return stepResult
								}
							}
							return '?'
						},
						Target: func(l Loc) bool { return isReturn(l.Node) },
						Avoid:  func(l Loc) bool { return isIterCall(l.Node) }})
					c.checkPath(!lost, key, lit.Pos(), wit,
						"after the cursor step, every path on which "+name+"(query) holds reaches the user iterator",
						"an item that was counted and satisfies the exact "+name+" predicate can leave the callback without reaching the user iterator (another condition stands between the cursor step and the iterator): the search loses objects that TEST confirms")
				}
			}
			return true
		})
		if nl < 2 {
			c.bad(name+"/branches", fn.Decl.Pos(), "expected the sparse and the plain branch of %s to invoke the iterator; found %d", name, nl)
		}
		// the index is searched with the query's own rectangle
		rectOK := false
		ast.Inspect(fn.Decl.Body, func(x ast.Node) bool {
			call, ok := x.(*ast.CallExpr)
			if !ok {
				return true
			}
			if g := callee(info, call); g != nil && isIndexSearchFunc(c, g, 0) && len(call.Args) >= 1 {
				arg := call.Args[0]
				if id, ok := ast.Unparen(arg).(*ast.Ident); ok {
					arg = resolveLocal(info, fn.Decl.Body, id) // bounds := q.Rect(); geoSearch(bounds, …)
				}
				if rc, ok := ast.Unparen(arg).(*ast.CallExpr); ok {
					if se, ok := ast.Unparen(rc.Fun).(*ast.SelectorExpr); ok && se.Sel.Name == "Rect" {
						if id, ok := ast.Unparen(se.X).(*ast.Ident); ok && info.ObjectOf(id) == qObj {
							rectOK = true
						}
					}
				}
			}
			return true
		})
		c.check(rectOK, name+"/search-rect", fn.Decl.Pos(), "the plain branch searches the index with query.Rect()", "the index is not searched with the query's own rectangle")
	}
}

// ---------------------------------------------------------------------------
// R20

func nearbysCallback(c *Ctx) (fn *FuncInfo, lit *ast.FuncLit, objParam, cand types.Object) {
	fn = c.Func("internal/server", "", "fenceMatchNearbys")
	if fn == nil {
		return
	}
	info := fn.Info()
	// the moved object: the *object.Object parameter
	for _, p := range fn.Decl.Type.Params.List {
		for _, n := range p.Names {
			if isNamedType(info.ObjectOf(n).Type(), modPath+"/internal/object", "Object") {
				objParam = info.ObjectOf(n)
			}
		}
	}
	ast.Inspect(fn.Decl.Body, func(x ast.Node) bool {
		call, ok := x.(*ast.CallExpr)
		if !ok || len(call.Args) == 0 {
			return true
		}
		if f := callee(info, call); f != nil && isMethod(f, colPath, "Collection", f.Name()) {
			if l, ok := ast.Unparen(call.Args[len(call.Args)-1]).(*ast.FuncLit); ok {
				lit = l
				if len(l.Type.Params.List) > 0 && len(l.Type.Params.List[0].Names) > 0 {
					cand = info.ObjectOf(l.Type.Params.List[0].Names[0])
				}
			}
		}
		return true
	})
	return
}

// rootedAt: the expression's base identifier is obj (o.Geo(), obj.Geo().Center() ...).
// rootedBody: when set, rootedAt follows locals that are defined once in this body (selfGeo := obj.Geo()).
var rootedBody ast.Node

func rootedAt(info *types.Info, e ast.Expr, obj types.Object) bool {
	for depth := 0; depth < 12; depth++ {
		e = ast.Unparen(e)
		switch x := e.(type) {
		case *ast.Ident:
			if info.ObjectOf(x) == obj {
				return true
			}
			if rootedBody != nil {
				if v := valueOf(info, rootedBody, x); v != ast.Expr(x) {
					e = v
					continue
				}
			}
			return false
		case *ast.SelectorExpr:
			e = x.X
		case *ast.CallExpr:
			e = x.Fun
		default:
			return false
		}
	}
	return false
}

func distanceBetween(info *types.Info, e ast.Expr, a, b types.Object) bool {
	call, ok := ast.Unparen(e).(*ast.CallExpr)
	if !ok || len(call.Args) != 1 {
		return false
	}
	f := callee(info, call)
	if f == nil || f.Name() != "Distance" || !isGeoBinary(f) {
		return false
	}
	se, ok := ast.Unparen(call.Fun).(*ast.SelectorExpr)
	if !ok {
		return false
	}
	return rootedAt(info, se.X, a) && rootedAt(info, call.Args[0], b) || rootedAt(info, se.X, b) && rootedAt(info, call.Args[0], a)
}

// valueOf resolves an identifier to its single defining expression in body.
func valueOf(info *types.Info, body ast.Node, e ast.Expr) ast.Expr {
	id, ok := ast.Unparen(e).(*ast.Ident)
	if !ok {
		return e
	}
	var def ast.Expr
	n := 0
	ast.Inspect(body, func(x ast.Node) bool {
		if as, ok := x.(*ast.AssignStmt); ok && len(as.Lhs) == len(as.Rhs) {
			for i, l := range as.Lhs {
				if lid, ok := l.(*ast.Ident); ok && info.ObjectOf(lid) == info.ObjectOf(id) {
					def = as.Rhs[i]
					n++
				}
			}
		}
		return true
	})
	if n == 1 {
		return def
	}
	return e
}

func ruleRadiusOperands(c *Ctx) {
	fn, lit, objParam, cand := nearbysCallback(c)
	if fn == nil || lit == nil || objParam == nil || cand == nil {
		c.und("anchors", 0, "fenceMatchNearbys or its candidate callback not found")
		return
	}
	info := fn.Info()
	meters := c.Field("internal/server", "roamSwitches", "meters")
	fg := newFlowGraph(info, lit.Body)
	// locals of the enclosing function that name an operand once (selfGeo := obj.Geo(), radius := roam.meters)
	rootedBody = fn.Decl.Body
	defer func() { rootedBody = nil }()
	appends := fg.Find(func(n ast.Node) bool {
		call, ok := n.(*ast.CallExpr)
		if !ok {
			return false
		}
		id, ok := ast.Unparen(call.Fun).(*ast.Ident)
		return ok && id.Name == "append"
	})
	if len(appends) == 0 {
		c.bad("radius-guard", lit.Pos(), "the candidate callback never appends to the result")
		return
	}
	for _, a := range appends {
		okk := false
		for _, f := range fg.DominatingFacts(a) {
			be, ok := ast.Unparen(f.E).(*ast.BinaryExpr)
			if !ok {
				continue
			}
			// d > meters (false edge) or d <= meters (true edge)
			var d, m ast.Expr
			switch {
			case be.Op == token.GTR && f.Neg, be.Op == token.LEQ && !f.Neg:
				d, m = be.X, be.Y
			case be.Op == token.LSS && f.Neg, be.Op == token.GEQ && !f.Neg:
				d, m = be.Y, be.X
			default:
				continue
			}
			if selField(info, valueOf(info, fn.Decl.Body, m)) != meters {
				continue
			}
			if distanceBetween(info, valueOf(info, fn.Decl.Body, d), objParam, cand) {
				okk = true
			}
		}
		c.check(okk, "radius-guard", a.Node.Pos(), "the append is dominated by distance(moved object, candidate) <= roam.meters",
			"a candidate is reported although no comparison of the distance between the moved object and the candidate with roam.meters dominates the append: candidates in the corners of the search rectangle are reported as nearby")
	}
	// reported meters
	okm := false
	nm := 0
	ast.Inspect(lit.Body, func(x ast.Node) bool {
		kv, ok := x.(*ast.KeyValueExpr)
		if !ok {
			return true
		}
		if id, ok := kv.Key.(*ast.Ident); ok && id.Name == "meters" {
			nm++
			if distanceBetween(info, valueOf(info, fn.Decl.Body, kv.Value), objParam, cand) {
				okm = true
			}
		}
		return true
	})
	c.check(nm > 0 && okm, "reported-meters", lit.Pos(), "the reported meters is the distance between the moved object and the candidate", "the reported meters is not the distance between the moved object and the candidate")
	// fenceMatchRoam: faraways[i].meters recomputed against obj (the new object, first *Object param)
	fr := c.Func("internal/server", "", "fenceMatchRoam")
	if fr == nil {
		c.und("faraway-recompute", 0, "fenceMatchRoam not found")
		return
	}
	finfo := fr.Info()
	var newObj types.Object
	for _, p := range fr.Decl.Type.Params.List {
		for _, n := range p.Names {
			if newObj == nil && isNamedType(finfo.ObjectOf(n).Type(), modPath+"/internal/object", "Object") {
				newObj = finfo.ObjectOf(n)
			}
		}
	}
	okf := false
	ast.Inspect(fr.Decl.Body, func(x ast.Node) bool {
		as, ok := x.(*ast.AssignStmt)
		if !ok || len(as.Lhs) != 1 || len(as.Rhs) != 1 {
			return true
		}
		se, ok := ast.Unparen(as.Lhs[0]).(*ast.SelectorExpr)
		if !ok || se.Sel.Name != "meters" {
			return true
		}
		call, ok := ast.Unparen(as.Rhs[0]).(*ast.CallExpr)
		if !ok || len(call.Args) != 1 {
			return true
		}
		if f := callee(finfo, call); f != nil && f.Name() == "Distance" && rootedAt(finfo, call.Args[0], newObj) {
			okf = true
		}
		return true
	})
	c.check(okf, "faraway-recompute", fr.Decl.Pos(), "faraway distances are recomputed against the new position", "faraway entries keep the distance to the previous position")
}

func rulePatternFilter(c *Ctx) {
	fn, lit, _, cand := nearbysCallback(c)
	if fn == nil || lit == nil || cand == nil {
		c.und("anchors", 0, "fenceMatchNearbys or its candidate callback not found")
		return
	}
	info := fn.Info()
	pattern := c.Field("internal/server", "roamSwitches", "pattern")
	roamID := c.Field("internal/server", "roamSwitches", "id")
	fg := newFlowGraph(info, lit.Body)
	isAppend := func(l Loc) bool {
		hit := false
		inspectNoLit(l.Node, func(n ast.Node) bool {
			if call, ok := n.(*ast.CallExpr); ok {
				if id, ok := ast.Unparen(call.Fun).(*ast.Ident); ok && id.Name == "append" && info.Uses[id] == types.Universe.Lookup("append") {
					hit = true
				}
			}
			return true
		})
		return hit
	}
	// the situation: roam.pattern (P), the result of glob.Match(roam.id, …) (M), roam.id == … (E).
	// idOperands collects what the fence id is compared with.
	type operand struct {
		e    ast.Expr
		info *types.Info
		body ast.Node
	}
	var operands []operand
	scen := func(P, M, E byte) Scenario {
		return atomsOnly(func(si *types.Info, body ast.Node) func(e ast.Expr) byte {
			return func(e ast.Expr) byte {
				e = ast.Unparen(e)
				switch x := e.(type) {
				case *ast.SelectorExpr:
					if selField(si, x) == pattern {
						return P
					}
				case *ast.CallExpr:
					if isFunc(callee(si, x), globPath, "Match") && len(x.Args) == 2 && selField(si, x.Args[0]) == roamID {
						operands = append(operands, operand{x.Args[1], si, body})
						return M
					}
				case *ast.BinaryExpr:
					if x.Op == token.EQL || x.Op == token.NEQ {
						for _, side := range [][2]ast.Expr{{x.X, x.Y}, {x.Y, x.X}} {
							if selField(si, side[0]) == roamID {
								operands = append(operands, operand{side[1], si, body})
								v := E
								if x.Op == token.NEQ && (v == '0' || v == '1') {
									v = '0' + '1' - v
								}
								return v
							}
						}
					}
				}
				return '?'
			}
		})
	}
	reach := func(P, M, E byte) (bool, []ast.Node) {
		return c.scenReach(fg, lit.Body, scen(P, M, E), Loc{}, isAppend, nil)
	}
	patMiss, w1 := reach('1', '0', '?')
	eqMiss, w2 := reach('0', '?', '0')
	patHit, _ := reach('1', '1', '?')
	eqHit, _ := reach('0', '?', '1')
	switch {
	case len(operands) == 0:
		c.bad("filter-shape", lit.Pos(), "the id filter does not use glob.Match under roam.pattern and equality otherwise: roam.id is compared with nothing on the way to the append")
	case !patHit || !eqHit:
		c.bad("filter-shape", lit.Pos(), "a candidate whose id matches the roaming id (pattern match: reported %v; equality: reported %v) is not reported", patHit, eqHit)
	default:
		// what roam.id is compared with is the candidate's id
		okOps := true
		for _, op := range operands {
			e := op.e
			if id, ok := ast.Unparen(e).(*ast.Ident); ok {
				e = resolveLocal(op.info, op.body, id)
			}
			if rootedAt(op.info, e, cand) {
				continue
			}
			// a parameter of a helper: the argument at the call in the callback
			okArg := false
			if id, ok := ast.Unparen(e).(*ast.Ident); ok {
				if pv, ok := op.info.ObjectOf(id).(*types.Var); ok {
					inspectNoLit(lit.Body, func(n ast.Node) bool {
						call, ok := n.(*ast.CallExpr)
						if !ok {
							return true
						}
						f := callee(info, call)
						if f == nil {
							return true
						}
						sig := f.Type().(*types.Signature)
						for i := 0; i < sig.Params().Len() && i < len(call.Args); i++ {
							if sig.Params().At(i) == pv {
								a := call.Args[i]
								if aid, ok := ast.Unparen(a).(*ast.Ident); ok {
									a = resolveLocal(info, lit.Body, aid)
								}
								if rootedAt(info, a, cand) {
									okArg = true
								}
							}
						}
						return true
					})
				}
			}
			if !okArg {
				okOps = false
			}
		}
		c.check(okOps, "filter-shape", lit.Pos(), "glob.Match(roam.id, candidate id) when roam.pattern, equality otherwise", "the id filter does not use glob.Match under roam.pattern and equality otherwise: roam.id is compared with something other than the candidate's id")
	}
	var w []ast.Node
	if patMiss {
		w = w1
	} else if eqMiss {
		w = w2
	}
	c.checkPath(!patMiss && !eqMiss, "filter-dominates-append", lit.Pos(), w,
		"no candidate is appended when roam.pattern and glob.Match fails, or when !roam.pattern and the ids differ", "a candidate is reported without the id filter having matched")
}

// ---------------------------------------------------------------------------
// R2.area-siblings

func init() {
	register(&Rule{ID: "R2.area-siblings", Props: []string{"C02"}, Floor: 6,
		Text: "for every area keyword handled both by parseArea (TEST, the index-free evaluation) and by cmdSearchArgs/parseRectArea (WITHIN/INTERSECTS/NEARBY), the external constructors used to build the area (geojson.NewPoint/NewCircle/NewRect/Parse, geohash.BoundingBox, bing.QuadKeyToBounds/TileXYToBounds, sectr.NewSector) are the same, and every NewCircle uses the same step constant; reviewed difference: 'point' may also build a circle in the search parser (NEARBY radius)",
		Run:  ruleAreaSiblings})
}

var areaCtorPkgs = map[string]bool{geojsonPath: true, "github.com/mmcloughlin/geohash": true, modPath + "/internal/bing": true, modPath + "/internal/sectr": true, "github.com/iwpnd/sectr": true}

// armCtors: per case string of the keyword switches in fn, the external constructor callees of the arm.
func armCtors(c *Ctx, fn *FuncInfo) (arms map[string]map[string]bool, tail map[string]bool, delegates map[string]bool) {
	info := fn.Info()
	arms = map[string]map[string]bool{}
	tail = map[string]bool{}
	delegates = map[string]bool{}
	ctorsIn := func(n ast.Node, into map[string]bool) {
		ast.Inspect(n, func(x ast.Node) bool {
			call, ok := x.(*ast.CallExpr)
			if !ok {
				return true
			}
			f := callee(info, call)
			if f == nil || f.Pkg() == nil {
				return true
			}
			if areaCtorPkgs[f.Pkg().Path()] && f.Type().(*types.Signature).Recv() == nil {
				into[f.Pkg().Name()+"."+f.Name()] = true
			}
			return true
		})
	}
	inSwitch := map[ast.Node]bool{}
	ast.Inspect(fn.Decl.Body, func(n ast.Node) bool {
		sw, ok := n.(*ast.SwitchStmt)
		if !ok || sw.Tag == nil {
			return true
		}
		for _, cc := range sw.Body.List {
			cl := cc.(*ast.CaseClause)
			var keys []string
			for _, e := range cl.List {
				if s, ok := constString(info, e); ok {
					keys = append(keys, s)
				}
			}
			if len(keys) == 0 {
				continue
			}
			set := map[string]bool{}
			deleg := false
			for _, st := range cl.Body {
				ctorsIn(st, set)
				ast.Inspect(st, func(x ast.Node) bool {
					if call, ok := x.(*ast.CallExpr); ok {
						if f := callee(info, call); f != nil && f.Name() == "parseRectArea" {
							deleg = true
						}
					}
					return true
				})
			}
			for _, k := range keys {
				if arms[k] == nil {
					arms[k] = map[string]bool{}
				}
				for s := range set {
					arms[k][s] = true
				}
				if deleg {
					delegates[k] = true
				}
			}
			inSwitch[cl] = true
		}
		return true
	})
	// constructors outside any keyword arm (common tail)
	var walk func(n ast.Node)
	walk = func(n ast.Node) {
		ast.Inspect(n, func(x ast.Node) bool {
			if x == nil {
				return false
			}
			if inSwitch[x] {
				return false
			}
			if call, ok := x.(*ast.CallExpr); ok {
				if f := callee(info, call); f != nil && f.Pkg() != nil && areaCtorPkgs[f.Pkg().Path()] && f.Type().(*types.Signature).Recv() == nil {
					tail[f.Pkg().Name()+"."+f.Name()] = true
				}
			}
			return true
		})
	}
	walk(fn.Decl.Body)
	return
}

func ruleAreaSiblings(c *Ctx) {
	pa := c.Func("internal/server", "Server", "parseArea")
	sa := c.Func("internal/server", "Server", "cmdSearchArgs")
	pr := c.Func("internal/server", "", "parseRectArea")
	if pa == nil || sa == nil || pr == nil {
		c.und("anchors", 0, "parseArea, cmdSearchArgs or parseRectArea not found")
		return
	}
	testArms, _, _ := armCtors(c, pa)
	searchArms, _, deleg := armCtors(c, sa)
	rectArms, rectTail, _ := armCtors(c, pr)
	area := []string{"point", "circle", "sector", "object", "bounds", "hash", "quadkey", "tile"}
	for _, k := range area {
		t, okT := testArms[k]
		s, okS := searchArms[k]
		if !okT || !okS {
			c.bad("keyword/"+k, pa.Decl.Pos(), "area keyword %q is not handled by both parsers (TEST: %v, search: %v)", k, okT, okS)
			continue
		}
		eff := map[string]bool{}
		for x := range s {
			eff[x] = true
		}
		if deleg[k] {
			for x := range rectArms[k] {
				eff[x] = true
			}
			for x := range rectTail {
				eff[x] = true
			}
		}
		onlyT, onlyS := diff(t, eff), diff(eff, t)
		if k == "point" {
			onlyS = diff(map[string]bool{}, nil) // NEARBY's point may build a circle as well
			onlyS = nil
		}
		c.check(len(onlyT)+len(onlyS) == 0, "keyword/"+k, pa.Decl.Pos(), fmt.Sprintf("both parsers build the area with %v", sortedKeys(t)),
			fmt.Sprintf("the index-free parser (TEST) and the search parser build %q differently: only TEST %v, only search %v", k, onlyT, onlyS))
	}
	// circle steps: every geojson.NewCircle call in the two parsers passes the same constant
	var stepObjs []types.Object
	okSteps := true
	n := 0
	for _, fn := range []*FuncInfo{pa, sa} {
		info := fn.Info()
		ast.Inspect(fn.Decl.Body, func(x ast.Node) bool {
			call, ok := x.(*ast.CallExpr)
			if !ok || !isFunc(callee(info, call), geojsonPath, "NewCircle") || len(call.Args) != 3 {
				return true
			}
			n++
			id, ok := ast.Unparen(call.Args[2]).(*ast.Ident)
			if !ok {
				okSteps = false
				return true
			}
			stepObjs = append(stepObjs, info.ObjectOf(id))
			return true
		})
	}
	for _, o := range stepObjs {
		if o != stepObjs[0] {
			okSteps = false
		}
	}
	c.check(okSteps && n >= 2, "circle-steps", pa.Decl.Pos(), "every NewCircle uses the same step constant", "circles are approximated with different step counts in TEST and in the search commands")
}

func init() {
	register(&Rule{ID: "R20.remove-revisits-slot", Props: []string{"C20", "C05"}, Floor: 1,
		Text: "in every index loop `for i := …; i < len(X); …` of internal/server and internal/collection whose body removes element i from X (swap-remove X[i] = X[len(X)-1]; X = X[:len(X)-1], or X = append(X[:i], X[i+1:]...)), on every path from the removal to the next test of the loop condition the net change of i (increments minus decrements, wherever they stand) is zero: the element moved into slot i is examined too (in fenceMatchRoam a skipped dwelling neighbour is reported as faraway)",
		Run:  ruleRemoveRevisits})
}

func ruleRemoveRevisits(c *Ctx) {
	n := 0
	for _, rel := range []string{"internal/server", "internal/collection"} {
		for _, fn := range c.AllFuncs(rel) {
			info := fn.Info()
			var fg *FlowGraph
			ast.Inspect(fn.Decl.Body, func(x ast.Node) bool {
				fs, ok := x.(*ast.ForStmt)
				if !ok || fs.Cond == nil {
					return true
				}
				be, ok := ast.Unparen(fs.Cond).(*ast.BinaryExpr)
				if !ok || be.Op != token.LSS {
					return true
				}
				iv, ok := ast.Unparen(be.X).(*ast.Ident)
				if !ok {
					return true
				}
				lc, ok := ast.Unparen(be.Y).(*ast.CallExpr)
				if !ok || len(lc.Args) != 1 {
					return true
				}
				if id, ok := ast.Unparen(lc.Fun).(*ast.Ident); !ok || id.Name != "len" {
					return true
				}
				X := lc.Args[0]
				iObj := info.ObjectOf(iv)
				isI := func(e ast.Expr) bool {
					id, ok := ast.Unparen(e).(*ast.Ident)
					return ok && info.ObjectOf(id) == iObj
				}
				// removals of element i in the body (not inside nested literals or nested loops over the same slice)
				var removals []*ast.AssignStmt
				inspectNoLit(fs.Body, func(y ast.Node) bool {
					as, ok := y.(*ast.AssignStmt)
					if !ok || len(as.Lhs) != 1 || len(as.Rhs) != 1 || !sameExpr(info, as.Lhs[0], X) {
						return true
					}
					switch r := ast.Unparen(as.Rhs[0]).(type) {
					case *ast.CallExpr:
						// X = append(X[:i], X[i+1:]...)
						if id, ok := ast.Unparen(r.Fun).(*ast.Ident); ok && id.Name == "append" && r.Ellipsis.IsValid() && len(r.Args) == 2 {
							s0, ok0 := ast.Unparen(r.Args[0]).(*ast.SliceExpr)
							s1, ok1 := ast.Unparen(r.Args[1]).(*ast.SliceExpr)
							if ok0 && ok1 && sameExpr(info, s0.X, X) && sameExpr(info, s1.X, X) && s0.Low == nil && s0.High != nil && isI(s0.High) && s1.High == nil && s1.Low != nil {
								if lb, ok := ast.Unparen(s1.Low).(*ast.BinaryExpr); ok && lb.Op == token.ADD && isI(lb.X) {
									removals = append(removals, as)
								}
							}
						}
					case *ast.SliceExpr:
						// X = X[:len(X)-1] preceded in the same block by X[i] = X[len(X)-1]
						if sameExpr(info, r.X, X) && r.Low == nil && r.High != nil {
							high := ast.Unparen(r.High)
							// `last := len(X) - 1; …; X = X[:last]`: the nearest preceding definition in the same statement list
							if hid, ok := high.(*ast.Ident); ok {
								if blk, ok := c.Parent(as).(*ast.BlockStmt); ok {
									for k := len(blk.List) - 1; k >= 0; k-- {
										if blk.List[k].End() > as.Pos() {
											continue
										}
										if das, ok := blk.List[k].(*ast.AssignStmt); ok && len(das.Lhs) == len(das.Rhs) {
											found := false
											for di, dl := range das.Lhs {
												if did, ok := ast.Unparen(dl).(*ast.Ident); ok && info.ObjectOf(did) == info.ObjectOf(hid) {
													high = ast.Unparen(das.Rhs[di])
													found = true
												}
											}
											if found {
												break
											}
										}
									}
								}
							}
							if hb, ok := high.(*ast.BinaryExpr); ok && hb.Op == token.SUB {
								swapped := false
								inspectNoLit(fs.Body, func(z ast.Node) bool {
									if sw, ok := z.(*ast.AssignStmt); ok && len(sw.Lhs) == 1 && sw.End() <= as.Pos() {
										if ix, ok := ast.Unparen(sw.Lhs[0]).(*ast.IndexExpr); ok && sameExpr(info, ix.X, X) && isI(ix.Index) {
											swapped = true
										}
									}
									return true
								})
								if swapped {
									removals = append(removals, as)
								}
							}
						}
					}
					return true
				})
				if len(removals) == 0 {
					return true
				}
				if fg == nil {
					fg = newFlowGraph(info, fn.Decl.Body)
				}
				condLoc := fg.LocOf(fs.Cond)
				for _, rm := range removals {
					n++
					key := funcName(fn.Obj) + "→" + exprStr(X) + "[" + iv.Name + "]"
					rl := fg.LocOf(rm)
					if !rl.Valid() || !condLoc.Valid() {
						c.und(key, rm.Pos(), "removal or loop condition not located in the flow graph")
						continue
					}
					// the net change of the index between the removal and the next evaluation of the loop
					// condition must be zero: the element that took the removed one's place is examined next
					type st struct {
						b int32
						d int
					}
					seen := map[st]bool{}
					arrivals := map[int]bool{}
					unknown := false
					var walk func(b *cfgBlock, from int, d int)
					walk = func(b *cfgBlock, from int, d int) {
						for i := from; i < len(b.Nodes); i++ {
							if b == condLoc.Block && i == condLoc.Idx {
								arrivals[d] = true
								return
							}
							inspectNoLit(b.Nodes[i], func(z ast.Node) bool {
								switch y := z.(type) {
								case *ast.IncDecStmt:
									if isI(y.X) {
										if y.Tok == token.INC {
											d++
										} else {
											d--
										}
									}
								case *ast.AssignStmt:
									for _, l := range y.Lhs {
										if isI(l) {
											unknown = true
										}
									}
								}
								return true
							})
						}
						if d < -3 || d > 3 {
							unknown = true
							return
						}
						for _, s := range b.Succs {
							k := st{s.Index, d}
							if !seen[k] {
								seen[k] = true
								walk(s, 0, d)
							}
						}
					}
					walk(rl.Block, rl.Idx+1, 0)
					var ds []int
					for d := range arrivals {
						ds = append(ds, d)
					}
					sort.Ints(ds)
					switch {
					case unknown:
						c.und(key, rm.Pos(), "the index %s is assigned (not only incremented or decremented) between the removal and the loop condition", iv.Name)
					case len(ds) == 1 && ds[0] == 0:
						c.ok(key, rm.Pos(), true, "on every path from the removal to the next test of the loop condition the net change of %s is zero: the slot is examined again", iv.Name)
					default:
						c.bad(key, rm.Pos(), "element %s is removed from %s inside the index loop and the loop condition is reached again with %s changed by %v: the element that takes its place is never examined", iv.Name, exprStr(X), iv.Name, ds)
					}
				}
				return true
			})
		}
	}
	c.stat("in_loop_removals", n)
}

// isIndexSearchFunc: a function of the collection package that searches the spatial index with its first
// parameter: it hands that parameter to the quantiser (rtreeRect), or to another such function.
func isIndexSearchFunc(c *Ctx, g *types.Func, depth int) bool {
	fi := c.FuncOf(g)
	if fi == nil || fi.Decl.Body == nil || depth > 2 {
		return false
	}
	sig := g.Type().(*types.Signature)
	if sig.Params().Len() == 0 {
		return false
	}
	p0 := sig.Params().At(0)
	info := fi.Info()
	hit := false
	ast.Inspect(fi.Decl.Body, func(n ast.Node) bool {
		call, ok := n.(*ast.CallExpr)
		if !ok || len(call.Args) == 0 {
			return true
		}
		id, ok := ast.Unparen(call.Args[0]).(*ast.Ident)
		if !ok || info.ObjectOf(id) != p0 {
			return true
		}
		if f := callee(info, call); f != nil && f != g {
			if f.Name() == "rtreeRect" || isIndexSearchFunc(c, f, depth+1) {
				hit = true
			}
		}
		return true
	})
	return hit
}

func init() {
	register(&Rule{ID: "R2.search-unconditional", Props: []string{"C02", "C19"}, Floor: 1,
		Text: "the index answers every search itself: in the function that searches the spatial index (found by role: it hands its rectangle to the quantiser and calls Search on Collection.spatial), the Search call is conditioned only on the query rectangle and values computed from it (the NaN guard) — never on other state of the collection (derived bounds, counters): such state is computed differently from the index (Bounds() reports the float64 edge of the entry with the extreme float32 key, ties broken arbitrarily) and a pre-filter on it loses results the index would have found",
		Run:  ruleSearchUnconditional})
}

func ruleSearchUnconditional(c *Ctx) {
	spatial := c.Field("internal/collection", "Collection", "spatial")
	if spatial == nil {
		c.und("anchors", 0, "Collection.spatial not found")
		return
	}
	n := 0
	for _, fn := range c.AllFuncs("internal/collection") {
		if !isIndexSearchFunc(c, fn.Obj, 0) || fn.Decl.Body == nil {
			continue
		}
		info := fn.Info()
		sig := fn.Obj.Type().(*types.Signature)
		rect := sig.Params().At(0)
		fg := newFlowGraph(info, fn.Decl.Body)
		searches := fg.FindCalls(func(f *types.Func, call *ast.CallExpr) bool {
			se, ok := ast.Unparen(call.Fun).(*ast.SelectorExpr)
			return ok && se.Sel.Name == "Search" && selField(info, se.X) == spatial
		})
		if len(searches) == 0 {
			continue
		}
		// values computed from the query rectangle
		fromRect := map[types.Object]bool{rect: true}
		mentionsOnlyRect := func(e ast.Expr) (bool, string) {
			okAll, what := true, ""
			ast.Inspect(e, func(x ast.Node) bool {
				switch y := x.(type) {
				case *ast.SelectorExpr:
					// a selector rooted at a rectangle-derived value is fine as a whole
					root := ast.Expr(y)
					for {
						if s2, ok := ast.Unparen(root).(*ast.SelectorExpr); ok {
							root = s2.X
							continue
						}
						if ix, ok := ast.Unparen(root).(*ast.IndexExpr); ok {
							root = ix.X
							continue
						}
						break
					}
					if id, ok := ast.Unparen(root).(*ast.Ident); ok {
						if _, isPkg := info.ObjectOf(id).(*types.PkgName); isPkg || fromRect[info.ObjectOf(id)] {
							return false
						}
					}
				case *ast.Ident:
					switch o := info.ObjectOf(y).(type) {
					case *types.Var:
						if !fromRect[o] && !o.IsField() {
							okAll, what = false, y.Name
						}
					}
				}
				return true
			})
			return okAll, what
		}
		for changed := true; changed; {
			changed = false
			inspectNoLit(fn.Decl.Body, func(x ast.Node) bool {
				as, ok := x.(*ast.AssignStmt)
				if !ok {
					return true
				}
				all := true
				for _, r := range as.Rhs {
					if ok, _ := mentionsOnlyRect(r); !ok {
						all = false
					}
				}
				if !all {
					return true
				}
				for _, l := range as.Lhs {
					if id, ok := ast.Unparen(l).(*ast.Ident); ok {
						if o := info.ObjectOf(id); o != nil && !fromRect[o] {
							fromRect[o] = true
							changed = true
						}
					}
				}
				return true
			})
		}
		for _, sl := range searches {
			n++
			key := funcName(fn.Obj) + "→spatial.Search"
			bad := ""
			for _, f := range fg.DominatingFacts(sl) {
				if ok, what := mentionsOnlyRect(f.E); !ok {
					bad = exprStr(f.E) + " (depends on " + what + ")"
				}
			}
			c.check(bad == "", key, sl.Node.Pos(), "the index search is conditioned only on the query rectangle", "the index search is skipped depending on "+bad+": state that is not computed from the query rectangle decides whether the index is consulted, so a window the index would answer can come back empty")
		}
	}
	c.stat("index_search_sites", n)
}

func init() {
	register(&Rule{ID: "R2.quantiser-corners", Props: []string{"C02", "C13"}, Floor: 1,
		Text: "the float32 box of an index entry contains the float64 box it stands for, corner by corner: every value the quantiser (rtreeRect) returns as the lower corner is {rtreeValueDown(rect.Min.X), rtreeValueDown(rect.Min.Y)} and every value it returns as the upper corner is {rtreeValueUp(rect.Max.X), rtreeValueUp(rect.Max.Y)}, on every return — a shortcut that reuses the rounded-down corner as the upper corner of a point leaves the point outside its own index box whenever a coordinate is not a float32 value, and the best-first NEARBY traversal, whose node distance must be a lower bound, then visits nodes in the wrong order",
		Run:  ruleQuantiserCorners})
}

func ruleQuantiserCorners(c *Ctx) {
	fn := c.Func("internal/collection", "", "rtreeRect")
	if fn == nil || fn.Decl.Body == nil {
		c.und("anchors", 0, "rtreeRect not found")
		return
	}
	info := fn.Info()
	sig := fn.Obj.Type().(*types.Signature)
	if sig.Params().Len() != 1 || sig.Results().Len() != 2 {
		c.und("shape", fn.Decl.Pos(), "rtreeRect is expected to take one rectangle and return two corners")
		return
	}
	rect := sig.Params().At(0)
	// Forward dataflow over the flow graph. The abstract value of a float32
	// is a tag "down:Min.X" (the quantiser applied to that coordinate of
	// the parameter) or "" (anything else); of a [2]float32 a pair of tags.
	// Join keeps a tag only when both sides agree.
	type pair [2]string
	type state struct {
		arr map[types.Object]pair
		sc  map[types.Object]string
	}
	clone := func(st *state) *state {
		n := &state{arr: map[types.Object]pair{}, sc: map[types.Object]string{}}
		for k, v := range st.arr {
			n.arr[k] = v
		}
		for k, v := range st.sc {
			n.sc[k] = v
		}
		return n
	}
	constIdx := func(e ast.Expr) int {
		if tv, ok := info.Types[e]; ok {
			if v, ok := constInt64(tv); ok && (v == 0 || v == 1) {
				return int(v)
			}
		}
		return -1
	}
	var scalar func(st *state, e ast.Expr) string
	var array func(st *state, e ast.Expr) pair
	scalar = func(st *state, e ast.Expr) string {
		e = ast.Unparen(e)
		switch x := e.(type) {
		case *ast.Ident:
			return st.sc[info.ObjectOf(x)]
		case *ast.IndexExpr:
			if i := constIdx(x.Index); i >= 0 {
				return array(st, x.X)[i]
			}
		case *ast.CallExpr:
			if len(x.Args) != 1 {
				return ""
			}
			f := callee(info, x)
			if f == nil {
				return ""
			}
			se, ok := ast.Unparen(x.Args[0]).(*ast.SelectorExpr)
			if !ok {
				return ""
			}
			cs, ok := ast.Unparen(se.X).(*ast.SelectorExpr)
			if !ok {
				return ""
			}
			if id, ok := ast.Unparen(cs.X).(*ast.Ident); !ok || info.ObjectOf(id) != rect {
				return ""
			}
			switch {
			case f.Name() == "rtreeValueDown" && cs.Sel.Name == "Min":
				return "down:Min." + se.Sel.Name
			case f.Name() == "rtreeValueUp" && cs.Sel.Name == "Max":
				return "up:Max." + se.Sel.Name
			}
		}
		return ""
	}
	array = func(st *state, e ast.Expr) pair {
		e = ast.Unparen(e)
		switch x := e.(type) {
		case *ast.Ident:
			return st.arr[info.ObjectOf(x)]
		case *ast.CompositeLit:
			var p pair
			for i, el := range x.Elts {
				k := i
				if kv, ok := el.(*ast.KeyValueExpr); ok {
					k = constIdx(kv.Key)
					el = kv.Value
				}
				if k < 0 || k > 1 {
					return pair{}
				}
				p[k] = scalar(st, el)
			}
			return p
		}
		return pair{}
	}
	isArr := func(t types.Type) bool { _, ok := t.Underlying().(*types.Array); return ok }
	assign := func(st *state, l ast.Expr, r ast.Expr) {
		l = ast.Unparen(l)
		switch x := l.(type) {
		case *ast.Ident:
			o := info.ObjectOf(x)
			if o == nil {
				return
			}
			if isArr(o.Type()) {
				if r == nil {
					st.arr[o] = pair{}
				} else {
					st.arr[o] = array(st, r)
				}
			} else {
				if r == nil {
					st.sc[o] = ""
				} else {
					st.sc[o] = scalar(st, r)
				}
			}
		case *ast.IndexExpr:
			id, ok := ast.Unparen(x.X).(*ast.Ident)
			if !ok {
				return
			}
			o := info.ObjectOf(id)
			p := st.arr[o]
			if i := constIdx(x.Index); i >= 0 && r != nil {
				p[i] = scalar(st, r)
			} else {
				p = pair{}
			}
			st.arr[o] = p
		}
	}
	transfer := func(st *state, n ast.Node) {
		switch x := n.(type) {
		case *ast.AssignStmt:
			if len(x.Lhs) == len(x.Rhs) && (x.Tok == token.ASSIGN || x.Tok == token.DEFINE) {
				// right sides are evaluated against the state before the statement
				old := clone(st)
				for i := range x.Lhs {
					l, r := x.Lhs[i], x.Rhs[i]
					if lx, ok := ast.Unparen(l).(*ast.Ident); ok {
						o := info.ObjectOf(lx)
						if o == nil {
							continue
						}
						if isArr(o.Type()) {
							st.arr[o] = array(old, r)
						} else {
							st.sc[o] = scalar(old, r)
						}
						continue
					}
					assign(st, l, r)
				}
			} else {
				for _, l := range x.Lhs {
					assign(st, l, nil)
				}
			}
		case *ast.DeclStmt:
			if gd, ok := x.Decl.(*ast.GenDecl); ok {
				for _, sp := range gd.Specs {
					vs, ok := sp.(*ast.ValueSpec)
					if !ok {
						continue
					}
					for i, nm := range vs.Names {
						if i < len(vs.Values) && len(vs.Values) == len(vs.Names) {
							assign(st, nm, vs.Values[i])
						} else {
							assign(st, nm, nil)
						}
					}
				}
			}
		case *ast.IncDecStmt:
			assign(st, x.X, nil)
		case *ast.RangeStmt:
			if x.Key != nil {
				assign(st, x.Key, nil)
			}
			if x.Value != nil {
				assign(st, x.Value, nil)
			}
		}
		// a variable whose address is taken or that is written in a closure is unknown from here on
		ast.Inspect(n, func(m ast.Node) bool {
			switch y := m.(type) {
			case *ast.UnaryExpr:
				if y.Op == token.AND {
					if id, ok := ast.Unparen(y.X).(*ast.Ident); ok {
						assign(st, id, nil)
					}
				}
			case *ast.FuncLit:
				ast.Inspect(y.Body, func(z ast.Node) bool {
					if as, ok := z.(*ast.AssignStmt); ok {
						for _, l := range as.Lhs {
							if ix, ok := ast.Unparen(l).(*ast.IndexExpr); ok {
								l = ix.X
							}
							if id, ok := ast.Unparen(l).(*ast.Ident); ok {
								assign(st, id, nil)
							}
						}
					}
					return true
				})
				return false
			}
			return true
		})
	}
	join := func(a, b *state) (*state, bool) {
		changed := false
		for k, v := range a.arr {
			w, ok := b.arr[k]
			if !ok {
				w = pair{}
			}
			for i := range v {
				if v[i] != w[i] && v[i] != "" {
					v[i] = ""
					changed = true
				}
			}
			a.arr[k] = v
		}
		for k, v := range a.sc {
			if w := b.sc[k]; v != w && v != "" {
				a.sc[k] = ""
				changed = true
			}
		}
		return a, changed
	}
	fg := newFlowGraph(info, fn.Decl.Body)
	in := make([]*state, len(fg.G.Blocks))
	in[0] = &state{arr: map[types.Object]pair{}, sc: map[types.Object]string{}}
	work := []int{0}
	rounds := 0
	for len(work) > 0 && rounds < 10000 {
		rounds++
		bi := work[0]
		work = work[1:]
		b := fg.G.Blocks[bi]
		st := clone(in[bi])
		for _, n := range b.Nodes {
			transfer(st, n)
		}
		for _, s := range b.Succs {
			if in[s.Index] == nil {
				in[s.Index] = clone(st)
				work = append(work, int(s.Index))
			} else if _, ch := join(in[s.Index], st); ch {
				work = append(work, int(s.Index))
			}
		}
	}
	wantLo, wantHi := pair{"down:Min.X", "down:Min.Y"}, pair{"up:Max.X", "up:Max.Y"}
	n := 0
	for _, b := range fg.G.Blocks {
		if in[b.Index] == nil {
			continue
		}
		st := clone(in[b.Index])
		for _, nd := range b.Nodes {
			r, ok := nd.(*ast.ReturnStmt)
			if !ok {
				transfer(st, nd)
				continue
			}
			n++
			key := fmt.Sprintf("rtreeRect/return%d", n)
			var lo, hi pair
			switch len(r.Results) {
			case 2:
				lo, hi = array(st, r.Results[0]), array(st, r.Results[1])
			case 0:
				lo, hi = st.arr[sig.Results().At(0)], st.arr[sig.Results().At(1)]
			}
			c.check(lo == wantLo && hi == wantHi, key, r.Pos(), "lower corner rounded down from rect.Min, upper corner rounded up from rect.Max",
				"this return of the quantiser does not hand back {Down(rect.Min.X), Down(rect.Min.Y)} and {Up(rect.Max.X), Up(rect.Max.Y)}: an index box no longer contains the box it stands for (a point whose coordinates are not float32 values lies outside its own entry), so searches at its edge and the lower-bound ordering of NEARBY go wrong")
		}
	}
	if n == 0 {
		c.und("returns", fn.Decl.Pos(), "rtreeRect has no return statement")
	}
}
