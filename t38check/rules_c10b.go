package main

import (
	"go/ast"
	"go/types"
)

func init() {
	register(&Rule{ID: "R10.persisted-index-covers-keys", Props: []string{"C10"}, Floor: 2,
		Text: "the queue of pending webhook notifications survives a restart without overwriting itself: in the transaction that stores notifications under hookLogPrefix + uint64ToString(K), the same transaction stores uint64ToString(K) — the same counter, after its last increment — under the key the start-up code reads the counter back from (\"hook:idx\"), on every path that returns nil; a persisted index that lags behind the keys makes the restarted server reuse the keys of notifications that are still waiting",
		Run:  rulePersistedIndex})
}

func rulePersistedIndex(c *Ctx) {
	// the key the start-up code reads the counter from: tx.Get(<const>) whose result is converted into Server.qidx
	qidx := c.Field("internal/server", "Server", "qidx")
	if qidx == nil {
		c.und("anchors", 0, "Server.qidx not found")
		return
	}
	prefixObj := c.Pkgs["internal/server"].Types.Scope().Lookup("hookLogPrefix")
	if prefixObj == nil {
		c.und("anchors", 0, "hookLogPrefix not found")
		return
	}
	idxKey := ""
	for _, fn := range c.AllFuncs("internal/server") {
		info := fn.Info()
		storesQidx := false
		ast.Inspect(fn.Decl.Body, func(n ast.Node) bool {
			if as, ok := n.(*ast.AssignStmt); ok {
				for _, l := range as.Lhs {
					if selField(info, l) == qidx && as.Tok.String() == "=" {
						storesQidx = true
					}
				}
			}
			return true
		})
		if !storesQidx {
			continue
		}
		ast.Inspect(fn.Decl.Body, func(n ast.Node) bool {
			call, ok := n.(*ast.CallExpr)
			if !ok || len(call.Args) < 1 {
				return true
			}
			if f := callee(info, call); f != nil && f.Name() == "Get" && f.Pkg() != nil && f.Pkg().Path() == "github.com/tidwall/buntdb" {
				if s, ok := constString(info, call.Args[0]); ok && idxKey == "" {
					idxKey = s
				}
			}
			return true
		})
	}
	if idxKey == "" {
		c.und("index-key", 0, "the key from which the start-up code restores Server.qidx was not found")
		return
	}
	c.ok("index-key", 0, false, "start-up restores the counter from %q", idxKey)
	n := 0
	isTx := func(t types.Type) bool {
		p, ok := t.(*types.Pointer)
		return ok && isNamedType(p.Elem(), "github.com/tidwall/buntdb", "Tx")
	}
	// transaction bodies: literals passed to buntdb Update, and declared functions that take the transaction
	// (a helper the literal hands its *buntdb.Tx to is still the transaction)
	type txBody struct {
		fn   *FuncInfo
		body *ast.BlockStmt
	}
	var bodies []txBody
	for _, fn := range c.AllFuncs("internal/server") {
		info := fn.Info()
		if sig, ok := fn.Obj.Type().(*types.Signature); ok && fn.Decl.Body != nil {
			for i := 0; i < sig.Params().Len(); i++ {
				if isTx(sig.Params().At(i).Type()) {
					bodies = append(bodies, txBody{fn, fn.Decl.Body})
					break
				}
			}
		}
		ast.Inspect(fn.Decl.Body, func(x ast.Node) bool {
			up, ok := x.(*ast.CallExpr)
			if !ok || !isBuntUpdate(callee(info, up), up) || len(up.Args) != 1 {
				return true
			}
			if lit, ok := ast.Unparen(up.Args[0]).(*ast.FuncLit); ok {
				bodies = append(bodies, txBody{fn, lit.Body})
			}
			return true
		})
	}
	for _, tb := range bodies {
		fn, info := tb.fn, tb.fn.Info()
		lit := struct{ Body *ast.BlockStmt }{tb.body}
		func() bool {
			// key writes: tx.Set(K, …) where K is (a local defined as) hookLogPrefix + uint64ToString(counter)
			var counter ast.Expr
			var keySets, idxSets []*ast.CallExpr
			var idxVal ast.Expr
			counterOf := func(e ast.Expr) ast.Expr {
				if id, ok := ast.Unparen(e).(*ast.Ident); ok {
					e = resolveLocal(info, lit.Body, id)
				}
				be, ok := ast.Unparen(e).(*ast.BinaryExpr)
				if !ok {
					return nil
				}
				id, ok := ast.Unparen(be.X).(*ast.Ident)
				if !ok || info.ObjectOf(id) != prefixObj {
					return nil
				}
				conv, ok := ast.Unparen(be.Y).(*ast.CallExpr)
				if !ok || len(conv.Args) != 1 {
					return nil
				}
				return conv.Args[0]
			}
			ast.Inspect(lit.Body, func(y ast.Node) bool {
				call, ok := y.(*ast.CallExpr)
				if !ok || len(call.Args) < 2 {
					return true
				}
				f := callee(info, call)
				if f == nil || f.Name() != "Set" || f.Pkg() == nil || f.Pkg().Path() != "github.com/tidwall/buntdb" {
					return true
				}
				if k := counterOf(call.Args[0]); k != nil {
					keySets = append(keySets, call)
					counter = k
				} else if s, ok := constString(info, call.Args[0]); ok && s == idxKey {
					idxSets = append(idxSets, call)
					if conv, ok := ast.Unparen(call.Args[1]).(*ast.CallExpr); ok && len(conv.Args) == 1 {
						idxVal = conv.Args[0]
					}
				}
				return true
			})
			if len(keySets) == 0 {
				return true
			}
			n++
			key := funcName(fn.Obj) + "/persisted-index"
			switch {
			case len(idxSets) == 0:
				c.bad(key, keySets[0].Pos(), "the transaction stores notifications under %s… keys but does not store the counter under %q: after a restart the keys start again from an old value and overwrite waiting notifications", "hookLogPrefix", idxKey)
			case idxVal == nil || !sameExpr(info, idxVal, counter):
				c.bad(key, idxSets[0].Pos(), "the keys are numbered by %s but %q receives %s: the persisted counter is not the one the keys were taken from, so it can lag behind them and a restarted server reuses keys of notifications that are still waiting", exprStr(counter), idxKey, exprStrOrNil(idxVal))
			default:
				// the counter is not changed after it was persisted, and every nil return of the closure passes the store
				lfg := newFlowGraph(info, lit.Body)
				il := lfg.LocOfOuter(idxSets[0])
				late := false
				if il.Valid() {
					late, _ = lfg.Reach(PathQuery{From: il, Target: func(l Loc) bool {
						hit := false
						inspectNoLit(l.Node, func(z ast.Node) bool {
							switch s := z.(type) {
							case *ast.IncDecStmt:
								if sameExpr(info, s.X, counter) {
									hit = true
								}
							case *ast.AssignStmt:
								for _, lh := range s.Lhs {
									if sameExpr(info, lh, counter) {
										hit = true
									}
								}
							}
							return true
						})
						return hit
					}})
				}
				skipped, _ := lfg.Reach(PathQuery{
					Target: func(l Loc) bool {
						r, ok := l.Node.(*ast.ReturnStmt)
						if !ok || len(r.Results) != 1 {
							return false
						}
						if tv, ok := info.Types[r.Results[0]]; ok && tv.IsNil() {
							return true
						}
						// return err, where err is not known to be non-nil here, may commit as well
						if id, ok := ast.Unparen(r.Results[0]).(*ast.Ident); ok {
							for k, v := range lfg.identFacts(lfg.DominatingFacts(l)) {
								if k.obj == info.ObjectOf(id) && k.isNil && !v {
									return false
								}
							}
							return true
						}
						return false
					},
					Avoid: func(l Loc) bool { return il.Valid() && l.Block == il.Block && l.Idx == il.Idx },
				})
				switch {
				case late:
					c.bad(key, idxSets[0].Pos(), "the counter %s is advanced again after it was stored under %q in the same transaction", exprStr(counter), idxKey)
				case skipped:
					c.bad(key, idxSets[0].Pos(), "the transaction can commit (return nil) without storing the counter under %q", idxKey)
				default:
					c.ok(key, idxSets[0].Pos(), true, "keys numbered by %s; the same counter is stored under %q after its last increment on every committing path", exprStr(counter), idxKey)
				}
			}
			return true
		}()
	}
	if n == 0 {
		c.und("no-sites", 0, "no transaction that stores notifications under hookLogPrefix keys found")
	}
	_ = types.Universe
}

func exprStrOrNil(e ast.Expr) string {
	if e == nil {
		return "something that is not a conversion of a counter"
	}
	return exprStr(e)
}

func init() {
	register(&Rule{ID: "R10.shared-defaults-immutable", Props: []string{"C10"}, Floor: 1,
		Text: "a package-level variable that holds a pointer to a struct literal (hookLogSetDefaults: the 30 s retention of queued notifications) is configuration shared by every user: no statement stores through it, directly (G.f = v) or through a local that received the pointer (opts := G; opts.TTL = …) — such a local is an alias, not a copy, and the store changes the default for every later notification of every hook",
		Run:  ruleSharedDefaultsImmutable})
}

func ruleSharedDefaultsImmutable(c *Ctx) {
	// package-level pointer variables initialised with &T{…}
	globals := map[types.Object]string{}
	for _, rel := range []string{"internal/server"} {
		pk := c.Pkgs[rel]
		if pk == nil {
			continue
		}
		for _, f := range pk.Syntax {
			for _, d := range f.Decls {
				gd, ok := d.(*ast.GenDecl)
				if !ok {
					continue
				}
				for _, sp := range gd.Specs {
					vs, ok := sp.(*ast.ValueSpec)
					if !ok {
						continue
					}
					for i, nm := range vs.Names {
						if i >= len(vs.Values) {
							continue
						}
						ue, ok := ast.Unparen(vs.Values[i]).(*ast.UnaryExpr)
						if !ok || ue.Op.String() != "&" {
							continue
						}
						if _, ok := ast.Unparen(ue.X).(*ast.CompositeLit); ok {
							globals[pk.TypesInfo.ObjectOf(nm)] = nm.Name
						}
					}
				}
			}
		}
	}
	if len(globals) == 0 {
		c.und("defaults", 0, "no package-level pointer to a struct literal found in internal/server")
		return
	}
	bad := map[types.Object]bool{}
	for _, fn := range c.AllFuncs("internal/server") {
		info := fn.Info()
		// locals that received the pointer
		alias := map[types.Object]types.Object{}
		ast.Inspect(fn.Decl.Body, func(x ast.Node) bool {
			as, ok := x.(*ast.AssignStmt)
			if !ok || len(as.Lhs) != len(as.Rhs) {
				return true
			}
			for i, r := range as.Rhs {
				if rid, ok := ast.Unparen(r).(*ast.Ident); ok && globals[info.ObjectOf(rid)] != "" {
					if lid, ok := ast.Unparen(as.Lhs[i]).(*ast.Ident); ok {
						alias[info.ObjectOf(lid)] = info.ObjectOf(rid)
					}
				}
			}
			return true
		})
		ast.Inspect(fn.Decl.Body, func(x ast.Node) bool {
			var targets []ast.Expr
			switch s := x.(type) {
			case *ast.AssignStmt:
				targets = s.Lhs
			case *ast.IncDecStmt:
				targets = []ast.Expr{s.X}
			}
			for _, t := range targets {
				se, ok := ast.Unparen(t).(*ast.SelectorExpr)
				if !ok {
					continue
				}
				base, ok := ast.Unparen(se.X).(*ast.Ident)
				if !ok {
					continue
				}
				o := info.ObjectOf(base)
				g := o
				if a, ok := alias[o]; ok {
					g = a
				}
				if globals[g] == "" {
					continue
				}
				bad[g] = true
				c.bad("defaults/"+globals[g]+"/"+funcName(fn.Obj)+"→"+exprStr(t), t.Pos(), "%s stores through the shared default %s (%s holds the same pointer, not a copy): the value set here stays in force for every later user — every notification queued afterwards, for every hook, gets this entry's remaining lifetime instead of the configured retention", exprStr(t), globals[g], base.Name)
			}
			return true
		})
	}
	for g, name := range globals {
		if !bad[g] {
			c.ok("defaults/"+name, g.Pos(), true, "no statement stores through %s or through a local that holds it", name)
		}
	}
	c.stat("shared_defaults", len(globals))
}
