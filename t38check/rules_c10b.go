package main

import (
	"fmt"
	"go/ast"
	"go/token"
	"go/types"
)

func init() {
	register(&Rule{ID: "R10.persisted-index-covers-keys", Props: []string{"C10"}, Floor: 2,
		Text: "the queue of pending webhook notifications survives a restart without overwriting itself: in the transaction that stores notifications under hookLogPrefix + uint64ToString(K), the same transaction stores uint64ToString(K) — the same counter, after its last increment — under the key the start-up code reads the counter back from (\"hook:idx\"), on every path that returns nil; a persisted index that lags behind the keys makes the restarted server reuse the keys of notifications that are still waiting",
		Run:  rulePersistedIndex})
}

func rulePersistedIndex(c *Ctx) {
	// the key the start-up code reads the counter from: tx.Get(<const>) whose result is converted into Server.qidx
	qidx := c.Field("internal/server", "Server", "qidx")
	if qidx == nil {
		c.und("anchors", 0, "Server.qidx not found")
		return
	}
	prefixObj := c.Pkgs["internal/server"].Types.Scope().Lookup("hookLogPrefix")
	if prefixObj == nil {
		c.und("anchors", 0, "hookLogPrefix not found")
		return
	}
	idxKey := ""
	for _, fn := range c.AllFuncs("internal/server") {
		info := fn.Info()
		storesQidx := false
		ast.Inspect(fn.Decl.Body, func(n ast.Node) bool {
			if as, ok := n.(*ast.AssignStmt); ok {
				for _, l := range as.Lhs {
					if selField(info, l) == qidx && as.Tok.String() == "=" {
						storesQidx = true
					}
				}
			}
			return true
		})
		if !storesQidx {
			continue
		}
		ast.Inspect(fn.Decl.Body, func(n ast.Node) bool {
			call, ok := n.(*ast.CallExpr)
			if !ok || len(call.Args) < 1 {
				return true
			}
			if f := callee(info, call); f != nil && f.Name() == "Get" && f.Pkg() != nil && f.Pkg().Path() == "github.com/tidwall/buntdb" {
				if s, ok := constString(info, call.Args[0]); ok && idxKey == "" {
					idxKey = s
				}
			}
			return true
		})
	}
	if idxKey == "" {
		c.und("index-key", 0, "the key from which the start-up code restores Server.qidx was not found")
		return
	}
	c.ok("index-key", 0, false, "start-up restores the counter from %q", idxKey)
	n := 0
	isTx := func(t types.Type) bool {
		p, ok := t.(*types.Pointer)
		return ok && isNamedType(p.Elem(), "github.com/tidwall/buntdb", "Tx")
	}
	// transaction bodies: literals passed to buntdb Update, and declared functions that take the transaction
	// (a helper the literal hands its *buntdb.Tx to is still the transaction)
	type txBody struct {
		fn   *FuncInfo
		body *ast.BlockStmt
	}
	var bodies []txBody
	for _, fn := range c.AllFuncs("internal/server") {
		info := fn.Info()
		if sig, ok := fn.Obj.Type().(*types.Signature); ok && fn.Decl.Body != nil {
			for i := 0; i < sig.Params().Len(); i++ {
				if isTx(sig.Params().At(i).Type()) {
					bodies = append(bodies, txBody{fn, fn.Decl.Body})
					break
				}
			}
		}
		ast.Inspect(fn.Decl.Body, func(x ast.Node) bool {
			up, ok := x.(*ast.CallExpr)
			if !ok || !isBuntUpdate(callee(info, up), up) || len(up.Args) != 1 {
				return true
			}
			if lit, ok := ast.Unparen(up.Args[0]).(*ast.FuncLit); ok {
				bodies = append(bodies, txBody{fn, lit.Body})
			}
			return true
		})
	}
	for _, tb := range bodies {
		fn, info := tb.fn, tb.fn.Info()
		lit := struct{ Body *ast.BlockStmt }{tb.body}
		func() bool {
			// key writes: tx.Set(K, …) where K is (a local defined as) hookLogPrefix + uint64ToString(counter)
			var counter ast.Expr
			var keySets, idxSets []*ast.CallExpr
			var idxVal ast.Expr
			counterOf := func(e ast.Expr) ast.Expr {
				if id, ok := ast.Unparen(e).(*ast.Ident); ok {
					e = resolveLocal(info, lit.Body, id)
				}
				be, ok := ast.Unparen(e).(*ast.BinaryExpr)
				if !ok {
					return nil
				}
				id, ok := ast.Unparen(be.X).(*ast.Ident)
				if !ok || info.ObjectOf(id) != prefixObj {
					return nil
				}
				conv, ok := ast.Unparen(be.Y).(*ast.CallExpr)
				if !ok || len(conv.Args) != 1 {
					return nil
				}
				return conv.Args[0]
			}
			ast.Inspect(lit.Body, func(y ast.Node) bool {
				call, ok := y.(*ast.CallExpr)
				if !ok || len(call.Args) < 2 {
					return true
				}
				f := callee(info, call)
				if f == nil || f.Name() != "Set" || f.Pkg() == nil || f.Pkg().Path() != "github.com/tidwall/buntdb" {
					return true
				}
				if k := counterOf(call.Args[0]); k != nil {
					keySets = append(keySets, call)
					counter = k
				} else if s, ok := constString(info, call.Args[0]); ok && s == idxKey {
					idxSets = append(idxSets, call)
					if conv, ok := ast.Unparen(call.Args[1]).(*ast.CallExpr); ok && len(conv.Args) == 1 {
						idxVal = conv.Args[0]
					}
				}
				return true
			})
			if len(keySets) == 0 {
				return true
			}
			n++
			key := funcName(fn.Obj) + "/persisted-index"
			switch {
			case len(idxSets) == 0:
				c.bad(key, keySets[0].Pos(), "the transaction stores notifications under %s… keys but does not store the counter under %q: after a restart the keys start again from an old value and overwrite waiting notifications", "hookLogPrefix", idxKey)
			case idxVal == nil || !sameExpr(info, idxVal, counter):
				c.bad(key, idxSets[0].Pos(), "the keys are numbered by %s but %q receives %s: the persisted counter is not the one the keys were taken from, so it can lag behind them and a restarted server reuses keys of notifications that are still waiting", exprStr(counter), idxKey, exprStrOrNil(idxVal))
			default:
				// the counter is not changed after it was persisted, and every nil return of the closure passes the store
				lfg := newFlowGraph(info, lit.Body)
				il := lfg.LocOfOuter(idxSets[0])
				late := false
				if il.Valid() {
					late, _ = lfg.Reach(PathQuery{From: il, Target: func(l Loc) bool {
						hit := false
						inspectNoLit(l.Node, func(z ast.Node) bool {
							switch s := z.(type) {
							case *ast.IncDecStmt:
								if sameExpr(info, s.X, counter) {
									hit = true
								}
							case *ast.AssignStmt:
								for _, lh := range s.Lhs {
									if sameExpr(info, lh, counter) {
										hit = true
									}
								}
							}
							return true
						})
						return hit
					}})
				}
				skipped, _ := lfg.Reach(PathQuery{
					Target: func(l Loc) bool {
						r, ok := l.Node.(*ast.ReturnStmt)
						if !ok || len(r.Results) != 1 {
							return false
						}
						if tv, ok := info.Types[r.Results[0]]; ok && tv.IsNil() {
							return true
						}
						// return err, where err is not known to be non-nil here, may commit as well
						if id, ok := ast.Unparen(r.Results[0]).(*ast.Ident); ok {
							for k, v := range lfg.identFacts(lfg.DominatingFacts(l)) {
								if k.obj == info.ObjectOf(id) && k.isNil && !v {
									return false
								}
							}
							return true
						}
						return false
					},
					Avoid: func(l Loc) bool { return il.Valid() && l.Block == il.Block && l.Idx == il.Idx },
				})
				switch {
				case late:
					c.bad(key, idxSets[0].Pos(), "the counter %s is advanced again after it was stored under %q in the same transaction", exprStr(counter), idxKey)
				case skipped:
					c.bad(key, idxSets[0].Pos(), "the transaction can commit (return nil) without storing the counter under %q", idxKey)
				default:
					c.ok(key, idxSets[0].Pos(), true, "keys numbered by %s; the same counter is stored under %q after its last increment on every committing path", exprStr(counter), idxKey)
				}
			}
			return true
		}()
	}
	if n == 0 {
		c.und("no-sites", 0, "no transaction that stores notifications under hookLogPrefix keys found")
	}
	_ = types.Universe
}

func exprStrOrNil(e ast.Expr) string {
	if e == nil {
		return "something that is not a conversion of a counter"
	}
	return exprStr(e)
}

func init() {
	register(&Rule{ID: "R10.shared-defaults-immutable", Props: []string{"C10"}, Floor: 1,
		Text: "a package-level variable that holds a pointer to a struct literal (hookLogSetDefaults: the 30 s retention of queued notifications) is configuration shared by every user: no statement stores through it, directly (G.f = v) or through a local that received the pointer (opts := G; opts.TTL = …) — such a local is an alias, not a copy, and the store changes the default for every later notification of every hook",
		Run:  ruleSharedDefaultsImmutable})
}

func ruleSharedDefaultsImmutable(c *Ctx) {
	// package-level pointer variables initialised with &T{…}
	globals := map[types.Object]string{}
	for _, rel := range []string{"internal/server"} {
		pk := c.Pkgs[rel]
		if pk == nil {
			continue
		}
		for _, f := range pk.Syntax {
			for _, d := range f.Decls {
				gd, ok := d.(*ast.GenDecl)
				if !ok {
					continue
				}
				for _, sp := range gd.Specs {
					vs, ok := sp.(*ast.ValueSpec)
					if !ok {
						continue
					}
					for i, nm := range vs.Names {
						if i >= len(vs.Values) {
							continue
						}
						ue, ok := ast.Unparen(vs.Values[i]).(*ast.UnaryExpr)
						if !ok || ue.Op.String() != "&" {
							continue
						}
						if _, ok := ast.Unparen(ue.X).(*ast.CompositeLit); ok {
							globals[pk.TypesInfo.ObjectOf(nm)] = nm.Name
						}
					}
				}
			}
		}
	}
	if len(globals) == 0 {
		c.und("defaults", 0, "no package-level pointer to a struct literal found in internal/server")
		return
	}
	bad := map[types.Object]bool{}
	for _, fn := range c.AllFuncs("internal/server") {
		info := fn.Info()
		// locals that received the pointer
		alias := map[types.Object]types.Object{}
		ast.Inspect(fn.Decl.Body, func(x ast.Node) bool {
			as, ok := x.(*ast.AssignStmt)
			if !ok || len(as.Lhs) != len(as.Rhs) {
				return true
			}
			for i, r := range as.Rhs {
				if rid, ok := ast.Unparen(r).(*ast.Ident); ok && globals[info.ObjectOf(rid)] != "" {
					if lid, ok := ast.Unparen(as.Lhs[i]).(*ast.Ident); ok {
						alias[info.ObjectOf(lid)] = info.ObjectOf(rid)
					}
				}
			}
			return true
		})
		ast.Inspect(fn.Decl.Body, func(x ast.Node) bool {
			var targets []ast.Expr
			switch s := x.(type) {
			case *ast.AssignStmt:
				targets = s.Lhs
			case *ast.IncDecStmt:
				targets = []ast.Expr{s.X}
			}
			for _, t := range targets {
				se, ok := ast.Unparen(t).(*ast.SelectorExpr)
				if !ok {
					continue
				}
				base, ok := ast.Unparen(se.X).(*ast.Ident)
				if !ok {
					continue
				}
				o := info.ObjectOf(base)
				g := o
				if a, ok := alias[o]; ok {
					g = a
				}
				if globals[g] == "" {
					continue
				}
				bad[g] = true
				c.bad("defaults/"+globals[g]+"/"+funcName(fn.Obj)+"→"+exprStr(t), t.Pos(), "%s stores through the shared default %s (%s holds the same pointer, not a copy): the value set here stays in force for every later user — every notification queued afterwards, for every hook, gets this entry's remaining lifetime instead of the configured retention", exprStr(t), globals[g], base.Name)
			}
			return true
		})
	}
	for g, name := range globals {
		if !bad[g] {
			c.ok("defaults/"+name, g.Pos(), true, "no statement stores through %s or through a local that holds it", name)
		}
	}
	c.stat("shared_defaults", len(globals))
}

// R10.register-before-ack
func init() {
	register(&Rule{ID: "R10.register-before-ack", Props: []string{"C10"}, Floor: 1,
		Text: "a subscription is acknowledged only after it is in the hub: in the function that serves a subscribed connection (found by role: it calls the pubsub method that stores the target into a hub), every call of a local reply closure that names a channel being subscribed — the variable handed to the registration, or an element of the slice handed to it — is reachable from the statement that selects 'subscribe' (un = false) only through the registration (path search on go/cfg with boolean correlation, so the unsubscribe edge is not taken). The client may publish, or another client's write may fire a fence, as soon as it has read the acknowledgement; an event in between finds no receiver and is lost",
		Run:  ruleRegisterBeforeAck})
}

func ruleRegisterBeforeAck(c *Ctx) {
	// the registration: a method of the pubsub type that stores into a map field named targets
	var reg *types.Func
	for _, fn := range c.AllFuncs("internal/server") {
		if fn.Decl.Recv == nil || fn.Decl.Body == nil {
			continue
		}
		info := fn.Info()
		stores := false
		ast.Inspect(fn.Decl.Body, func(n ast.Node) bool {
			as, ok := n.(*ast.AssignStmt)
			if !ok {
				return true
			}
			for i, l := range as.Lhs {
				ix, ok := ast.Unparen(l).(*ast.IndexExpr)
				if !ok || i >= len(as.Rhs) {
					continue
				}
				if fv := selField(info, ix.X); fv != nil && fv.Name() == "targets" && boolConst(info, as.Rhs[i]) == '1' {
					stores = true
				}
			}
			return true
		})
		if stores && isMethod(fn.Obj, modPath+"/internal/server", "pubsub", fn.Obj.Name()) {
			reg = fn.Obj
		}
	}
	if reg == nil {
		c.und("anchors", 0, "no pubsub method stores a target into a hub")
		return
	}
	n := 0
	for _, fn := range c.AllFuncs("internal/server") {
		if fn.Decl.Body == nil || fn.Obj == reg {
			continue
		}
		info := fn.Info()
		var regCalls []*ast.CallExpr
		inspectNoLit(fn.Decl.Body, func(x ast.Node) bool {
			if call, ok := x.(*ast.CallExpr); ok && callee(info, call) == reg {
				regCalls = append(regCalls, call)
			}
			return true
		})
		if len(regCalls) == 0 {
			continue
		}
		// channel variables: string arguments of the registration; for a slice handed over with "...",
		// the value variables of the range loops over it
		chans := map[types.Object]bool{}
		for _, rc := range regCalls {
			for _, a := range rc.Args {
				id, ok := ast.Unparen(a).(*ast.Ident)
				if !ok {
					continue
				}
				o := info.ObjectOf(id)
				if o == nil {
					continue
				}
				if isStringType(o.Type()) {
					chans[o] = true
				}
				if sl, ok := o.Type().Underlying().(*types.Slice); ok && isStringType(sl.Elem()) {
					inspectNoLit(fn.Decl.Body, func(x ast.Node) bool {
						if rs, ok := x.(*ast.RangeStmt); ok {
							if rid, ok := ast.Unparen(rs.X).(*ast.Ident); ok && info.ObjectOf(rid) == o {
								if vid, ok := rs.Value.(*ast.Ident); ok {
									chans[info.ObjectOf(vid)] = true
								}
							}
						}
						return true
					})
				}
			}
		}
		// local reply closures
		closures := map[types.Object]bool{}
		inspectNoLit(fn.Decl.Body, func(x ast.Node) bool {
			if as, ok := x.(*ast.AssignStmt); ok && len(as.Lhs) == len(as.Rhs) {
				for i, r := range as.Rhs {
					if _, ok := r.(*ast.FuncLit); ok {
						if id, ok := as.Lhs[i].(*ast.Ident); ok {
							closures[info.ObjectOf(id)] = true
						}
					}
				}
			}
			return true
		})
		fg := newFlowGraph(info, fn.Decl.Body)
		isReg := func(nd ast.Node) bool {
			for _, rc := range regCalls {
				if containsNode(nd, rc) {
					return true
				}
			}
			return false
		}
		var acks []*ast.CallExpr
		inspectNoLit(fn.Decl.Body, func(x ast.Node) bool {
			call, ok := x.(*ast.CallExpr)
			if !ok {
				return true
			}
			id, ok := ast.Unparen(call.Fun).(*ast.Ident)
			if !ok || !closures[info.ObjectOf(id)] {
				return true
			}
			for _, a := range call.Args {
				if aid, ok := ast.Unparen(a).(*ast.Ident); ok && chans[info.ObjectOf(aid)] {
					acks = append(acks, call)
					break
				}
			}
			return true
		})
		if len(acks) == 0 {
			c.und(funcName(fn.Obj), fn.Decl.Pos(), "the function registers subscriptions but no reply closure is called with the channel: the acknowledgement is not recognised")
			continue
		}
		// the statements that select 'subscribe': a boolean local that guards the registration is assigned false
		guardVars := map[types.Object]byte{} // the value the guard must have for the registration to run
		for _, rc := range regCalls {
			for _, f := range fg.DominatingFacts(fg.LocOf(rc)) {
				if f.Tag != nil {
					continue
				}
				if id, ok := ast.Unparen(f.E).(*ast.Ident); ok {
					if o := info.ObjectOf(id); o != nil {
						if f.Neg {
							guardVars[o] = '0'
						} else {
							guardVars[o] = '1'
						}
					}
				}
			}
		}
		var starts []Loc
		for _, b := range fg.G.Blocks {
			if !fg.Reachable(b) {
				continue
			}
			for i, nd := range b.Nodes {
				as, ok := nd.(*ast.AssignStmt)
				if !ok || len(as.Lhs) != len(as.Rhs) {
					continue
				}
				for j, l := range as.Lhs {
					id, ok := ast.Unparen(l).(*ast.Ident)
					if !ok {
						continue
					}
					if want, ok := guardVars[info.ObjectOf(id)]; ok && boolConst(info, as.Rhs[j]) == want {
						starts = append(starts, Loc{b, i, nd})
					}
				}
			}
		}
		if len(starts) == 0 {
			starts = []Loc{{}}
		}
		for k, ack := range acks {
			n++
			key := fmt.Sprintf("%s→%s", funcName(fn.Obj), exprStr(ack.Fun))
			if k > 0 {
				key += fmt.Sprintf("#%d", k+1)
			}
			bad := false
			var witness []ast.Node
			for _, st := range starts {
				// only selections of 'subscribe': the guard as assigned here lets the registration run
				// the effect of the selecting statement itself
				startFacts := map[identFact]bool{}
				for g, want := range guardVars {
					if as, ok := st.Node.(*ast.AssignStmt); ok {
						for j, lh := range as.Lhs {
							if id, ok := ast.Unparen(lh).(*ast.Ident); ok && info.ObjectOf(id) == g && j < len(as.Rhs) && boolConst(info, as.Rhs[j]) == want {
								startFacts[identFact{g, false}] = want == '1'
							}
						}
					}
				}
				reachReg, _ := fg.Reach(PathQuery{From: st, Correlate: true, Facts: startFacts, Target: func(l Loc) bool { return isReg(l.Block.Nodes[l.Idx]) }})
				if !reachReg {
					continue
				}
				r, w := fg.Reach(PathQuery{From: st, Correlate: true, Facts: startFacts,
					Target: func(l Loc) bool { return containsNode(l.Block.Nodes[l.Idx], ack) },
					Avoid: func(l Loc) bool {
						nd := l.Block.Nodes[l.Idx]
						if isReg(nd) {
							return true
						}
						// the next selection (the next command) ends the scope of this one
						switch x := nd.(type) {
						case *ast.AssignStmt:
							for _, lh := range x.Lhs {
								if id, ok := ast.Unparen(lh).(*ast.Ident); ok {
									if _, isGuard := guardVars[info.ObjectOf(id)]; isGuard {
										return true
									}
								}
							}
						case *ast.ValueSpec:
							for _, nm := range x.Names {
								if _, isGuard := guardVars[info.ObjectOf(nm)]; isGuard {
									return true
								}
							}
						}
						return false
					}})
				if r {
					bad, witness = true, w
					break
				}
			}
			c.checkPath(!bad, key, ack.Pos(), witness, "the acknowledgement of a subscription is reachable only through its registration in the hub",
				"the acknowledgement of a subscription can be written before the target is registered in the hub: a PUBLISH (or a geofence event) that the client issues after reading the acknowledgement finds no receiver and is lost")
		}
	}
	if n == 0 {
		c.und("sites", 0, "no function registers subscriptions")
	}
}

// R10.http-exchange-bounded
func init() {
	register(&Rule{ID: "R10.http-exchange-bounded", Props: []string{"C10"}, Floor: 1,
		Text: "a webhook that fails is retried, and everything queued behind it is delivered in order, only if the send returns: every net/http Client the endpoint package builds bounds the whole exchange — its Timeout is set to a positive constant (the client-level timeout is the only one that covers reading the response body, which Send drains before it looks at the status) — a client with per-phase transport timeouts only waits for ever on an endpoint that sends its headers and then stalls, and the hook's one delivery goroutine with it",
		Run:  ruleHTTPExchangeBounded})
}

func ruleHTTPExchangeBounded(c *Ctx) {
	n := 0
	for _, fn := range c.AllFuncs("internal/endpoint") {
		if fn.Decl.Body == nil {
			continue
		}
		info := fn.Info()
		ast.Inspect(fn.Decl.Body, func(x ast.Node) bool {
			cl, ok := x.(*ast.CompositeLit)
			if !ok {
				return true
			}
			tv, ok := info.Types[cl]
			if !ok || !isNamedType(tv.Type, "net/http", "Client") {
				return true
			}
			n++
			key := fmt.Sprintf("%s→http.Client#%d", funcName(fn.Obj), n)
			bounded := false
			for _, el := range cl.Elts {
				kv, ok := el.(*ast.KeyValueExpr)
				if !ok {
					continue
				}
				if id, ok := kv.Key.(*ast.Ident); ok && id.Name == "Timeout" {
					if vt, ok := info.Types[kv.Value]; ok && vt.Value != nil {
						if v, ok := constInt64(vt); ok && v > 0 {
							bounded = true
						}
					}
				}
			}
			c.check(bounded, key, cl.Pos(), "the client's Timeout is a positive constant", "this http.Client has no positive Timeout: nothing bounds the reading of the response body, so a webhook endpoint that answers with headers and then stalls blocks Send — and with it the hook's delivery goroutine, the retry of the message in flight and every message queued behind it — for ever")
			return true
		})
	}
	// a zero-value client used directly (http.DefaultClient, http.Post, …) is unbounded as well
	for _, fn := range c.AllFuncs("internal/endpoint") {
		if fn.Decl.Body == nil {
			continue
		}
		info := fn.Info()
		ast.Inspect(fn.Decl.Body, func(x ast.Node) bool {
			call, ok := x.(*ast.CallExpr)
			if !ok {
				return true
			}
			f := callee(info, call)
			if f == nil || f.Pkg() == nil || f.Pkg().Path() != "net/http" || f.Type().(*types.Signature).Recv() != nil {
				return true
			}
			switch f.Name() {
			case "Get", "Post", "PostForm", "Head":
				c.bad(funcName(fn.Obj)+"→http."+f.Name(), call.Pos(), "http.%s uses the default client, which has no timeout: a stalling endpoint blocks the delivery goroutine for ever", f.Name())
			}
			return true
		})
	}
	if n == 0 {
		c.und("clients", 0, "no http.Client is built in internal/endpoint")
	}
}

// R10.queue-key-order
func init() {
	register(&Rule{ID: "R10.queue-key-order", Props: []string{"C10", "C05"}, Floor: 1,
		Text: "the notification queue is a key-value store drained in the string order of its keys, and the keys are a prefix plus the queue index: string order is numeric order only if the index is encoded with a fixed width. The function whose result is appended to the queue-key prefix (found by role: the argument of the concatenation with hookLogPrefix in the function that stores the notifications) returns, on every return, a string of constant length — the tail x[len(x)-K:] of a string (constant K), or a fmt.Sprintf whose format is one zero-padded fixed-width integer verb. Unpadded, index 10 sorts before index 9 and 'inside' is delivered before 'enter'",
		Run:  ruleQueueKeyOrder})
}

func ruleQueueKeyOrder(c *Ctx) {
	// the encoders: functions whose result is concatenated with the constant hookLogPrefix
	encoders := map[*types.Func]token.Pos{}
	for _, fn := range c.AllFuncs("internal/server") {
		if fn.Decl.Body == nil {
			continue
		}
		info := fn.Info()
		ast.Inspect(fn.Decl.Body, func(x ast.Node) bool {
			be, ok := x.(*ast.BinaryExpr)
			if !ok || be.Op != token.ADD {
				return true
			}
			id, ok := ast.Unparen(be.X).(*ast.Ident)
			if !ok {
				return true
			}
			if k, ok := info.ObjectOf(id).(*types.Const); !ok || k.Name() != "hookLogPrefix" {
				return true
			}
			if call, ok := ast.Unparen(be.Y).(*ast.CallExpr); ok {
				if f := callee(info, call); f != nil && c.FuncOf(f) != nil {
					encoders[f] = call.Pos()
				}
			}
			return true
		})
	}
	if len(encoders) == 0 {
		c.und("encoder", 0, "no function result is concatenated with hookLogPrefix: the queue key encoder was not found")
		return
	}
	for f := range encoders {
		fi := c.FuncOf(f)
		info := fi.Info()
		fg := newFlowGraph(info, fi.Decl.Body)
		bad := ""
		var at token.Pos = fi.Decl.Pos()
		nret := 0
		for _, r := range fg.Returns() {
			rs := r.Node.(*ast.ReturnStmt)
			nret++
			if len(rs.Results) != 1 {
				bad, at = "a bare return", rs.Pos()
				break
			}
			e := ast.Unparen(resolveLocal(info, fi.Decl.Body, rs.Results[0]))
			fixed := false
			switch x := e.(type) {
			case *ast.SliceExpr:
				// s[len(s)-K:]
				if x.High == nil && x.Low != nil {
					if lb, ok := ast.Unparen(x.Low).(*ast.BinaryExpr); ok && lb.Op == token.SUB {
						if lc, ok := ast.Unparen(lb.X).(*ast.CallExpr); ok && len(lc.Args) == 1 {
							if lid, ok := ast.Unparen(lc.Fun).(*ast.Ident); ok && lid.Name == "len" && sameExpr(info, lc.Args[0], x.X) {
								if tv, ok := info.Types[lb.Y]; ok && tv.Value != nil {
									fixed = true
								}
							}
						}
					}
				}
			case *ast.CallExpr:
				if g := callee(info, x); g != nil && isFunc(g, "fmt", "Sprintf") && len(x.Args) == 2 {
					if fs, ok := constString(info, x.Args[0]); ok {
						if len(fs) >= 4 && fs[0] == '%' && fs[1] == '0' && fs[len(fs)-1] == 'd' && isDigits(fs[2:len(fs)-1]) {
							fixed = true
						}
					}
				}
			}
			if !fixed {
				bad, at = exprStr(e), rs.Pos()
				break
			}
		}
		c.check(bad == "" && nret > 0, funcName(f), at, "every return is a string of constant length (a fixed-width encoding of the index)",
			"the queue index is encoded as "+bad+", which is not of constant length: the store orders its keys as strings, so index 10 sorts before index 9 and notifications are delivered out of order ('inside' before 'enter') whenever the indexes of a backlog span a power of ten")
	}
}

func isDigits(s string) bool {
	if s == "" {
		return false
	}
	for _, r := range s {
		if r < '0' || r > '9' {
			return false
		}
	}
	return true
}
