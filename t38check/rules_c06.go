package main

import (
	"fmt"
	"go/ast"
	"go/token"
	"go/types"
	"strings"

	"golang.org/x/tools/go/cfg"
)

func init() {
	register(&Rule{ID: "R6.caught-up-guard", Props: []string{"C06", "C15"}, Floor: 3,
		Text: "every setCaughtUp(true) is dominated by the true edge of a comparison a >= b where b derives from the leader's aof_size and a is the follower's own position (returned by followCheckSome or followHandleCommand); setCaughtUp(false) dominates the connection to the leader in followStep",
		Run:  ruleCaughtUpGuard})
	register(&Rule{ID: "R6.position-implies-state", Props: []string{"C06"}, Floor: 3,
		Text: "in followCheckSome the position returned describes the local state: every normal return of position 0 passes through the re-creation of the local log and through reset(); the return of a truncated position passes os.Truncate → reset → loadAOF → size check, in that order; only the 'fully intact' return (position equals the checksummed position) needs neither",
		Run:  rulePositionImpliesState})
	register(&Rule{ID: "R6.apply-under-lock", Props: []string{"C06"}, Floor: 3,
		Text: "followHandleCommand acquires Server.mu exclusively before it tests the follow generation, and holds it (deferred release, no explicit release) across command and writeAOF",
		Run:  ruleFollowApplyUnderLock})
}

func ruleCaughtUpGuard(c *Ctx) {
	fs := c.Func("internal/server", "Server", "followStep")
	if fs == nil {
		c.und("anchors", 0, "followStep not found")
		return
	}
	info := fs.Info()
	fg := newFlowGraph(info, fs.Decl.Body)
	// leaderSize: variables assigned from a call whose argument indexes m["aof_size"]
	leader := map[types.Object]bool{}
	ownPos := map[types.Object]bool{}
	ast.Inspect(fs.Decl.Body, func(n ast.Node) bool {
		as, ok := n.(*ast.AssignStmt)
		if !ok || len(as.Rhs) != 1 || len(as.Lhs) == 0 {
			return true
		}
		id, ok := as.Lhs[0].(*ast.Ident)
		if !ok {
			return true
		}
		call, ok := ast.Unparen(as.Rhs[0]).(*ast.CallExpr)
		if !ok {
			return true
		}
		ast.Inspect(call, func(x ast.Node) bool {
			if ix, ok := x.(*ast.IndexExpr); ok {
				if s, ok := constString(info, ix.Index); ok && s == "aof_size" {
					leader[info.ObjectOf(id)] = true
				}
			}
			return true
		})
		if f := callee(info, call); f != nil && (f.Name() == "followCheckSome" || f.Name() == "followHandleCommand") {
			ownPos[info.ObjectOf(id)] = true
		}
		return true
	})
	mentionsAny := func(e ast.Expr, set map[types.Object]bool) bool {
		hit := false
		ast.Inspect(e, func(n ast.Node) bool {
			if id, ok := n.(*ast.Ident); ok && set[info.ObjectOf(id)] {
				hit = true
			}
			return true
		})
		return hit
	}
	isPosCmp := func(e ast.Expr) bool {
		be, ok := ast.Unparen(e).(*ast.BinaryExpr)
		if !ok {
			return false
		}
		switch be.Op {
		case token.GEQ:
			return mentionsAny(be.X, ownPos) && mentionsAny(be.Y, leader)
		case token.LEQ:
			return mentionsAny(be.Y, ownPos) && mentionsAny(be.X, leader)
		}
		return false
	}
	calls := fg.FindCalls(func(f *types.Func, call *ast.CallExpr) bool {
		return f != nil && f.Name() == "setCaughtUp" && len(call.Args) == 1
	})
	nTrue := 0
	for i, cl := range calls {
		call := cl.Node.(*ast.CallExpr)
		switch boolConst(info, call.Args[0]) {
		case '1':
			nTrue++
			ok := false
			for _, f := range fg.DominatingFacts(cl) {
				if f.Neg {
					continue
				}
				e := f.E
				if id, isId := ast.Unparen(e).(*ast.Ident); isId {
					// bool variable: every assignment to it must be a position comparison or the constant true under one
					all, n := true, 0
					ast.Inspect(fs.Decl.Body, func(x ast.Node) bool {
						if as, isAs := x.(*ast.AssignStmt); isAs && len(as.Lhs) == len(as.Rhs) {
							for j, l := range as.Lhs {
								if lid, isL := l.(*ast.Ident); isL && info.ObjectOf(lid) == info.ObjectOf(id) {
									n++
									if !isPosCmp(as.Rhs[j]) {
										// caughtUp = true inside `if aofsz >= aofSize`
										okInner := false
										if boolConst(info, as.Rhs[j]) == '1' {
											for _, ff := range fg.DominatingFacts(fg.LocOf(as)) {
												if !ff.Neg && isPosCmp(ff.E) {
													okInner = true
												}
											}
										}
										if !okInner {
											all = false
										}
									}
								}
							}
						}
						return true
					})
					if all && n > 0 {
						ok = true
					}
				} else if isPosCmp(e) {
					ok = true
				}
			}
			c.check(ok, "setCaughtUp(true)#"+string(rune('0'+i)), call.Pos(), "dominated by own position >= leader's aof_size",
				"the follower declares itself caught up without having compared its own log position with the leader's aof_size")
		case '0':
			dials := fg.FindCalls(func(f *types.Func, call *ast.CallExpr) bool { return f != nil && f.Name() == "DialTimeout" })
			ok := len(dials) > 0
			for _, d := range dials {
				if !fg.Dominates(cl, d) {
					ok = false
				}
			}
			c.check(ok, "setCaughtUp(false)-before-dial", call.Pos(), "caught-up is cleared before the (re)connect", "a reconnect can start while the follower still reports caught up")
		default:
			c.bad("setCaughtUp(non-constant)", call.Pos(), "setCaughtUp is called with a non-constant argument: the guard cannot be decided")
		}
	}
	if nTrue == 0 {
		c.bad("no-setCaughtUp-true", fs.Decl.Pos(), "followStep never declares the follower caught up")
	}
	// any other function calling setCaughtUp(true)?
	for _, fn := range c.AllFuncs("internal/server") {
		if fn.Obj == fs.Obj || fn.Obj.Name() == "setCaughtUp" {
			continue
		}
		ast.Inspect(fn.Decl.Body, func(n ast.Node) bool {
			if call, ok := n.(*ast.CallExpr); ok {
				if f := callee(fn.Info(), call); f != nil && f.Name() == "setCaughtUp" && len(call.Args) == 1 && boolConst(fn.Info(), call.Args[0]) != '0' {
					c.bad("setCaughtUp-elsewhere/"+fn.Obj.Name(), call.Pos(), "%s sets caught-up outside followStep, where no position comparison is available", fn.Obj.Name())
				}
			}
			return true
		})
	}
}

func rulePositionImpliesState(c *Ctx) {
	root := c.Func("internal/server", "Server", "followCheckSome")
	if root == nil {
		c.und("anchors", 0, "followCheckSome not found")
		return
	}
	// helpers whose result is returned as the position (return s.helper()): their
	// zero returns are position-0 returns of followCheckSome
	fns := []*FuncInfo{root}
	seen := map[*types.Func]bool{root.Obj: true}
	for i := 0; i < len(fns) && i < 4; i++ {
		f := fns[i]
		ast.Inspect(f.Decl.Body, func(n ast.Node) bool {
			r, ok := n.(*ast.ReturnStmt)
			if !ok || len(r.Results) != 1 {
				return true
			}
			if call, ok := ast.Unparen(r.Results[0]).(*ast.CallExpr); ok {
				if g := callee(f.Info(), call); g != nil && !seen[g] {
					if gi := c.FuncOf(g); gi != nil {
						seen[g] = true
						fns = append(fns, gi)
					}
				}
			}
			return true
		})
	}
	n0, nT := 0, 0
	for _, fn := range fns {
		a, b := positionReturns(c, fn, fn == root, n0)
		n0 += a
		nT += b
	}
	if n0 == 0 || nT == 0 {
		c.bad("returns", root.Decl.Pos(), "expected returns of position 0 and of a truncated position in followCheckSome (found %d / %d)", n0, nT)
	}
}

func positionReturns(c *Ctx, fn *FuncInfo, isRoot bool, base int) (n0, nT int) {
	info := fn.Info()
	fg := newFlowGraph(info, fn.Decl.Body)
	isCallNamed := func(l Loc, pred func(f *types.Func) bool) bool {
		hit := false
		inspectNoLit(l.Node, func(n ast.Node) bool {
			if call, ok := n.(*ast.CallExpr); ok && pred(callee(info, call)) {
				hit = true
			}
			return true
		})
		return hit
	}
	isReset := func(f *types.Func) bool { return isMethod(f, modPath+"/internal/server", "Server", "reset") }
	isCreate := func(f *types.Func) bool { return isFunc(f, "os", "Create") }
	isTrunc := func(f *types.Func) bool { return isFunc(f, "os", "Truncate") }
	isLoad := func(f *types.Func) bool { return isMethod(f, modPath+"/internal/server", "Server", "loadAOF") }
	for _, r := range fg.Returns() {
		rs := r.Node.(*ast.ReturnStmt)
		if len(rs.Results) != 2 {
			continue
		}
		if tv, ok := info.Types[rs.Results[1]]; !ok || !tv.IsNil() {
			continue // error return
		}
		pos := c.posStr(rs.Pos())
		_ = pos
		if tv, ok := info.Types[rs.Results[0]]; ok && tv.Value != nil && tv.Value.String() == "0" {
			n0++
			key := fn.Obj.Name() + "/return-0#" + string(rune('0'+n0))
			target := func(l Loc) bool { return l.Block == r.Block && l.Idx == r.Idx }
			noReset, t1 := fg.Reach(PathQuery{Target: target, Avoid: func(l Loc) bool { return isCallNamed(l, isReset) }})
			noCreate, _ := fg.Reach(PathQuery{Target: target, Avoid: func(l Loc) bool { return isCallNamed(l, isCreate) }})
			if noReset || noCreate {
				var path []string
				for _, nd := range t1 {
					path = append(path, c.posStr(nd.Pos()))
				}
				what := "without reset(): the follower keeps the dataset it held before"
				if !noReset {
					what = "without re-creating the local log"
				}
				c.badPath(key, rs.Pos(), path, "followCheckSome can return position 0 (resync from the start of the leader's log) %s; the leader's commands are then applied on top of unrelated data and the stale aofsz makes caught-up come early", what)
			} else {
				c.ok(key, rs.Pos(), true, "position 0 is returned only after the local log was re-created and the dataset reset")
			}
			continue
		}
		if !isRoot {
			continue
		}
		// non-zero position
		intact := false
		for _, f := range fg.DominatingFacts(r) {
			if be, ok := ast.Unparen(f.E).(*ast.BinaryExpr); ok && !f.Neg && be.Op == token.EQL {
				intact = true // pos == fullpos
			}
		}
		if intact {
			c.ok("return-intact", rs.Pos(), true, "the local log is a prefix of the leader's up to the returned position: nothing to rebuild")
			continue
		}
		nT++
		find := func(p func(f *types.Func) bool) Loc {
			ls := fg.Find(func(n ast.Node) bool { call, ok := n.(*ast.CallExpr); return ok && p(callee(info, call)) })
			if len(ls) == 0 {
				return Loc{}
			}
			return ls[len(ls)-1]
		}
		tr, rsx, ld := find(isTrunc), find(isReset), find(isLoad)
		ok := tr.Valid() && rsx.Valid() && ld.Valid() && fg.Dominates(tr, rsx) && fg.Dominates(rsx, ld) && fg.Dominates(ld, r)
		// size check: a comparison mentioning aofsz between loadAOF and the return
		sizeOK := false
		aofsz := c.Field("internal/server", "Server", "aofsz")
		for _, b := range fg.G.Blocks {
			if cond, _ := fg.condOf(b); cond != nil && mentionsField(info, cond, aofsz) && ld.Valid() && fg.BlockDominates(ld.Block, b) && fg.BlockDominates(b, r.Block) {
				sizeOK = true
			}
		}
		c.check(ok && sizeOK, "return-truncated", rs.Pos(), "os.Truncate → reset → loadAOF → size check dominate the return of the truncated position",
			"a truncated position is returned without the sequence truncate → reset → reload → size check: the in-memory dataset does not correspond to the log prefix the leader continues from")
	}
	return
}

func ruleFollowApplyUnderLock(c *Ctx) {
	fn := c.Func("internal/server", "Server", "followHandleCommand")
	if fn == nil {
		c.und("anchors", 0, "followHandleCommand not found")
		return
	}
	info := fn.Info()
	fg := newFlowGraph(info, fn.Decl.Body)
	locks := fg.Find(func(n ast.Node) bool {
		call, ok := n.(*ast.CallExpr)
		if !ok || c.serverMuOp(info, call) != lkLock {
			return false
		}
		_, isDefer := c.Parent(call).(*ast.DeferStmt)
		return !isDefer
	})
	if len(locks) == 0 {
		c.bad("lock", fn.Decl.Pos(), "followHandleCommand does not take Server.mu exclusively")
		return
	}
	followc := c.Field("internal/server", "Server", "followc")
	gen := fg.Find(func(n ast.Node) bool { se, ok := n.(*ast.SelectorExpr); return ok && selField(info, se) == followc })
	cmd := fg.FindCalls(func(f *types.Func, call *ast.CallExpr) bool { return isDispatcher(f) })
	wr := fg.FindCalls(func(f *types.Func, call *ast.CallExpr) bool { return isWriteAOF(f) })
	ok := len(gen) > 0 && len(cmd) > 0 && len(wr) > 0
	for _, l := range append(append(append([]Loc{}, gen...), cmd...), wr...) {
		if !fg.Dominates(locks[0], l) {
			ok = false
		}
	}
	c.check(ok, "lock-dominates-check-apply-log", locks[0].Node.Pos(), "the exclusive lock is taken before the generation test, the command and the log write", "the follow-generation test, the command or the log write can run before the lock is taken")
	rel := fg.Find(func(n ast.Node) bool {
		call, isCall := n.(*ast.CallExpr)
		if !isCall {
			return false
		}
		if _, isDefer := c.Parent(call).(*ast.DeferStmt); isDefer {
			return false
		}
		k := c.serverMuOp(info, call)
		return k == lkUnlock || k == lkRUnlock
	})
	c.check(len(rel) == 0, "no-explicit-release", fn.Decl.Pos(), "no explicit release inside followHandleCommand", "followHandleCommand releases Server.mu between the generation test and the log write")
	def := fg.Find(func(n ast.Node) bool {
		d, isD := n.(*ast.DeferStmt)
		return isD && c.serverMuOp(info, d.Call) == lkUnlock
	})
	c.check(len(def) == 1 && fg.Dominates(locks[0], def[0]), "deferred-release", fn.Decl.Pos(), "released by a deferred Unlock", "the lock is not released by a deferred Unlock")
}

func init() {
	register(&Rule{ID: "R6.reset-complete", Props: []string{"C06"}, Floor: 6,
		Text: "Server.reset, which the follower uses before it rebuilds its dataset from the leader's log, clears every registry that FLUSHDB clears (sibling agreement on the set of Server fields on which Clear is called): collections, hooks and all hook indexes",
		Run:  ruleResetComplete})
}

// clearedFields: the Server registries a function empties — x.Clear() on a field, a field re-assigned a fresh
// container (a constructor call or a composite literal), directly or in a method of Server it calls.
func clearedFields(c *Ctx, fn *FuncInfo, depth int, seen map[*types.Func]bool) map[string]bool {
	out := map[string]bool{}
	if fn == nil || seen[fn.Obj] || depth < 0 {
		return out
	}
	seen[fn.Obj] = true
	info := fn.Info()
	ast.Inspect(fn.Decl.Body, func(n ast.Node) bool {
		switch x := n.(type) {
		case *ast.AssignStmt:
			if len(x.Lhs) != len(x.Rhs) {
				return true
			}
			for i, l := range x.Lhs {
				f := selField(info, l)
				if f == nil || !isServerField(c, f) {
					continue
				}
				switch r := ast.Unparen(x.Rhs[i]).(type) {
				case *ast.CompositeLit:
					out[f.Name()] = true
				case *ast.UnaryExpr:
					if _, ok := ast.Unparen(r.X).(*ast.CompositeLit); ok {
						out[f.Name()] = true
					}
				case *ast.CallExpr:
					if g := callee(info, r); g != nil && g.Pkg() != nil && !strings.HasPrefix(g.Pkg().Path(), modPath) && strings.HasPrefix(g.Name(), "New") {
						out[f.Name()] = true
					}
				}
			}
		case *ast.CallExpr:
			se, ok := ast.Unparen(x.Fun).(*ast.SelectorExpr)
			if !ok {
				return true
			}
			if se.Sel.Name == "Clear" {
				if f := selField(info, se.X); f != nil {
					out[f.Name()] = true
				}
				return true
			}
			if g := callee(info, x); g != nil && isMethod(g, modPath+"/internal/server", "Server", g.Name()) {
				for k := range clearedFields(c, c.FuncOf(g), depth-1, seen) {
					out[k] = true
				}
			}
		}
		return true
	})
	return out
}

func isServerField(c *Ctx, f *types.Var) bool {
	return f != nil && c.Field("internal/server", "Server", f.Name()) == f
}

func ruleResetComplete(c *Ctx) {
	rs := c.Func("internal/server", "Server", "reset")
	fl := c.Func("internal/server", "Server", "cmdFLUSHDB")
	if rs == nil || fl == nil {
		c.und("anchors", 0, "Server.reset or cmdFLUSHDB not found")
		return
	}
	a, b := clearedFields(c, rs, 3, map[*types.Func]bool{}), clearedFields(c, fl, 3, map[*types.Func]bool{})
	if len(b) < 5 {
		c.und("flushdb-clears", fl.Decl.Pos(), "fewer than 5 registries cleared by FLUSHDB: extraction has gone vacuous")
		return
	}
	for f := range b {
		c.check(a[f], "reset-clears/"+f, rs.Decl.Pos(), "cleared by reset as by FLUSHDB", "Server.reset leaves Server."+f+" untouched although FLUSHDB clears it: a follower that resyncs keeps stale entries of it")
	}
}

func init() {
	register(&Rule{ID: "R6.stream-registered", Props: []string{"C06", "C09"}, Floor: 5,
		Text: "a handle on the live log that is read outside the critical section that opened it (the leader's stream to a follower) is registered in Server.aofconnM in the same exclusive critical section as the open, before any byte is read from it, and AOFSHRINK closes every registered connection and file before it renames the new log into place — so no follower keeps streaming a replaced log; other opens of the live log use the handle only for Seek/Stat/Close inside the command",
		Run:  ruleStreamRegistered})
}

func ruleStreamRegistered(c *Ctx) {
	a := c.muLK()
	if a.err != "" {
		c.und("engine", 0, "%s", a.err)
		return
	}
	aofF := c.Field("internal/server", "Server", "aof")
	connM := c.Field("internal/server", "Server", "aofconnM")
	if aofF == nil || connM == nil {
		c.und("anchors", 0, "Server.aof / Server.aofconnM not found")
		return
	}
	spec := c.muSpec(false)
	nOpen, nReg := 0, 0
	for _, fn := range c.AllFuncs("internal/server") {
		info := fn.Info()
		u := a.lk.ofDecl[fn.Obj]
		// opens of the live log: os.Open*(s.aof.Name(), ...) assigned to a local
		type open struct {
			as   *ast.AssignStmt
			f    types.Object
			errV types.Object
		}
		var opens []open
		inspectNoLit(fn.Decl.Body, func(n ast.Node) bool {
			as, ok := n.(*ast.AssignStmt)
			if !ok || len(as.Rhs) != 1 || len(as.Lhs) != 2 {
				return true
			}
			call, ok := ast.Unparen(as.Rhs[0]).(*ast.CallExpr)
			if !ok || len(call.Args) == 0 {
				return true
			}
			f := callee(info, call)
			if f == nil || f.Pkg() == nil || f.Pkg().Path() != "os" || (f.Name() != "Open" && f.Name() != "OpenFile") {
				return true
			}
			nc, ok := ast.Unparen(call.Args[0]).(*ast.CallExpr)
			if !ok {
				return true
			}
			se, ok := ast.Unparen(nc.Fun).(*ast.SelectorExpr)
			if !ok || se.Sel.Name != "Name" || selField(info, se.X) != aofF {
				return true
			}
			o := open{as: as}
			if id, ok := as.Lhs[0].(*ast.Ident); ok {
				o.f = info.ObjectOf(id)
			}
			if id, ok := as.Lhs[1].(*ast.Ident); ok {
				o.errV = info.ObjectOf(id)
			}
			opens = append(opens, o)
			return true
		})
		if len(opens) == 0 {
			continue
		}
		fg := newFlowGraph(info, fn.Decl.Body)
		for _, o := range opens {
			nOpen++
			base := funcName(fn.Obj) + "→open-live-log"
			if o.f == nil {
				c.und(base, o.as.Pos(), "handle is not bound to a local variable")
				continue
			}
			ol := fg.LocOf(o.as)
			// registration: s.aofconnM[_] = f
			var reg *ast.AssignStmt
			ast.Inspect(fn.Decl.Body, func(n ast.Node) bool {
				as, ok := n.(*ast.AssignStmt)
				if !ok || len(as.Lhs) != 1 || len(as.Rhs) != 1 {
					return true
				}
				ix, ok := ast.Unparen(as.Lhs[0]).(*ast.IndexExpr)
				if !ok || selField(info, ix.X) != connM {
					return true
				}
				if id, ok := ast.Unparen(as.Rhs[0]).(*ast.Ident); ok && info.ObjectOf(id) == o.f {
					reg = as
				}
				return true
			})
			// uses of the handle
			type use struct {
				node   ast.Node
				method string // "" when passed as an argument
				inLit  bool
			}
			var uses []use
			var walk func(n ast.Node, inLit bool)
			walk = func(n ast.Node, inLit bool) {
				ast.Inspect(n, func(m ast.Node) bool {
					if lit, ok := m.(*ast.FuncLit); ok && m != n {
						// a literal invoked on the spot (or deferred) runs inside this function
						escapes := true
						if call, ok := c.Parent(lit).(*ast.CallExpr); ok && ast.Unparen(call.Fun) == lit {
							if _, isGo := c.Parent(call).(*ast.GoStmt); !isGo {
								escapes = false
							}
						}
						walk(lit.Body, inLit || escapes)
						return false
					}
					call, ok := m.(*ast.CallExpr)
					if !ok {
						return true
					}
					if se, ok := ast.Unparen(call.Fun).(*ast.SelectorExpr); ok {
						if id, ok := ast.Unparen(se.X).(*ast.Ident); ok && info.ObjectOf(id) == o.f {
							uses = append(uses, use{call, se.Sel.Name, inLit})
						}
					}
					for _, arg := range call.Args {
						if id, ok := ast.Unparen(arg).(*ast.Ident); ok && info.ObjectOf(id) == o.f {
							uses = append(uses, use{call, "", inLit})
						}
					}
					return true
				})
			}
			walk(fn.Decl.Body, false)
			passive := map[string]bool{"Close": true, "Stat": true, "Name": true}
			if reg == nil {
				// command-local handle: the function is only entered with Server.mu held (the swap needs it
				// exclusively), performs no lock operation itself, and the handle does not leave it (no use
				// inside a literal other than a Close)
				mask, _ := 0, false
				if u != nil {
					mask, _ = a.lk.entryLockStates(u)
				}
				okLocal := u != nil && mask != 0 && mask&LN == 0
				why := "the function can be entered without Server.mu"
				var at token.Pos = o.as.Pos()
				inspectNoLit(fn.Decl.Body, func(m ast.Node) bool {
					if call, ok := m.(*ast.CallExpr); ok && u != nil && spec.Op(u, call) != 0 {
						okLocal, why, at = false, "the function releases or acquires Server.mu itself", call.Pos()
					}
					return true
				})
				for _, us := range uses {
					if us.inLit && us.method != "Close" {
						okLocal, why, at = false, "the handle is used inside a function literal", us.node.Pos()
					}
				}
				if okLocal {
					c.ok(base+"/local", o.as.Pos(), true, "unregistered handle lives inside a command that holds Server.mu throughout (%d uses)", len(uses))
				} else {
					c.bad(base+"/local", at, "a handle on the live log is not registered in Server.aofconnM and is not confined to a critical section of Server.mu (%s): AOFSHRINK cannot close it when it replaces the log, the reader keeps reading the replaced file", why)
				}
				continue
			}
			nReg++
			rl := fg.LocOf(reg)
			if !ol.Valid() || !rl.Valid() {
				c.und(base+"/same-section", o.as.Pos(), "open or registration not located in the flow graph")
				continue
			}
			// (i) no lock operation between open and registration (paths on which the open failed are exempt)
			isLockOp := func(l Loc) bool {
				hit := false
				inspectNoLit(l.Node, func(m ast.Node) bool {
					if call, ok := m.(*ast.CallExpr); ok && u != nil && spec.Op(u, call) != 0 {
						hit = true
					}
					return true
				})
				return hit
			}
			errNilOnly := func(b *cfg.Block, si int) bool {
				for _, f := range fg.edgeFacts(b, si) {
					if be, ok := ast.Unparen(f.E).(*ast.BinaryExpr); ok && (be.Op == token.NEQ || be.Op == token.EQL) {
						if id, ok := ast.Unparen(be.X).(*ast.Ident); ok && o.errV != nil && info.ObjectOf(id) == o.errV {
							if tv, ok := info.Types[be.Y]; ok && tv.IsNil() {
								if be.Op == token.NEQ && !f.Neg || be.Op == token.EQL && f.Neg {
									return false
								}
							}
						}
					}
				}
				return true
			}
			gap, trail := fg.Reach(PathQuery{From: ol, Target: isLockOp,
				Avoid:  func(l Loc) bool { return l.Block == rl.Block && l.Idx == rl.Idx },
				EdgeOK: errNilOnly})
			if gap {
				var path []string
				for _, nd := range trail {
					path = append(path, c.posStr(nd.Pos()))
				}
				c.badPath(base+"/same-section", o.as.Pos(), path, "Server.mu is released or re-acquired between opening the live log and registering the handle in aofconnM: an AOFSHRINK swap in that window misses this follower, which then streams the replaced file")
			} else {
				c.ok(base+"/same-section", o.as.Pos(), true, "no lock operation on any path from the open to the registration")
			}
			// (ii) the registration executes exclusively
			states := -1
			for _, as := range a.lk.Accesses() {
				if as.Acc.Loc == "Server.aofconnM" && as.Acc.Write && as.Acc.Pos >= reg.Pos() && as.Acc.Pos <= reg.End() {
					states = as.States
				}
			}
			c.check(states == LX, base+"/registered-exclusively", reg.Pos(), "the registration executes with Server.mu held exclusively", fmt.Sprintf("the registration may execute in lock state mask %d (exclusive is %d)", states, LX))
			// (iii) no read of the handle is reachable from the open without passing the registration
			okDom := true
			var at token.Pos
			nStream := 0
			for _, us := range uses {
				if passive[us.method] {
					continue
				}
				nStream++
				ul := fg.LocOf(us.node)
				if us.inLit || !ul.Valid() {
					ul = fg.LocOfOuter(us.node) // the literal's creation point
				}
				if !ul.Valid() {
					okDom, at = false, us.node.Pos()
					continue
				}
				tl := ul
				early, _ := fg.Reach(PathQuery{From: ol,
					Target: func(l Loc) bool { return l.Block == tl.Block && l.Idx == tl.Idx },
					Avoid:  func(l Loc) bool { return l.Block == rl.Block && l.Idx == rl.Idx },
					EdgeOK: errNilOnly})
				if early {
					okDom, at = false, us.node.Pos()
				}
			}
			if nStream == 0 {
				// an opener helper: the handle is handed to the caller, registered, on every path that returns it
				returned, early := 0, false
				for _, r := range fg.Returns() {
					rs := r.Node.(*ast.ReturnStmt)
					hasF := false
					for _, res := range rs.Results {
						if id, ok := ast.Unparen(res).(*ast.Ident); ok && info.ObjectOf(id) == o.f {
							hasF = true
						}
					}
					if !hasF {
						continue
					}
					returned++
					rr := r
					if e, _ := fg.Reach(PathQuery{From: ol,
						Target: func(l Loc) bool { return l.Block == rr.Block && l.Idx == rr.Idx },
						Avoid:  func(l Loc) bool { return l.Block == rl.Block && l.Idx == rl.Idx },
						EdgeOK: errNilOnly}); e {
						early = true
					}
				}
				switch {
				case returned == 0:
					c.und(base+"/registered-before-read", reg.Pos(), "the registered handle is neither read nor returned")
				case early:
					c.bad(base+"/registered-before-read", reg.Pos(), "the handle can be returned to the caller without having been registered in aofconnM: the caller streams a log that AOFSHRINK cannot close")
				default:
					c.ok(base+"/registered-before-read", reg.Pos(), true, "the handle is returned to the caller only after it was registered (%d return(s))", returned)
				}
			} else if okDom {
				c.ok(base+"/registered-before-read", reg.Pos(), true, "the registration dominates all %d reads of the handle", nStream)
			} else {
				c.bad(base+"/registered-before-read", at, "the handle is read (streamed to the follower) on a path that has not registered it in aofconnM yet: an AOFSHRINK that completes meanwhile does not close it, the follower is registered afterwards with a handle on the replaced log and never receives later writes")
			}
		}
	}
	c.stat("live_log_opens", nOpen)
	if nReg == 0 {
		c.bad("registered-stream-exists", 0, "no function registers a streamed handle on the live log in Server.aofconnM")
	}
	// AOFSHRINK kicks every registered follower before the rename (the rename may sit in a helper that only
	// aofshrink calls)
	sh, lit := finalShrinkLit(c)
	if sh == nil || lit == nil {
		c.und("shrink-kicks-followers", 0, "aofshrink or its final step (the literal that renames the shrink file) not found")
		return
	}
	info := sh.Info()
	helpers := c.calledOnlyFrom("aofshrink")
	xf := newXFlow(c, info, lit.Body, func(f *types.Func) bool { return helpers[f] && f != sh.Obj })
	renames := xf.Find(func(n ast.Node) bool {
		call, ok := n.(*ast.CallExpr)
		if !ok {
			return false
		}
		f := callee(info, call)
		return f != nil && f.Pkg() != nil && f.Pkg().Path() == "os" && f.Name() == "Rename"
	})
	if len(renames) == 0 {
		c.und("shrink-kicks-followers", lit.Pos(), "no os.Rename in the final step of aofshrink")
		return
	}
	// the kick loop: range over aofconnM closing key and value
	var kick *ast.RangeStmt
	scan := func(body ast.Node) {
		inspectNoLit(body, func(m ast.Node) bool {
			rs, ok := m.(*ast.RangeStmt)
			if !ok || selField(info, rs.X) != connM {
				return true
			}
			k, _ := rs.Key.(*ast.Ident)
			v, _ := rs.Value.(*ast.Ident)
			closed := map[types.Object]bool{}
			ast.Inspect(rs.Body, func(x ast.Node) bool {
				if call, ok := x.(*ast.CallExpr); ok {
					if se, ok := ast.Unparen(call.Fun).(*ast.SelectorExpr); ok && se.Sel.Name == "Close" {
						if id, ok := ast.Unparen(se.X).(*ast.Ident); ok {
							closed[info.ObjectOf(id)] = true
						}
					}
				}
				return true
			})
			if k != nil && v != nil && closed[info.ObjectOf(k)] && closed[info.ObjectOf(v)] {
				kick = rs
			}
			return true
		})
	}
	scan(lit.Body)
	for _, h := range xf.helpers {
		if kick == nil {
			scan(h.fi.Decl.Body)
		}
	}
	if kick == nil {
		c.bad("shrink-kicks-followers", renames[0].Pos(), "the swap section of aofshrink renames the new log into place without closing every connection and file registered in aofconnM: followers keep streaming the replaced log")
		return
	}
	kls := xf.Find(func(n ast.Node) bool { return n == ast.Node(kick.X) })
	okk := len(kls) > 0
	for _, r := range renames {
		if len(kls) == 0 || !xf.Dominates(kls[0], r) {
			okk = false
		}
	}
	c.check(okk, "shrink-kicks-followers", kick.Pos(), "closing every registered follower connection and file dominates the rename", "the rename of the new log can be reached without the loop that closes the registered followers")
}
