package main

import (
	"fmt"
	"go/ast"
	"go/token"
	"go/types"
	"sort"
	"strings"
)

func init() {
	register(&Rule{ID: "R5.detect-table", Props: []string{"C05"}, Floor: 9,
		Text: "the classification of a SET/FSET against a static fence is the table the property states: fenceMatch is evaluated abstractly (DT: path-sensitive constant propagation; the spatial tests of the previous and the new object, 'there was a previous object' and 'the path crosses the area' are atoms, WHERE/MATCH filters pass, the fence is not roaming) for both commands, both fence kinds, the default detection and each of the 32 DETECT subsets, and for every leaf the sequence of detect values handed to the message builder equals the documented list — inside→inside [inside]; inside→outside [exit outside]; outside→inside [enter inside]; outside→outside [outside], or [cross outside] when there was a previous object and the path crosses — filtered by the DETECT set; FSET of an object that stays inside/outside gives [inside]/[outside]; a DEL yields exactly one 'del' message and a DROP exactly one 'drop' message",
		Run:  ruleDetectTable})
}

var dtDetects = []string{"inside", "outside", "enter", "exit", "cross"}

func ruleDetectTable(c *Ctx) {
	fm := c.Func("internal/server", "", "fenceMatch")
	mk := c.Func("internal/server", "", "makemsg")
	fmo := c.Func("internal/server", "", "fenceMatchObject")
	if fm == nil || mk == nil || fmo == nil {
		c.und("anchors", 0, "fenceMatch, makemsg or fenceMatchObject not found")
		return
	}
	detIdx := makemsgDetectIndex(c, mk)
	if detIdx < 0 {
		c.und("anchors", mk.Decl.Pos(), "the parameter of makemsg that is written after `\"detect\":\"` was not identified")
		return
	}
	type scen struct {
		cmd      string
		fenceCmd string
		D        map[string]bool // nil: default detection
		dName    string
	}
	var scens []scen
	for _, cmd := range []string{"set", "fset"} {
		for _, fc := range []string{"within", "intersects"} {
			scens = append(scens, scen{cmd, fc, nil, "default"})
		}
		for mask := 0; mask < 32; mask++ {
			D := map[string]bool{}
			var nm []string
			for i, d := range dtDetects {
				if mask&(1<<i) != 0 {
					D[d] = true
					nm = append(nm, d)
				}
			}
			scens = append(scens, scen{cmd, "within", D, "{" + strings.Join(nm, ",") + "}"})
		}
	}
	info := fm.Info()
	// helpers that only fenceMatch (transitively) calls are parts of it: their bodies are evaluated in place
	own := c.calledOnlyFrom("fenceMatch")
	touches := map[*types.Func]bool{}
	opaque := map[*types.Func]bool{} // shared by all scenarios: callees found to lie outside the fragment
	mkTable := func(sc scen, objNil bool) *DTable {
		t := &DTable{c: c, fn: fm, info: info, noInline: opaque}
		t.Inline = func(f *types.Func) bool {
			if !own[f] || f == fm.Obj || f == mk.Obj || f == fmo.Obj || strings.HasPrefix(f.Name(), "fenceMatchRoam") || f.Name() == "fenceMatchNearbys" || f.Name() == "extendRoamMessage" {
				return false
			}
			// a helper that consults the shared registries (group ids) is not part of the classification
			if v, ok := touches[f]; ok {
				return !v
			}
			touches[f] = false
			if fi := c.FuncOf(f); fi != nil && fi.Decl.Body != nil {
				guarded := c.muData().guarded
				ast.Inspect(fi.Decl.Body, func(n ast.Node) bool {
					if se, ok := n.(*ast.SelectorExpr); ok {
						if fv := selField(fi.Info(), se); fv != nil && guarded[fv] != "" {
							touches[f] = true
						}
					}
					return true
				})
			}
			return !touches[f]
		}
		nilCmp := func(r *dtRun, e ast.Expr, sym, base string, isNil bool) (dtVal, bool) {
			switch sym {
			case base + " == nil":
				return dtVal{k: dtBool, b: isNil}, true
			case base + " != nil":
				return dtVal{k: dtBool, b: !isNil}, true
			}
			return dtVal{}, false
		}
		t.Bind = func(r *dtRun, e ast.Expr, sym string) (dtVal, bool) {
			if _, isSel := e.(*ast.SelectorExpr); isSel {
				if v, ok := r.fstore[sym]; ok {
					return v, true
				}
			}
			switch sym {
			case "‹commandDetails›.command":
				return dtVal{k: dtStr, s: sc.cmd}, true
			case "‹liveFenceSwitches›.roam.on":
				return dtVal{k: dtBool, b: false}, true
			case "‹liveFenceSwitches›.cmd":
				return dtVal{k: dtStr, s: sc.fenceCmd}, true
			case "‹scanWriter›.nofields":
				return dtVal{k: dtBool, b: false}, true
			case "‹scanWriter›.wr.Len() == 0":
				return dtVal{k: dtBool, b: false}, true
			case "‹scanWriter›.wr.Len() != 0", "‹scanWriter›.wr.Len() > 0":
				return dtVal{k: dtBool, b: true}, true
			case "‹commandDetails›.old != nil":
				return dtVal{k: dtBool, b: r.atom(e, "OLD")}, true
			case "‹commandDetails›.old == nil":
				return dtVal{k: dtBool, b: !r.atom(e, "OLD")}, true
			}
			if v, ok := nilCmp(r, e, sym, "‹commandDetails›.obj", objNil); ok {
				return v, true
			}
			if v, ok := nilCmp(r, e, sym, "‹liveFenceSwitches›", false); ok {
				return v, true
			}
			if v, ok := nilCmp(r, e, sym, "‹liveFenceSwitches›.detect", sc.D == nil); ok {
				return v, true
			}
			if strings.HasPrefix(sym, "‹liveFenceSwitches›.detect[⟨") && strings.HasSuffix(sym, "⟩]") {
				k := strings.TrimSuffix(strings.TrimPrefix(sym, "‹liveFenceSwitches›.detect[⟨"), "⟩]")
				return dtVal{k: dtBool, b: sc.D[k]}, true
			}
			// the filters pass: first result of testObject / fieldMatch
			if strings.HasSuffix(sym, "·0") && (strings.HasPrefix(sym, "‹scanWriter›.testObject(") || strings.HasPrefix(sym, "‹scanWriter›.fieldMatch(")) {
				return dtVal{k: dtBool, b: true}, true
			}
			return dtVal{}, false
		}
		t.Call = func(r *dtRun, call *ast.CallExpr, f *types.Func, args []dtVal) (dtVal, bool) {
			if f == nil {
				return dtVal{}, false
			}
			switch f {
			case mk.Obj:
				if detIdx < len(args) {
					return dtVal{k: dtStr, s: "msg:" + args[detIdx].label()}, true
				}
			case fmo.Obj:
				if len(call.Args) == 2 {
					switch r.sym(call.Args[1]) {
					case "‹commandDetails›.old":
						return dtVal{k: dtBool, b: r.atom(call, "IN_OLD")}, true
					case "‹commandDetails›.obj":
						return dtVal{k: dtBool, b: r.atom(call, "IN_NEW")}, true
					default:
						return dtVal{k: dtBool, b: r.atom(call, "CROSS")}, true
					}
				}
			}
			switch f.Name() {
			case "multiGlobMatch", "objIsSpatial":
				return dtVal{k: dtBool, b: true}, true
			}
			return dtVal{}, false
		}
		return t
	}
	filter := func(list []string, D map[string]bool) []string {
		if D == nil {
			return list
		}
		var out []string
		for _, d := range list {
			if D[d] {
				out = append(out, d)
			}
		}
		return out
	}
	type verdict struct {
		leaves int
		bad    string
		badPos ast.Node
		und    string
	}
	verdicts := map[string]*verdict{}
	get := func(k string) *verdict {
		if verdicts[k] == nil {
			verdicts[k] = &verdict{}
		}
		return verdicts[k]
	}
	totalLeaves := 0
	for _, sc := range scens {
		leaves := mkTable(sc, false).Run()
		totalLeaves += len(leaves)
		for i := range leaves {
			lf := &leaves[i]
			if lf.Undecided != "" {
				v := get(sc.cmd + "/evaluation")
				if v.und == "" {
					v.und = lf.Undecided + " [" + lf.atomsStr() + "]"
				}
				continue
			}
			inOld, ok1 := lf.Atoms["IN_OLD"]
			inNew, ok2 := lf.Atoms["IN_NEW"]
			if !ok1 || !ok2 {
				v := get(sc.cmd + "/evaluation")
				if v.und == "" {
					v.und = "a path through fenceMatch does not test the previous and the new object against the fence [" + lf.atomsStr() + "]"
				}
				continue
			}
			old, oldAsked := lf.Atoms["OLD"]
			if oldAsked && !old && inOld {
				continue // infeasible: no previous object, yet it matched
			}
			cross := sc.cmd == "set" && !inOld && !inNew && old && lf.Atoms["CROSS"]
			var key string
			var want []string
			switch {
			case inOld && inNew:
				key, want = "inside→inside", []string{"inside"}
			case inOld && !inNew:
				key, want = "inside→outside", []string{"exit", "outside"}
			case !inOld && inNew:
				key, want = "outside→inside", []string{"enter", "inside"}
			case cross:
				key, want = "outside→outside crossing", []string{"cross", "outside"}
			default:
				key, want = "outside→outside", []string{"outside"}
			}
			if sc.cmd == "fset" && inOld != inNew {
				continue // FSET does not move the object: with the filters passing both tests agree
			}
			want = filter(want, sc.D)
			v := get(sc.cmd + "/" + key)
			v.leaves++
			var got []string
			okShape := true
			if len(lf.Ret) != 1 {
				okShape = false
			} else {
				switch lf.Ret[0].k {
				case dtNil:
				case dtList:
					got = lf.Ret[0].l
				default:
					okShape = false
				}
			}
			if !okShape {
				if v.und == "" {
					v.und = "the value returned at " + c.posStr(lf.RetPos) + " is not a list the evaluation can follow"
				}
				continue
			}
			match := len(got) == len(want)
			if match {
				for j := range got {
					if got[j] == "msg:"+want[j] {
						continue
					}
					if j == 0 && strings.HasPrefix(got[j], "?") {
						continue // the object's own JSON used as the message (no detect member to compare)
					}
					match = false
				}
			}
			if !match && v.bad == "" {
				for j := range got {
					got[j] = strings.TrimPrefix(got[j], "msg:")
					if len(got[j]) > 40 {
						got[j] = got[j][:40] + "…"
					}
				}
				v.bad = fmt.Sprintf("with DETECT %s on a %s fence the messages are %v, the documented list is %v (return at %s; decisions: %s)", sc.dName, strings.ToUpper(sc.fenceCmd), got, want, c.posStr(lf.RetPos), lf.atomsStr())
			}
		}
	}
	// DEL and DROP
	for _, cmd := range []string{"del", "drop"} {
		sc := scen{cmd, "within", nil, "default"}
		leaves := mkTable(sc, cmd == "drop").Run()
		totalLeaves += len(leaves)
		v := get(cmd + "/one message")
		for i := range leaves {
			lf := &leaves[i]
			v.leaves++
			if lf.Undecided != "" {
				if v.und == "" {
					v.und = lf.Undecided
				}
				continue
			}
			good := len(lf.Ret) == 1 && lf.Ret[0].k == dtList && len(lf.Ret[0].l) == 1 && strings.Contains(lf.Ret[0].l[0], `"command":"`+cmd+`"`)
			if !good && v.bad == "" {
				got := "nothing"
				if len(lf.Ret) == 1 {
					got = lf.Ret[0].label()
					if len(got) > 80 {
						got = got[:80] + "…"
					}
				}
				v.bad = fmt.Sprintf("a %s of a matching object yields %s instead of exactly one '%s' message (return at %s; decisions: %s)", strings.ToUpper(cmd), got, cmd, c.posStr(lf.RetPos), lf.atomsStr())
			}
		}
	}
	var keys []string
	for k := range verdicts {
		keys = append(keys, k)
	}
	sort.Strings(keys)
	for _, k := range keys {
		v := verdicts[k]
		key := "fenceMatch/" + k
		switch {
		case v.bad != "":
			c.bad(key, fm.Decl.Pos(), "%s", v.bad)
		case v.und != "":
			c.und(key, fm.Decl.Pos(), "%s", v.und)
		case v.leaves == 0:
			c.und(key, fm.Decl.Pos(), "no leaf of the evaluation falls into this row of the table")
		default:
			c.ok(key, fm.Decl.Pos(), true, "%d leaves (all DETECT subsets, free conditions split both ways) give the documented messages", v.leaves)
		}
	}
	for _, want := range []string{"set/inside→inside", "set/inside→outside", "set/outside→inside", "set/outside→outside", "set/outside→outside crossing", "fset/inside→inside", "fset/outside→outside"} {
		if verdicts[want] == nil {
			c.und("fenceMatch/"+want, fm.Decl.Pos(), "no leaf of the evaluation falls into this row of the table")
		}
	}
	c.stat("detect_table_leaves", totalLeaves)
	c.stat("detect_table_scenarios", len(scens)+2)
}

// makemsgDetectIndex: the index of the message builder's parameter that is written after the literal `"detect":"`.
func makemsgDetectIndex(c *Ctx, mk *FuncInfo) int {
	// the parameter of the message builder that is written after the literal `"detect":"`
	detIdx := -1
	{
		info := mk.Info()
		params := map[types.Object]int{}
		sig := mk.Obj.Type().(*types.Signature)
		for i := 0; i < sig.Params().Len(); i++ {
			params[sig.Params().At(i)] = i
		}
		hasLit := func(n ast.Node) bool {
			found := false
			ast.Inspect(n, func(x ast.Node) bool {
				if bl, ok := x.(*ast.BasicLit); ok {
					if s, ok := constString(info, bl); ok && strings.Contains(s, `"detect":"`) {
						found = true
					}
				}
				return true
			})
			return found
		}
		ast.Inspect(mk.Decl.Body, func(n ast.Node) bool {
			call, ok := n.(*ast.CallExpr)
			if !ok || len(call.Args) != 2 {
				return true
			}
			if id, ok := ast.Unparen(call.Fun).(*ast.Ident); !ok || id.Name != "append" {
				return true
			}
			if pid, ok := ast.Unparen(call.Args[1]).(*ast.Ident); ok && hasLit(call.Args[0]) {
				if i, isP := params[info.ObjectOf(pid)]; isP && detIdx < 0 {
					// the innermost append whose base carries the literal
					if inner, ok := ast.Unparen(call.Args[0]).(*ast.CallExpr); !ok || !hasLit(inner.Args[0]) || len(inner.Args) < 2 || func() bool {
						_, isP2 := params[info.ObjectOf(identOf(inner.Args[len(inner.Args)-1]))]
						return !isP2
					}() {
						detIdx = i
					}
				}
			}
			return true
		})
	}
	return detIdx
}

func init() {
	register(&Rule{ID: "R5.field-list-persistent", Props: []string{"C05", "C01", "C10"}, Floor: 2,
		Text: "a field.List is a value that shares its buffer with every copy of it: the previous object of a SET (which fenceMatch tests the WHERE filter against), a notification still queued for a live connection, and the new object all hold lists that may share memory, so the list is persistent — in internal/field no function writes into memory that belongs to an existing list: every destination of copy(…) and every indexed store is a buffer created in that function (make, a local array), never the slice obtained from a list's pointer (ptob(list.p)) or a parameter; an update in place changes what the previous object and queued notifications show",
		Run:  ruleFieldListPersistent})
}

func ruleFieldListPersistent(c *Ctx) {
	n := 0
	for _, fn := range c.AllFuncs("internal/field") {
		info := fn.Info()
		// fresh buffers: locals defined by make(…) or declared as arrays
		fresh := map[types.Object]bool{}
		ast.Inspect(fn.Decl.Body, func(x ast.Node) bool {
			switch s := x.(type) {
			case *ast.AssignStmt:
				if len(s.Lhs) == len(s.Rhs) {
					for i, r := range s.Rhs {
						if call, ok := ast.Unparen(r).(*ast.CallExpr); ok {
							if id, ok := ast.Unparen(call.Fun).(*ast.Ident); ok && id.Name == "make" {
								if lid, ok := ast.Unparen(s.Lhs[i]).(*ast.Ident); ok {
									fresh[info.ObjectOf(lid)] = true
								}
							}
						}
					}
				}
			case *ast.ValueSpec:
				for _, nm := range s.Names {
					if o := info.ObjectOf(nm); o != nil {
						if _, isArr := o.Type().Underlying().(*types.Array); isArr && len(s.Values) == 0 {
							fresh[o] = true
						}
					}
				}
			}
			return true
		})
		rootOf := func(e ast.Expr) types.Object {
			for {
				switch x := ast.Unparen(e).(type) {
				case *ast.SliceExpr:
					e = x.X
					continue
				case *ast.IndexExpr:
					e = x.X
					continue
				case *ast.Ident:
					return info.ObjectOf(x)
				}
				return nil
			}
		}
		judge := func(dst ast.Expr, at ast.Node, what string) {
			t := info.TypeOf(dst)
			if t == nil {
				return
			}
			// only byte buffers
			switch u := t.Underlying().(type) {
			case *types.Slice:
				if b, ok := u.Elem().Underlying().(*types.Basic); !ok || b.Kind() != types.Byte && b.Kind() != types.Uint8 {
					return
				}
			case *types.Basic:
				if u.Kind() != types.Byte && u.Kind() != types.Uint8 {
					return
				}
			default:
				return
			}
			n++
			root := rootOf(dst)
			key := funcName(fn.Obj) + "→" + what + " " + exprStr(dst)
			if root != nil && fresh[root] {
				c.ok(key, at.Pos(), true, "the destination is a buffer created in this function")
				return
			}
			c.bad(key, at.Pos(), "%s writes into %s, which is not a buffer created in this function: it is memory of an existing list (the receiver's, obtained through ptob, or a caller's), and every copy of that list — the previous object of the SET that fenceMatch evaluates, a notification queued for a live connection — changes with it", what, exprStr(dst))
		}
		// locals that are views of an existing list's memory: b := ptob(list.p), b2 := b[i:j]
		fromList := map[types.Object]bool{}
		for changed := true; changed; {
			changed = false
			ast.Inspect(fn.Decl.Body, func(x ast.Node) bool {
				as, ok := x.(*ast.AssignStmt)
				if !ok || len(as.Lhs) != len(as.Rhs) {
					return true
				}
				for i, r := range as.Rhs {
					lid, ok := ast.Unparen(as.Lhs[i]).(*ast.Ident)
					if !ok {
						continue
					}
					o := info.ObjectOf(lid)
					if o == nil || fromList[o] {
						continue
					}
					isView := false
					if call, ok := ast.Unparen(r).(*ast.CallExpr); ok {
						if f := callee(info, call); f != nil && f.Name() == "ptob" {
							isView = true
						}
					}
					if root := rootOf(r); root != nil && fromList[root] {
						if _, isSlice := ast.Unparen(r).(*ast.SliceExpr); isSlice {
							isView = true
						}
						if _, isId := ast.Unparen(r).(*ast.Ident); isId {
							isView = true
						}
					}
					if isView {
						fromList[o] = true
						changed = true
					}
				}
				return true
			})
		}
		ast.Inspect(fn.Decl.Body, func(x ast.Node) bool {
			switch s := x.(type) {
			case *ast.CallExpr:
				if id, ok := ast.Unparen(s.Fun).(*ast.Ident); ok && id.Name == "copy" && len(s.Args) == 2 {
					if _, isB := info.Uses[id].(*types.Builtin); isB {
						judge(s.Args[0], s, "copy into")
					}
				}
				// append(dst, …) writes into dst's memory while its capacity lasts: a buffer created here is
				// fine, a view of an existing list is not; a caller's scratch buffer (a parameter) is not list memory
				if id, ok := ast.Unparen(s.Fun).(*ast.Ident); ok && id.Name == "append" && len(s.Args) >= 2 {
					if _, isB := info.Uses[id].(*types.Builtin); isB {
						if root := rootOf(s.Args[0]); root != nil && (fresh[root] || fromList[root]) {
							judge(s.Args[0], s, "append to")
						}
					}
				}
			case *ast.AssignStmt:
				for _, l := range s.Lhs {
					if ix, ok := ast.Unparen(l).(*ast.IndexExpr); ok {
						if _, isMap := info.TypeOf(ix.X).Underlying().(*types.Map); !isMap {
							judge(l, s, "store to")
						}
					}
				}
			}
			return true
		})
	}
	c.stat("buffer_writes_in_field_package", n)
}

// R5.render-unconditional
func init() {
	register(&Rule{ID: "R5.render-unconditional", Props: []string{"C05", "C10"}, Floor: 1,
		Text: "an event that fenceMatch has classified is rendered whatever the fence's scan writer has been through: the writer of a hook, channel or live fence lives as long as the fence and is shared by all its events, so nothing it accumulated (items counted, the limit once reached) may suppress a later event. In the function writeObject hands the object to (found by role: the scanWriter method it calls before it looks at sw.filled), evaluated in the scenario of the fence path — the object is not tested again (noTest) and the output is not a count — every path to a return passes through the append to sw.filled (must-pass-through on go/cfg under the scenario); R5.detect-table assumes exactly this when it takes the rendered text to be non-empty",
		Run:  ruleRenderUnconditional})
}

func ruleRenderUnconditional(c *Ctx) {
	wo := c.Func("internal/server", "scanWriter", "writeObject")
	filled := c.Field("internal/server", "scanWriter", "filled")
	if wo == nil || wo.Decl.Body == nil || filled == nil {
		c.und("anchors", 0, "scanWriter.writeObject or scanWriter.filled not found")
		return
	}
	// the callee that fills: a scanWriter method called by writeObject with its parameter
	var push *FuncInfo
	ast.Inspect(wo.Decl.Body, func(n ast.Node) bool {
		call, ok := n.(*ast.CallExpr)
		if !ok || push != nil {
			return true
		}
		f := callee(wo.Info(), call)
		if f == nil || !isMethod(f, modPath+"/internal/server", "scanWriter", f.Name()) {
			return true
		}
		fi := c.FuncOf(f)
		if fi == nil || fi.Decl.Body == nil {
			return true
		}
		// it appends to sw.filled, itself or in a helper that does so on every path
		grows := false
		ast.Inspect(fi.Decl.Body, func(m ast.Node) bool {
			if as, ok := m.(*ast.AssignStmt); ok {
				for _, l := range as.Lhs {
					if selField(fi.Info(), l) == filled {
						grows = true
					}
				}
			}
			if call, ok := m.(*ast.CallExpr); ok {
				if g := callee(fi.Info(), call); g != nil && g != f && mustFill(c, g, filled) {
					grows = true
				}
			}
			return true
		})
		if grows {
			push = fi
		}
		return true
	})
	if push == nil {
		c.und("filler", wo.Decl.Pos(), "writeObject calls no scanWriter method that appends to sw.filled")
		return
	}
	info := push.Info()
	fg := newFlowGraph(info, push.Decl.Body)
	isFill := func(n ast.Node) bool {
		hit := false
		inspectNoLit(n, func(m ast.Node) bool {
			if call, ok := m.(*ast.CallExpr); ok {
				if g := callee(info, call); g != nil && g != push.Obj && mustFill(c, g, filled) {
					hit = true
				}
			}
			if as, ok := m.(*ast.AssignStmt); ok {
				for i, l := range as.Lhs {
					if selField(info, l) == filled && i < len(as.Rhs) {
						if call, ok := ast.Unparen(as.Rhs[i]).(*ast.CallExpr); ok {
							if id, ok := ast.Unparen(call.Fun).(*ast.Ident); ok && id.Name == "append" {
								hit = true
							}
						}
					}
				}
			}
			return true
		})
		return hit
	}
	nAtoms := 0
	sc := atomsOnly(func(info *types.Info, body ast.Node) func(e ast.Expr) byte {
		return func(e ast.Expr) byte {
			e = ast.Unparen(e)
			if se, ok := e.(*ast.SelectorExpr); ok && se.Sel.Name == "noTest" {
				if fv := selField(info, se); fv != nil {
					nAtoms++
					return '1'
				}
			}
			if be, ok := e.(*ast.BinaryExpr); ok && (be.Op == token.EQL || be.Op == token.NEQ) {
				for _, side := range [][2]ast.Expr{{be.X, be.Y}, {be.Y, be.X}} {
					if fv := selField(info, side[0]); fv != nil && fv.Name() == "output" {
						if id, ok := ast.Unparen(side[1]).(*ast.Ident); ok && id.Name == "outputCount" {
							nAtoms++
							if be.Op == token.EQL {
								return '0'
							}
							return '1'
						}
					}
				}
			}
			return '?'
		}
	})
	// the two conditions of the scenario occur in the function at all (wherever the search stops)
	probe := sc.Atom(fg)
	ast.Inspect(push.Decl.Body, func(n ast.Node) bool {
		if e, ok := n.(ast.Expr); ok {
			probe(e)
		}
		return true
	})
	skip, w := c.scenReach(fg, push.Decl.Body, sc, Loc{}, func(l Loc) bool {
		_, ok := l.Node.(*ast.ReturnStmt)
		return ok
	}, func(l Loc) bool { return isFill(l.Block.Nodes[l.Idx]) })
	if nAtoms == 0 {
		c.und(funcName(push.Obj), push.Decl.Pos(), "neither the noTest flag nor the count output is consulted: the fence path through this function is not recognised")
		return
	}
	c.checkPath(!skip, funcName(push.Obj)+"→sw.filled", push.Decl.Pos(), w,
		"for an object that is not tested again and an output that is not a count, every return is preceded by the append to sw.filled",
		"the function can return without handing the object to sw.filled although the fence has already classified the event (noTest) — depending on what the long-lived writer of the fence accumulated from earlier events, a later event is rendered as nothing and fenceMatch drops it: the fence goes silent")
}

var mustFillCache = map[*types.Func]bool{}

// mustFill: every path through f to a return passes an append to the given slice field.
func mustFill(c *Ctx, f *types.Func, field *types.Var) bool {
	if v, ok := mustFillCache[f]; ok {
		return v
	}
	mustFillCache[f] = false
	fi := c.FuncOf(f)
	if fi == nil || fi.Decl.Body == nil {
		return false
	}
	info := fi.Info()
	isApp := func(n ast.Node) bool {
		hit := false
		inspectNoLit(n, func(m ast.Node) bool {
			if as, ok := m.(*ast.AssignStmt); ok {
				for i, l := range as.Lhs {
					if selField(info, l) == field && i < len(as.Rhs) {
						if call, ok := ast.Unparen(as.Rhs[i]).(*ast.CallExpr); ok {
							if id, ok := ast.Unparen(call.Fun).(*ast.Ident); ok && id.Name == "append" {
								hit = true
							}
						}
					}
				}
			}
			return true
		})
		return hit
	}
	any := false
	ast.Inspect(fi.Decl.Body, func(n ast.Node) bool {
		if isApp(n) {
			any = true
		}
		return !any
	})
	if !any {
		return false
	}
	fg := newFlowGraph(info, fi.Decl.Body)
	skip, _ := fg.Reach(PathQuery{
		Target: func(l Loc) bool {
			if _, ok := l.Node.(*ast.ReturnStmt); ok {
				return true
			}
			return len(l.Block.Succs) == 0 && l.Idx == len(l.Block.Nodes)-1
		},
		Avoid: func(l Loc) bool { return isApp(l.Block.Nodes[l.Idx]) },
	})
	mustFillCache[f] = !skip
	return !skip
}
