package main

import (
	"go/ast"
	"go/constant"
	"go/token"
	"go/types"
	"sort"
)

// ---------------------------------------------------------------------------
// CT — the command-table model (DESIGN.md 3.1)

type strClause struct {
	Strings   []string
	IsDefault bool
	Clause    *ast.CaseClause
	Index     int
}

type strSwitch struct {
	Stmt    *ast.SwitchStmt
	Clauses []*strClause
	Fn      *FuncInfo
}

func constString(info *types.Info, e ast.Expr) (string, bool) {
	tv, ok := info.Types[e]
	if !ok || tv.Value == nil || tv.Value.Kind() != constant.String {
		return "", false
	}
	return constant.StringVal(tv.Value), true
}

// isCommandCall: e is a call of (*Message).Command.
func isCommandCall(info *types.Info, e ast.Expr) bool {
	call, ok := ast.Unparen(e).(*ast.CallExpr)
	if !ok {
		return false
	}
	return isMethod(callee(info, call), modPath+"/internal/server", "Message", "Command")
}

// stringSwitches returns the switch statements of fn (outside nested
// FuncLits unless deep) whose tag satisfies tagOK and whose case labels are
// all constant strings.
func stringSwitches(fn *FuncInfo, tagOK func(ast.Expr) bool) []*strSwitch {
	var out []*strSwitch
	ast.Inspect(fn.Decl.Body, func(n ast.Node) bool {
		sw, ok := n.(*ast.SwitchStmt)
		if !ok || sw.Tag == nil || !tagOK(sw.Tag) {
			return true
		}
		ss := &strSwitch{Stmt: sw, Fn: fn}
		for i, c := range sw.Body.List {
			cc := c.(*ast.CaseClause)
			sc := &strClause{Clause: cc, Index: i, IsDefault: cc.List == nil}
			for _, e := range cc.List {
				s, ok := constString(fn.Info(), e)
				if !ok {
					return true // not a string switch
				}
				sc.Strings = append(sc.Strings, s)
			}
			ss.Clauses = append(ss.Clauses, sc)
		}
		out = append(out, ss)
		return true
	})
	return out
}

// clauseFor returns the clause that handles the string (or the default).
func (ss *strSwitch) clauseFor(s string) *strClause {
	var def *strClause
	for _, c := range ss.Clauses {
		if c.IsDefault {
			def = c
		}
		for _, x := range c.Strings {
			if x == s {
				return c
			}
		}
	}
	return def
}

func (ss *strSwitch) allStrings() []string {
	var out []string
	for _, c := range ss.Clauses {
		out = append(out, c.Strings...)
	}
	sort.Strings(out)
	return out
}

// ---------------------------------------------------------------------------
// lock operations

type lockKind int

const (
	lkNone lockKind = iota
	lkLock          // exclusive
	lkRLock
	lkUnlock
	lkRUnlock
)

// serverMuOp recognises X.mu.<op>() where X.mu is the field Server.mu.
func (p *Program) serverMuOp(info *types.Info, call *ast.CallExpr) lockKind {
	se, ok := ast.Unparen(call.Fun).(*ast.SelectorExpr)
	if !ok {
		return lkNone
	}
	mu := p.Field("internal/server", "Server", "mu")
	if mu == nil || selField(info, se.X) != mu {
		return lkNone
	}
	switch se.Sel.Name {
	case "Lock", "LockLowPriority":
		return lkLock
	case "RLock":
		return lkRLock
	case "Unlock":
		return lkUnlock
	case "RUnlock":
		return lkRUnlock
	}
	return lkNone
}

// lock states
const (
	LN = 1 << iota // not held
	LR             // shared
	LX             // exclusive
)

func lockStr(m int) string {
	s := ""
	if m&LN != 0 {
		s += "N"
	}
	if m&LR != 0 {
		s += "R"
	}
	if m&LX != 0 {
		s += "X"
	}
	if s == "" {
		s = "-"
	}
	return s
}

// LockClass is one row of the lock table LT.
type LockClass struct {
	Lock     int // LN, LR or LX at dispatch
	Write    bool
	WriteVar *types.Var        // the flag the arm sets
	Gates    map[string]bool   // error strings returned by gates in the arm
	GateKind map[string]string // error string → shape of the guarding condition (follower, readonly, catchingup, other)
	Returns  []string          // error strings/variables returned unconditionally by the arm
	Deferred int               // kind of deferred release (lkUnlock/lkRUnlock) or 0
	Clause   *strClause
	Problem  string // non-empty: the arm could not be interpreted
}

// CT holds the extracted tables.
type CT struct {
	HIC      *FuncInfo  // handleInputCommand
	LT       *strSwitch // the locking switch
	LTClass  map[*strClause]*LockClass
	Command  *FuncInfo
	DT       *strSwitch
	Handlers map[*strClause][]*types.Func // handler functions called by each DT arm
	GoCalls  map[*strClause][]*types.Func // functions started with `go` in the arm
	DevOnly  map[*strClause]bool          // arm refuses the command unless Options.DevMode
	Err      string
}

func (p *Program) buildCT() *CT {
	ct := &CT{LTClass: map[*strClause]*LockClass{}, Handlers: map[*strClause][]*types.Func{}, GoCalls: map[*strClause][]*types.Func{}, DevOnly: map[*strClause]bool{}}
	ct.HIC = p.Func("internal/server", "Server", "handleInputCommand")
	ct.Command = p.Func("internal/server", "Server", "command")
	if ct.HIC == nil || ct.Command == nil {
		ct.Err = "handleInputCommand or command not found"
		return ct
	}
	info := ct.HIC.Info()
	// LT: the Command() switch whose arms lock Server.mu
	for _, ss := range stringSwitches(ct.HIC, func(e ast.Expr) bool { return p.isCommandTag(ct.HIC, e) }) {
		locks := 0
		ast.Inspect(ss.Stmt, func(n ast.Node) bool {
			if c, ok := n.(*ast.CallExpr); ok && p.serverMuOp(info, c) != lkNone {
				locks++
			}
			return true
		})
		if locks > 0 {
			if ct.LT != nil {
				ct.Err = "more than one locking switch in handleInputCommand"
				return ct
			}
			ct.LT = ss
		}
	}
	if ct.LT == nil {
		ct.Err = "locking switch not found in handleInputCommand"
		return ct
	}
	for _, c := range ct.LT.Clauses {
		ct.LTClass[c] = p.interpretLockArm(ct.HIC, ct.LT, c)
	}
	// DT: the Command() switch of command
	var best *strSwitch
	for _, ss := range stringSwitches(ct.Command, func(e ast.Expr) bool { return p.isCommandTag(ct.Command, e) }) {
		if best == nil || len(ss.Clauses) > len(best.Clauses) {
			best = ss
		}
	}
	if best == nil {
		ct.Err = "dispatch switch not found in command"
		return ct
	}
	ct.DT = best
	for _, c := range ct.DT.Clauses {
		hs, gos := p.armCallees(ct.Command, c.Clause.Body)
		ct.Handlers[c] = hs
		ct.GoCalls[c] = gos
		ct.DevOnly[c] = p.devOnlyArm(ct.Command, c.Clause.Body)
	}
	return ct
}

// armCallees: tile38 functions called (statically) by the statements, and
// those started with `go`.
func (p *Program) armCallees(fn *FuncInfo, body []ast.Stmt) (calls, gos []*types.Func) {
	info := fn.Info()
	for _, st := range body {
		ast.Inspect(st, func(n ast.Node) bool {
			switch x := n.(type) {
			case *ast.GoStmt:
				if f := callee(info, x.Call); f != nil && p.funcDecls[f] != nil {
					gos = append(gos, f)
				}
				return false
			case *ast.CallExpr:
				if f := callee(info, x); f != nil && p.funcDecls[f] != nil {
					calls = append(calls, f)
				}
			}
			return true
		})
	}
	return
}

// interpretLockArm abstractly executes one arm of the lock switch starting in
// state N, following fallthrough.
func (p *Program) interpretLockArm(fn *FuncInfo, ss *strSwitch, c *strClause) *LockClass {
	info := fn.Info()
	lc := &LockClass{Lock: LN, Gates: map[string]bool{}, GateKind: map[string]string{}, Clause: c}
	idx := c.Index
	for {
		cc := ss.Stmt.Body.List[idx].(*ast.CaseClause)
		fell := false
		for _, st := range cc.Body {
			switch s := st.(type) {
			case *ast.ExprStmt:
				call, ok := ast.Unparen(s.X).(*ast.CallExpr)
				if !ok {
					lc.Problem = "unexpected expression statement"
					continue
				}
				switch p.serverMuOp(info, call) {
				case lkLock:
					if lc.Lock != LN {
						lc.Problem = "lock taken twice"
					}
					lc.Lock = LX
				case lkRLock:
					if lc.Lock != LN {
						lc.Problem = "lock taken twice"
					}
					lc.Lock = LR
				case lkUnlock, lkRUnlock:
					lc.Problem = "lock released before dispatch"
					lc.Lock = LN
				default:
					// any other call in a lock arm: tolerated if it does
					// not touch the lock (checked by the LK engine)
				}
			case *ast.DeferStmt:
				k := p.serverMuOp(info, s.Call)
				if k == lkUnlock || k == lkRUnlock {
					lc.Deferred = int(k)
				}
			case *ast.AssignStmt:
				if len(s.Lhs) == 1 && len(s.Rhs) == 1 {
					// the write flag: the boolean local of the host that the arms set to a constant (by role, not by name)
					if id, ok := s.Lhs[0].(*ast.Ident); ok {
						if v, isVar := info.ObjectOf(id).(*types.Var); isVar && !v.IsField() {
							if b, isB := v.Type().Underlying().(*types.Basic); isB && b.Kind() == types.Bool {
								if tv, ok := info.Types[s.Rhs[0]]; ok && tv.Value != nil && tv.Value.Kind() == constant.Bool {
									lc.Write = constant.BoolVal(tv.Value)
									if lc.WriteVar != nil && lc.WriteVar != v {
										lc.Problem = "two different boolean flags are set in the lock arm"
									}
									lc.WriteVar = v
								} else {
									lc.Problem = "write flag assigned a non-constant"
								}
							}
						}
					}
				}
			case *ast.IfStmt:
				// a gate: if <cond> { return writeErr("...") }
				for _, g := range gateStrings(info, s) {
					lc.Gates[g] = true
					lc.GateKind[g] = gateCondKind(info, s.Cond)
				}
				// gates behind a helper: if reason := s.helper(); reason != "" { return writeErr(reason) }
				for g, kind := range p.helperGates(info, s) {
					lc.Gates[g] = true
					lc.GateKind[g] = kind
				}
				// no lock operation may hide inside
				ast.Inspect(s, func(n ast.Node) bool {
					if call, ok := n.(*ast.CallExpr); ok && p.serverMuOp(info, call) != lkNone {
						lc.Problem = "lock operation nested in a conditional of the lock arm"
					}
					return true
				})
			case *ast.BranchStmt:
				if s.Tok == token.FALLTHROUGH {
					fell = true
				}
			case *ast.ReturnStmt:
				lc.Returns = append(lc.Returns, returnStrings(info, s)...)
			default:
				ast.Inspect(st, func(n ast.Node) bool {
					if call, ok := n.(*ast.CallExpr); ok && p.serverMuOp(info, call) != lkNone {
						lc.Problem = "lock operation in an unexpected statement of the lock arm"
					}
					return true
				})
			}
		}
		if !fell {
			break
		}
		idx++
		if idx >= len(ss.Stmt.Body.List) {
			break
		}
	}
	// the deferred release must match the lock taken
	switch lc.Lock {
	case LX:
		if lc.Deferred != int(lkUnlock) {
			lc.Problem = "exclusive lock without deferred Unlock"
		}
	case LR:
		if lc.Deferred != int(lkRUnlock) {
			lc.Problem = "shared lock without deferred RUnlock"
		}
	case LN:
		if lc.Deferred != 0 {
			lc.Problem = "deferred release without a lock"
		}
	}
	return lc
}

// gateStrings: for `if cond { return f("msg") }` (or `return x, errVar`)
// returns the constant strings / error variable names returned.
func gateStrings(info *types.Info, s *ast.IfStmt) []string {
	var out []string
	for _, st := range s.Body.List {
		r, ok := st.(*ast.ReturnStmt)
		if !ok {
			continue
		}
		for _, res := range r.Results {
			ast.Inspect(res, func(n ast.Node) bool {
				switch x := n.(type) {
				case *ast.BasicLit:
					if v, ok := constString(info, x); ok {
						out = append(out, v)
					}
				case *ast.Ident:
					if v, ok := info.Uses[x].(*types.Var); ok && v.Parent() == v.Pkg().Scope() {
						out = append(out, v.Name())
					}
				}
				return true
			})
		}
	}
	return out
}

// helperGates recognises `if v := <helper>(); v != "" { return …(v) }` where the helper is a tile38
// function that returns, at the top level of its body, constant strings under gate conditions and ""
// otherwise; it yields message → condition kind, as if the helper's tests stood in the arm.
func (p *Program) helperGates(info *types.Info, s *ast.IfStmt) map[string]string {
	out := map[string]string{}
	as, ok := s.Init.(*ast.AssignStmt)
	if !ok || len(as.Lhs) != 1 || len(as.Rhs) != 1 {
		return out
	}
	vid, ok := as.Lhs[0].(*ast.Ident)
	if !ok {
		return out
	}
	call, ok := ast.Unparen(as.Rhs[0]).(*ast.CallExpr)
	if !ok {
		return out
	}
	f := callee(info, call)
	fi := p.FuncOf(f)
	if f == nil || fi == nil {
		return out
	}
	// the condition is v != ""
	be, ok := ast.Unparen(s.Cond).(*ast.BinaryExpr)
	if !ok || be.Op != token.NEQ {
		return out
	}
	cid, ok := ast.Unparen(be.X).(*ast.Ident)
	if !ok || info.ObjectOf(cid) != info.ObjectOf(vid) {
		return out
	}
	if v, ok := constString(info, be.Y); !ok || v != "" {
		return out
	}
	// the body returns, mentioning v
	returnsV := false
	for _, st := range s.Body.List {
		if r, ok := st.(*ast.ReturnStmt); ok {
			ast.Inspect(r, func(n ast.Node) bool {
				if id, ok := n.(*ast.Ident); ok && info.ObjectOf(id) == info.ObjectOf(vid) {
					returnsV = true
				}
				return true
			})
		}
	}
	if !returnsV {
		return out
	}
	hinfo := fi.Info()
	for _, st := range fi.Decl.Body.List {
		ifs, ok := st.(*ast.IfStmt)
		if !ok || ifs.Init != nil {
			continue
		}
		for _, g := range gateStrings(hinfo, ifs) {
			if g != "" {
				out[g] = gateCondKind(hinfo, ifs.Cond)
			}
		}
	}
	return out
}

// condMentions: the set of tile38 functions called in the condition.
func condCalls(info *types.Info, e ast.Expr) map[string]bool {
	out := map[string]bool{}
	ast.Inspect(e, func(n ast.Node) bool {
		if c, ok := n.(*ast.CallExpr); ok {
			if f := callee(info, c); f != nil {
				out[f.Name()] = true
			}
		}
		return true
	})
	return out
}

var ctCache = map[*Program]*CT{}

func (p *Program) CT() *CT {
	if ct, ok := ctCache[p]; ok {
		return ct
	}
	ct := p.buildCT()
	ctCache[p] = ct
	return ct
}

// classOf returns the LT class for a command string.
func (ct *CT) classOf(cmd string) *LockClass {
	c := ct.LT.clauseFor(cmd)
	if c == nil {
		return nil
	}
	return ct.LTClass[c]
}

// returnStrings: constant strings and package-level error variables in the results.
func returnStrings(info *types.Info, r *ast.ReturnStmt) []string {
	var out []string
	for _, res := range r.Results {
		ast.Inspect(res, func(n ast.Node) bool {
			switch x := n.(type) {
			case *ast.BasicLit:
				if v, ok := constString(info, x); ok {
					out = append(out, v)
				}
			case *ast.Ident:
				if v, ok := info.Uses[x].(*types.Var); ok && v.Pkg() != nil && v.Parent() == v.Pkg().Scope() {
					out = append(out, v.Name())
				}
			}
			return true
		})
	}
	return out
}

// gateCondKind classifies the condition of a gate by its resolved callees and
// polarity: follower  = followHost() != ""
//
//	readonly  = readOnly()
//	catchingup = followHost() != "" && !caughtUpOnce()
func gateCondKind(info *types.Info, e ast.Expr) string {
	e = ast.Unparen(e)
	isCfgCall := func(x ast.Expr, name string) bool {
		call, ok := ast.Unparen(x).(*ast.CallExpr)
		if !ok {
			return false
		}
		f := callee(info, call)
		return f != nil && f.Name() == name && f.Pkg() != nil && f.Pkg().Path() == modPath+"/internal/server"
	}
	isEmptyStr := func(x ast.Expr) bool { v, ok := constString(info, x); return ok && v == "" }
	follower := func(x ast.Expr) bool {
		be, ok := ast.Unparen(x).(*ast.BinaryExpr)
		if !ok || be.Op != token.NEQ {
			return false
		}
		return isCfgCall(be.X, "followHost") && isEmptyStr(be.Y) || isCfgCall(be.Y, "followHost") && isEmptyStr(be.X)
	}
	notCaughtUp := func(x ast.Expr) bool {
		ue, ok := ast.Unparen(x).(*ast.UnaryExpr)
		return ok && ue.Op == token.NOT && isCfgCall(ue.X, "caughtUpOnce")
	}
	switch {
	case follower(e):
		return "follower"
	case isCfgCall(e, "readOnly"):
		return "readonly"
	}
	if be, ok := e.(*ast.BinaryExpr); ok && be.Op == token.LAND {
		if follower(be.X) && notCaughtUp(be.Y) || follower(be.Y) && notCaughtUp(be.X) {
			return "catchingup"
		}
	}
	return "other"
}

// devOnlyArm: the arm starts with `if !<...>.DevMode { ...; return }`, i.e. the
// command does not exist unless the server runs in developer mode.
func (p *Program) devOnlyArm(fn *FuncInfo, body []ast.Stmt) bool {
	if len(body) == 0 {
		return false
	}
	ifs, ok := body[0].(*ast.IfStmt)
	if !ok {
		return false
	}
	ue, ok := ast.Unparen(ifs.Cond).(*ast.UnaryExpr)
	if !ok || ue.Op != token.NOT {
		return false
	}
	dev := p.Field("internal/server", "Options", "DevMode")
	if dev == nil || selField(fn.Info(), ue.X) != dev {
		return false
	}
	n := len(ifs.Body.List)
	if n == 0 {
		return false
	}
	_, isRet := ifs.Body.List[n-1].(*ast.ReturnStmt)
	return isRet
}
