package main

import (
	"fmt"
	"go/ast"
	"go/token"
	"go/types"
	"strings"
)

func init() {
	register(&Rule{ID: "R17.marshal-total", Props: []string{"C17"}, Floor: 8,
		Text: "json.Marshal is a JSON value producer of the fragment typing only where it cannot fail: at every call in internal/server whose error is not tested, the argument's static type is total for the encoder (strings, booleans, integers and slices, arrays, maps with string keys, pointers and structs of those), or it is a map[string]interface{} (or a slice of such maps), in which case every value stored into any map[string]interface{} of the package has a total static type or comes from a function all of whose returns are total values or float64 values under dominating !math.IsNaN / !math.IsInf tests — encoding/json rejects NaN and the infinities, and with the error discarded the reply then contains an empty value",
		Run:  ruleMarshalTotal})
	register(&Rule{ID: "R17.finite-floats", Props: []string{"C17"}, Floor: 4,
		Text: "the float formatters of the fragment typing's value table (strconv 'f' formatting, which prints NaN and +Inf for non-finite values) only ever see finite numbers that came from a client: every call of strconv.ParseFloat in internal/server either discards the value (a syntax probe), or the function that makes the call tests the result with both math.IsNaN and math.IsInf, or is one of the reviewed functions (developer-mode commands; the Lua number parser, whose results stay Lua numbers and pass ConvertToJSON) — strconv.ParseFloat accepts \"nan\", \"inf\" and \"infinity\"",
		Run:  ruleFiniteFloats})
	register(&Rule{ID: "R17.lua-json", Props: []string{"C17"}, Floor: 4,
		Text: "the converter of script results (ConvertToJSON, found by role: the function from lua.LValue to string whose result follows `\"result\":`) is checked, not trusted: a number is printed with String() only under dominating tests that it is neither NaN nor infinite, every key of an object it writes is produced by a JSON string encoder or is the conversion of a value known to be a Lua string, and every other return is a JSON literal, the output of a JSON string encoder, or the bracketed join of converted values",
		Run:  ruleLuaJSON})
}

func totalForJSON(t types.Type, depth int) (bool, bool) { // total, dynamic (contains interface{})
	if depth > 6 {
		return false, false
	}
	switch u := t.Underlying().(type) {
	case *types.Basic:
		if u.Info()&(types.IsString|types.IsBoolean|types.IsInteger) != 0 {
			return true, false
		}
		return false, false
	case *types.Slice:
		return totalForJSON(u.Elem(), depth+1)
	case *types.Array:
		return totalForJSON(u.Elem(), depth+1)
	case *types.Pointer:
		return totalForJSON(u.Elem(), depth+1)
	case *types.Map:
		if k, ok := u.Key().Underlying().(*types.Basic); !ok || k.Info()&types.IsString == 0 {
			return false, false
		}
		return totalForJSON(u.Elem(), depth+1)
	case *types.Struct:
		for i := 0; i < u.NumFields(); i++ {
			if ok, _ := totalForJSON(u.Field(i).Type(), depth+1); !ok {
				return false, false
			}
		}
		return true, false
	case *types.Interface:
		if u.Empty() {
			return false, true
		}
	}
	return false, false
}

// finiteGuarded: at location l the identifier is known to be neither NaN nor infinite.
func finiteGuarded(fg *FlowGraph, info *types.Info, l Loc, obj types.Object) bool {
	nan, inf := false, false
	for _, f := range fg.DominatingFacts(l) {
		call, ok := ast.Unparen(f.E).(*ast.CallExpr)
		if !ok || !f.Neg || len(call.Args) < 1 {
			continue
		}
		id, ok := ast.Unparen(call.Args[0]).(*ast.Ident)
		if !ok || info.ObjectOf(id) != obj {
			continue
		}
		switch g := callee(info, call); {
		case isFunc(g, "math", "IsNaN"):
			nan = true
		case isFunc(g, "math", "IsInf"):
			inf = true
		}
	}
	return nan && inf
}

func ruleMarshalTotal(c *Ctx) {
	pk := "internal/server"
	// (a) the package invariant: values stored into map[string]interface{}
	isDynMap := func(t types.Type) bool {
		m, ok := t.Underlying().(*types.Map)
		if !ok {
			return false
		}
		i, ok := m.Elem().Underlying().(*types.Interface)
		return ok && i.Empty()
	}
	fnTotal := map[*types.Func]string{}
	var returnsTotal func(f *types.Func) string // "" = total, else the reason it is not
	returnsTotal = func(f *types.Func) string {
		if r, ok := fnTotal[f]; ok {
			return r
		}
		fnTotal[f] = ""
		fi := c.FuncOf(f)
		if fi == nil || fi.Decl.Body == nil {
			fnTotal[f] = "function " + f.Name() + " has no source in the repository"
			return fnTotal[f]
		}
		info := fi.Info()
		fg := newFlowGraph(info, fi.Decl.Body)
		for _, rl := range fg.Returns() {
			r := rl.Node.(*ast.ReturnStmt)
			if len(r.Results) != 1 {
				fnTotal[f] = "a return of " + f.Name() + " is not a single value"
				return fnTotal[f]
			}
			t := info.TypeOf(r.Results[0])
			if ok, _ := totalForJSON(t, 0); ok {
				continue
			}
			if b, ok := t.Underlying().(*types.Basic); ok && b.Info()&types.IsFloat != 0 {
				if id, ok := ast.Unparen(r.Results[0]).(*ast.Ident); ok && finiteGuarded(fg, info, rl, info.ObjectOf(id)) {
					continue
				}
				fnTotal[f] = f.Name() + " returns the float " + exprStr(r.Results[0]) + " at " + c.posStr(r.Pos()) + " without tests that it is neither NaN nor infinite"
				return fnTotal[f]
			}
			fnTotal[f] = f.Name() + " returns " + exprStr(r.Results[0]) + " of type " + t.String()
			return fnTotal[f]
		}
		return ""
	}
	storesOK := true
	nStores := 0
	for _, fn := range c.AllFuncs(pk) {
		info := fn.Info()
		ast.Inspect(fn.Decl.Body, func(n ast.Node) bool {
			as, ok := n.(*ast.AssignStmt)
			if !ok || len(as.Lhs) != len(as.Rhs) {
				return true
			}
			for i, l := range as.Lhs {
				ix, ok := ast.Unparen(l).(*ast.IndexExpr)
				if !ok {
					continue
				}
				if t := info.TypeOf(ix.X); t == nil || !isDynMap(t) {
					continue
				}
				nStores++
				e := as.Rhs[i]
				t := info.TypeOf(e)
				if ok, _ := totalForJSON(t, 0); ok {
					continue
				}
				if finiteByConstruction(info, e) {
					continue
				}
				why := "a value of type " + t.String()
				if call, ok := ast.Unparen(e).(*ast.CallExpr); ok {
					if f := callee(info, call); f != nil && c.FuncOf(f) != nil {
						if why = returnsTotal(f); why == "" {
							continue
						}
					}
				}
				// a nested dynamic map is covered by the same invariant
				if isDynMap(t) {
					continue
				}
				storesOK = false
				c.bad("dynamic-map-store/"+funcName(fn.Obj)+"→"+exprStr(l), as.Pos(), "%s is stored in a map[string]interface{} that is handed to json.Marshal with the error discarded: %s — the encoder fails on NaN, infinities and unsupported types and the reply then carries an empty value (`\"list\":,`)", exprStr(e), why)
			}
			return true
		})
	}
	c.stat("dynamic_map_stores", nStores)
	if storesOK {
		c.ok("dynamic-map-stores", 0, true, "all %d values stored into map[string]interface{} values of the package are total for the JSON encoder", nStores)
	}
	// (b) the call sites
	for _, fn := range c.AllFuncs(pk) {
		info := fn.Info()
		ord := map[string]int{}
		ast.Inspect(fn.Decl.Body, func(n ast.Node) bool {
			call, ok := n.(*ast.CallExpr)
			if !ok || len(call.Args) < 1 {
				return true
			}
			f := callee(info, call)
			if !(isFunc(f, "encoding/json", "Marshal") || isFunc(f, "encoding/json", "MarshalIndent")) {
				return true
			}
			base := funcName(fn.Obj) + "→json." + f.Name() + "(" + exprStr(call.Args[0]) + ")"
			ord[base]++
			key := base
			if ord[base] > 1 {
				key += "#" + strings.Repeat("I", ord[base])
			}
			// is the error tested? `x, err := json.Marshal(..)` with err not blank
			tested := false
			if as, ok := c.Parent(call).(*ast.AssignStmt); ok && len(as.Lhs) == 2 {
				if id, ok := as.Lhs[1].(*ast.Ident); ok && id.Name != "_" {
					tested = true
				}
			}
			t := info.TypeOf(call.Args[0])
			total, _ := totalForJSON(t, 0)
			switch {
			case tested:
				c.ok(key, call.Pos(), false, "the error of the encoder is not discarded")
			case total:
				c.ok(key, call.Pos(), true, "the argument's static type %s cannot make the encoder fail", t.String())
			case isDynMap(t) || func() bool { s, ok := t.Underlying().(*types.Slice); return ok && isDynMap(s.Elem()) }():
				c.check(storesOK, key, call.Pos(), "a dynamic map; every value stored into such maps is total (dynamic-map-stores)", "the argument is a map[string]interface{} and not every value stored into such maps is safe for the encoder, whose error is discarded here")
			default:
				c.bad(key, call.Pos(), "json.Marshal of a %s with the error discarded: the encoder can fail for this type and the reply then carries an empty value", t.String())
			}
			return true
		})
	}
}

var finiteFloatsReviewed = map[string]string{
	"server.(*Server).cmdMassInsert": "developer-mode command (refused unless Options.DevMode)",
	"server.(*Server).cmdSleep":      "developer-mode command (refused unless Options.DevMode)",
	"server.baseToNumber":            "Lua's tonumber: the result stays a Lua number inside the interpreter; a number returned to the client passes ConvertToJSON, which quotes non-finite values (R17.lua-json)",
}

func ruleFiniteFloats(c *Ctx) {
	n := 0
	for _, fn := range c.AllFuncs("internal/server") {
		info := fn.Info()
		ord := 0
		ast.Inspect(fn.Decl.Body, func(x ast.Node) bool {
			call, ok := x.(*ast.CallExpr)
			if !ok || !isFunc(callee(info, call), "strconv", "ParseFloat") {
				return true
			}
			n++
			ord++
			key := funcName(fn.Obj) + "→ParseFloat(" + exprStr(call.Args[0]) + ")"
			if why, ok := finiteFloatsReviewed[funcName(fn.Obj)]; ok {
				c.ok(key, call.Pos(), false, "reviewed: %s", why)
				return true
			}
			// the variable that receives the value
			var res types.Object
			discarded := false
			switch p := c.Parent(call).(type) {
			case *ast.AssignStmt:
				if len(p.Lhs) == 2 && len(p.Rhs) == 1 {
					if id, ok := ast.Unparen(p.Lhs[0]).(*ast.Ident); ok {
						if id.Name == "_" {
							discarded = true
						} else {
							res = info.ObjectOf(id)
						}
					} else {
						// stored straight into a field or element: look for tests of that expression
						res = nil
					}
				}
			}
			if discarded {
				c.ok(key, call.Pos(), false, "the value is discarded (syntax probe)")
				return true
			}
			nan, inf := false, false
			var target ast.Expr
			if p, ok := c.Parent(call).(*ast.AssignStmt); ok && len(p.Lhs) >= 1 {
				target = p.Lhs[0]
			}
			ast.Inspect(fn.Decl.Body, func(y ast.Node) bool {
				cc, ok := y.(*ast.CallExpr)
				if !ok || len(cc.Args) < 1 {
					return true
				}
				same := false
				if id, ok := ast.Unparen(cc.Args[0]).(*ast.Ident); ok && res != nil && info.ObjectOf(id) == res {
					same = true
				}
				if !same && target != nil && sameExpr(info, cc.Args[0], target) {
					same = true
				}
				if !same {
					return true
				}
				switch g := callee(info, cc); {
				case isFunc(g, "math", "IsNaN"):
					nan = true
				case isFunc(g, "math", "IsInf"):
					inf = true
				}
				return true
			})
			c.check(nan && inf, key, call.Pos(), "the function tests the parsed value with math.IsNaN and math.IsInf",
				"the value parsed from client input is used without tests for NaN and the infinities (strconv.ParseFloat accepts \"nan\" and \"inf\"): a non-finite coordinate, distance or duration is stored or computed with, and JSON replies then carry a bare NaN or +Inf, which is not JSON")
			return true
		})
	}
	c.stat("parsefloat_sites", n)
}

func ruleLuaJSON(c *Ctx) {
	// by role: func(lua.LValue) string in internal/server that calls itself (recursive conversion)
	var conv *FuncInfo
	for _, fn := range c.AllFuncs("internal/server") {
		sig := fn.Obj.Type().(*types.Signature)
		if sig.Recv() != nil || sig.Params().Len() != 1 || sig.Results().Len() != 1 {
			continue
		}
		if !isNamedType(sig.Params().At(0).Type(), luaPath, "LValue") || !isStringType(sig.Results().At(0).Type()) {
			continue
		}
		self := false
		ast.Inspect(fn.Decl.Body, func(n ast.Node) bool {
			if call, ok := n.(*ast.CallExpr); ok && callee(fn.Info(), call) == fn.Obj {
				self = true
			}
			return true
		})
		if self {
			conv = fn
		}
	}
	if conv == nil {
		c.und("anchors", 0, "the converter from lua.LValue to a JSON string was not found")
		return
	}
	info := conv.Info()
	param := conv.Obj.Type().(*types.Signature).Params().At(0)
	isEncoder := func(e ast.Expr) bool {
		call, ok := ast.Unparen(e).(*ast.CallExpr)
		if !ok {
			return false
		}
		f := callee(info, call)
		if f == nil {
			return false
		}
		return f.Name() == "jsonString" || f.Name() == "appendJSONString"
	}
	isSelfCall := func(e ast.Expr) (*ast.CallExpr, bool) {
		call, ok := ast.Unparen(e).(*ast.CallExpr)
		if !ok || callee(info, call) != conv.Obj {
			return nil, false
		}
		return call, true
	}
	// every unit: the declared body and its literals
	var bodies []*ast.BlockStmt
	bodies = append(bodies, conv.Decl.Body)
	ast.Inspect(conv.Decl.Body, func(n ast.Node) bool {
		if l, ok := n.(*ast.FuncLit); ok {
			bodies = append(bodies, l.Body)
		}
		return true
	})
	// (1) returns of the declared function
	fg := newFlowGraph(info, conv.Decl.Body)
	nret := 0
	for _, rl := range fg.Returns() {
		r := rl.Node.(*ast.ReturnStmt)
		if len(r.Results) != 1 {
			continue
		}
		nret++
		e := ast.Unparen(r.Results[0])
		key := "return/" + exprStr(e)
		if len(key) > 70 {
			key = key[:70]
		}
		switch {
		case func() bool { s, ok := constString(info, e); return ok && (s == "null" || s == "true" || s == "false") }():
			c.ok(key, r.Pos(), false, "a JSON literal")
		case isEncoder(e):
			c.ok(key, r.Pos(), true, "the output of a JSON string encoder")
		default:
			// string(b) of json.Marshal output
			if call, ok := e.(*ast.CallExpr); ok && len(call.Args) == 1 {
				if tv, ok := info.Types[call.Fun]; ok && tv.IsType() {
					if id, ok := ast.Unparen(call.Args[0]).(*ast.Ident); ok {
						if d, ok := ast.Unparen(resolveLocalIn(info, conv.Decl.Body, id)).(*ast.CallExpr); ok && isFunc(callee(info, d), "encoding/json", "Marshal") {
							c.ok(key, r.Pos(), true, "the output of json.Marshal on a string")
							continue
						}
					}
				}
			}
			// X.String() of the parameter: only for finite numbers
			if call, ok := e.(*ast.CallExpr); ok {
				if se, ok := ast.Unparen(call.Fun).(*ast.SelectorExpr); ok && se.Sel.Name == "String" {
					if id, ok := ast.Unparen(se.X).(*ast.Ident); ok && info.ObjectOf(id) == param {
						// a dominating pair of !IsNaN / !IsInf facts on a float derived from the parameter
						nan, inf := false, false
						for _, f := range fg.DominatingFacts(rl) {
							for _, fe := range splitOr(f) {
								cc, ok := ast.Unparen(fe.E).(*ast.CallExpr)
								if !ok || !fe.Neg {
									continue
								}
								switch g := callee(info, cc); {
								case isFunc(g, "math", "IsNaN"):
									nan = true
								case isFunc(g, "math", "IsInf"):
									inf = true
								}
							}
						}
						c.check(nan && inf, key, r.Pos(), "the number is printed only where it is known to be neither NaN nor infinite",
							"a Lua number is printed with String() without tests for NaN and the infinities: EVAL \"return 0/0\" 0 puts a bare NaN into the JSON reply")
						continue
					}
				}
			}
			// start + strings.Join(values, ",") + end
			if be, ok := e.(*ast.BinaryExpr); ok {
				var ops []ast.Expr
				flattenConcat(info, be, &ops)
				join := false
				for _, op := range ops {
					if call, ok := ast.Unparen(op).(*ast.CallExpr); ok && isFunc(callee(info, call), "strings", "Join") {
						join = true
					}
				}
				if join {
					c.ok(key, r.Pos(), true, "the bracketed join of converted values")
					continue
				}
			}
			c.bad(key, r.Pos(), "the converter of script results returns %s, which is neither a JSON literal, an encoder's output, a guarded number nor a join of converted values: the `\"result\":` member of the reply is not JSON", exprStr(e))
		}
	}
	// (2) object keys: every `K + ":" + V` piece has K from an encoder, or conv(x) with x known to be a Lua string
	nkeys := 0
	for _, body := range bodies {
		bfg := newFlowGraph(info, body)
		ast.Inspect(body, func(n ast.Node) bool {
			if l, ok := n.(*ast.FuncLit); ok && l.Body != body {
				return false
			}
			be, ok := n.(*ast.BinaryExpr)
			if !ok {
				return true
			}
			if _, isBin := c.Parent(be).(*ast.BinaryExpr); isBin {
				return true
			}
			var ops []ast.Expr
			flattenConcat(info, be, &ops)
			for i, op := range ops {
				if s, ok := constString(info, op); !ok || s != ":" || i == 0 {
					continue
				}
				nkeys++
				k := ops[i-1]
				key := "object-key/" + exprStr(k)
				good := isEncoder(k)
				why := "the key is the output of a JSON string encoder"
				if id, ok := ast.Unparen(k).(*ast.Ident); ok && !good {
					// a local: every definition is an encoder call, or conv(x) under a fact x.Type() == LTString
					defs, okAll := 0, true
					ast.Inspect(body, func(m ast.Node) bool {
						as, ok := m.(*ast.AssignStmt)
						if !ok || len(as.Lhs) != len(as.Rhs) {
							return true
						}
						for j, l := range as.Lhs {
							lid, ok := ast.Unparen(l).(*ast.Ident)
							if !ok || info.ObjectOf(lid) != info.ObjectOf(id) {
								continue
							}
							defs++
							if isEncoder(as.Rhs[j]) {
								continue
							}
							if call, ok := isSelfCall(as.Rhs[j]); ok && len(call.Args) == 1 {
								// overwritten unless the value is a string: a later definition guarded by Type() != LTString
								// replaces it; accept conv(x) when another definition exists under `x.Type() != LTString`
								if x, ok := ast.Unparen(call.Args[0]).(*ast.Ident); ok && keyRedefinedForNonStrings(info, bfg, body, info.ObjectOf(id), info.ObjectOf(x), isEncoder) {
									continue
								}
							}
							okAll = false
						}
						return true
					})
					good = defs > 0 && okAll
					why = "every definition of the key is an encoder's output, or the conversion of a value that is a Lua string (redefined through the encoder otherwise)"
				}
				if call, ok := isSelfCall(k); ok && !good && len(call.Args) == 1 {
					why = ""
				}
				c.check(good, key, k.Pos(), why, "an object key is written as "+exprStr(k)+", which is not a JSON string for every Lua value (a boolean or fractional key gives {true:1} / {2.5:\"v\"})")
			}
			return true
		})
	}
	c.stat("converter_returns", nret)
	c.stat("converter_object_keys", nkeys)
}

// splitOr: a negative fact !(A || B) was already decomposed by the flow graph; a positive compound is kept.
func splitOr(f Fact) []Fact { return []Fact{f} }

// resolveLocalIn is resolveLocal for `if b, err := f(); …` forms too (the definition may be a tuple).
func resolveLocalIn(info *types.Info, body ast.Node, id *ast.Ident) ast.Expr {
	obj := info.ObjectOf(id)
	var def ast.Expr
	n := 0
	ast.Inspect(body, func(x ast.Node) bool {
		if as, ok := x.(*ast.AssignStmt); ok {
			for i, l := range as.Lhs {
				if lid, ok := ast.Unparen(l).(*ast.Ident); ok && info.ObjectOf(lid) == obj {
					n++
					if len(as.Rhs) == 1 {
						def = as.Rhs[0]
					} else if i < len(as.Rhs) {
						def = as.Rhs[i]
					}
				}
			}
		}
		return true
	})
	if n == 1 && def != nil {
		return def
	}
	return id
}

// keyRedefinedForNonStrings: key = conv(x) is followed by `if x.Type() != LTString { key = <encoder>(…) }`.
func keyRedefinedForNonStrings(info *types.Info, fg *FlowGraph, body ast.Node, key, x types.Object, isEncoder func(ast.Expr) bool) bool {
	found := false
	ast.Inspect(body, func(n ast.Node) bool {
		ifs, ok := n.(*ast.IfStmt)
		if !ok {
			return true
		}
		be, ok := ast.Unparen(ifs.Cond).(*ast.BinaryExpr)
		if !ok || be.Op.String() != "!=" {
			return true
		}
		call, ok := ast.Unparen(be.X).(*ast.CallExpr)
		if !ok {
			return true
		}
		se, ok := ast.Unparen(call.Fun).(*ast.SelectorExpr)
		if !ok || se.Sel.Name != "Type" {
			return true
		}
		if id, ok := ast.Unparen(se.X).(*ast.Ident); !ok || info.ObjectOf(id) != x {
			return true
		}
		if !strings.HasSuffix(exprStr(be.Y), "LTString") {
			return true
		}
		for _, st := range ifs.Body.List {
			if as, ok := st.(*ast.AssignStmt); ok && len(as.Lhs) == 1 && len(as.Rhs) == 1 {
				if lid, ok := ast.Unparen(as.Lhs[0]).(*ast.Ident); ok && info.ObjectOf(lid) == key && isEncoder(as.Rhs[0]) {
					found = true
				}
			}
		}
		return true
	})
	return found
}

// finiteByConstruction: a float expression that cannot be NaN or infinite whatever the inputs: a constant, the
// conversion of an integer, a duration in seconds, sums/differences/products of such, a quotient by a non-zero
// constant; and one reviewed runtime statistic.
func finiteByConstruction(info *types.Info, e ast.Expr) bool {
	e = ast.Unparen(e)
	if tv, ok := info.Types[e]; ok && tv.Value != nil {
		return true
	}
	switch x := e.(type) {
	case *ast.CallExpr:
		if tv, ok := info.Types[x.Fun]; ok && tv.IsType() && len(x.Args) == 1 {
			if t := info.TypeOf(x.Args[0]); t != nil {
				if b, ok := t.Underlying().(*types.Basic); ok && b.Info()&types.IsInteger != 0 {
					return true
				}
			}
			return finiteByConstruction(info, x.Args[0])
		}
		if f := callee(info, x); f != nil && isMethod(f, "time", "Duration", f.Name()) {
			switch f.Name() {
			case "Seconds", "Minutes", "Hours":
				return true
			}
		}
	case *ast.BinaryExpr:
		switch x.Op.String() {
		case "+", "-", "*":
			return finiteByConstruction(info, x.X) && finiteByConstruction(info, x.Y)
		case "/":
			if tv, ok := info.Types[x.Y]; ok && tv.Value != nil && tv.Value.String() != "0" {
				return finiteByConstruction(info, x.X)
			}
		}
	case *ast.SelectorExpr:
		// runtime.MemStats.GCCPUFraction: documented as a fraction between 0 and 1
		if fv := selField(info, x); fv != nil && fv.Name() == "GCCPUFraction" && fv.Pkg() != nil && fv.Pkg().Path() == "runtime" {
			return true
		}
	}
	return false
}

func init() {
	register(&Rule{ID: "R17.no-shared-element", Props: []string{"C17", "C19"}, Floor: 3,
		Text: "a list built in a loop holds one object per iteration: where a loop appends a map, pointer or slice variable to a list (or stores it into an element or sends it) and also writes through that variable in the loop (m[k] = v, p.f = v), the variable is declared inside the loop — a container hoisted out of the loop is one object, every list element aliases it, and the encoder that runs after the loop (the JSON branch of STATS) prints the last iteration's values for all of them while the RESP branch, which copied inside the loop, does not",
		Run:  ruleNoSharedElement})
}

func ruleNoSharedElement(c *Ctx) {
	nLoops, nAppends := 0, 0
	for _, fn := range c.AllFuncs("internal/server") {
		info := fn.Info()
		ast.Inspect(fn.Decl.Body, func(n ast.Node) bool {
			var body *ast.BlockStmt
			switch l := n.(type) {
			case *ast.ForStmt:
				body = l.Body
			case *ast.RangeStmt:
				body = l.Body
			default:
				return true
			}
			nLoops++
			loop := n
			// variables written through inside the loop
			written := map[types.Object]bool{}
			inspectNoLit(body, func(m ast.Node) bool {
				as, ok := m.(*ast.AssignStmt)
				if !ok {
					return true
				}
				for _, l := range as.Lhs {
					var base ast.Expr
					switch x := ast.Unparen(l).(type) {
					case *ast.IndexExpr:
						base = x.X
					case *ast.SelectorExpr:
						base = x.X
					case *ast.StarExpr:
						base = x.X
					}
					if id, ok := ast.Unparen(base).(*ast.Ident); ok && base != nil {
						written[info.ObjectOf(id)] = true
					}
				}
				return true
			})
			inspectNoLit(body, func(m ast.Node) bool {
				call, ok := m.(*ast.CallExpr)
				if !ok {
					return true
				}
				id, ok := ast.Unparen(call.Fun).(*ast.Ident)
				if !ok || id.Name != "append" || info.Uses[id] != types.Universe.Lookup("append") || call.Ellipsis.IsValid() {
					return true
				}
				for _, a := range call.Args[1:] {
					aid, ok := ast.Unparen(a).(*ast.Ident)
					if !ok {
						continue
					}
					v, ok := info.ObjectOf(aid).(*types.Var)
					if !ok || v.IsField() {
						continue
					}
					switch v.Type().Underlying().(type) {
					case *types.Map, *types.Pointer, *types.Slice:
					default:
						continue
					}
					nAppends++
					if !written[v] {
						continue
					}
					key := funcName(fn.Obj) + "→append(" + exprStr(call.Args[0]) + ", " + aid.Name + ")"
					if loop.Pos() <= v.Pos() && v.Pos() < loop.End() {
						c.ok(key, call.Pos(), true, "the appended container is created in the iteration that fills it")
					} else {
						c.bad(key, call.Pos(), "%s is declared outside the loop, written in every iteration and appended to %s in every iteration: all elements of the list are the same object and show the last iteration's values when the list is encoded after the loop (the RESP branch, which copies inside the loop, still shows each one's own: the two output modes disagree)", aid.Name, exprStr(call.Args[0]))
					}
				}
				return true
			})
			return true
		})
	}
	c.stat("loops_scanned", nLoops)
	c.stat("reference_appends_in_loops", nAppends)
	if nLoops < 20 {
		c.und("loops", 0, "only %d loops found in internal/server", nLoops)
	}
	c.ok("loops", 0, false, "%d loops scanned, %d appends of a map, pointer or slice variable", nLoops, nAppends)
}

func init() {
	register(&Rule{ID: "R17.fields-recorded-with-object", Props: []string{"C17"}, Floor: 1,
		Text: "the JSON form of a search reply prints, for every object, the values of the field names collected in scanWriter.fkeys while the RESP form prints each object's own fields; the two agree only if an object that is kept for the reply (appended to scanWriter.filled) has had its field names recorded: in the function that appends to filled, the statement that records into fkeys (or the test that guards it) lies on every path that passes the append — it dominates the append, or no return is reachable from the append without it",
		Run:  ruleFieldsRecorded})
}

func ruleFieldsRecorded(c *Ctx) {
	filled := c.Field("internal/server", "scanWriter", "filled")
	fkeys := c.Field("internal/server", "scanWriter", "fkeys")
	if filled == nil || fkeys == nil {
		c.und("anchors", 0, "scanWriter.filled or scanWriter.fkeys not found")
		return
	}
	n := 0
	// recorders: functions that insert into fkeys themselves (a helper extracted from the appending function)
	recorders := map[*types.Func]bool{}
	for _, fn := range c.AllFuncs("internal/server") {
		if fn.Decl.Body == nil {
			continue
		}
		ast.Inspect(fn.Decl.Body, func(x ast.Node) bool {
			if call, ok := x.(*ast.CallExpr); ok {
				if se, ok := ast.Unparen(call.Fun).(*ast.SelectorExpr); ok && se.Sel.Name == "Insert" && selField(fn.Info(), se.X) == fkeys {
					recorders[fn.Obj] = true
				}
			}
			return true
		})
	}
	for _, fn := range c.AllFuncs("internal/server") {
		info := fn.Info()
		var appends []*ast.AssignStmt
		inspectNoLit(fn.Decl.Body, func(x ast.Node) bool {
			as, ok := x.(*ast.AssignStmt)
			if !ok || len(as.Lhs) != 1 || len(as.Rhs) != 1 || selField(info, as.Lhs[0]) != filled {
				return true
			}
			if call, ok := ast.Unparen(as.Rhs[0]).(*ast.CallExpr); ok {
				if id, ok := ast.Unparen(call.Fun).(*ast.Ident); ok && id.Name == "append" && len(call.Args) >= 2 {
					appends = append(appends, as)
				}
			}
			return true
		})
		if len(appends) == 0 {
			continue
		}
		fg := newFlowGraph(info, fn.Decl.Body)
		// the recording: a call of Insert on fkeys (possibly inside a callback literal); its anchor in the flow graph is
		// the condition of the outermost if that contains it, or the statement itself
		var recLocs []Loc
		ast.Inspect(fn.Decl.Body, func(x ast.Node) bool {
			call, ok := x.(*ast.CallExpr)
			if !ok {
				return true
			}
			se, ok := ast.Unparen(call.Fun).(*ast.SelectorExpr)
			direct := ok && se.Sel.Name == "Insert" && selField(info, se.X) == fkeys
			viaHelper := false
			if f := callee(info, call); f != nil && f != fn.Obj && recorders[f] {
				viaHelper = true
			}
			if !direct && !viaHelper {
				return true
			}
			var anchor ast.Node = call
			for p := c.Parent(call); p != nil; p = c.Parent(p) {
				if _, isDecl := p.(*ast.FuncDecl); isDecl {
					break
				}
				if ifs, ok := p.(*ast.IfStmt); ok && enclosingFuncLit(c.Program, ifs) == nil {
					anchor = ifs.Cond
				}
			}
			if l := fg.LocOfOuter(anchor); l.Valid() {
				recLocs = append(recLocs, l)
			} else if st := outermostStmtInDecl(c, call); st != nil {
				if l := fg.LocOfOuter(st); l.Valid() {
					recLocs = append(recLocs, l)
				}
			}
			return true
		})
		for _, as := range appends {
			n++
			key := funcName(fn.Obj) + "→" + exprStr(as.Lhs[0]) + " = append(…)"
			al := fg.LocOf(as)
			if al.Valid() && len(recLocs) == 0 {
				// a helper that only stores (fill): the recording lies in front of every call of it
				sites, all := 0, true
				for _, caller := range c.AllFuncs("internal/server") {
					if caller.Decl.Body == nil || caller.Obj == fn.Obj {
						continue
					}
					cinfo := caller.Info()
					var cfgc *FlowGraph
					inspectNoLit(caller.Decl.Body, func(x ast.Node) bool {
						call, ok := x.(*ast.CallExpr)
						if !ok || callee(cinfo, call) != fn.Obj {
							return true
						}
						sites++
						if cfgc == nil {
							cfgc = newFlowGraph(cinfo, caller.Decl.Body)
						}
						cl := cfgc.LocOfOuter(call)
						dom := false
						ast.Inspect(caller.Decl.Body, func(y ast.Node) bool {
							rc, ok := y.(*ast.CallExpr)
							if !ok {
								return true
							}
							rse, ok := ast.Unparen(rc.Fun).(*ast.SelectorExpr)
							direct := ok && rse.Sel.Name == "Insert" && selField(cinfo, rse.X) == fkeys
							via := false
							if g := callee(cinfo, rc); g != nil && g != caller.Obj && recorders[g] {
								via = true
							}
							if !direct && !via {
								return true
							}
							var anchor ast.Node = rc
							for p := c.Parent(rc); p != nil; p = c.Parent(p) {
								if _, isDecl := p.(*ast.FuncDecl); isDecl {
									break
								}
								if ifs, ok := p.(*ast.IfStmt); ok && enclosingFuncLit(c.Program, ifs) == nil {
									anchor = ifs.Cond
								}
							}
							if rl := cfgc.LocOfOuter(anchor); rl.Valid() && cl.Valid() && cfgc.Dominates(rl, cl) {
								dom = true
							}
							return true
						})
						if !dom {
							all = false
						}
						return true
					})
				}
				if sites > 0 && all {
					c.ok(key, as.Pos(), true, "the recording of the object's field names (or its guard) lies in front of every call of this storing helper")
					continue
				}
			}
			if !al.Valid() || len(recLocs) == 0 {
				c.bad(key, as.Pos(), "an object is kept for the reply but its field names are never recorded in %s: the JSON reply omits fields the RESP reply shows", "scanWriter.fkeys")
				continue
			}
			good := false
			for _, rl := range recLocs {
				if fg.Dominates(rl, al) {
					good = true
					continue
				}
				skipped, _ := fg.Reach(PathQuery{From: al, Target: func(l Loc) bool { return isReturn(l.Node) }, Avoid: func(l Loc) bool { return l.Block == rl.Block && l.Idx == rl.Idx }})
				if !skipped {
					good = true
				}
			}
			c.check(good, key, as.Pos(), "the recording of the object's field names (or its guard) lies on every path that keeps the object", "an object can be kept for the reply and the function left without recording its field names (a return lies between the two): for the object that fills the page the JSON reply lacks the field names — and values — that only it carries, while the RESP reply shows them")
		}
	}
	c.stat("kept_object_sites", n)
}

// outermostStmtInDecl: the statement of the declared function's own body (not of a literal) that contains n.
func outermostStmtInDecl(c *Ctx, n ast.Node) ast.Node {
	var last ast.Node
	for p := c.Parent(n); p != nil; p = c.Parent(p) {
		if _, isDecl := p.(*ast.FuncDecl); isDecl {
			return last
		}
		if st, ok := p.(ast.Stmt); ok && enclosingFuncLit(c.Program, st) == nil {
			if _, isBlock := st.(*ast.BlockStmt); !isBlock {
				last = st
			}
		}
	}
	return last
}

func init() {
	register(&Rule{ID: "R7.no-shared-retained-address", Props: []string{"C14", "C05", "C10", "C07"}, Floor: 1,
		Text: "the details of an applied write are handed to the live-fence queue by pointer and read later, after the writer has moved on: where a loop passes the address of a variable (&d) to a function that retains it (stores its parameter into a field, appends it to a field's slice or sends it: writeAOF keeps the command details in Server.lstack) and assigns that variable in the loop, the variable is declared inside the loop — declared outside, every retained pointer of one sweep aliases one struct and the consumers see the last iteration's details for all of them (a live fence gets the last expired object's 'del' k times and none for the others)",
		Run:  ruleNoSharedRetainedAddress})
}

// retainsParam: function f keeps its i-th parameter beyond the call: it stores it into a struct field, appends it to a
// field's slice, sends it on a channel, or hands it to a function that does (depth 2).
func (c *Ctx) retainsParam(f *types.Func, i int, depth int) bool {
	fi := c.FuncOf(f)
	if fi == nil || fi.Decl.Body == nil || depth > 2 {
		return false
	}
	sig := f.Type().(*types.Signature)
	if i >= sig.Params().Len() {
		return false
	}
	p := sig.Params().At(i)
	info := fi.Info()
	// the parameter and the locals that hold it: x := p, xs := []*T{p}, xs = append(xs, p)
	holds := map[types.Object]bool{p: true}
	var carries func(e ast.Expr) bool
	carries = func(e ast.Expr) bool {
		switch x := ast.Unparen(e).(type) {
		case *ast.Ident:
			return holds[info.ObjectOf(x)]
		case *ast.CompositeLit:
			for _, el := range x.Elts {
				if kv, ok := el.(*ast.KeyValueExpr); ok {
					el = kv.Value
				}
				if carries(el) {
					return true
				}
			}
		case *ast.CallExpr:
			if id, ok := ast.Unparen(x.Fun).(*ast.Ident); ok && id.Name == "append" {
				for _, a := range x.Args {
					if carries(a) {
						return true
					}
				}
			}
		}
		return false
	}
	for changed := true; changed; {
		changed = false
		ast.Inspect(fi.Decl.Body, func(n ast.Node) bool {
			if as, ok := n.(*ast.AssignStmt); ok && len(as.Lhs) == len(as.Rhs) {
				for k, l := range as.Lhs {
					if id, ok := ast.Unparen(l).(*ast.Ident); ok {
						if o := info.ObjectOf(id); o != nil && !holds[o] && carries(as.Rhs[k]) {
							holds[o] = true
							changed = true
						}
					}
				}
			}
			return true
		})
	}
	isP := func(e ast.Expr) bool {
		id, ok := ast.Unparen(e).(*ast.Ident)
		return ok && holds[info.ObjectOf(id)]
	}
	hit := false
	ast.Inspect(fi.Decl.Body, func(n ast.Node) bool {
		switch x := n.(type) {
		case *ast.AssignStmt:
			if len(x.Lhs) == len(x.Rhs) {
				for k, l := range x.Lhs {
					if selField(info, l) == nil {
						continue
					}
					r := ast.Unparen(x.Rhs[k])
					if isP(r) {
						hit = true
					}
					if call, ok := r.(*ast.CallExpr); ok {
						if id, ok := ast.Unparen(call.Fun).(*ast.Ident); ok && id.Name == "append" {
							for _, a := range call.Args[1:] {
								if isP(a) {
									hit = true
								}
							}
						}
					}
				}
			}
		case *ast.SendStmt:
			if isP(x.Value) {
				hit = true
			}
		case *ast.CallExpr:
			if g := callee(info, x); g != nil && g != f {
				for k, a := range x.Args {
					if isP(a) && c.retainsParam(g, k, depth+1) {
						hit = true
					}
				}
			}
		}
		return !hit
	})
	return hit
}

func ruleNoSharedRetainedAddress(c *Ctx) {
	nSites := 0
	retainers := 0
	for _, fn := range c.AllFuncs("internal/server") {
		info := fn.Info()
		ast.Inspect(fn.Decl.Body, func(n ast.Node) bool {
			var body *ast.BlockStmt
			switch l := n.(type) {
			case *ast.ForStmt:
				body = l.Body
			case *ast.RangeStmt:
				body = l.Body
			default:
				return true
			}
			loop := n
			assigned := map[types.Object]bool{}
			inspectNoLit(body, func(m ast.Node) bool {
				if as, ok := m.(*ast.AssignStmt); ok {
					for _, l := range as.Lhs {
						if id, ok := ast.Unparen(l).(*ast.Ident); ok {
							assigned[info.ObjectOf(id)] = true
						}
					}
				}
				return true
			})
			inspectNoLit(body, func(m ast.Node) bool {
				call, ok := m.(*ast.CallExpr)
				if !ok {
					return true
				}
				g := callee(info, call)
				if g == nil {
					return true
				}
				for k, a := range call.Args {
					ue, ok := ast.Unparen(a).(*ast.UnaryExpr)
					if !ok || ue.Op != token.AND {
						continue
					}
					id, ok := ast.Unparen(ue.X).(*ast.Ident)
					if !ok {
						continue
					}
					v, ok := info.ObjectOf(id).(*types.Var)
					if !ok || v.IsField() || !c.retainsParam(g, k, 0) {
						continue
					}
					retainers++
					if !assigned[v] {
						continue
					}
					nSites++
					key := funcName(fn.Obj) + "→" + g.Name() + "(&" + id.Name + ")"
					if loop.Pos() <= v.Pos() && v.Pos() < loop.End() {
						c.ok(key, call.Pos(), true, "the variable whose address %s retains is declared in the iteration that fills it", g.Name())
					} else {
						c.bad(key, call.Pos(), "%s retains &%s, and %s is declared outside the loop and assigned in every iteration: all pointers retained in one run of the loop refer to the same variable, which holds the last iteration's value by the time the consumers (the live-fence queue) read them", g.Name(), id.Name, id.Name)
					}
				}
				return true
			})
			return true
		})
	}
	c.stat("retained_addresses_in_loops", nSites)
	if nSites == 0 {
		c.und("sites", 0, "no loop hands the address of a loop-assigned variable to a retaining function (%d retaining calls seen): the sweepers' apply loops were not found", retainers)
	}
}

// R17.ws-length-field
func init() {
	register(&Rule{ID: "R17.ws-length-field", Props: []string{"C17"}, Floor: 2,
		Text: "a websocket frame announces the length it carries: in WriteWebSocketMessage the second header byte is either the payload length itself — then the guards that dominate that store entail len(data) <= 125, because 126 and 127 are the escape values — or the constant 126 followed by a 16-bit length — then they entail len(data) <= 0xFFFF — or the constant 127 followed by a 64-bit length. The bounds are collected from the comparisons of len(data) with constants on the dominating edges (if/else chains and tagless switches). A payload of exactly 126 bytes sent with the 7-bit form is read by every client as 'a 16-bit length follows': the reply is lost",
		Run:  ruleWSLengthField})
}

func ruleWSLengthField(c *Ctx) {
	fn := c.Func("internal/server", "", "WriteWebSocketMessage")
	if fn == nil || fn.Decl.Body == nil {
		c.und("anchors", 0, "WriteWebSocketMessage not found")
		return
	}
	info := fn.Info()
	// the payload: the []byte parameter
	var data types.Object
	for _, p := range fn.Decl.Type.Params.List {
		for _, nm := range p.Names {
			if o := info.ObjectOf(nm); o != nil {
				if sl, ok := o.Type().Underlying().(*types.Slice); ok {
					if b, ok := sl.Elem().Underlying().(*types.Basic); ok && b.Kind() == types.Uint8 {
						data = o
					}
				}
			}
		}
	}
	if data == nil {
		c.und("payload", fn.Decl.Pos(), "no []byte parameter")
		return
	}
	isLenData := func(e ast.Expr) bool {
		e = ast.Unparen(e)
		// through conversions: byte(len(data)), uint64(len(data))
		for {
			call, ok := e.(*ast.CallExpr)
			if !ok {
				return false
			}
			if tv, ok := info.Types[call.Fun]; ok && tv.IsType() && len(call.Args) == 1 {
				e = ast.Unparen(call.Args[0])
				continue
			}
			if id, ok := ast.Unparen(call.Fun).(*ast.Ident); ok && id.Name == "len" && len(call.Args) == 1 {
				if aid, ok := ast.Unparen(call.Args[0]).(*ast.Ident); ok && info.ObjectOf(aid) == data {
					return true
				}
			}
			return false
		}
	}
	// locals that hold len(data)
	lenVars := map[types.Object]bool{}
	ast.Inspect(fn.Decl.Body, func(n ast.Node) bool {
		if as, ok := n.(*ast.AssignStmt); ok && len(as.Lhs) == len(as.Rhs) {
			for i, l := range as.Lhs {
				if id, ok := ast.Unparen(l).(*ast.Ident); ok && isLenData(as.Rhs[i]) {
					if o := info.ObjectOf(id); o != nil && countAssignments(info, fn.Decl.Body, o) == 1 {
						lenVars[o] = true
					}
				}
			}
		}
		return true
	})
	isLen := func(e ast.Expr) bool {
		if isLenData(e) {
			return true
		}
		e = ast.Unparen(e)
		for {
			if call, ok := e.(*ast.CallExpr); ok && len(call.Args) == 1 {
				if tv, ok := info.Types[call.Fun]; ok && tv.IsType() {
					e = ast.Unparen(call.Args[0])
					continue
				}
			}
			break
		}
		id, ok := e.(*ast.Ident)
		return ok && lenVars[info.ObjectOf(id)]
	}
	fg := newFlowGraph(info, fn.Decl.Body)
	// upper bound of len(data) entailed by the facts that dominate a location (-1: none)
	upper := func(l Loc) int64 {
		var best int64 = -1
		tighten := func(v int64) {
			if v >= 0 && (best < 0 || v < best) {
				best = v
			}
		}
		for _, f := range fg.DominatingFacts(l) {
			if f.Tag != nil {
				continue
			}
			be, ok := ast.Unparen(f.E).(*ast.BinaryExpr)
			if !ok {
				continue
			}
			op := be.Op
			var k int64
			switch {
			case isLen(be.X):
				tv, ok := info.Types[be.Y]
				if !ok || tv.Value == nil {
					continue
				}
				v, ok := constInt64(tv)
				if !ok {
					continue
				}
				k = v
			case isLen(be.Y):
				tv, ok := info.Types[be.X]
				if !ok || tv.Value == nil {
					continue
				}
				v, ok := constInt64(tv)
				if !ok {
					continue
				}
				k = v
				op = map[token.Token]token.Token{token.LSS: token.GTR, token.GTR: token.LSS, token.LEQ: token.GEQ, token.GEQ: token.LEQ, token.EQL: token.EQL, token.NEQ: token.NEQ}[op]
			default:
				continue
			}
			// the fact is  len op k  (or its negation)
			if f.Neg {
				op = map[token.Token]token.Token{token.LSS: token.GEQ, token.GTR: token.LEQ, token.LEQ: token.GTR, token.GEQ: token.LSS, token.EQL: token.NEQ, token.NEQ: token.EQL}[op]
			}
			switch op {
			case token.LEQ:
				tighten(k)
			case token.LSS:
				tighten(k - 1)
			case token.EQL:
				tighten(k)
			}
		}
		return best
	}
	n := 0
	for _, b := range fg.G.Blocks {
		if !fg.Reachable(b) {
			continue
		}
		for i, nd := range b.Nodes {
			as, ok := nd.(*ast.AssignStmt)
			if !ok || len(as.Lhs) != 1 || len(as.Rhs) != 1 {
				continue
			}
			ix, ok := ast.Unparen(as.Lhs[0]).(*ast.IndexExpr)
			if !ok {
				continue
			}
			if tv, ok := info.Types[ix.Index]; !ok || tv.Value == nil || tv.Value.String() != "1" {
				continue
			}
			loc := Loc{b, i, nd}
			ub := upper(loc)
			rhs := as.Rhs[0]
			if isLen(rhs) {
				n++
				c.check(ub >= 0 && ub <= 125, "len7@"+exprStr(rhs), as.Pos(), "the payload length is stored in the 7-bit field only under len(data) <= 125",
					fmt.Sprintf("the payload length itself is stored in the second header byte although the guards only entail len(data) <= %d (-1: no bound): for a payload of 126 (or 127) bytes the byte is the escape value that announces an extended length, every client misreads the frame and the reply is lost", ub))
				continue
			}
			if tv, ok := info.Types[rhs]; ok && tv.Value != nil {
				if v, ok := constInt64(tv); ok && v == 126 {
					n++
					c.check(ub >= 0 && ub <= 0xFFFF, "len16", as.Pos(), "126 (a 16-bit length follows) is stored only under len(data) <= 0xFFFF",
						fmt.Sprintf("126 announces a 16-bit length although the guards only entail len(data) <= %d (-1: no bound): a longer payload is truncated to 16 bits", ub))
				}
			}
		}
	}
	if n == 0 {
		c.und("stores", fn.Decl.Pos(), "no store to the second header byte found")
	}
}

// R17.inverse-trig-domain
func init() {
	register(&Rule{ID: "R17.inverse-trig-domain", Props: []string{"C17", "C13"}, Floor: 2,
		Text: "a distance that goes into a reply is a number: in the packages that compute the distances of NEARBY (internal/collection), every argument of math.Asin / math.Acos is provably at most 1 in magnitude — a product of sines and cosines (or of locals assigned once from them), or math.Sqrt of a value that is clamped on every path from its definitions to the call (an `if v > 1 { v = 1 }` whose test lies on every such path, or math.Min(v, 1)). Rounding takes the haversine term of (nearly) antipodal points past 1; the arcsine is then NaN, which is printed as \"distance\":NaN (not JSON) and compares false with every radius. A lower bound (the square root of a negative term) is not decided",
		Run:  ruleInverseTrigDomain})
}

func ruleInverseTrigDomain(c *Ctx) {
	n := 0
	for _, fn := range c.AllFuncs("internal/collection") {
		if fn.Decl.Body == nil {
			continue
		}
		info := fn.Info()
		isMath := func(call *ast.CallExpr, names ...string) bool {
			f := callee(info, call)
			if f == nil || f.Pkg() == nil || f.Pkg().Path() != "math" {
				return false
			}
			for _, nm := range names {
				if f.Name() == nm {
					return true
				}
			}
			return false
		}
		var sites []*ast.CallExpr
		ast.Inspect(fn.Decl.Body, func(x ast.Node) bool {
			if call, ok := x.(*ast.CallExpr); ok && isMath(call, "Asin", "Acos") && len(call.Args) == 1 {
				sites = append(sites, call)
			}
			return true
		})
		if len(sites) == 0 {
			continue
		}
		// the body the call sits in (a literal has its own graph)
		graphs := map[*ast.BlockStmt]*FlowGraph{}
		bodyOf := func(n ast.Node) *ast.BlockStmt {
			if lit := enclosingFuncLit(c.Program, n); lit != nil {
				return lit.Body
			}
			return fn.Decl.Body
		}
		graphOf := func(b *ast.BlockStmt) *FlowGraph {
			if graphs[b] == nil {
				graphs[b] = newFlowGraph(info, b)
			}
			return graphs[b]
		}
		isOne := func(e ast.Expr) bool {
			tv, ok := info.Types[e]
			if !ok || tv.Value == nil {
				return false
			}
			v, ok := constInt64(tv)
			return ok && v == 1
		}
		var mag1 func(e ast.Expr, depth int) bool
		var upper1 func(e ast.Expr, use ast.Node, depth int) bool
		onceDef := func(id *ast.Ident, body *ast.BlockStmt) ast.Expr {
			o := info.ObjectOf(id)
			if o == nil || countAssignments(info, body, o) != 1 {
				return nil
			}
			var def ast.Expr
			ast.Inspect(body, func(x ast.Node) bool {
				if as, ok := x.(*ast.AssignStmt); ok && len(as.Lhs) == len(as.Rhs) {
					for i, l := range as.Lhs {
						if lid, ok := ast.Unparen(l).(*ast.Ident); ok && info.ObjectOf(lid) == o {
							def = as.Rhs[i]
						}
					}
				}
				return true
			})
			return def
		}
		mag1 = func(e ast.Expr, depth int) bool {
			e = ast.Unparen(e)
			if depth > 6 {
				return false
			}
			switch x := e.(type) {
			case *ast.CallExpr:
				if isMath(x, "Sin", "Cos") {
					return true
				}
				if isMath(x, "Sqrt") && len(x.Args) == 1 {
					return upper1(x.Args[0], x, depth+1)
				}
			case *ast.UnaryExpr:
				if x.Op == token.SUB || x.Op == token.ADD {
					return mag1(x.X, depth+1)
				}
			case *ast.BinaryExpr:
				if x.Op == token.MUL {
					return mag1(x.X, depth+1) && mag1(x.Y, depth+1)
				}
			case *ast.Ident:
				if def := onceDef(x, bodyOf(x)); def != nil {
					return mag1(def, depth+1)
				}
				// s, c := math.Sincos(x)
				if o := info.ObjectOf(x); o != nil && countAssignments(info, bodyOf(x), o) == 1 {
					bounded := false
					ast.Inspect(bodyOf(x), func(y ast.Node) bool {
						if as, ok := y.(*ast.AssignStmt); ok && len(as.Rhs) == 1 && len(as.Lhs) == 2 {
							if call, ok := ast.Unparen(as.Rhs[0]).(*ast.CallExpr); ok && isMath(call, "Sincos") {
								for _, l := range as.Lhs {
									if lid, ok := ast.Unparen(l).(*ast.Ident); ok && info.ObjectOf(lid) == o {
										bounded = true
									}
								}
							}
						}
						return true
					})
					return bounded
				}
			}
			return false
		}
		// upper1: the value is at most 1 where it is used
		upper1 = func(e ast.Expr, use ast.Node, depth int) bool {
			e = ast.Unparen(e)
			if depth > 6 {
				return false
			}
			if mag1(e, depth+1) {
				return true
			}
			switch x := e.(type) {
			case *ast.CallExpr:
				if isMath(x, "Min") && len(x.Args) == 2 && (isOne(x.Args[0]) || isOne(x.Args[1])) {
					return true
				}
			case *ast.Ident:
				o := info.ObjectOf(x)
				if o == nil {
					return false
				}
				body := bodyOf(x)
				fg := graphOf(body)
				// clamp tests: the condition v > K (K >= 1 … we require K == 1) of an if whose body assigns v = 1,
				// and assignments v = math.Min(v, 1)
				isClampNode := func(nd ast.Node) bool {
					hit := false
					ast.Inspect(body, func(y ast.Node) bool {
						ifs, ok := y.(*ast.IfStmt)
						if !ok || ifs.Cond != nd {
							return true
						}
						be, ok := ast.Unparen(ifs.Cond).(*ast.BinaryExpr)
						if !ok {
							return true
						}
						var vside, kside ast.Expr
						switch be.Op {
						case token.GTR, token.GEQ:
							vside, kside = be.X, be.Y
						case token.LSS, token.LEQ:
							vside, kside = be.Y, be.X
						default:
							return true
						}
						vid, ok := ast.Unparen(vside).(*ast.Ident)
						if !ok || info.ObjectOf(vid) != o || !isOne(kside) {
							return true
						}
						for _, st := range ifs.Body.List {
							if as, ok := st.(*ast.AssignStmt); ok && len(as.Lhs) == 1 && len(as.Rhs) == 1 {
								if lid, ok := ast.Unparen(as.Lhs[0]).(*ast.Ident); ok && info.ObjectOf(lid) == o && isOne(as.Rhs[0]) {
									hit = true
								}
							}
						}
						return true
					})
					if as, ok := nd.(*ast.AssignStmt); ok && len(as.Lhs) == 1 && len(as.Rhs) == 1 {
						if lid, ok := ast.Unparen(as.Lhs[0]).(*ast.Ident); ok && info.ObjectOf(lid) == o {
							if call, ok := ast.Unparen(as.Rhs[0]).(*ast.CallExpr); ok && isMath(call, "Min") && len(call.Args) == 2 && (isOne(call.Args[0]) || isOne(call.Args[1])) {
								hit = true
							}
						}
					}
					return hit
				}
				// every definition of v (other than the clamp's own v = 1) reaches the use only through a clamp
				useLoc := fg.LocOfOuter(use)
				if !useLoc.Valid() {
					return false
				}
				defs := 0
				for _, b := range fg.G.Blocks {
					if !fg.Reachable(b) {
						continue
					}
					for i, nd := range b.Nodes {
						as, ok := nd.(*ast.AssignStmt)
						if !ok {
							continue
						}
						for j, l := range as.Lhs {
							lid, ok := ast.Unparen(l).(*ast.Ident)
							if !ok || info.ObjectOf(lid) != o {
								continue
							}
							if len(as.Lhs) == len(as.Rhs) && (isOne(as.Rhs[j]) || mag1(as.Rhs[j], depth+1)) {
								continue // v = 1, or a bounded value
							}
							if isClampNode(nd) {
								defs++ // v = math.Min(…, 1): the definition is its own clamp
								continue
							}
							defs++
							bypass, _ := fg.Reach(PathQuery{From: Loc{b, i, nd},
								Target: func(l Loc) bool { return l.Block == useLoc.Block && l.Idx == useLoc.Idx },
								Avoid:  func(l Loc) bool { return isClampNode(l.Block.Nodes[l.Idx]) }})
							if bypass {
								return false
							}
						}
					}
				}
				return defs > 0
			}
			return false
		}
		for k, call := range sites {
			n++
			key := fmt.Sprintf("%s→%s", funcName(fn.Obj), exprStr(call))
			if len(key) > 140 {
				key = fmt.Sprintf("%s→%s#%d", funcName(fn.Obj), exprStr(call.Fun), k+1)
			}
			c.check(mag1(call.Args[0], 0), key, call.Pos(), "the argument is at most 1 in magnitude (bounded factors, or a clamped term under the square root)",
				"the argument of "+exprStr(call.Fun)+" is not shown to stay within [-1, 1]: rounding can take a haversine term past 1 for (nearly) antipodal points, the result is then NaN — printed as \"distance\":NaN, which is not JSON, and compared false with every radius, so a NEARBY with a radius returns the antipodal object")
		}
	}
	if n == 0 {
		c.und("sites", 0, "no inverse trigonometric call in internal/collection")
	}
	c.stat("inverse_trig_sites", n)
}
