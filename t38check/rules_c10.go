package main

import (
	"fmt"
	"go/ast"
	"go/token"
	"go/types"
	"strings"

	"golang.org/x/tools/go/cfg"
)

func init() {
	register(&Rule{ID: "R10.guarded-queues", Props: []string{"C10"}, Floor: 20,
		Text: "every access to a notification queue or its state — subtarget.msgs/closed, liveBuffer.details, Server.lstack/lives, pubsub.hubs, pubQueue.entries/closed, Hook.closed/opened/sig — executes with the lock that guards it held (writes exclusively), on every path from every goroutine root; interprocedural lock-state analysis per lock",
		Run:  ruleGuardedQueues})
	register(&Rule{ID: "R10.single-writer", Props: []string{"C10"}, Floor: 2,
		Text: "in liveSubscription every write to the subscriber's connection happens inside the write closure, and that closure holds writeLock for its whole body (two goroutines write to the same connection)",
		Run:  ruleSingleWriter})
	register(&Rule{ID: "R10.retry-path", Props: []string{"C10"}, Floor: 3,
		Text: "in Hook.proc the not-sent branch re-inserts the unsent messages (db.Update) before it returns false, and re-inserts keys, values and ttls from the same failed index",
		Run:  ruleRetryPath})
	register(&Rule{ID: "R10.endpoint-pairing", Props: []string{"C10"}, Floor: 3,
		Text: "lock pairing for endpoint.Manager.mu: every function of the endpoint manager releases what it acquired on every return (the unreachable default arm of Send's protocol switch is discharged by table agreement: every protocol parseEndpoint can assign is a case label of Send's switch)",
		Run:  ruleEndpointPairing})
}

type auxLock struct {
	name    string
	owner   string   // struct type that owns the lock field
	lockSel []string // field chain from the owner to the lock: {"cond","L"} or {"mu"}
	guarded []string // fields of owner guarded by it
	reason  map[string]string
}

var auxLocks = []auxLock{
	{name: "Server.lcond.L", owner: "Server", lockSel: []string{"lcond", "L"}, guarded: []string{"lstack", "lives"}},
	{name: "subtarget.cond.L", owner: "subtarget", lockSel: []string{"cond", "L"}, guarded: []string{"msgs", "closed"}},
	{name: "liveBuffer.cond.L", owner: "liveBuffer", lockSel: []string{"cond", "L"}, guarded: []string{"details"}},
	{name: "pubQueue.cond.L", owner: "pubQueue", lockSel: []string{"cond", "L"}, guarded: []string{"entries", "closed"}},
	{name: "Hook.cond.L", owner: "Hook", lockSel: []string{"cond", "L"}, guarded: []string{"closed", "opened", "sig"}},
	{name: "pubsub.mu", owner: "pubsub", lockSel: []string{"mu"}, guarded: []string{"hubs"}},
}

func (p *Program) auxSpec(a auxLock) *LockSpec {
	first := p.Field("internal/server", a.owner, a.lockSel[0])
	guarded := map[*types.Var]string{}
	for _, g := range a.guarded {
		if f := p.Field("internal/server", a.owner, g); f != nil {
			guarded[f] = a.owner + "." + g
		}
	}
	return &LockSpec{
		Name: a.name,
		Op: func(u *Unit, call *ast.CallExpr) lockKind {
			se, ok := ast.Unparen(call.Fun).(*ast.SelectorExpr)
			if !ok {
				return lkNone
			}
			x := ast.Unparen(se.X)
			if len(a.lockSel) == 2 {
				s2, ok := x.(*ast.SelectorExpr)
				if !ok || s2.Sel.Name != a.lockSel[1] {
					return lkNone
				}
				x = ast.Unparen(s2.X)
			}
			if first == nil || selField(u.Info(), x) != first {
				return lkNone
			}
			switch se.Sel.Name {
			case "Lock":
				return lkLock
			case "RLock":
				return lkRLock
			case "Unlock":
				return lkUnlock
			case "RUnlock":
				return lkRUnlock
			case "Wait":
				return lkNone // cond.Wait re-acquires before returning
			}
			return lkNone
		},
		Classify: func(u *Unit, n ast.Node, ctx accessCtx) []*Access {
			se, ok := n.(*ast.SelectorExpr)
			if !ok {
				return nil
			}
			f := selField(u.Info(), se)
			if f == nil {
				return nil
			}
			loc, ok := guarded[f]
			if !ok {
				return nil
			}
			return []*Access{{Loc: loc, Write: ctx != ctxRead, Pos: se.Pos(), Desc: exprStr(se), Node: se}}
		},
	}
}

func ruleGuardedQueues(c *Ctx) {
	total := 0
	for _, a := range auxLocks {
		spec := c.auxSpec(a)
		lk := newLK(c.Program, spec, "internal/server")
		var roots []*Unit
		if sv := c.Func("internal/server", "", "Serve"); sv != nil {
			roots = append(roots, lk.ofDecl[sv.Obj])
		}
		lk.Run(roots)
		for _, as := range lk.Accesses() {
			total++
			key := a.name + "/" + as.Unit.Name + "→" + as.Acc.Desc
			var bad int
			if as.Acc.Write {
				bad = as.States &^ LX
			} else {
				bad = as.States & LN
			}
			// constructors: the object is not shared yet (composite literal in the same function)
			if bad != 0 && constructsOwner(c, as.Unit, a.owner) {
				c.ok(key, as.Acc.Pos, true, "accessed in the function that constructs the %s, before it is shared", a.owner)
				continue
			}
			if bad == 0 {
				c.ok(key, as.Acc.Pos, true, "executes only in state %s of %s", lockStr(as.States), a.name)
				continue
			}
			st := LN
			if bad&LN == 0 {
				st = LR
			}
			kind := "read"
			if as.Acc.Write {
				kind = "write"
			}
			c.badPath(key, as.Acc.Pos, lk.Chain(as.Unit, as.wit[st]), "%s of %s may execute with %s in state %s: a racy queue operation loses, duplicates or reorders a notification", kind, as.Acc.Loc, a.name, lockStr(st))
		}
		for _, p := range lk.problems {
			switch p.Kind {
			case "balance", "double-lock", "release-not-held":
				c.badPath(a.name+"/pairing/"+p.Unit.Name, p.Pos, lk.Chain(p.Unit, p.Key), "%s: %s", p.Kind, p.Msg)
			}
		}
	}
	c.stat("guarded_queue_accesses", total)
}

// constructsOwner: the unit's function contains a composite literal of the owner type.
func constructsOwner(c *Ctx, u *Unit, owner string) bool {
	found := false
	ast.Inspect(u.Fn.Decl.Body, func(n ast.Node) bool {
		cl, ok := n.(*ast.CompositeLit)
		if !ok {
			return true
		}
		if tv, ok := u.Info().Types[cl]; ok && isNamedType(tv.Type, modPath+"/internal/server", owner) {
			found = true
		}
		return true
	})
	return found
}

func ruleSingleWriter(c *Ctx) {
	fn := c.Func("internal/server", "Server", "liveSubscription")
	if fn == nil {
		c.und("anchors", 0, "liveSubscription not found")
		return
	}
	info := fn.Info()
	// the parameter conn (net.Conn)
	var connObj types.Object
	for _, p := range fn.Decl.Type.Params.List {
		for _, n := range p.Names {
			if isNamedType(info.ObjectOf(n).Type(), "net", "Conn") {
				connObj = info.ObjectOf(n)
			}
		}
	}
	// writeLock: a local sync.Mutex
	var lockObj types.Object
	ast.Inspect(fn.Decl.Body, func(n ast.Node) bool {
		if vs, ok := n.(*ast.ValueSpec); ok {
			for _, nm := range vs.Names {
				if isNamedType(info.ObjectOf(nm).Type(), "sync", "Mutex") {
					lockObj = info.ObjectOf(nm)
				}
			}
		}
		return true
	})
	if connObj == nil || lockObj == nil {
		c.und("shape", fn.Decl.Pos(), "connection parameter or local write mutex not found in liveSubscription")
		return
	}
	// the literal that locks writeLock first thing
	var writeLit *ast.FuncLit
	ast.Inspect(fn.Decl.Body, func(n ast.Node) bool {
		lit, ok := n.(*ast.FuncLit)
		if !ok || len(lit.Body.List) < 2 {
			return true
		}
		if es, ok := lit.Body.List[0].(*ast.ExprStmt); ok {
			if call, ok := es.X.(*ast.CallExpr); ok {
				if se, ok := call.Fun.(*ast.SelectorExpr); ok && se.Sel.Name == "Lock" {
					if id, ok := se.X.(*ast.Ident); ok && info.ObjectOf(id) == lockObj {
						if ds, ok := lit.Body.List[1].(*ast.DeferStmt); ok {
							if s2, ok := ds.Call.Fun.(*ast.SelectorExpr); ok && s2.Sel.Name == "Unlock" {
								writeLit = lit
							}
						}
					}
				}
			}
		}
		return true
	})
	c.check(writeLit != nil, "write-closure-locks", fn.Decl.Pos(), "the write closure takes writeLock first and releases it by defer", "no closure that takes writeLock for its whole body was found")
	if writeLit == nil {
		return
	}
	// every use of conn as a writer (conn.Write, or conn passed to a function) lies inside writeLit
	n, bad := 0, 0
	ast.Inspect(fn.Decl.Body, func(x ast.Node) bool {
		call, ok := x.(*ast.CallExpr)
		if !ok {
			return true
		}
		uses := false
		if se, ok := ast.Unparen(call.Fun).(*ast.SelectorExpr); ok {
			if id, ok := ast.Unparen(se.X).(*ast.Ident); ok && info.ObjectOf(id) == connObj && (se.Sel.Name == "Write") {
				uses = true
			}
		}
		for _, a := range call.Args {
			if id, ok := ast.Unparen(a).(*ast.Ident); ok && info.ObjectOf(id) == connObj {
				if f := callee(info, call); f != nil && (f.Name() == "writeLiveMessage" || f.Name() == "WriteWebSocketMessage" || strings.HasPrefix(f.Name(), "Fprint")) {
					uses = true
				}
			}
		}
		if !uses {
			return true
		}
		n++
		if !(writeLit.Pos() <= call.Pos() && call.End() <= writeLit.End()) {
			bad++
			c.bad(fmt.Sprintf("socket-write-outside-lock#%d", bad), call.Pos(), "the subscriber connection is written outside the closure that holds writeLock: the reader goroutine's replies and published messages can interleave on the wire")
		}
		return true
	})
	c.check(n > 0 && bad == 0, "socket-writes-inside-closure", fn.Decl.Pos(), fmt.Sprintf("all %d connection writes are inside the locked closure", n), "connection writes outside the locked closure (see above)")
}

func ruleRetryPath(c *Ctx) {
	fn := c.Func("internal/server", "Hook", "proc")
	if fn == nil {
		c.und("anchors", 0, "Hook.proc not found")
		return
	}
	info := fn.Info()
	fg := newFlowGraph(info, fn.Decl.Body)
	// every edge on which `sent` is known to be false: from there, every path to `return false` passes a db.Update
	// the re-insert: a queue-database transaction, directly or inside a helper (reinsert); the first
	// transaction of proc (the one that collects and deletes) precedes the send loop and is not on these paths
	isUpd := func(l Loc) bool {
		return callsThrough(c, info, l.Node, isBuntUpdate, 2)
	}
	// the "sent" flag, by role: a boolean local that is set to true only in a loop that performs an endpoint send
	sentVars := map[types.Object]bool{}
	notSentVars := map[types.Object]bool{}
	inspectNoLit(fn.Decl.Body, func(n ast.Node) bool {
		as, ok := n.(*ast.AssignStmt)
		if !ok || len(as.Lhs) != 1 || len(as.Rhs) != 1 {
			return true
		}
		id, ok := as.Lhs[0].(*ast.Ident)
		if !ok {
			return true
		}
		v, ok := info.ObjectOf(id).(*types.Var)
		if !ok {
			return true
		}
		if b, isB := v.Type().Underlying().(*types.Basic); !isB || b.Kind() != types.Bool {
			return true
		}
		switch boolConst(info, as.Rhs[0]) {
		case '0':
			return true
		case '1':
			inSendLoop := false
			for p := c.Parent(as); p != nil && p != ast.Node(fn.Decl.Body); p = c.Parent(p) {
				var body *ast.BlockStmt
				switch l := p.(type) {
				case *ast.ForStmt:
					body = l.Body
				case *ast.RangeStmt:
					body = l.Body
				}
				if body != nil && callsThrough(c, info, body, isEndpointSend, 2) {
					inSendLoop = true
					break
				}
			}
			if inSendLoop {
				sentVars[v] = true
			} else {
				notSentVars[v] = true
			}
		default:
			notSentVars[v] = true
		}
		return true
	})
	for v := range notSentVars {
		delete(sentVars, v)
	}
	nEdges := 0
	skipAny := false
	var where token.Pos
	for _, b := range fg.G.Blocks {
		if len(b.Succs) != 2 || !fg.Reachable(b) {
			continue
		}
		for si := range b.Succs {
			notSent := false
			for _, f := range fg.edgeFacts(b, si) {
				if id, ok := ast.Unparen(f.E).(*ast.Ident); ok && sentVars[info.ObjectOf(id)] && f.Neg {
					notSent = true
				}
				// !h.sendToAny(...): a helper that performs the sends and reports whether one succeeded
				if call, ok := ast.Unparen(f.E).(*ast.CallExpr); ok && f.Neg && f.Tag == nil {
					if cf := callee(info, call); cf != nil && c.FuncOf(cf) != nil && callsThrough(c, info, call, isEndpointSend, 2) {
						notSent = true
					}
				}
			}
			if !notSent {
				continue
			}
			nEdges++
			bb, ssi := b, si
			skip, _ := fg.Reach(PathQuery{From: Loc{bb, len(bb.Nodes) - 1, nil},
				Target: func(l Loc) bool {
					r, ok := l.Node.(*ast.ReturnStmt)
					return ok && len(r.Results) == 1 && boolConst(info, r.Results[0]) == '0'
				},
				Avoid:  isUpd,
				EdgeOK: func(x *cfg.Block, xi int) bool { return !(x == bb && xi != ssi) }})
			if skip {
				skipAny = true
				where = b.Nodes[len(b.Nodes)-1].Pos()
			}
		}
	}
	if nEdges == 0 {
		c.und("not-sent-branch", fn.Decl.Pos(), "no test of !sent found in Hook.proc")
		return
	}
	if where == token.NoPos {
		where = fn.Decl.Pos()
	}
	c.check(!skipAny, "reinsert-before-give-up", where, "every path from a !sent edge to return false passes the re-insert transaction", "a failed send can return false without re-inserting the unsent messages: they are lost")
	// slices agree: keys = keys[i:], vals = vals[i:], ttls = ttls[i:] in the !sent branch (same index)
	var idx []string
	var names []string
	ast.Inspect(fn.Decl.Body, func(n ast.Node) bool {
		as, ok := n.(*ast.AssignStmt)
		if !ok || len(as.Lhs) != 1 || len(as.Rhs) != 1 {
			return true
		}
		sl, ok := ast.Unparen(as.Rhs[0]).(*ast.SliceExpr)
		if !ok || sl.Low == nil || sl.High != nil {
			return true
		}
		l, ok1 := as.Lhs[0].(*ast.Ident)
		r, ok2 := ast.Unparen(sl.X).(*ast.Ident)
		if ok1 && ok2 && info.ObjectOf(l) == info.ObjectOf(r) {
			names = append(names, l.Name)
			idx = append(idx, exprStr(sl.Low))
		}
		return true
	})
	if len(idx) == 0 {
		// the tails handed to a re-insert helper: h.reinsert(keys[i:], vals[i:], ttls[i:], …)
		ast.Inspect(fn.Decl.Body, func(n ast.Node) bool {
			call, ok := n.(*ast.CallExpr)
			if !ok || len(idx) > 0 {
				return true
			}
			cf := callee(info, call)
			if cf == nil || c.FuncOf(cf) == nil || !callsThrough(c, info, call, isBuntUpdate, 2) {
				return true
			}
			for _, a := range call.Args {
				if sl, ok := ast.Unparen(a).(*ast.SliceExpr); ok && sl.Low != nil && sl.High == nil {
					if id, ok := ast.Unparen(sl.X).(*ast.Ident); ok {
						names = append(names, id.Name)
						idx = append(idx, exprStr(sl.Low))
					}
				}
			}
			return true
		})
	}
	okIdx := len(idx) >= 3
	for _, s := range idx {
		if s != idx[0] {
			okIdx = false
		}
	}
	c.check(okIdx, "reinsert-slices-agree", fn.Decl.Pos(), fmt.Sprintf("%v are all re-sliced from index %s", names, first(idx)), fmt.Sprintf("the re-inserted slices %v start at different indexes %v: messages are re-queued with the wrong key or ttl, or one is dropped", names, idx))
	// the index is the loop variable at which the send failed: the slices are taken inside the !sent branch
	c.ok("reinsert-index-is-failed-index", fn.Decl.Pos(), len(idx) > 0, "re-slice statements found: %d", len(idx))
}

func first(s []string) string {
	if len(s) == 0 {
		return "?"
	}
	return s[0]
}

func ruleEndpointPairing(c *Ctx) {
	muField := c.Field("internal/endpoint", "Manager", "mu")
	if muField == nil {
		c.und("anchors", 0, "endpoint.Manager.mu not found")
		return
	}
	spec := &LockSpec{Name: "endpoint.Manager.mu",
		Op: func(u *Unit, call *ast.CallExpr) lockKind {
			se, ok := ast.Unparen(call.Fun).(*ast.SelectorExpr)
			if !ok || selField(u.Info(), se.X) != muField {
				return lkNone
			}
			switch se.Sel.Name {
			case "Lock":
				return lkLock
			case "RLock":
				return lkRLock
			case "Unlock":
				return lkUnlock
			case "RUnlock":
				return lkRUnlock
			}
			return lkNone
		}}
	lk := newLK(c.Program, spec, "internal/endpoint")
	lk.Run(nil)
	// table agreement first: protocols assigned by parseEndpoint ⊆ case labels of Send's switch
	pe := c.Func("internal/endpoint", "", "parseEndpoint")
	send := c.Func("internal/endpoint", "Manager", "Send")
	covered := false
	if pe != nil && send != nil {
		assigned := map[types.Object]bool{}
		ast.Inspect(pe.Decl.Body, func(n ast.Node) bool {
			as, ok := n.(*ast.AssignStmt)
			if !ok {
				return true
			}
			for i, l := range as.Lhs {
				if se, ok := l.(*ast.SelectorExpr); ok && se.Sel.Name == "Protocol" && i < len(as.Rhs) {
					if id, ok := ast.Unparen(as.Rhs[i]).(*ast.Ident); ok {
						assigned[pe.Info().ObjectOf(id)] = true
					}
				}
			}
			return true
		})
		labels := map[types.Object]bool{}
		ast.Inspect(send.Decl.Body, func(n ast.Node) bool {
			sw, ok := n.(*ast.SwitchStmt)
			if !ok {
				return true
			}
			for _, cc := range sw.Body.List {
				for _, e := range cc.(*ast.CaseClause).List {
					if id, ok := ast.Unparen(e).(*ast.Ident); ok {
						labels[send.Info().ObjectOf(id)] = true
					}
				}
			}
			return true
		})
		var missing []string
		for o := range assigned {
			if !labels[o] {
				missing = append(missing, o.Name())
			}
		}
		covered = len(assigned) >= 5 && len(missing) == 0
		c.check(covered, "protocols-covered", send.Decl.Pos(), fmt.Sprintf("all %d protocols parseEndpoint assigns are case labels of Send's switch", len(assigned)),
			fmt.Sprintf("protocols %v can be parsed but have no arm in Send: Send returns through its default arm with the manager mutex held and every later webhook blocks", missing))
	} else {
		c.und("protocols-covered", 0, "parseEndpoint or Manager.Send not found")
	}
	bad := map[*Unit]*lkProblem{}
	for _, p := range lk.problems {
		if p.Kind == "balance" || p.Kind == "double-lock" || p.Kind == "release-not-held" {
			if bad[p.Unit] == nil {
				bad[p.Unit] = p
			}
		}
	}
	for _, u := range lk.units {
		if u.events == nil {
			continue
		}
		has := false
		for _, evs := range u.events {
			for _, e := range evs {
				if e.Kind == evLockOp || (e.Kind == evDefer && e.Op != lkNone) {
					has = true
				}
			}
		}
		if !has {
			continue
		}
		if p := bad[u]; p != nil {
			// the default arm of Send's switch: discharged by table agreement
			if covered && u.Name == "endpoint.(*Manager).Send" && p.Kind == "balance" && inDefaultArm(c, send, p.Pos) {
				c.ok("pairing/"+u.Name, p.Pos, true, "the only unbalanced exit is the default arm of the protocol switch, which no parsed endpoint can reach (protocols-covered)")
				continue
			}
			c.badPath("pairing/"+u.Name, p.Pos, lk.Chain(u, p.Key), "%s: %s", p.Kind, p.Msg)
		} else {
			c.ok("pairing/"+u.Name, u.Pos(), true, "acquire/release paired on every path")
		}
	}
}

func inDefaultArm(c *Ctx, fn *FuncInfo, pos token.Pos) bool {
	in := false
	ast.Inspect(fn.Decl.Body, func(n ast.Node) bool {
		cc, ok := n.(*ast.CaseClause)
		if ok && cc.List == nil && cc.Pos() <= pos && pos <= cc.End() {
			in = true
		}
		return true
	})
	return in
}

func init() {
	register(&Rule{ID: "R10.drain-complete", Props: []string{"C10"}, Floor: 4,
		Text: "Hook.proc's contract with the manager ('true' means every queued entry was handled; the manager sleeps on the condition variable after 'true'): the scan of the queue never stops early (its callback returns the constant true on every path, or sets a flag that every 'return true' of proc is dominated by the negation of), the send loop ranges over the whole collected slice and leaves it only by return, and in the manager the wait is reached only after proc returned true and the signal counter is unchanged",
		Run:  ruleDrainComplete})
}

func ruleDrainComplete(c *Ctx) {
	fn := c.Func("internal/server", "Hook", "proc")
	mg := c.Func("internal/server", "Hook", "manager")
	if fn == nil || mg == nil {
		c.und("anchors", 0, "Hook.proc / Hook.manager not found")
		return
	}
	info := fn.Info()
	fg := newFlowGraph(info, fn.Decl.Body)
	// the queue scans: buntdb.Tx.Ascend*/Descend* with a callback literal
	type scan struct {
		call *ast.CallExpr
		lit  *ast.FuncLit
	}
	var scans []scan
	ast.Inspect(fn.Decl.Body, func(n ast.Node) bool {
		call, ok := n.(*ast.CallExpr)
		if !ok {
			return true
		}
		f := callee(info, call)
		if f == nil || f.Pkg() == nil || f.Pkg().Path() != "github.com/tidwall/buntdb" {
			return true
		}
		if !(len(f.Name()) >= 6 && (f.Name()[:6] == "Ascend" || (len(f.Name()) >= 7 && f.Name()[:7] == "Descend"))) {
			return true
		}
		if len(call.Args) > 0 {
			if lit, ok := ast.Unparen(call.Args[len(call.Args)-1]).(*ast.FuncLit); ok {
				scans = append(scans, scan{call, lit})
			}
		}
		return true
	})
	if len(scans) == 0 {
		c.und("scan", fn.Decl.Pos(), "no queue scan (buntdb Ascend*/Descend* with a callback literal) found in Hook.proc")
		return
	}
	// the collected slice: the slice appended to inside the callback that the send loop ranges over
	var collected types.Object
	for i, sc := range scans {
		key := fmt.Sprintf("scan%d-exhaustive", i+1)
		lfg := newFlowGraph(info, sc.lit.Body)
		var early []ast.Node
		flags := map[types.Object]bool{}
		for _, r := range lfg.Returns() {
			rs := r.Node.(*ast.ReturnStmt)
			if len(rs.Results) == 1 && boolConst(info, rs.Results[0]) == '1' {
				continue
			}
			// accepted idiom: a flag of the enclosing function is set to true in the statement before the return
			var flag types.Object
			if r.Idx > 0 {
				if as, ok := r.Block.Nodes[r.Idx-1].(*ast.AssignStmt); ok && len(as.Lhs) == 1 && len(as.Rhs) == 1 && boolConst(info, as.Rhs[0]) == '1' {
					if id, ok := as.Lhs[0].(*ast.Ident); ok {
						flag = info.ObjectOf(id)
					}
				}
			}
			if flag != nil && len(rs.Results) == 1 && boolConst(info, rs.Results[0]) == '0' {
				flags[flag] = true
				continue
			}
			early = append(early, rs)
		}
		ast.Inspect(sc.lit.Body, func(n ast.Node) bool {
			if as, ok := n.(*ast.AssignStmt); ok && len(as.Lhs) == 1 && len(as.Rhs) == 1 {
				if call, ok := ast.Unparen(as.Rhs[0]).(*ast.CallExpr); ok {
					if id, ok := ast.Unparen(call.Fun).(*ast.Ident); ok && id.Name == "append" && len(call.Args) >= 1 {
						if l, ok := as.Lhs[0].(*ast.Ident); ok && collected == nil {
							collected = info.ObjectOf(l)
						}
					}
				}
			}
			return true
		})
		if len(early) > 0 {
			c.bad(key, early[0].Pos(), "the queue scan can stop early (a return other than the constant true, without a 'more' flag): proc collects only part of the queue, returns true after sending it, and the manager sleeps with notifications still queued")
			continue
		}
		if len(flags) > 0 {
			// every `return true` of proc is dominated by !flag
			okAll := true
			var at token.Pos
			for _, r := range fg.Returns() {
				rs := r.Node.(*ast.ReturnStmt)
				if len(rs.Results) != 1 || boolConst(info, rs.Results[0]) != '1' {
					continue
				}
				for fl := range flags {
					dom := false
					for _, f := range fg.DominatingFacts(r) {
						if id, ok := ast.Unparen(f.E).(*ast.Ident); ok && info.ObjectOf(id) == fl && f.Neg {
							dom = true
						}
					}
					if !dom {
						okAll = false
						at = rs.Pos()
					}
				}
			}
			c.check(okAll, key, sc.call.Pos(), "the scan may stop early only with a flag set, and every 'return true' of proc is dominated by the flag being false", "the scan may stop early with a flag set, but a 'return true' of proc at "+c.posStr(at)+" is reachable with the flag set")
			continue
		}
		c.ok(key, sc.call.Pos(), true, "the scan callback returns the constant true on every path (%d returns)", len(lfg.Returns()))
	}
	// the send loop: a range over the collected slice (not a sub-slice) that contains the Send call; left only by return
	var sendLoop *ast.RangeStmt
	ast.Inspect(fn.Decl.Body, func(n ast.Node) bool {
		rs, ok := n.(*ast.RangeStmt)
		if !ok || sendLoop != nil {
			return true
		}
		hasSend := callsThrough(c, info, rs.Body, isEndpointSend, 2)
		if hasSend {
			if _, inner := ast.Unparen(rs.X).(*ast.SelectorExpr); !inner { // skip `range h.Endpoints`
				sendLoop = rs
			}
		}
		return true
	})
	if sendLoop == nil {
		c.und("send-loop", fn.Decl.Pos(), "the loop that sends the collected entries was not found")
	} else {
		id, ok := ast.Unparen(sendLoop.X).(*ast.Ident)
		c.check(ok && collected != nil && info.ObjectOf(id) == collected, "send-loop-whole-slice", sendLoop.Pos(),
			"the send loop ranges over the whole slice the scan collected", "the send loop does not range over the whole slice the scan collected ("+exprStr(sendLoop.X)+"): collected entries were deleted from the queue but are never sent")
		// no break/goto out of the send loop at its own level (a `break` inside the inner endpoint loop is fine)
		leaves := false
		var walk func(n ast.Node, depth int)
		walk = func(n ast.Node, depth int) {
			ast.Inspect(n, func(m ast.Node) bool {
				switch x := m.(type) {
				case *ast.FuncLit:
					return false
				case *ast.ForStmt:
					if m != n {
						walk(x.Body, depth+1)
						return false
					}
				case *ast.RangeStmt:
					if m != n {
						walk(x.Body, depth+1)
						return false
					}
				case *ast.SwitchStmt, *ast.TypeSwitchStmt, *ast.SelectStmt:
					if m != n {
						// a break inside binds to the switch; labelled breaks are handled below
						return true
					}
				case *ast.BranchStmt:
					if x.Tok == token.GOTO || (x.Label != nil && x.Tok == token.BREAK) || (x.Tok == token.BREAK && depth == 0 && !insideSwitch(sendLoop.Body, x)) {
						leaves = true
					}
				}
				return true
			})
		}
		walk(sendLoop.Body, 0)
		c.check(!leaves, "send-loop-no-break", sendLoop.Pos(), "the send loop is left only by return (failure) or exhaustion", "the send loop can be left by break/goto: entries already removed from the queue are neither sent nor re-inserted, and proc returns true")
	}
	// manager: cond.Wait() is dominated by proc()==true (the !proc edge continues) and by sig == h.sig
	minfo := mg.Info()
	mfg := newFlowGraph(minfo, mg.Decl.Body)
	waits := mfg.FindCalls(func(f *types.Func, call *ast.CallExpr) bool {
		return f != nil && f.Name() == "Wait" && f.Pkg() != nil && f.Pkg().Path() == "sync"
	})
	if len(waits) == 0 {
		c.und("manager-wait", mg.Decl.Pos(), "no cond.Wait in Hook.manager")
		return
	}
	for _, w := range waits {
		procTrue, sigSame := false, false
		for _, f := range mfg.DominatingFacts(w) {
			e := ast.Unparen(f.E)
			// !func() bool {... return h.proc()}()  false edge, or h.proc() true edge
			if f.Neg {
				if u, ok := e.(*ast.UnaryExpr); ok && u.Op == token.NOT {
					e = ast.Unparen(u.X)
					if callsProc(minfo, e, fn.Obj) {
						procTrue = true
					}
				}
				if be, ok := e.(*ast.BinaryExpr); ok && be.Op == token.NEQ && mentionsFieldNamed(minfo, be, "sig") {
					sigSame = true
				}
			} else {
				if callsProc(minfo, e, fn.Obj) {
					procTrue = true
				}
				if be, ok := e.(*ast.BinaryExpr); ok && be.Op == token.EQL && mentionsFieldNamed(minfo, be, "sig") {
					sigSame = true
				}
			}
		}
		c.check(procTrue, "manager-wait-after-drain", w.Node.Pos(), "the wait is dominated by proc() having returned true", "the manager can wait on the condition variable without proc() having reported the queue drained")
		c.check(sigSame, "manager-wait-no-missed-signal", w.Node.Pos(), "the wait is dominated by the signal counter being unchanged since before proc()", "the manager can wait although a signal arrived while proc() was running: that notification stays queued until the next one")
	}
}

func insideSwitch(root ast.Node, target ast.Node) bool {
	in := false
	var rec func(n ast.Node, sw bool)
	rec = func(n ast.Node, sw bool) {
		ast.Inspect(n, func(m ast.Node) bool {
			if m == target {
				in = sw
				return false
			}
			switch x := m.(type) {
			case *ast.SwitchStmt:
				if m != n {
					rec(x.Body, true)
					return false
				}
			case *ast.TypeSwitchStmt:
				if m != n {
					rec(x.Body, true)
					return false
				}
			case *ast.SelectStmt:
				if m != n {
					rec(x.Body, true)
					return false
				}
			}
			return true
		})
	}
	rec(root, false)
	return in
}

// callsProc: e is (or is an immediately invoked literal whose every return is) a call of Hook.proc.
func callsProc(info *types.Info, e ast.Expr, proc *types.Func) bool {
	call, ok := ast.Unparen(e).(*ast.CallExpr)
	if !ok {
		return false
	}
	if f := callee(info, call); f == proc {
		return true
	}
	if lit, ok := ast.Unparen(call.Fun).(*ast.FuncLit); ok {
		// the literal yields true only where proc() yielded true: every return is `return proc()`, `return
		// false`, or `return true` on the true edge of a proc() test
		all, n := true, 0
		fg := newFlowGraph(info, lit.Body)
		for _, rl := range fg.Returns() {
			r := rl.Node.(*ast.ReturnStmt)
			n++
			if len(r.Results) != 1 {
				all = false
				continue
			}
			if callsProc(info, r.Results[0], proc) {
				continue
			}
			switch boolConst(info, r.Results[0]) {
			case '0':
				continue
			case '1':
				dom := false
				for _, f := range fg.DominatingFacts(rl) {
					if !f.Neg && callsProc(info, f.E, proc) {
						dom = true
					}
				}
				if dom {
					continue
				}
			}
			all = false
		}
		return all && n > 0
	}
	return false
}

func mentionsFieldNamed(info *types.Info, e ast.Expr, name string) bool {
	hit := false
	ast.Inspect(e, func(n ast.Node) bool {
		if se, ok := n.(*ast.SelectorExpr); ok && se.Sel.Name == name {
			if _, ok := info.ObjectOf(se.Sel).(*types.Var); ok {
				hit = true
			}
		}
		return true
	})
	return hit
}

// callsThrough: node n contains a call for which pred holds, directly or inside a tile38 function it calls
// (helpers, up to two levels).
func callsThrough(c *Ctx, info *types.Info, n ast.Node, pred func(f *types.Func, call *ast.CallExpr) bool, depth int) bool {
	hit := false
	ast.Inspect(n, func(x ast.Node) bool {
		if hit {
			return false
		}
		call, ok := x.(*ast.CallExpr)
		if !ok {
			return true
		}
		f := callee(info, call)
		if pred(f, call) {
			hit = true
			return false
		}
		if depth > 0 && f != nil {
			if fi := c.FuncOf(f); fi != nil {
				if callsThrough(c, fi.Info(), fi.Decl.Body, pred, depth-1) {
					hit = true
				}
			}
		}
		return true
	})
	return hit
}

func isEndpointSend(f *types.Func, _ *ast.CallExpr) bool {
	return f != nil && isMethod(f, modPath+"/internal/endpoint", "Manager", "Send")
}

func isBuntUpdate(f *types.Func, _ *ast.CallExpr) bool {
	return f != nil && f.Name() == "Update" && f.Pkg() != nil && f.Pkg().Path() == "github.com/tidwall/buntdb"
}
