package main

import (
	"go/ast"
	"go/token"
	"go/types"
	"strings"

	"golang.org/x/tools/go/types/typeutil"
)

func init() {
	register(&Rule{ID: "R1.fold-reads-accumulator", Props: []string{"C01"}, Floor: 2,
		Text: "in the write handlers and the helpers they call, a loop that folds the items of one command into an accumulator (acc = acc.M(item), the accumulator having been initialised from the stored state: flist = old.Fields(), or a parameter that receives o.Fields() at the call site) never reads that initial expression again inside the loop — in a helper: never calls the same accessor on the parameter that carries the object the accumulator was taken from: every decision about an item is taken against the accumulator, so that a command naming the same field twice behaves like the two single commands in sequence (the sequential model of C01)",
		Run:  ruleFoldReadsAccumulator})
}

// foldLoops: the loops of body with a self-update acc = acc.M(…) of a local or parameter, and the accumulators of each.
func foldLoops(info *types.Info, root *ast.BlockStmt) map[ast.Node]map[types.Object]bool {
	out := map[ast.Node]map[types.Object]bool{}
	inspectNoLit(root, func(n ast.Node) bool {
		var body *ast.BlockStmt
		switch l := n.(type) {
		case *ast.ForStmt:
			body = l.Body
		case *ast.RangeStmt:
			body = l.Body
		default:
			return true
		}
		inspectNoLit(body, func(m ast.Node) bool {
			as, ok := m.(*ast.AssignStmt)
			if !ok || as.Tok != token.ASSIGN || len(as.Lhs) != 1 || len(as.Rhs) != 1 {
				return true
			}
			id, ok := ast.Unparen(as.Lhs[0]).(*ast.Ident)
			if !ok {
				return true
			}
			call, ok := ast.Unparen(as.Rhs[0]).(*ast.CallExpr)
			if !ok {
				return true
			}
			se, ok := ast.Unparen(call.Fun).(*ast.SelectorExpr)
			if !ok {
				return true
			}
			if rid, ok := ast.Unparen(se.X).(*ast.Ident); ok && info.ObjectOf(rid) == info.ObjectOf(id) && info.ObjectOf(id) != nil {
				if out[n] == nil {
					out[n] = map[types.Object]bool{}
				}
				out[n][info.ObjectOf(id)] = true
			}
			return true
		})
		return true
	})
	return out
}

func loopBody(n ast.Node) *ast.BlockStmt {
	switch l := n.(type) {
	case *ast.ForStmt:
		return l.Body
	case *ast.RangeStmt:
		return l.Body
	}
	return nil
}

func ruleFoldReadsAccumulator(c *Ctx) {
	hs := writeHandlers(c)
	if hs == nil {
		c.und("engine", 0, "write handlers not available")
		return
	}
	// handlers, and the repository functions they call statically (two levels), each with the call sites that reach it
	type site struct {
		caller *FuncInfo
		call   *ast.CallExpr
	}
	sites := map[*types.Func][]site{}
	var order []*types.Func
	seen := map[*types.Func]bool{}
	isHandler := map[*types.Func]bool{}
	for _, h := range hs {
		seen[h] = true
		isHandler[h] = true
		order = append(order, h)
	}
	frontier := append([]*types.Func(nil), hs...)
	for depth := 0; depth < 2; depth++ {
		var next []*types.Func
		for _, f := range frontier {
			fi := c.FuncOf(f)
			if fi == nil || fi.Decl.Body == nil {
				continue
			}
			info := fi.Info()
			ast.Inspect(fi.Decl.Body, func(n ast.Node) bool {
				call, ok := n.(*ast.CallExpr)
				if !ok {
					return true
				}
				cal, _ := typeutil.Callee(info, call).(*types.Func)
				if cal == nil || c.FuncOf(cal) == nil || isHandler[cal] {
					return true
				}
				sites[cal] = append(sites[cal], site{fi, call})
				if !seen[cal] {
					seen[cal] = true
					order = append(order, cal)
					next = append(next, cal)
				}
				return true
			})
		}
		frontier = next
	}
	for _, h := range order {
		fi := c.FuncOf(h)
		if fi == nil || fi.Decl.Body == nil {
			continue
		}
		info := fi.Info()
		params := map[types.Object]int{}
		if sig, ok := h.Type().(*types.Signature); ok {
			for i := 0; i < sig.Params().Len(); i++ {
				params[sig.Params().At(i)] = i
			}
		}
		for loop, accs := range foldLoops(info, fi.Decl.Body) {
			body := loopBody(loop)
			for acc := range accs {
				key := funcName(h) + "/" + acc.Name()
				// the expressions the accumulator was initialised from, outside the loop
				var inits []ast.Expr
				inspectNoLit(fi.Decl.Body, func(m ast.Node) bool {
					if m != nil && body.Pos() <= m.Pos() && m.End() <= body.End() {
						return false
					}
					switch s := m.(type) {
					case *ast.AssignStmt:
						if len(s.Lhs) == len(s.Rhs) {
							for i, l := range s.Lhs {
								if id, ok := ast.Unparen(l).(*ast.Ident); ok && info.ObjectOf(id) == acc {
									inits = append(inits, s.Rhs[i])
								}
							}
						}
					case *ast.ValueSpec:
						for i, nm := range s.Names {
							if info.ObjectOf(nm) == acc && i < len(s.Values) {
								inits = append(inits, s.Values[i])
							}
						}
					}
					return true
				})
				// only state-derived initial values matter (a call chain), not a fresh empty value
				var stale ast.Expr
				var from string
				nState := 0
				for _, e := range inits {
					if _, ok := ast.Unparen(e).(*ast.CallExpr); !ok {
						continue
					}
					nState++
					if from == "" {
						from = exprStr(e)
					}
					inspectNoLit(body, func(m ast.Node) bool {
						if x, ok := m.(ast.Expr); ok && stale == nil && sameExpr(info, x, e) {
							stale = x
						}
						return true
					})
				}
				// a parameter accumulator: initialised by the argument at every call site; the stored state is
				// X.M() there, and reading it again inside the helper is P.M() on the parameter P that receives X
				if pi, isParam := params[acc]; isParam {
					for _, st := range sites[h] {
						if pi >= len(st.call.Args) {
							continue
						}
						arg, ok := ast.Unparen(st.call.Args[pi]).(*ast.CallExpr)
						if !ok {
							continue
						}
						nState++
						if from == "" {
							from = exprStr(arg) + " at " + c.posStr(st.call.Pos())
						}
						ase, ok := ast.Unparen(arg.Fun).(*ast.SelectorExpr)
						if !ok {
							continue
						}
						cinfo := st.caller.Info()
						for p, j := range params {
							if j >= len(st.call.Args) || !sameExpr(cinfo, st.call.Args[j], ase.X) {
								continue
							}
							inspectNoLit(body, func(m ast.Node) bool {
								call, ok := m.(*ast.CallExpr)
								if !ok || stale != nil {
									return true
								}
								if se, ok := ast.Unparen(call.Fun).(*ast.SelectorExpr); ok && se.Sel.Name == ase.Sel.Name {
									if id, ok := ast.Unparen(se.X).(*ast.Ident); ok && info.ObjectOf(id) == p {
										stale = call
									}
								}
								return true
							})
						}
					}
				}
				if nState == 0 {
					continue
				}
				if stale != nil {
					c.bad(key, stale.Pos(), "inside the loop that folds the command's items into %s, %s is read again: an item is judged against the state before the command instead of the state after its earlier items (a command that names the same field twice no longer equals the two commands in sequence)", acc.Name(), exprStr(stale))
				} else {
					c.ok(key, loop.Pos(), true, "the fold over the command's items reads only the accumulator %s (initialised from %s)", acc.Name(), from)
				}
			}
		}
	}
}

// R1.ack-implies-effect
func init() {
	register(&Rule{ID: "R1.ack-implies-effect", Props: []string{"C01", "C03"}, Floor: 8,
		Text: "the positive acknowledgement of a write command means the state was written: in every write handler, a statement that builds the positive reply (OKMessage, the RESP simple string OK, the integer 1) is reachable from the entry only through an effective mutation of persistent state or through the delegation to another write handler — path search on go/cfg with boolean correlation (the updated/ok flags), the mutation sites being those of R1.err-before-effect. A shortcut that answers OK without storing (a JSET of a value that is already there, which in the model still replaces the object and clears its deadline) acknowledges a state change that neither happened nor was logged",
		Run:  ruleAckImpliesEffect})
}

func ruleAckImpliesEffect(c *Ctx) {
	hs := writeHandlers(c)
	if hs == nil {
		c.und("engine", 0, "command tables not available")
		return
	}
	nAck := 0
	for _, h := range hs {
		fi := c.FuncOf(h)
		if fi == nil || fi.Decl.Body == nil {
			continue
		}
		info := fi.Info()
		fg := newFlowGraph(info, fi.Decl.Body)
		muts := mutationSites(c, fi, fg)
		isMut := map[ast.Node]bool{}
		for _, m := range muts {
			isMut[m.Block.Nodes[m.Idx]] = true
		}
		isAck := func(n ast.Node) ast.Node {
			var hit ast.Node
			inspectNoLit(n, func(m ast.Node) bool {
				call, ok := m.(*ast.CallExpr)
				if !ok || hit != nil {
					return hit == nil
				}
				f := callee(info, call)
				if f == nil {
					return true
				}
				switch {
				case f.Name() == "OKMessage" && f.Pkg() != nil && f.Pkg().Path() == modPath+"/internal/server":
					hit = call
				case f.Name() == "SimpleStringValue" && len(call.Args) == 1:
					if tv, ok := info.Types[call.Args[0]]; ok && tv.Value != nil && tv.Value.ExactString() == `"OK"` {
						hit = call
					}
				case f.Name() == "IntegerValue" && len(call.Args) == 1:
					if tv, ok := info.Types[call.Args[0]]; ok && tv.Value != nil && tv.Value.ExactString() == "1" {
						hit = call
					}
				}
				return true
			})
			return hit
		}
		seen := map[ast.Node]bool{}
		for _, b := range fg.G.Blocks {
			if !fg.Reachable(b) {
				continue
			}
			for _, nd := range b.Nodes {
				ack := isAck(nd)
				if ack == nil || seen[ack] {
					continue
				}
				seen[ack] = true
				// in the JSON arm of the reply switch every outcome is {"ok":true}: not a positive acknowledgement
				if f := callee(info, ack.(*ast.CallExpr)); f != nil && f.Name() == "OKMessage" {
					inJSON := false
					for _, ft := range fg.DominatingFacts(fg.LocOf(nd)) {
						if ft.Tag != nil && !ft.Neg && strings.HasSuffix(exprStr(ft.Tag), ".OutputType") {
							if id, ok := ast.Unparen(ft.E).(*ast.Ident); ok && id.Name == "JSON" {
								inJSON = true
							}
						}
					}
					if inJSON {
						continue
					}
				}
				nAck++
				target := nd
				reach, trail := fg.Reach(PathQuery{
					Target:    func(l Loc) bool { return l.Block.Nodes[l.Idx] == target },
					Avoid:     func(l Loc) bool { return isMut[l.Block.Nodes[l.Idx]] && l.Block.Nodes[l.Idx] != target },
					Correlate: true,
				})
				if isMut[nd] {
					reach = false // the acknowledgement is built in the statement that delegates or mutates
				}
				key := funcName(h) + "→" + exprStr(ack.(ast.Expr))
				if reach {
					var path []string
					for _, n := range trail {
						path = append(path, c.posStr(n.Pos()))
					}
					c.badPath(key, ack.Pos(), path, "the positive acknowledgement is built on a path on which nothing was stored: the client is told the command took effect (and the model replaces the object, clearing its deadline) although the state is unchanged and nothing is logged")
				} else {
					c.ok(key, ack.Pos(), true, "reachable only through an effective mutation")
				}
			}
		}
	}
	c.stat("positive_acknowledgements", nAck)
}
