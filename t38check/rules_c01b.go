package main

import (
	"go/ast"
	"go/token"
	"go/types"
)

func init() {
	register(&Rule{ID: "R1.fold-reads-accumulator", Props: []string{"C01"}, Floor: 2,
		Text: "in the write handlers, a loop that folds the items of one command into an accumulator (acc = acc.M(item), the accumulator having been initialised from the stored state: flist = old.Fields()) never reads that initial expression again inside the loop: every decision about an item is taken against the accumulator, so that a command naming the same field twice behaves like the two single commands in sequence (the sequential model of C01)",
		Run:  ruleFoldReadsAccumulator})
}

func ruleFoldReadsAccumulator(c *Ctx) {
	hs := writeHandlers(c)
	if hs == nil {
		c.und("engine", 0, "write handlers not available")
		return
	}
	for _, h := range hs {
		fi := c.FuncOf(h)
		if fi == nil {
			continue
		}
		info := fi.Info()
		// loops with a self-update acc = acc.M(…) of a local
		inspectNoLit(fi.Decl.Body, func(n ast.Node) bool {
			var body *ast.BlockStmt
			switch l := n.(type) {
			case *ast.ForStmt:
				body = l.Body
			case *ast.RangeStmt:
				body = l.Body
			default:
				return true
			}
			accs := map[types.Object]bool{}
			inspectNoLit(body, func(m ast.Node) bool {
				as, ok := m.(*ast.AssignStmt)
				if !ok || as.Tok != token.ASSIGN || len(as.Lhs) != 1 || len(as.Rhs) != 1 {
					return true
				}
				id, ok := ast.Unparen(as.Lhs[0]).(*ast.Ident)
				if !ok {
					return true
				}
				call, ok := ast.Unparen(as.Rhs[0]).(*ast.CallExpr)
				if !ok {
					return true
				}
				se, ok := ast.Unparen(call.Fun).(*ast.SelectorExpr)
				if !ok {
					return true
				}
				if rid, ok := ast.Unparen(se.X).(*ast.Ident); ok && info.ObjectOf(rid) == info.ObjectOf(id) {
					accs[info.ObjectOf(id)] = true
				}
				return true
			})
			for acc := range accs {
				// the expressions the accumulator was initialised from, outside the loop
				var inits []ast.Expr
				inspectNoLit(fi.Decl.Body, func(m ast.Node) bool {
					if m != nil && body.Pos() <= m.Pos() && m.End() <= body.End() {
						return false
					}
					switch s := m.(type) {
					case *ast.AssignStmt:
						if len(s.Lhs) == len(s.Rhs) {
							for i, l := range s.Lhs {
								if id, ok := ast.Unparen(l).(*ast.Ident); ok && info.ObjectOf(id) == acc {
									inits = append(inits, s.Rhs[i])
								}
							}
						}
					case *ast.ValueSpec:
						for i, nm := range s.Names {
							if info.ObjectOf(nm) == acc && i < len(s.Values) {
								inits = append(inits, s.Values[i])
							}
						}
					}
					return true
				})
				// only state-derived initial values matter (a call chain), not a fresh empty value
				var stateInits []ast.Expr
				for _, e := range inits {
					if _, ok := ast.Unparen(e).(*ast.CallExpr); ok {
						stateInits = append(stateInits, e)
					}
				}
				if len(stateInits) == 0 {
					continue
				}
				key := funcName(h) + "/" + acc.Name()
				var stale ast.Expr
				for _, e := range stateInits {
					inspectNoLit(body, func(m ast.Node) bool {
						if x, ok := m.(ast.Expr); ok && stale == nil && sameExpr(info, x, e) {
							stale = x
						}
						return true
					})
				}
				if stale != nil {
					c.bad(key, stale.Pos(), "inside the loop that folds the command's items into %s, %s is read again: an item is judged against the state before the command instead of the state after its earlier items (a command that names the same field twice no longer equals the two commands in sequence)", acc.Name(), exprStr(stale))
				} else {
					c.ok(key, n.Pos(), true, "the fold over the command's items reads only the accumulator %s (initialised from %s)", acc.Name(), exprStr(stateInits[0]))
				}
			}
			return true
		})
	}
}
