package main

import (
	"fmt"
	"go/ast"
	"go/types"
	"regexp"
	"sort"
	"strings"
)

func init() {
	register(&Rule{ID: "R5.registry-co-update", Props: []string{"C05", "C14"}, Floor: 10,
		Text: "the hook registries move together: a function that inserts into Server.hooks also inserts (conditionally) into hooksOut, hookTree, hookCross and hookExpires; one that deletes from hooks also deletes from those four, disconnects the hook's groups and closes it; one that clears hooks clears all seven registries; hookTree and hookCross are inserted and deleted under the same guards (Fence.obj != nil, detect[\"cross\"]) with the rectangle of the respective hook's fence",
		Run:  ruleRegistryCoUpdate})
	register(&Rule{ID: "R5.registry-read", Props: []string{"C05"}, Floor: 3,
		Text: "each candidate index (hooksOut, hookTree, hookCross) is consulted by getQueueCandidates, and every registry that is written is read somewhere and vice versa",
		Run:  ruleRegistryRead})
	register(&Rule{ID: "R5.detect-vocabulary", Props: []string{"C05"}, Floor: 5,
		Text: "the detect names fenceMatch can produce are the names the DETECT parser accepts plus 'roam', and every accepted name can be produced (writer and reader vocabularies agree)",
		Run:  ruleDetectVocabulary})
	register(&Rule{ID: "R5.under-lock", Props: []string{"C05", "C10"}, Floor: 2,
		Text: "FenceMatch and queueHooks are entered only with Server.mu held exclusively (they update the group indexes and the queue index) — lock-state analysis with the command-table join",
		Run:  ruleFenceUnderLock})
}

var hookRegs = []string{"hooks", "hooksOut", "hookTree", "hookCross", "hookExpires", "groupHooks", "groupObjects"}

type regOp struct {
	reg, op string
	guards  []string
	args    string
	pos     ast.Node
}

// regOps: operations on the hook registries in fn with their enclosing if-conditions.
func regOps(c *Ctx, fn *FuncInfo) []regOp {
	info := fn.Info()
	regField := map[*types.Var]string{}
	for _, r := range hookRegs {
		if f := c.Field("internal/server", "Server", r); f != nil {
			regField[f] = r
		}
	}
	var out []regOp
	var walk func(stmts []ast.Stmt, guards []string)
	visitExpr := func(e ast.Node, guards []string) {
		ast.Inspect(e, func(n ast.Node) bool {
			if _, ok := n.(*ast.FuncLit); ok {
				return false
			}
			call, ok := n.(*ast.CallExpr)
			if !ok {
				return true
			}
			se, ok := ast.Unparen(call.Fun).(*ast.SelectorExpr)
			if !ok {
				return true
			}
			if f := selField(info, se.X); f != nil && regField[f] != "" {
				out = append(out, regOp{regField[f], se.Sel.Name, append([]string(nil), guards...), exprsStr(call.Args), call})
			}
			if g := callee(info, call); g != nil {
				switch g.Name() {
				case "groupDisconnectHook":
					out = append(out, regOp{"groups", "disconnectHook", append([]string(nil), guards...), "", call})
				case "Close":
					if isMethod(g, modPath+"/internal/server", "Hook", "Close") {
						out = append(out, regOp{"hook", "Close", append([]string(nil), guards...), "", call})
					}
				}
			}
			return true
		})
	}
	walk = func(stmts []ast.Stmt, guards []string) {
		for _, st := range stmts {
			switch s := st.(type) {
			case *ast.IfStmt:
				if s.Init != nil {
					visitExpr(s.Init, guards)
				}
				visitExpr(s.Cond, guards)
				walk(s.Body.List, append(append([]string(nil), guards...), exprStr(s.Cond)))
				switch e := s.Else.(type) {
				case *ast.BlockStmt:
					walk(e.List, append(append([]string(nil), guards...), "!("+exprStr(s.Cond)+")"))
				case *ast.IfStmt:
					walk([]ast.Stmt{e}, append(append([]string(nil), guards...), "!("+exprStr(s.Cond)+")"))
				}
			case *ast.BlockStmt:
				walk(s.List, guards)
			case *ast.ForStmt:
				walk(s.Body.List, guards)
			case *ast.RangeStmt:
				walk(s.Body.List, guards)
			case *ast.SwitchStmt:
				for _, cc := range s.Body.List {
					walk(cc.(*ast.CaseClause).Body, guards)
				}
			default:
				visitExpr(st, guards)
			}
		}
	}
	walk(fn.Decl.Body.List, nil)
	return out
}

// normGuard rewrites the hook variable to $ so that guards on the inserted and the deleted hook compare.
func normGuard(g, hookVar string) string {
	return normExprStr(g, hookVar)
}

func normExprStr(s, operand string) string {
	if operand == "" {
		return s
	}
	return strings.ReplaceAll(" "+s+" ", operand+".", "$.")[1 : len(strings.ReplaceAll(" "+s+" ", operand+".", "$."))-1]
}

func ruleRegistryCoUpdate(c *Ctx) {
	n := 0
	type site struct {
		fn  *FuncInfo
		ops []regOp
	}
	var inserters, deleters, clearers []site
	for _, fn := range c.AllFuncs("internal/server") {
		ops := regOps(c, fn)
		has := func(reg, op string) bool {
			for _, o := range ops {
				if o.reg == reg && o.op == op {
					return true
				}
			}
			return false
		}
		if has("hooks", "Set") {
			inserters = append(inserters, site{fn, ops})
		}
		if has("hooks", "Delete") {
			deleters = append(deleters, site{fn, ops})
		}
		if has("hooks", "Clear") {
			clearers = append(clearers, site{fn, ops})
		}
	}
	need := func(s site, what string, reg string, opsWanted ...string) {
		n++
		ok := false
		for _, o := range s.ops {
			if o.reg == reg {
				for _, w := range opsWanted {
					if o.op == w {
						ok = true
					}
				}
			}
		}
		c.check(ok, funcName(s.fn.Obj)+"/"+what+"/"+reg, s.fn.Decl.Pos(), reg+" is updated together with hooks",
			fmt.Sprintf("%s updates Server.hooks (%s) but not %s: the fence is dropped from / left behind in one candidate index", s.fn.Obj.Name(), what, reg))
	}
	for _, s := range inserters {
		for _, r := range []string{"hooksOut", "hookExpires"} {
			need(s, "insert", r, "Set")
		}
		for _, r := range []string{"hookTree", "hookCross"} {
			need(s, "insert", r, "Insert")
		}
	}
	for _, s := range deleters {
		for _, r := range []string{"hooksOut", "hookExpires"} {
			need(s, "delete", r, "Delete")
		}
		for _, r := range []string{"hookTree", "hookCross"} {
			need(s, "delete", r, "Delete")
		}
		need(s, "delete", "groups", "disconnectHook")
		need(s, "delete", "hook", "Close")
	}
	for _, s := range clearers {
		for _, r := range hookRegs[1:] {
			need(s, "clear", r, "Clear")
		}
	}
	if len(inserters) == 0 || len(deleters) == 0 || len(clearers) == 0 {
		c.bad("sites", 0, "expected functions inserting into, deleting from and clearing Server.hooks (found %d/%d/%d)", len(inserters), len(deleters), len(clearers))
	}
	// guard agreement between insert and delete of the spatial indexes, per function pair
	// foreign[site] records guards of an index update that do not mention the hook being inserted/deleted
	type gsite struct {
		guard   string
		pos     ast.Node
		foreign []string
	}
	mentions := func(x, v string) bool {
		return regexp.MustCompile(`(^|[^A-Za-z0-9_.])` + regexp.QuoteMeta(v) + `($|[^A-Za-z0-9_])`).MatchString(x)
	}
	guardSites := func(ops []regOp, reg, op string, hookVar string) []gsite {
		var out []gsite
		re := regexp.MustCompile(`(^|[^A-Za-z0-9_.])` + regexp.QuoteMeta(hookVar) + `($|[^A-Za-z0-9_])`)
		for _, o := range ops {
			if o.reg == reg && o.op == op && mentions(o.args, hookVar) {
				var g, foreign []string
				for _, x := range o.guards {
					if mentions(x, hookVar) {
						g = append(g, re.ReplaceAllString(x, "${1}$$${2}"))
					} else if strings.Contains(x, "Fence") || strings.Contains(x, "detect") {
						foreign = append(foreign, x)
					}
				}
				sort.Strings(g)
				out = append(out, gsite{strings.Join(g, " && "), o.pos, foreign})
			}
		}
		return out
	}
	// the hook variable is the last argument of the Insert/Delete call
	lastArg := func(ops []regOp, reg, op string) []string {
		var vs []string
		for _, o := range ops {
			if o.reg == reg && o.op == op {
				parts := strings.Split(o.args, ", ")
				vs = append(vs, parts[len(parts)-1])
			}
		}
		return vs
	}
	for _, reg := range []string{"hookTree", "hookCross"} {
		var insG, delG []gsite
		for _, s := range inserters {
			for _, hv := range lastArg(s.ops, reg, "Insert") {
				insG = append(insG, guardSites(s.ops, reg, "Insert", hv)...)
			}
		}
		for _, s := range append(append([]site{}, deleters...), inserters...) {
			for _, hv := range lastArg(s.ops, reg, "Delete") {
				delG = append(delG, guardSites(s.ops, reg, "Delete", hv)...)
			}
		}
		strip := func(g string) string {
			// the nil test of the hook itself ($ != nil) is not part of the indexing predicate
			return strings.ReplaceAll(g, "$ != nil && ", "")
		}
		n++
		if len(insG) == 0 || len(delG) == 0 {
			c.bad("guards-agree/"+reg, 0, "%s: expected insert and delete sites, found %d/%d", reg, len(insG), len(delG))
			continue
		}
		ok := true
		for _, d := range append(append([]gsite{}, delG...), insG[1:]...) {
			if strip(d.guard) != strip(insG[0].guard) || len(d.foreign) > 0 {
				ok = false
				extra := ""
				if len(d.foreign) > 0 {
					extra = fmt.Sprintf("; the update is additionally guarded by a test on a different hook (%s)", strings.Join(d.foreign, " && "))
				}
				c.bad("guards-agree/"+reg, d.pos.Pos(), "%s is inserted under {%s} of the inserted hook, but this update of the index runs under {%s} of the hook it handles%s: entries are left behind or never removed", reg, strip(insG[0].guard), strip(d.guard), extra)
				break
			}
		}
		if ok {
			c.ok("guards-agree/"+reg, insG[0].pos.Pos(), true, "%s is inserted and deleted under the same predicate on the respective hook: %s (%d sites)", reg, strip(insG[0].guard), len(insG)+len(delG))
		}
	}
	c.stat("registry_update_sites", n)
}

func ruleRegistryRead(c *Ctx) {
	gq := c.Func("internal/server", "Server", "getQueueCandidates")
	if gq == nil {
		c.und("anchors", 0, "getQueueCandidates not found")
		return
	}
	ops := regOps(c, gq)
	// regOps ignores literals; the search callbacks are literals but the Search/Ascend calls themselves are not
	for _, reg := range []string{"hooksOut", "hookTree", "hookCross"} {
		read := false
		for _, o := range ops {
			if o.reg == reg && (o.op == "Search" || o.op == "Ascend" || o.op == "Scan") {
				read = true
			}
		}
		c.check(read, "candidates-consult/"+reg, gq.Decl.Pos(), reg+" is searched for candidate hooks", "getQueueCandidates does not consult "+reg+": fences registered only there never fire")
	}
	// written-but-never-read / read-but-never-written over the whole server
	written, readm := map[string]bool{}, map[string]bool{}
	for _, fn := range c.AllFuncs("internal/server") {
		for _, o := range regOps(c, fn) {
			if o.reg == "groups" || o.reg == "hook" {
				continue
			}
			switch {
			case containerMutators[o.op]:
				if o.op != "Clear" {
					written[o.reg] = true
				}
			case o.op == "Len":
				// statistics only
			default:
				readm[o.reg] = true
			}
		}
	}
	for _, reg := range hookRegs {
		c.check(written[reg] && readm[reg], "written-and-read/"+reg, 0, "written and read", fmt.Sprintf("Server.%s is written=%v read=%v: an index that is only maintained or only consulted", reg, written[reg], readm[reg]))
	}
}

func ruleDetectVocabulary(c *Ctx) {
	fm := c.Func("internal/server", "", "fenceMatch")
	ps := c.Func("internal/server", "Server", "parseSearchScanBaseTokens")
	if fm == nil || ps == nil {
		c.und("anchors", 0, "fenceMatch or parseSearchScanBaseTokens not found")
		return
	}
	info := fm.Info()
	// producer: string constants assigned to the variable `detect` (the local that is tested against fence.detect)
	var detectObj types.Object
	ast.Inspect(fm.Decl.Body, func(n ast.Node) bool {
		ix, ok := n.(*ast.IndexExpr)
		if !ok {
			return true
		}
		if se, ok := ast.Unparen(ix.X).(*ast.SelectorExpr); ok && se.Sel.Name == "detect" {
			if id, ok := ast.Unparen(ix.Index).(*ast.Ident); ok {
				detectObj = info.ObjectOf(id)
			}
		}
		return true
	})
	// by role: the variable handed to the message builder as the detect name
	if mk := c.Func("internal/server", "", "makemsg"); mk != nil {
		if di := makemsgDetectIndex(c, mk); di >= 0 {
			ast.Inspect(fm.Decl.Body, func(n ast.Node) bool {
				call, ok := n.(*ast.CallExpr)
				if !ok || callee(info, call) != mk.Obj || di >= len(call.Args) {
					return true
				}
				if id, ok := ast.Unparen(call.Args[di]).(*ast.Ident); ok {
					if _, isVar := info.ObjectOf(id).(*types.Var); isVar {
						detectObj = info.ObjectOf(id)
					}
				}
				return true
			})
		}
	}
	if detectObj == nil {
		c.und("detect-variable", fm.Decl.Pos(), "the detect variable of fenceMatch not found")
		return
	}
	produced := map[string]bool{}
	ast.Inspect(fm.Decl.Body, func(n ast.Node) bool {
		switch x := n.(type) {
		case *ast.AssignStmt:
			for i, l := range x.Lhs {
				if id, ok := l.(*ast.Ident); ok && info.ObjectOf(id) == detectObj && i < len(x.Rhs) {
					if s, ok := constString(info, x.Rhs[i]); ok {
						produced[s] = true
					}
				}
			}
		case *ast.ValueSpec:
			for i, nm := range x.Names {
				if info.ObjectOf(nm) == detectObj && i < len(x.Values) {
					if s, ok := constString(info, x.Values[i]); ok {
						produced[s] = true
					}
				}
			}
		}
		return true
	})
	// parser: the case labels in the arm that stores into t.detect
	accepted := map[string]bool{}
	pinfo := ps.Info()
	ast.Inspect(ps.Decl.Body, func(n ast.Node) bool {
		cc, ok := n.(*ast.CaseClause)
		if !ok || len(cc.List) < 3 {
			return true
		}
		all := true
		var ss []string
		for _, e := range cc.List {
			s, ok := constString(pinfo, e)
			if !ok {
				all = false
				break
			}
			ss = append(ss, s)
		}
		if all && contains(ss, "inside") && contains(ss, "outside") {
			for _, s := range ss {
				accepted[s] = true
			}
		}
		return true
	})
	if len(accepted) < 3 || len(produced) < 3 {
		c.und("vocabularies", fm.Decl.Pos(), "detect vocabularies not extracted (accepted %v, produced %v)", sortedKeys(accepted), sortedKeys(produced))
		return
	}
	for s := range produced {
		c.check(accepted[s] || s == "roam", "produced/"+s, fm.Decl.Pos(), "a name the DETECT parser accepts (or roam)", fmt.Sprintf("fenceMatch produces detect %q which DETECT cannot select and the filter fallbacks do not know", s))
	}
	for s := range accepted {
		c.check(produced[s], "accepted/"+s, ps.Decl.Pos(), "fenceMatch can produce it", fmt.Sprintf("DETECT accepts %q but fenceMatch never produces it", s))
	}
}

func ruleFenceUnderLock(c *Ctx) {
	a := c.muLK()
	if a.err != "" {
		c.und("engine", 0, "%s", a.err)
		return
	}
	for _, name := range []string{"FenceMatch", "fenceMatch"} {
		fi := c.Func("internal/server", "", name)
		if fi == nil {
			c.und(name, 0, "not found")
			continue
		}
		u := a.lk.ofDecl[fi.Obj]
		mask, _ := a.lk.entryLockStates(u)
		c.check(mask == LX, name+"/entered-exclusive", fi.Decl.Pos(), "entered only with Server.mu held exclusively", fmt.Sprintf("%s can be entered with Server.mu in state %s", name, lockStr(mask)))
	}
	if fi := c.Func("internal/server", "Server", "queueHooks"); fi != nil {
		u := a.lk.ofDecl[fi.Obj]
		mask, _ := a.lk.entryLockStates(u)
		c.check(mask == LX, "queueHooks/entered-exclusive", fi.Decl.Pos(), "entered only with Server.mu held exclusively", fmt.Sprintf("queueHooks can be entered with Server.mu in state %s", lockStr(mask)))
	}
}
