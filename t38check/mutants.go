package main

import (
	"bytes"
	"encoding/json"
	"fmt"
	"os"
	"os/exec"
	"path/filepath"
	"regexp"
	"sort"
	"strings"
	"sync"
)

// Mutant is a small source edit applied in memory (packages.Config.Overlay).
// A sentinel mutant must make rule Expect fire on key ExpectKey; a neutral
// variant (Neutral=true) preserves behaviour and every rule must stay silent.
type Mutant struct {
	Name    string
	Props   []string
	File    string // relative to the repo root
	Old     string
	New     string
	Edits   []Edit // additional edits (two cooperating sites)
	Expect  string // rule id expected to fire ("" for neutral)
	Key     string // substring of the obligation key expected
	Neutral bool
	Why     string
}

// Edit: one replacement; an Old that starts with "re:" is a regular expression, every match is replaced
// (at least one must exist)
type Edit struct{ File, Old, New string }

var allMutants []*Mutant

func mutant(m *Mutant) { allMutants = append(allMutants, m) }

func mutantsFor(prop string) []*Mutant {
	var out []*Mutant
	for _, m := range allMutants {
		for _, p := range m.Props {
			if p == prop {
				out = append(out, m)
			}
		}
	}
	return out
}

// overlayFor applies the edits; stale=true if some Old text no longer occurs
// exactly once.
func overlayFor(repo string, m *Mutant) (ov map[string][]byte, stale bool, err error) {
	ov = map[string][]byte{}
	edits := append([]Edit{{m.File, m.Old, m.New}}, m.Edits...)
	for _, e := range edits {
		if e.Old == "" && len(m.Edits) > 0 {
			continue
		}
		path := filepath.Join(repo, e.File)
		src, ok := ov[path]
		if !ok {
			src, err = os.ReadFile(path)
			if err != nil {
				return nil, true, nil
			}
		}
		if strings.HasPrefix(e.Old, "re:") {
			re := regexp.MustCompile(e.Old[3:])
			if !re.Match(src) {
				return nil, true, nil
			}
			ov[path] = re.ReplaceAll(src, []byte(e.New))
			continue
		}
		if bytes.Count(src, []byte(e.Old)) != 1 {
			return nil, true, nil
		}
		ov[path] = bytes.Replace(src, []byte(e.Old), []byte(e.New), 1)
	}
	return ov, false, nil
}

type childOut struct {
	Stale     bool     `json:"stale"`
	LoadErr   string   `json:"load_err,omitempty"`
	Violated  []string `json:"violated"`
	Undecided []string `json:"undecided"`
}

func runMutantChild(prop, repo, name string) int {
	var m *Mutant
	for _, x := range allMutants {
		if x.Name == name {
			m = x
		}
	}
	out := childOut{}
	emit := func() int {
		b, _ := json.Marshal(out)
		fmt.Println(string(b))
		return 0
	}
	if m == nil {
		out.LoadErr = "unknown mutant " + name
		return emit()
	}
	ov, stale, err := overlayFor(repo, m)
	if err != nil || stale {
		out.Stale = true
		return emit()
	}
	c, _, err := evalRules(prop, "quick", repo, loadOpts{overlay: ov})
	if err != nil {
		out.LoadErr = err.Error()
		return emit()
	}
	for _, o := range c.obs {
		switch o.Status {
		case stViolated:
			out.Violated = append(out.Violated, o.ID())
		case stUndecided:
			out.Undecided = append(out.Undecided, o.ID())
		}
	}
	sort.Strings(out.Violated)
	sort.Strings(out.Undecided)
	return emit()
}

// runThorough runs the sentinel mutants and neutral variants of the property,
// each in its own subprocess, and the platform re-runs.
func runThorough(prop, repo string, base *Ctx) (extra map[string]any, fails []string) {
	extra = map[string]any{}
	baseViol := map[string]bool{}
	baseUnd := map[string]bool{}
	for _, o := range base.obs {
		if o.Status == stViolated {
			baseViol[o.ID()] = true
		}
		if o.Status == stUndecided {
			baseUnd[o.ID()] = true
		}
	}
	ms := mutantsFor(prop)
	type res struct {
		m   *Mutant
		out childOut
		err error
	}
	results := make([]res, len(ms))
	sem := make(chan struct{}, 6)
	var wg sync.WaitGroup
	self, _ := os.Executable()
	for i, m := range ms {
		wg.Add(1)
		go func(i int, m *Mutant) {
			defer wg.Done()
			sem <- struct{}{}
			defer func() { <-sem }()
			cmd := exec.Command(self, "-property", prop, "-repo", repo, "-mutant", m.Name)
			var stdout, stderr bytes.Buffer
			cmd.Stdout, cmd.Stderr = &stdout, &stderr
			err := cmd.Run()
			r := res{m: m, err: err}
			if err == nil {
				lines := strings.Split(strings.TrimSpace(stdout.String()), "\n")
				if e := json.Unmarshal([]byte(lines[len(lines)-1]), &r.out); e != nil {
					r.err = fmt.Errorf("bad child output: %v: %s %s", e, stdout.String(), stderr.String())
				}
			} else {
				r.err = fmt.Errorf("%v: %s", err, stderr.String())
			}
			results[i] = r
		}(i, m)
	}
	wg.Wait()
	var rows []map[string]any
	nSent, nSentOK, nNeut, nNeutOK, nStale := 0, 0, 0, 0, 0
	for _, r := range results {
		row := map[string]any{"mutant": r.m.Name, "neutral": r.m.Neutral, "expect": r.m.Expect + "/" + r.m.Key}
		switch {
		case r.err != nil:
			fails = append(fails, fmt.Sprintf("mutant %s: %v", r.m.Name, r.err))
			row["result"] = "error"
		case r.out.Stale:
			nStale++
			row["result"] = "stale (edit no longer applies; not a failure)"
			fmt.Printf("NOTE property=%s stale mutant %s: its edit no longer applies to this tree (not a failure; the table needs an update)\n", prop, r.m.Name)
		case r.out.LoadErr != "":
			fails = append(fails, fmt.Sprintf("mutant %s does not type-check: %s", r.m.Name, r.out.LoadErr))
			row["result"] = "does not compile"
		default:
			var fresh []string
			for _, v := range r.out.Violated {
				if !baseViol[v] {
					fresh = append(fresh, v)
				}
			}
			var freshUnd []string
			for _, v := range r.out.Undecided {
				if !baseUnd[v] {
					freshUnd = append(freshUnd, v)
				}
			}
			row["new_violations"] = fresh
			if r.m.Neutral {
				nNeut++
				if len(fresh) == 0 && len(freshUnd) == 0 {
					nNeutOK++
					row["result"] = "silent (as required)"
				} else {
					fails = append(fails, fmt.Sprintf("neutral variant %s raised %v %v (false alarm in the rule)", r.m.Name, fresh, freshUnd))
					row["result"] = "FALSE ALARM"
				}
			} else {
				nSent++
				hit := false
				for _, v := range fresh {
					if strings.HasPrefix(v, r.m.Expect+"/") && strings.Contains(v, r.m.Key) {
						hit = true
					}
				}
				// a sentinel shared between properties names the rule of its home property; for the
				// other properties any new violation counts (their own rules must notice the change)
				expectServes := false
				for _, rl := range rulesFor(prop) {
					if rl.ID == r.m.Expect {
						expectServes = true
					}
				}
				if !expectServes && len(fresh) > 0 {
					hit = true
					row["note"] = "expected rule belongs to another property; detected by this property's own rules"
				}
				if hit {
					nSentOK++
					row["result"] = "detected"
				} else {
					fails = append(fails, fmt.Sprintf("sentinel mutant %s not detected by %s (key %q); new violations: %v", r.m.Name, r.m.Expect, r.m.Key, fresh))
					row["result"] = "NOT DETECTED"
				}
			}
		}
		rows = append(rows, row)
	}
	extra["sentinel_mutants"] = nSent
	extra["sentinel_mutants_detected"] = nSentOK
	extra["neutral_variants"] = nNeut
	extra["neutral_variants_silent"] = nNeutOK
	extra["stale_mutants"] = nStale
	extra["mutant_results"] = rows

	// platform re-runs: different file sets must give the same verdicts
	var plats []map[string]any
	for _, env := range [][]string{{"GOOS=darwin", "GOARCH=amd64"}, {"GOOS=windows", "GOARCH=amd64"}, {"GOOS=linux", "GOARCH=386"}} {
		c, _, err := evalRules(prop, "quick", repo, loadOpts{env: append([]string{"CGO_ENABLED=0"}, env...)})
		row := map[string]any{"platform": strings.Join(env, " ")}
		if err != nil {
			// a platform that does not load is reported, not failed: the
			// claim is about the default build
			row["result"] = "not loadable: " + firstLine(err.Error())
			plats = append(plats, row)
			continue
		}
		nv := 0
		for _, o := range c.obs {
			if o.Status == stViolated && !baseViol[o.ID()] {
				nv++
				fails = append(fails, fmt.Sprintf("platform %v: %s violated at %s: %s", env, o.ID(), o.Pos, o.How))
			}
		}
		row["obligations"] = len(c.obs)
		row["new_violations"] = nv
		row["result"] = "same verdicts"
		if nv > 0 {
			row["result"] = "DIFFERENT"
		}
		plats = append(plats, row)
	}
	extra["platforms"] = plats
	return extra, fails
}

func firstLine(s string) string {
	if i := strings.IndexByte(s, '\n'); i >= 0 {
		s = s[:i]
	}
	if len(s) > 200 {
		s = s[:200]
	}
	return s
}
