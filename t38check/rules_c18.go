package main

import (
	"fmt"
	"go/ast"
	"go/token"
	"go/types"
	"sort"
	"strings"

	"golang.org/x/tools/go/packages"
)

const luaPath = "github.com/yuin/gopher-lua"
const luaJSONPath = "layeh.com/gopher-json"

func init() {
	register(&Rule{ID: "R18.script-locks", Props: []string{"C18"}, Floor: 5,
		Text: "the lock table dispatches eval/evalsha exclusively, evalro/evalrosha shared and evalna/evalnasha unlocked; the atomic script dispatchers perform no lock operation; cmdEvalUnified performs none either (the lock taken by handleInputCommand spans the whole script)",
		Run:  ruleScriptLocks})
	register(&Rule{ID: "R18.ro-effect-free", Props: []string{"C18"}, Floor: 15,
		Text: "every handler that commandInScript dispatches for a command of luaTile38AtomicRO's read list writes no Server.mu-guarded location (transitively, synchronously)",
		Run:  ruleROEffectFree})
	register(&Rule{ID: "R18.sandbox-env", Props: []string{"C18"}, Floor: 60,
		Text: "the global environment built by lStatePool.New is enumerated from the source — SkipOpenLibs, the module openers, the name→function tables they register (tile38's literals and the pinned gopher-lua / gopher-json tables) — and equals the reviewed allow-list; no reference to the unrestricted openers or file loaders; the registered Go functions reach no os, os/exec, net, syscall, io/ioutil or plugin function through static calls (tile38.call/pcall only through luaTile38Call, which is governed by the script command tables)",
		Run:  ruleSandboxEnv})
	register(&Rule{ID: "R18.globals-locked", Props: []string{"C18"}, Floor: 1,
		Text: "lStatePool.New — or a helper it calls on every path to its return — installs on the globals table a metatable whose __newindex (a literal, a local bound to one, or a declared function) raises on every path",
		Run:  ruleGlobalsLocked})
	register(&Rule{ID: "R18.env-immutable", Props: []string{"C18"}, Floor: 6,
		Text: "the pooled interpreter carries nothing from one script to the next: besides the lock on new globals, every table a script can reach from its globals (the module tables tile38, json, table, math, string, os and the globals table itself for existing names) must be protected against writes by a metatable or a read-only proxy",
		Run:  ruleEnvImmutable})
	register(&Rule{ID: "R18.per-call-globals", Props: []string{"C18", "C07"}, Floor: 3,
		Text: "for every luaSetRawGlobals call that sets per-call globals on a pooled Lua state, every path from the set to a point where the state returns to the pool (a direct Put, or a return while a deferred Put is pending) passes a luaSetRawGlobals that resets the same keys to nil (directly, deferred, or in a deferred literal); an owner that receives the state (whereevalT) clears the keys before Put in its Close",
		Run:  rulePerCallGlobals})
	register(&Rule{ID: "R18.class-binding", Props: []string{"C18"}, Floor: 3,
		Text: "the script class is chosen from the EVAL_CMD global only in luaTile38Call; EVAL_CMD is set only by cmdEvalUnified and from msg.Command(); the three groups of luaTile38Call's switch are exactly the three lock-table arms of the eval family",
		Run:  ruleClassBinding})
}

func ruleScriptLocks(c *Ctx) {
	ct := c.CT()
	if ct.Err != "" {
		c.und("tables", 0, "%s", ct.Err)
		return
	}
	want := map[string]int{"eval": LX, "evalsha": LX, "evalro": LR, "evalrosha": LR, "evalna": LN, "evalnasha": LN}
	for _, cmd := range sortedKeys(setOfInts(want)) {
		lc := ct.classOf(cmd)
		if lc == nil {
			c.bad("lock-table/"+cmd, 0, "no lock-table class")
			continue
		}
		c.check(lc.Lock == want[cmd] && lc.Problem == "", "lock-table/"+cmd, lc.Clause.Clause.Pos(),
			"dispatched in state "+lockStr(lc.Lock), fmt.Sprintf("%s is dispatched in state %s, expected %s (%s)", cmd, lockStr(lc.Lock), lockStr(want[cmd]), lc.Problem))
	}
	for _, n := range []string{"luaTile38AtomicRW", "luaTile38AtomicRO", "cmdEvalUnified", "luaTile38Call", "commandInScript"} {
		fn := c.Func("internal/server", "Server", n)
		if fn == nil {
			c.und("no-lock-op/"+n, 0, "%s not found", n)
			continue
		}
		ops := 0
		ast.Inspect(fn.Decl.Body, func(x ast.Node) bool {
			if call, ok := x.(*ast.CallExpr); ok && c.serverMuOp(fn.Info(), call) != lkNone {
				ops++
			}
			return true
		})
		c.check(ops == 0, "no-lock-op/"+n, fn.Decl.Pos(), "performs no operation on Server.mu", fmt.Sprintf("%s performs %d operations on Server.mu inside the script's critical section", n, ops))
	}
}

func setOfInts(m map[string]int) map[string]bool {
	out := map[string]bool{}
	for k := range m {
		out[k] = true
	}
	return out
}

func ruleROEffectFree(c *Ctx) {
	a := c.muLK()
	if a.err != "" {
		c.und("engine", 0, "%s", a.err)
		return
	}
	fn, ss := scriptClassSwitch(c, "luaTile38AtomicRO")
	cis := c.Func("internal/server", "Server", "commandInScript")
	if fn == nil || ss == nil || cis == nil {
		c.und("anchors", 0, "luaTile38AtomicRO or commandInScript not found")
		return
	}
	// a command reaches the dispatch unless the arm of the class switch that handles it (explicit or default,
	// or none at all) returns unconditionally
	reaches := func(cmd string) bool {
		cl := ss.clauseFor(cmd)
		if cl == nil {
			return true // no arm and no default: falls through to the dispatch
		}
		lc := c.interpretLockArm(fn, ss, cl)
		return len(lc.Returns) == 0
	}
	allGuarded := map[string]bool{"Collection": true}
	for _, n := range serverGuardedNames {
		allGuarded["Server."+n] = true
	}
	for _, sw := range stringSwitches(cis, func(e ast.Expr) bool { return c.isCommandTag(cis, e) }) {
		for _, cl := range sw.Clauses {
			if cl.IsDefault {
				continue
			}
			hs, _ := c.armCallees(cis, cl.Clause.Body)
			for _, s := range cl.Strings {
				if !reaches(s) {
					c.ok("refused/"+s, cl.Clause.Pos(), false, "refused by the read-only class switch before the dispatch")
					continue
				}
				var eff []*accState
				for _, h := range hs {
					if u := a.lk.ofDecl[h]; u != nil {
						eff = append(eff, a.lk.effects(u, allGuarded)...)
					}
				}
				if len(eff) == 0 {
					c.ok(s, cl.Clause.Pos(), true, "handlers %s write no guarded location", handlerNames(hs))
				} else {
					c.badPath(s, cl.Clause.Pos(), []string{fmt.Sprintf("%s: %s at %s", eff[0].Unit.Name, eff[0].Acc.Desc, c.posStr(eff[0].Acc.Pos))},
						"command %q is offered to read-only scripts but its handler writes %s", s, eff[0].Acc.Loc)
				}
			}
		}
	}
}

// ---------------------------------------------------------------------------
// sandbox

// reviewed allow-list of the script environment (documented surface plus
// what the pinned libraries register under the opened module names)
var sandboxAllow = map[string][]string{
	"globals": {"_G", "_VERSION", "_GOPHER_LUA_VERSION", "tile38", "json", "tonumber", "tostring", "table", "math", "string", "os"},
	"_G":      {"tonumber", "tostring"},
	"os":      {"clock", "difftime"},
	"tile38":  {"call", "pcall", "error_reply", "status_reply", "sha1hex", "distance_to"},
	"json":    {"decode", "encode"},
	"table":   {"getn", "concat", "insert", "maxn", "remove", "sort"},
	"math": {"abs", "acos", "asin", "atan", "atan2", "ceil", "cos", "cosh", "deg", "exp", "floor", "fmod", "frexp", "ldexp", "log", "log10",
		"max", "min", "mod", "modf", "pow", "rad", "random", "randomseed", "sin", "sinh", "sqrt", "tan", "tanh", "pi", "huge"},
	"string": {"byte", "char", "dump", "find", "format", "gsub", "len", "lower", "match", "rep", "reverse", "sub", "upper", "gmatch", "gfind", "__index"},
}

var forbiddenPkgs = map[string]bool{"os": true, "os/exec": true, "net": true, "syscall": true, "io/ioutil": true, "plugin": true, "net/http": true}

// mapLitKeys: string keys of a map composite literal.
func mapLitKeys(info *types.Info, cl *ast.CompositeLit) (keys []string, vals []ast.Expr) {
	for _, e := range cl.Elts {
		if kv, ok := e.(*ast.KeyValueExpr); ok {
			if s, ok := constString(info, kv.Key); ok {
				keys = append(keys, s)
				vals = append(vals, kv.Value)
			}
		}
	}
	return
}

// pkgVarMapLit finds `var name = map[string]...{...}` in a package.
func pkgVarMapLit(pk *packages.Package, name string) *ast.CompositeLit {
	var out *ast.CompositeLit
	for _, f := range pk.Syntax {
		for _, d := range f.Decls {
			gd, ok := d.(*ast.GenDecl)
			if !ok {
				continue
			}
			for _, sp := range gd.Specs {
				vs, ok := sp.(*ast.ValueSpec)
				if !ok {
					continue
				}
				for i, nm := range vs.Names {
					if nm.Name == name && i < len(vs.Values) {
						if cl, ok := vs.Values[i].(*ast.CompositeLit); ok {
							out = cl
						}
					}
				}
			}
		}
	}
	return out
}

// stringsSetIn: names set with X.RawSetString("k", ...) / L.SetGlobal("k", ...) / L.SetField(t,"k",...) in a body.
func setStringsIn(info *types.Info, body ast.Node, methods ...string) []string {
	var out []string
	ast.Inspect(body, func(n ast.Node) bool {
		call, ok := n.(*ast.CallExpr)
		if !ok {
			return true
		}
		se, ok := ast.Unparen(call.Fun).(*ast.SelectorExpr)
		if !ok || !contains(methods, se.Sel.Name) || len(call.Args) < 1 {
			return true
		}
		if s, ok := constString(info, call.Args[0]); ok {
			out = append(out, s)
		}
		return true
	})
	return out
}

func ruleSandboxEnv(c *Ctx) {
	newFn := c.Func("internal/server", "lStatePool", "New")
	if newFn == nil {
		c.und("anchors", 0, "lStatePool.New not found")
		return
	}
	info := newFn.Info()
	srv := c.Pkgs["internal/server"]
	luaPk := c.All[luaPath]
	jsonPk := c.All[luaJSONPath]
	if luaPk == nil || jsonPk == nil || len(luaPk.Syntax) == 0 {
		c.und("libraries", 0, "gopher-lua / gopher-json source not loaded")
		return
	}
	// 1. SkipOpenLibs: true
	skip := false
	ast.Inspect(newFn.Decl.Body, func(n ast.Node) bool {
		cl, ok := n.(*ast.CompositeLit)
		if !ok || !isNamedType(info.Types[cl].Type, luaPath, "Options") {
			return true
		}
		for _, e := range cl.Elts {
			if kv, ok := e.(*ast.KeyValueExpr); ok {
				if id, ok := kv.Key.(*ast.Ident); ok && id.Name == "SkipOpenLibs" && boolConst(info, kv.Value) == '1' {
					skip = true
				}
			}
		}
		return true
	})
	c.check(skip, "skip-open-libs", newFn.Decl.Pos(), "lua.NewState is called with SkipOpenLibs: true", "the Lua state is created with the standard libraries open")

	// 2. module openers referenced in New: every function value of type lua.LGFunction mentioned
	allowedOpeners := map[string]bool{"server.openBaseSubset": true, "lua.OpenTable": true, "lua.OpenMath": true, "lua.OpenString": true, "server.openOsSubset": true}
	openerModule := map[string]string{"server.openBaseSubset": "_G", "lua.OpenTable": "table", "lua.OpenMath": "math", "lua.OpenString": "string", "server.openOsSubset": "os"}
	var openers []string
	ast.Inspect(newFn.Decl.Body, func(n ast.Node) bool {
		var id *ast.Ident
		switch x := n.(type) {
		case *ast.Ident:
			id = x
		case *ast.SelectorExpr:
			id = x.Sel
		default:
			return true
		}
		f, ok := info.Uses[id].(*types.Func)
		if !ok || f.Type().(*types.Signature).Recv() != nil {
			return true
		}
		// opener: func(*lua.LState) int declared at package level
		sig := f.Type().(*types.Signature)
		if sig.Params().Len() == 1 && isNamedType(sig.Params().At(0).Type(), luaPath, "LState") && sig.Results().Len() == 1 &&
			types.Identical(sig.Results().At(0).Type(), types.Typ[types.Int]) {
			openers = append(openers, f.Pkg().Name()+"."+f.Name())
		}
		return true
	})
	sort.Strings(openers)
	for _, o := range openers {
		if o == "json.Loader" || o == "luajson.Loader" {
			c.ok("opener/"+o, newFn.Decl.Pos(), true, "json module loader (functions checked below)")
			continue
		}
		c.check(allowedOpeners[o], "opener/"+o, newFn.Decl.Pos(), "allow-listed module opener", "module opener "+o+" is not on the allow-list (io, os, package, debug, coroutine, channel must stay closed)")
	}
	// every allow-listed opener should still be present (the environment is *exactly* the list)
	for o := range allowedOpeners {
		if !contains(openers, o) {
			c.bad("opener-present/"+o, newFn.Decl.Pos(), "allow-listed module %s is no longer opened: the script environment is smaller than documented", openerModule[o])
		} else {
			c.ok("opener-present/"+o, newFn.Decl.Pos(), false, "opened")
		}
	}

	// 3. names registered per module
	got := map[string][]string{}
	// tile38 literals: map literals of type map[string]lua.LGFunction in New, openBaseSubset, openOsSubset
	litOwner := map[string]string{"New": "tile38", "openBaseSubset": "_G", "openOsSubset": "os"}
	regFuncs := map[string][]ast.Expr{} // module → registered Go function expressions
	for fname, mod := range litOwner {
		var fi *FuncInfo
		if fname == "New" {
			fi = newFn
		} else {
			fi = c.Func("internal/server", "", fname)
		}
		if fi == nil {
			c.und("module/"+mod, 0, "%s not found", fname)
			continue
		}
		ast.Inspect(fi.Decl.Body, func(n ast.Node) bool {
			cl, ok := n.(*ast.CompositeLit)
			if !ok {
				return true
			}
			mt, ok := fi.Info().Types[cl].Type.Underlying().(*types.Map)
			if !ok || !isNamedType(mt.Elem(), luaPath, "LGFunction") {
				return true
			}
			ks, vs := mapLitKeys(fi.Info(), cl)
			got[mod] = append(got[mod], ks...)
			regFuncs[mod] = append(regFuncs[mod], vs...)
			return true
		})
	}
	// globals set directly
	globals := setStringsIn(info, newFn.Decl.Body, "SetGlobal")
	if ob := c.Func("internal/server", "", "openBaseSubset"); ob != nil {
		globals = append(globals, setStringsIn(ob.Info(), ob.Decl.Body, "SetGlobal")...)
	}
	// a module opener registers its module table as a global of that name; _G functions are globals
	for _, o := range openers {
		if m := openerModule[o]; m != "" && m != "_G" {
			globals = append(globals, m)
		}
	}
	globals = append(globals, got["_G"]...)
	got["globals"] = globals
	// library tables
	libTables := map[string]struct {
		pk   *packages.Package
		name string
		open string
	}{"table": {luaPk, "tableFuncs", "OpenTable"}, "math": {luaPk, "mathFuncs", "OpenMath"}, "string": {luaPk, "strFuncs", "OpenString"}, "json": {jsonPk, "api", "Loader"}}
	for mod, lt := range libTables {
		cl := pkgVarMapLit(lt.pk, lt.name)
		if cl == nil {
			c.und("module/"+mod, 0, "table %s not found in %s", lt.name, lt.pk.PkgPath)
			continue
		}
		ks, _ := mapLitKeys(lt.pk.TypesInfo, cl)
		got[mod] = append(got[mod], ks...)
		// extra names the opener sets with RawSetString / SetField
		for _, f := range lt.pk.Syntax {
			for _, d := range f.Decls {
				if fd, ok := d.(*ast.FuncDecl); ok && fd.Name.Name == lt.open && fd.Body != nil {
					got[mod] = append(got[mod], setStringsIn(lt.pk.TypesInfo, fd.Body, "RawSetString", "SetField")...)
				}
			}
		}
	}
	for mod, allow := range sandboxAllow {
		g := setOf(got[mod])
		a := setOf(allow)
		extra, missing := diff(g, a), diff(a, g)
		for _, k := range sortedKeys(g) {
			if a[k] {
				c.ok("name/"+mod+"."+k, newFn.Decl.Pos(), true, "on the allow-list")
			}
		}
		for _, k := range extra {
			c.bad("name/"+mod+"."+k, newFn.Decl.Pos(), "script environment contains %s.%s which is not on the reviewed allow-list", mod, k)
		}
		for _, k := range missing {
			c.bad("name-missing/"+mod+"."+k, newFn.Decl.Pos(), "documented script name %s.%s is no longer registered (environment must equal the allow-list)", mod, k)
		}
	}
	// 4. no reference to unrestricted openers / file loaders anywhere in internal/server
	banned := map[string]bool{"OpenBase": true, "OpenIo": true, "OpenOs": true, "OpenPackage": true, "OpenDebug": true, "OpenChannel": true,
		"OpenCoroutine": true, "OpenLibs": true, "DoFile": true, "LoadFile": true}
	nref := 0
	for _, f := range srv.Syntax {
		ast.Inspect(f, func(n ast.Node) bool {
			se, ok := n.(*ast.SelectorExpr)
			if !ok {
				return true
			}
			o := srv.TypesInfo.Uses[se.Sel]
			if o == nil || o.Pkg() == nil || o.Pkg().Path() != luaPath {
				return true
			}
			nref++
			if banned[o.Name()] {
				c.bad("banned-reference/"+o.Name(), se.Pos(), "reference to lua.%s: gives scripts access to the unrestricted library / file loading", o.Name())
			}
			return true
		})
	}
	c.stat("gopher_lua_references_scanned", nref)
	c.ok("banned-references", 0, true, "%d references to gopher-lua in internal/server, none to OpenBase/OpenIo/OpenOs/OpenPackage/OpenDebug/OpenChannel/OpenCoroutine/OpenLibs/DoFile/LoadFile", nref)

	// 5. the registered tile38 Go functions reach no forbidden package by static calls
	ltc := c.Func("internal/server", "Server", "luaTile38Call")
	for mod, exprs := range regFuncs {
		for i, e := range exprs {
			name := got[mod][i]
			var body ast.Node
			var finfo *types.Info = info
			switch x := ast.Unparen(e).(type) {
			case *ast.FuncLit:
				body = x.Body
			case *ast.Ident:
				if lits := findLitBinding(newFn, x); lits != nil {
					body = lits.Body
				} else if f, ok := info.Uses[x].(*types.Func); ok {
					if fi := c.FuncOf(f); fi != nil {
						body, finfo = fi.Decl.Body, fi.Info()
					}
				}
			}
			if body == nil {
				c.und("reach/"+mod+"."+name, e.Pos(), "registered function not resolvable")
				continue
			}
			bad := c.forbiddenReach(finfo, body, ltc, 3, map[*types.Func]bool{})
			if bad == "" {
				c.ok("reach/"+mod+"."+name, e.Pos(), true, "reaches no os/exec/net/syscall function by static calls (tile38.call only via luaTile38Call)")
			} else {
				c.bad("reach/"+mod+"."+name, e.Pos(), "script function %s.%s reaches %s", mod, name, bad)
			}
		}
	}
}

func findLitBinding(fn *FuncInfo, id *ast.Ident) *ast.FuncLit {
	info := fn.Info()
	o := info.ObjectOf(id)
	var out *ast.FuncLit
	ast.Inspect(fn.Decl.Body, func(n ast.Node) bool {
		if as, ok := n.(*ast.AssignStmt); ok && len(as.Lhs) == len(as.Rhs) {
			for i, l := range as.Lhs {
				if lid, ok := l.(*ast.Ident); ok && info.ObjectOf(lid) == o {
					if lit, ok := ast.Unparen(as.Rhs[i]).(*ast.FuncLit); ok {
						out = lit
					}
				}
			}
		}
		return true
	})
	return out
}

// forbiddenReach: a forbidden package function reachable from body through
// static calls of tile38 functions (depth-bounded); luaTile38Call is a
// boundary governed by the script command tables.
func (c *Ctx) forbiddenReach(info *types.Info, body ast.Node, boundary *FuncInfo, depth int, seen map[*types.Func]bool) string {
	found := ""
	ast.Inspect(body, func(n ast.Node) bool {
		if found != "" {
			return false
		}
		call, ok := n.(*ast.CallExpr)
		if !ok {
			return true
		}
		f := callee(info, call)
		if f == nil || f.Pkg() == nil {
			return true
		}
		if forbiddenPkgs[f.Pkg().Path()] {
			found = f.Pkg().Path() + "." + f.Name()
			return false
		}
		if boundary != nil && f == boundary.Obj {
			return true
		}
		if depth > 0 && !seen[f] {
			if fi := c.FuncOf(f); fi != nil {
				seen[f] = true
				if r := c.forbiddenReach(fi.Info(), fi.Decl.Body, boundary, depth-1, seen); r != "" {
					found = f.Name() + " → " + r
				}
			}
		}
		return true
	})
	return found
}

func ruleGlobalsLocked(c *Ctx) {
	newFn := c.Func("internal/server", "lStatePool", "New")
	if newFn == nil {
		c.und("anchors", 0, "lStatePool.New not found")
		return
	}
	info := newFn.Info()
	// the installation may sit in New itself or in a helper New calls (the helper's body is then part of New)
	x := newXFlow(c, info, newFn.Decl.Body, func(f *types.Func) bool { return f.Pkg() != nil && f.Pkg().Path() == modPath+"/internal/server" })
	// SetMetatable(L.Get(lua.GlobalsIndex), mt)
	var mtObj types.Object
	sets := x.Find(func(n ast.Node) bool {
		call, ok := n.(*ast.CallExpr)
		if !ok || len(call.Args) != 2 {
			return false
		}
		f := callee(info, call)
		if !isMethod(f, luaPath, "LState", "SetMetatable") {
			return false
		}
		// first arg mentions GlobalsIndex
		isG := false
		ast.Inspect(call.Args[0], func(x ast.Node) bool {
			if se, ok := x.(*ast.SelectorExpr); ok && se.Sel.Name == "GlobalsIndex" {
				isG = true
			}
			return true
		})
		if !isG {
			return false
		}
		if id, ok := ast.Unparen(call.Args[1]).(*ast.Ident); ok {
			mtObj = info.ObjectOf(id)
		}
		return true
	})
	if len(sets) == 0 || mtObj == nil {
		c.bad("metatable-installed", newFn.Decl.Pos(), "no SetMetatable on the globals table in lStatePool.New (or a helper it calls): scripts can create globals that survive in the pooled state")
		return
	}
	okDom := true
	for _, r := range x.Host.Returns() {
		if !x.Dominates(sets[0], XLoc{Outer: r, N: r.Node}) {
			okDom = false
		}
	}
	c.check(okDom, "metatable-installed", sets[0].Pos(), "SetMetatable(globals, mt) dominates the return of the new state", "a state can be returned without the globals metatable")
	// the function that contains the installation
	instFn := newFn
	if sets[0].H != nil {
		instFn = sets[0].H.fi
	}
	// mt.RawSetString("__newindex", L.NewFunction(f)) with f raising
	raises := false
	ast.Inspect(instFn.Decl.Body, func(n ast.Node) bool {
		call, ok := n.(*ast.CallExpr)
		if !ok || len(call.Args) != 2 {
			return true
		}
		se, ok := ast.Unparen(call.Fun).(*ast.SelectorExpr)
		if !ok || se.Sel.Name != "RawSetString" {
			return true
		}
		id, ok := ast.Unparen(se.X).(*ast.Ident)
		if !ok || info.ObjectOf(id) != mtObj {
			return true
		}
		if s, ok := constString(info, call.Args[0]); !ok || s != "__newindex" {
			return true
		}
		// the function value
		var fnExpr ast.Expr
		if nf, ok := ast.Unparen(call.Args[1]).(*ast.CallExpr); ok && len(nf.Args) == 1 {
			fnExpr = nf.Args[0]
		}
		var body ast.Node
		switch x := ast.Unparen(fnExpr).(type) {
		case *ast.FuncLit:
			body = x.Body
		case *ast.Ident:
			if l := findLitBinding(instFn, x); l != nil {
				body = l.Body
			} else if f, ok := info.Uses[x].(*types.Func); ok {
				if fi := c.FuncOf(f); fi != nil {
					body = fi.Decl.Body
				}
			}
		}
		if body != nil {
			lfg := newFlowGraph(info, body.(*ast.BlockStmt))
			rs := lfg.FindCalls(func(f *types.Func, call *ast.CallExpr) bool { return isMethod(f, luaPath, "LState", "RaiseError") })
			allRet := len(rs) > 0
			for _, r := range lfg.Returns() {
				d := false
				for _, x := range rs {
					if lfg.Dominates(x, r) {
						d = true
					}
				}
				if !d {
					allRet = false
				}
			}
			raises = allRet
		}
		return true
	})
	c.check(raises, "newindex-raises", sets[0].Pos(), "__newindex of the globals metatable raises on every path", "the globals metatable has no __newindex that always raises: scripts can create new globals")
}

// ---------------------------------------------------------------------------
// per-call globals

func isSetRawGlobals(f *types.Func) bool {
	return isFunc(f, modPath+"/internal/server", "luaSetRawGlobals") || isFunc(f, modPath+"/internal/server", "luaSetEvalCmd")
}

// globalsLit: keys of the map literal argument and whether all values are lua.LNil.
func globalsLit(info *types.Info, call *ast.CallExpr) (keys []string, allNil bool, ok bool) {
	if len(call.Args) != 2 {
		return nil, false, false
	}
	if isFunc(callee(info, call), modPath+"/internal/server", "luaSetEvalCmd") {
		// the eval command kept in the registry: one pseudo key
		if se, ok := ast.Unparen(call.Args[1]).(*ast.SelectorExpr); ok && se.Sel.Name == "LNil" {
			return []string{"<eval command>"}, true, true
		}
		return []string{"<eval command>"}, false, true
	}
	cl, isLit := ast.Unparen(call.Args[1]).(*ast.CompositeLit)
	if !isLit {
		return nil, false, false
	}
	allNil = true
	for _, e := range cl.Elts {
		kv, isKV := e.(*ast.KeyValueExpr)
		if !isKV {
			return nil, false, false
		}
		k, isStr := constString(info, kv.Key)
		if !isStr {
			return nil, false, false
		}
		keys = append(keys, k)
		isNil := false
		if se, ok := ast.Unparen(kv.Value).(*ast.SelectorExpr); ok && se.Sel.Name == "LNil" {
			isNil = true
		}
		if !isNil {
			allNil = false
		}
	}
	return keys, allNil, true
}

func isPoolPut(f *types.Func) bool {
	return isMethod(f, modPath+"/internal/server", "lStatePool", "Put")
}

// poolReturner: f hands a Lua state back to the pool — it is lStatePool.Put, or a repository function that
// calls such a function on every... some path (a release helper). clears lists the per-call globals that f
// resets to nil, by an all-nil luaSetRawGlobals call that dominates every hand-back in f (plus what the inner
// returner resets).
type poolRet struct {
	is     bool
	clears map[string]bool
}

var poolRetMemo = map[*types.Func]*poolRet{}

func (c *Ctx) poolReturner(f *types.Func) *poolRet {
	if f == nil {
		return &poolRet{}
	}
	if r, ok := poolRetMemo[f]; ok {
		return r
	}
	r := &poolRet{clears: map[string]bool{}}
	poolRetMemo[f] = r
	if isPoolPut(f) {
		r.is = true
		return r
	}
	fi := c.FuncOf(f)
	if fi == nil || fi.Decl.Body == nil || f.Name() == "Close" {
		return r
	}
	info := fi.Info()
	fg := newFlowGraph(info, fi.Decl.Body)
	inner := fg.FindCalls(func(g *types.Func, call *ast.CallExpr) bool { return g != nil && g != f && c.poolReturner(g).is })
	if len(inner) == 0 {
		return r
	}
	r.is = true
	first := true
	for _, p := range inner {
		got := map[string]bool{}
		if call, ok := p.Node.(*ast.CallExpr); ok {
			for k := range c.poolReturner(callee(info, call)).clears {
				got[k] = true
			}
		}
		for _, cl := range fg.Find(func(x ast.Node) bool {
			call, ok := x.(*ast.CallExpr)
			return ok && isSetRawGlobals(callee(info, call))
		}) {
			ks, allNil, ok := globalsLit(info, cl.Node.(*ast.CallExpr))
			if ok && allNil && fg.Dominates(cl, p) {
				for _, k := range ks {
					got[k] = true
				}
			}
		}
		if first {
			r.clears, first = got, false
		} else {
			for k := range r.clears {
				if !got[k] {
					delete(r.clears, k)
				}
			}
		}
	}
	return r
}

// clearedBy: the per-call globals that repository function f resets to nil on every normal path through it
// (an all-nil luaSetRawGlobals / luaSetEvalCmd(…, LNil) call that no path to an exit avoids, or a call of such a
// helper).
var clearedByMemo = map[*types.Func]map[string]bool{}

func (c *Ctx) clearedBy(f *types.Func, depth int) map[string]bool {
	if f == nil || depth > 2 {
		return nil
	}
	if m, ok := clearedByMemo[f]; ok {
		return m
	}
	out := map[string]bool{}
	clearedByMemo[f] = out
	fi := c.FuncOf(f)
	if fi == nil || fi.Decl.Body == nil || isSetRawGlobals(f) {
		return out
	}
	info := fi.Info()
	fg := newFlowGraph(info, fi.Decl.Body)
	for _, cl := range fg.Find(func(x ast.Node) bool { _, ok := x.(*ast.CallExpr); return ok }) {
		call := cl.Node.(*ast.CallExpr)
		g := callee(info, call)
		var ks []string
		if isSetRawGlobals(g) {
			k2, allNil, ok := globalsLit(info, call)
			if !ok || !allNil {
				continue
			}
			ks = k2
		} else {
			for k := range c.clearedBy(g, depth+1) {
				ks = append(ks, k)
			}
		}
		if len(ks) == 0 {
			continue
		}
		// no path from the entry to an exit avoids this call
		skip, _ := fg.Reach(PathQuery{Target: func(l Loc) bool { return isReturn(l.Node) }, Avoid: func(l Loc) bool { return l.Block == cl.Block && l.Idx == cl.Idx }})
		if !skip {
			for _, b := range fg.G.Blocks {
				if fg.Reachable(b) && len(b.Succs) == 0 && (len(b.Nodes) == 0 || !isReturn(b.Nodes[len(b.Nodes)-1])) {
					if len(b.Nodes) > 0 && endsInNoReturn(info, b.Nodes[len(b.Nodes)-1]) {
						continue
					}
					if ok, _ := reachBlockAvoiding(fg, b, func(t Loc) bool { return t.Block == cl.Block && t.Idx == cl.Idx }, func(*cfgBlock, int) bool { return false }); ok {
						skip = true
					}
				}
			}
		}
		if !skip {
			for _, k := range ks {
				out[k] = true
			}
		}
	}
	return out
}

// returnerClears: the call hands the state back through a function that resets all of keys first.
func (c *Ctx) returnerClears(f *types.Func, keys []string) bool {
	r := c.poolReturner(f)
	if !r.is {
		return false
	}
	for _, k := range keys {
		if !r.clears[k] {
			return false
		}
	}
	return true
}

func rulePerCallGlobals(c *Ctx) {
	n := 0
	for _, fn := range c.AllFuncs("internal/server") {
		info := fn.Info()
		type setSite struct {
			call *ast.CallExpr
			keys []string
		}
		var sets []setSite
		inspectNoLit(fn.Decl.Body, func(x ast.Node) bool {
			call, ok := x.(*ast.CallExpr)
			if !ok || !isSetRawGlobals(callee(info, call)) {
				return true
			}
			keys, allNil, ok := globalsLit(info, call)
			if !ok {
				c.und(funcName(fn.Obj)+"/non-literal-globals", call.Pos(), "luaSetRawGlobals called with a non-literal table: keys not enumerable")
				return true
			}
			if !allNil {
				// a clear inside a defer statement is not a set
				sets = append(sets, setSite{call, keys})
			}
			return true
		})
		if len(sets) == 0 {
			continue
		}
		fg := newFlowGraph(info, fn.Decl.Body)
		// clear events: a block node that (a) is a luaSetRawGlobals all-nil call covering keys, directly or
		// (b) is a defer of such a call or of a literal containing such a call
		clearsKeys := func(node ast.Node, keys []string) bool {
			hit := false
			union := map[string]bool{}
			ast.Inspect(node, func(x ast.Node) bool {
				call, ok := x.(*ast.CallExpr)
				if !ok {
					return true
				}
				f := callee(info, call)
				if !isSetRawGlobals(f) {
					// a clean-up helper: the globals it resets on every path
					for k := range c.clearedBy(f, 0) {
						union[k] = true
					}
					return true
				}
				ks, allNil, ok := globalsLit(info, call)
				if ok && allNil && len(diff(setOf(keys), setOf(ks))) == 0 {
					hit = true
				}
				if ok && allNil {
					for _, k := range ks {
						union[k] = true
					}
				}
				return true
			})
			if !hit && len(union) > 0 {
				all := true
				for _, k := range keys {
					if !union[k] {
						all = false
					}
				}
				hit = all
			}
			return hit
		}
		// owner hand-off: the state is stored into a composite literal of a type whose Close clears+puts
		hasDeferPut := fg.Find(func(x ast.Node) bool {
			d, ok := x.(*ast.DeferStmt)
			return ok && c.poolReturner(callee(info, d.Call)).is
		})
		for _, s := range sets {
			n++
			key := funcName(fn.Obj) + "→set{" + strings.Join(s.keys, ",") + "}"
			sl := fg.LocOf(s.call)
			if !sl.Valid() {
				c.und(key, s.call.Pos(), "set call not located")
				continue
			}
			// pool-return points
			isPoolReturn := func(l Loc) bool {
				// direct Put (or owner.Close()) in this node
				direct := false
				inspectNoLit(l.Node, func(x ast.Node) bool {
					if _, isDefer := x.(*ast.DeferStmt); isDefer {
						return false
					}
					if call, ok := x.(*ast.CallExpr); ok {
						f := callee(info, call)
						if c.poolReturner(f).is && !c.returnerClears(f, s.keys) {
							direct = true
						}
					}
					return true
				})
				if direct {
					return true
				}
				if _, isRet := l.Node.(*ast.ReturnStmt); isRet {
					// a deferred hand-back pending at this return that does not reset the keys itself?
					for _, d := range hasDeferPut {
						if c.returnerClears(callee(info, d.Node.(*ast.DeferStmt).Call), s.keys) {
							continue
						}
						if r, _ := fg.Reach(PathQuery{From: d, Target: func(x Loc) bool { return x.Block == l.Block && x.Idx == l.Idx }}); r {
							return true
						}
					}
				}
				return false
			}
			reach, trail := fg.Reach(PathQuery{
				From:   sl,
				Target: isPoolReturn,
				Avoid: func(l Loc) bool {
					// owner.Close() clears inside (checked separately): treat a call of a Close method whose body clears as a clear
					if clearsKeys(l.Node, s.keys) {
						return true
					}
					cleared := false
					inspectNoLit(l.Node, func(x ast.Node) bool {
						if call, ok := x.(*ast.CallExpr); ok {
							if f := callee(info, call); f != nil && f.Name() == "Close" {
								if fi := c.FuncOf(f); fi != nil && closeClearsThenPuts(c, fi, s.keys) {
									cleared = true
								}
							}
						}
						return true
					})
					return cleared
				},
			})
			if reach {
				var path []string
				for _, nd := range trail {
					path = append(path, c.posStr(nd.Pos()))
				}
				c.badPath(key, s.call.Pos(), path, "the Lua state can return to the pool with the per-call globals %v still set: the next user of the state (EVAL or WHEREEVAL) sees them", s.keys)
			} else {
				c.ok(key, s.call.Pos(), true, "every path from the set to a pool return passes a reset of %v", s.keys)
			}
		}
	}
	// owners: types with a Close that Puts a state must clear before Put
	for _, fn := range c.AllFuncs("internal/server") {
		if fn.Obj.Name() != "Close" {
			continue
		}
		info := fn.Info()
		puts := 0
		ast.Inspect(fn.Decl.Body, func(x ast.Node) bool {
			if call, ok := x.(*ast.CallExpr); ok && c.poolReturner(callee(info, call)).is {
				puts++
			}
			return true
		})
		if puts == 0 {
			continue
		}
		n++
		c.check(closeClearsThenPuts(c, fn, []string{"ARGV"}), funcName(fn.Obj)+"→clear-before-put", fn.Decl.Pos(),
			"the owner clears ARGV before returning the state to the pool", "the owner returns the state to the pool without clearing the globals its creator set (ARGV)")
	}
	if n == 0 {
		c.bad("no-sites", 0, "no per-call globals found")
	}
}

// closeClearsThenPuts: in fn, a clear of keys dominates every Put.
func closeClearsThenPuts(c *Ctx, fn *FuncInfo, keys []string) bool {
	info := fn.Info()
	fg := newFlowGraph(info, fn.Decl.Body)
	puts := fg.FindCalls(func(f *types.Func, call *ast.CallExpr) bool { return c.poolReturner(f).is })
	clears := fg.Find(func(x ast.Node) bool {
		call, ok := x.(*ast.CallExpr)
		if !ok || !isSetRawGlobals(callee(info, call)) {
			return false
		}
		ks, allNil, ok := globalsLit(info, call)
		return ok && allNil && len(diff(setOf(keys), setOf(ks))) == 0
	})
	if len(puts) == 0 {
		return false
	}
	for _, p := range puts {
		d := false
		for _, cl := range clears {
			if fg.Dominates(cl, p) {
				d = true
			}
		}
		if call, ok := p.Node.(*ast.CallExpr); ok && c.returnerClears(callee(info, call), keys) {
			d = true
		}
		if !d {
			return false
		}
	}
	return true
}

func ruleClassBinding(c *Ctx) {
	ct := c.CT()
	if ct.Err != "" {
		c.und("tables", 0, "%s", ct.Err)
		return
	}
	// 1. the class selector is not script-writable: it is not read from the globals table, it is written
	//    only by cmdEvalUnified, from msg.Command()
	newFn := c.Func("internal/server", "lStatePool", "New")
	get := c.Func("internal/server", "", "luaGetEvalCmd")
	set := c.Func("internal/server", "", "luaSetEvalCmd")
	if newFn == nil {
		c.und("anchors", 0, "lStatePool.New not found")
		return
	}
	usesGlobals := func(fi *FuncInfo) bool {
		hit := false
		ast.Inspect(fi.Decl.Body, func(n ast.Node) bool {
			switch x := n.(type) {
			case *ast.CallExpr:
				if f := callee(fi.Info(), x); isMethod(f, luaPath, "LState", "GetGlobal") {
					hit = true
				}
			case *ast.SelectorExpr:
				if x.Sel.Name == "GlobalsIndex" {
					if o := fi.Info().ObjectOf(x.Sel); o != nil && o.Pkg() != nil && o.Pkg().Path() == luaPath {
						hit = true
					}
				}
			}
			return true
		})
		return hit
	}
	// the value passed to luaTile38Call as the class selector, traced to its source inside New
	info := newFn.Info()
	selectorFromGlobals := false
	nCalls := 0
	ast.Inspect(newFn.Decl.Body, func(n ast.Node) bool {
		call, ok := n.(*ast.CallExpr)
		if !ok || !isMethod(callee(info, call), modPath+"/internal/server", "Server", "luaTile38Call") || len(call.Args) == 0 {
			return true
		}
		nCalls++
		return true
	})
	// every literal of New that produces the selector (the one assigning a string result named evalCmd, or any
	// literal calling GetGlobal) must not read script-visible globals to obtain a string
	ast.Inspect(newFn.Decl.Body, func(n ast.Node) bool {
		call, ok := n.(*ast.CallExpr)
		if !ok {
			return true
		}
		if f := callee(info, call); isMethod(f, luaPath, "LState", "GetGlobal") {
			selectorFromGlobals = true
		}
		return true
	})
	c.check(nCalls >= 2 && !selectorFromGlobals, "selector-not-script-writable", newFn.Decl.Pos(),
		"the tile38.call closures do not read script-visible globals; the eval command comes from the registry",
		"the eval command that selects the script class is read from a Lua global: a script can overwrite a global that exists during its call (EVAL_CMD = 'eval' inside EVALRO) and run writes from a read-only script")
	if get == nil || set == nil {
		c.bad("registry-accessors", newFn.Decl.Pos(), "luaGetEvalCmd/luaSetEvalCmd not found: the eval command is not kept out of the script's reach")
	} else {
		c.check(!usesGlobals(get) && !usesGlobals(set), "registry-accessors", get.Decl.Pos(), "the accessors use the registry, not the globals table", "the eval command accessors touch the globals table")
	}
	var setters []string
	setFromCommand := true
	for _, fn := range c.AllFuncs("internal/server") {
		finfo := fn.Info()
		ast.Inspect(fn.Decl.Body, func(n ast.Node) bool {
			call, ok := n.(*ast.CallExpr)
			if !ok || set == nil || callee(finfo, call) != set.Obj || len(call.Args) != 2 {
				return true
			}
			if se, ok := ast.Unparen(call.Args[1]).(*ast.SelectorExpr); ok && se.Sel.Name == "LNil" {
				return true
			}
			setters = append(setters, fn.Obj.Name())
			okv := false
			ast.Inspect(call.Args[1], func(y ast.Node) bool {
				if e, ok := y.(ast.Expr); ok && isCommandCall(finfo, e) {
					okv = true
				}
				return true
			})
			if !okv {
				setFromCommand = false
			}
			return true
		})
	}
	c.check(len(setters) == 1 && setters[0] == "cmdEvalUnified" && setFromCommand, "eval-cmd-setter", 0,
		"the eval command is set only by cmdEvalUnified, from msg.Command()", fmt.Sprintf("the eval command is set by %v (from msg.Command(): %v)", setters, setFromCommand))
	// 2. luaTile38Call's evalcmd switch groups = the LT arms of the eval family
	ltc := c.Func("internal/server", "Server", "luaTile38Call")
	if ltc == nil {
		c.und("luaTile38Call", 0, "not found")
		return
	}
	info = ltc.Info()
	var sw *strSwitch
	for _, ss := range stringSwitches(ltc, func(e ast.Expr) bool {
		id, ok := ast.Unparen(e).(*ast.Ident)
		params := ltc.Decl.Type.Params.List
		return ok && len(params) > 0 && len(params[0].Names) > 0 && info.ObjectOf(id) == info.ObjectOf(params[0].Names[0])
	}) {
		sw = ss
	}
	if sw == nil {
		c.bad("evalcmd-switch", ltc.Decl.Pos(), "luaTile38Call has no switch on its eval-command parameter")
		return
	}
	wantTarget := map[string]string{"eval": "luaTile38AtomicRW", "evalsha": "luaTile38AtomicRW", "evalro": "luaTile38AtomicRO", "evalrosha": "luaTile38AtomicRO", "evalna": "luaTile38NonAtomic", "evalnasha": "luaTile38NonAtomic"}
	seen := map[string]bool{}
	for _, cl := range sw.Clauses {
		if cl.IsDefault {
			continue
		}
		hs, _ := c.armCallees(ltc, cl.Clause.Body)
		for _, s := range cl.Strings {
			seen[s] = true
			okk := false
			for _, h := range hs {
				if h.Name() == wantTarget[s] {
					okk = true
				}
			}
			// and the lock classes of the strings of one arm agree
			lc0, lc := ct.classOf(cl.Strings[0]), ct.classOf(s)
			same := lc0 != nil && lc != nil && lc0.Lock == lc.Lock
			c.check(okk && same, "evalcmd-arm/"+s, cl.Clause.Pos(), "dispatches to "+wantTarget[s]+" and shares the lock class of its arm",
				fmt.Sprintf("eval command %q is bound to %s (expected %s) or its arm mixes lock classes", s, handlerNames(hs), wantTarget[s]))
		}
	}
	for s := range wantTarget {
		if !seen[s] {
			c.bad("evalcmd-arm/"+s, sw.Stmt.Pos(), "eval command %q has no arm in luaTile38Call", s)
		}
	}
	// a token.Pos use to keep the import when edited
	_ = token.NoPos
}

func allEq(ss []string, v string) bool {
	for _, s := range ss {
		if s != v {
			return false
		}
	}
	return true
}

// ruleEnvImmutable: every module table placed in the script environment has a write barrier.
func ruleEnvImmutable(c *Ctx) {
	newFn := c.Func("internal/server", "lStatePool", "New")
	if newFn == nil {
		c.und("anchors", 0, "lStatePool.New not found")
		return
	}
	info := newFn.Info()
	// tables that receive a metatable with __newindex in New (by the variable they are bound to or the expression)
	protected := map[string]bool{}
	ast.Inspect(newFn.Decl.Body, func(n ast.Node) bool {
		call, ok := n.(*ast.CallExpr)
		if !ok || !isMethod(callee(info, call), luaPath, "LState", "SetMetatable") || len(call.Args) != 2 {
			return true
		}
		target := exprStr(call.Args[0])
		if strings.Contains(target, "GlobalsIndex") {
			protected["<globals>:new-keys"] = true
		} else {
			protected[target] = true
		}
		return true
	})
	modules := []string{"tile38", "json", "table", "math", "string", "os"}
	for _, m := range modules {
		// a module is protected if New installs a metatable on its table, or registers a proxy for it
		ok := false
		for t := range protected {
			if strings.Contains(t, `"`+m+`"`) || strings.Contains(t, m+"Tbl") || strings.Contains(t, m+"Proxy") {
				ok = true
			}
		}
		if ok {
			c.ok("module/"+m, newFn.Decl.Pos(), true, "the module table has a write barrier")
		} else {
			c.bad("module/"+m, newFn.Decl.Pos(), "the %s table is writable by scripts and lives in the pooled interpreter: a script can stash its KEYS/ARGV in it (or replace its functions) for the next script that gets the same state", m)
		}
	}
	// existing globals: the __newindex lock only fires for absent keys, so scripts must not run with the
	// interpreter's shared global table as their environment
	shared := 0
	for _, fn := range c.AllFuncs("internal/server") {
		finfo := fn.Info()
		ast.Inspect(fn.Decl.Body, func(n ast.Node) bool {
			cl, ok := n.(*ast.CompositeLit)
			if !ok || !isNamedType(finfo.Types[cl].Type, luaPath, "LFunction") {
				return true
			}
			for _, e := range cl.Elts {
				if kv, ok := e.(*ast.KeyValueExpr); ok {
					if id, ok := kv.Key.(*ast.Ident); ok && id.Name == "Env" {
						if se, ok := ast.Unparen(kv.Value).(*ast.SelectorExpr); ok && se.Sel.Name == "Env" {
							shared++
						}
					}
				}
			}
			return true
		})
	}
	// raw writers: the table library stores with rawset semantics (table.insert, table.remove, table.sort), so
	// with the shared global table reachable as a value (_G, or as the environment) it creates entries the
	// __newindex lock never sees
	tableLib := false
	ast.Inspect(newFn.Decl.Body, func(n ast.Node) bool {
		if se, ok := n.(*ast.SelectorExpr); ok && se.Sel.Name == "OpenTable" {
			if f, ok := info.Uses[se.Sel].(*types.Func); ok && f.Pkg() != nil && f.Pkg().Path() == luaPath {
				tableLib = true
			}
		}
		return true
	})
	c.check(!(tableLib && shared > 0), "globals/raw-writers", newFn.Decl.Pos(), "the table library is not loaded, or scripts cannot reach the shared global table",
		"the table library is loaded and scripts reach the shared global table (_G): table.insert(_G, v) stores with raw semantics, so it creates a global that the __newindex lock never sees and that stays in the pooled interpreter for the next script")
	c.check(shared == 0, "globals/existing-names", newFn.Decl.Pos(), "scripts do not run with the interpreter's shared global table as their environment",
		fmt.Sprintf("scripts run with the shared global table as their environment (%d function values built with Env: state.Env) and its lock only refuses new names: a script can overwrite or remove an existing global (tile38 = nil) and the change stays in the pooled interpreter", shared))
}
