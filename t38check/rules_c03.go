package main

import (
	"fmt"
	"go/ast"
	"go/token"
	"go/types"
	"sort"
	"strings"

	"golang.org/x/tools/go/cfg"
)

func init() {
	register(&Rule{ID: "R3.write-class", Props: []string{"C03", "C07", "C15"}, Floor: 60,
		Text: "for every dispatch-table entry c→h: if h (transitively, synchronously) writes a persistent location (cols, a collection, hooks) then the lock-table class of c has write=true, so that the command is logged, runs exclusively and is gated on followers/read-only servers; script commands (eval*) are covered by R3.apply-log",
		Run:  ruleWriteClass})
	register(&Rule{ID: "R3.vocabulary", Props: []string{"C03", "C09"}, Floor: 10,
		Text: "every command name that can reach the log — the lock-table write class, literal first elements of argument vectors passed to writeAOF, and the command names emitted by aofshrink — is a dispatch-table key of the write class, so that start-up and followers re-execute it through the same handler",
		Run:  ruleVocabulary})
	register(&Rule{ID: "R3.apply-log", Props: []string{"C03", "C07", "C14", "C18"}, Floor: 5,
		Text: "in every apply site (a function that calls command/commandInScript or a write handler directly, other than the log replayer) writeAOF is passed on every path from the dispatch to a normal return, except through error exits (err != nil, an Error reply), the write==false edge of a write flag assigned true only in write arms, and the reviewed 'publish' skip of followHandleCommand; no release of Server.mu lies between dispatch and writeAOF",
		Run:  ruleApplyLog})
	register(&Rule{ID: "R3.updated-flag", Props: []string{"C03"}, Floor: 10,
		Text: "in every write handler each effective mutation of a persistent location is followed on all normal paths to return by a store to the returned commandDetails.updated that is not the constant false (writeAOF silently drops commands whose details say not updated)",
		Run:  ruleUpdatedFlag})
	register(&Rule{ID: "R3.replay-path", Props: []string{"C03"}, Floor: 2,
		Text: "loadAOF reaches command by a static call (start-up re-executes the log through the same handlers as run time) and ignores only the reviewed non-fatal errors (errKeyNotFound, errIDNotFound, errHookChannelSameName: each can only mean that a later command in the log supersedes this one)",
		Run:  ruleReplayPath})
}

// handlerEffects caches persistent-write effects per function.
func persistEffects(c *Ctx, fn *types.Func) []*accState {
	a := c.muLK()
	u := a.lk.ofDecl[fn]
	if u == nil {
		return nil
	}
	return a.lk.effectsStop(u, persistLocs, func(x *Unit) bool {
		// a nested apply site (takes the lock, dispatches and logs by itself:
		// cmdMassInsert's docmd) is checked by R3.apply-log, not as an
		// effect of the enclosing command
		if x == u {
			return false
		}
		for _, evs := range x.events {
			for _, e := range evs {
				if e.Kind == evCall && e.Call != nil && isDispatcher(callee(x.Info(), e.Call)) {
					return true
				}
			}
		}
		return false
	})
}

func ruleWriteClass(c *Ctx) {
	a := c.muLK()
	if a.err != "" {
		c.und("engine", 0, "%s", a.err)
		return
	}
	ct := a.ct
	evalFamily := map[string]bool{"eval": true, "evalsha": true, "evalro": true, "evalrosha": true, "evalna": true, "evalnasha": true}
	for _, cl := range ct.DT.Clauses {
		if cl.IsDefault {
			continue
		}
		for _, cmd := range cl.Strings {
			key := cmd
			ltKey := cmd
			if i := strings.IndexByte(cmd, ' '); i >= 0 {
				ltKey = cmd[:i]
			}
			lc := ct.classOf(ltKey)
			var eff []*accState
			for _, h := range ct.Handlers[cl] {
				if h == ct.Command.Obj {
					continue
				}
				eff = append(eff, persistEffects(c, h)...)
			}
			switch {
			case ct.DevOnly[cl]:
				c.ok(key, cl.Clause.Pos(), true, "developer-mode command: refused as unknown unless Options.DevMode")
			case len(eff) == 0:
				c.ok(key, cl.Clause.Pos(), false, "handlers %s write no persistent location", handlerNames(ct.Handlers[cl]))
			case evalFamily[cmd]:
				c.ok(key, cl.Clause.Pos(), true, "script command: inner writes are logged individually (R3.apply-log)")
			case lc != nil && lc.Write:
				c.ok(key, cl.Clause.Pos(), true, "mutating handler (%s at %s) and lock-table class has write=true", eff[0].Acc.Desc, c.posStr(eff[0].Acc.Pos))
			default:
				c.badPath(key, cl.Clause.Pos(), []string{fmt.Sprintf("%s: %s at %s", eff[0].Unit.Name, eff[0].Acc.Desc, c.posStr(eff[0].Acc.Pos))},
					"command %q reaches a mutation of %s but its lock-table class has write=false: not logged, not exclusive, not gated", cmd, eff[0].Acc.Loc)
			}
		}
	}
}

func handlerNames(fs []*types.Func) string {
	var s []string
	for _, f := range fs {
		s = append(s, f.Name())
	}
	return strings.Join(s, ",")
}

// writeAOFCalls: call sites of (*Server).writeAOF in the package.
func isWriteAOF(f *types.Func) bool {
	return isMethod(f, modPath+"/internal/server", "Server", "writeAOF")
}

func ruleVocabulary(c *Ctx) {
	ct := c.CT()
	if ct.Err != "" {
		c.und("tables", 0, "%s", ct.Err)
		return
	}
	dtKeys := map[string]bool{}
	for _, s := range ct.DT.allStrings() {
		dtKeys[s] = true
	}
	checkName := func(name, origin string, pos ast.Node) {
		lc := ct.classOf(name)
		key := origin + "/" + name
		switch {
		case !dtKeys[name]:
			c.bad(key, pos.Pos(), "logged command name %q is not a key of the dispatch table: start-up and followers cannot re-execute it", name)
		case lc == nil || !lc.Write:
			c.bad(key, pos.Pos(), "logged command name %q is not in the write class of the lock table", name)
		default:
			c.ok(key, pos.Pos(), true, "dispatch-table key of the write class")
		}
	}
	// 1. lock-table write class ⊆ dispatch table
	for _, cl := range ct.LT.Clauses {
		if ct.LTClass[cl].Write {
			for _, s := range cl.Strings {
				checkName(s, "lock-table", cl.Clause)
			}
		}
	}
	// 2. literal argument vectors: []string{"del", ...} composite literals in
	//    functions that call writeAOF, and values = append(values, "set", ...)
	for _, fn := range c.AllFuncs("internal/server") {
		info := fn.Info()
		callsW := false
		ast.Inspect(fn.Decl.Body, func(n ast.Node) bool {
			if call, ok := n.(*ast.CallExpr); ok && isWriteAOF(callee(info, call)) {
				callsW = true
			}
			return true
		})
		isShrink := fn.Obj.Name() == "aofshrink"
		if !callsW && !isShrink {
			continue
		}
		if fn.Obj.Name() == "cmdMassInsert" {
			// dev-mode generator: first element checked like the others
		}
		ast.Inspect(fn.Decl.Body, func(n ast.Node) bool {
			switch x := n.(type) {
			case *ast.CompositeLit:
				if t, ok := info.Types[x].Type.Underlying().(*types.Slice); ok && types.Identical(t.Elem(), types.Typ[types.String]) && len(x.Elts) > 0 {
					if s, ok := constString(info, x.Elts[0]); ok {
						checkName(strings.ToLower(s), fn.Obj.Name(), x)
					}
				}
			case *ast.CallExpr:
				if id, ok := ast.Unparen(x.Fun).(*ast.Ident); ok && id.Name == "append" && len(x.Args) >= 2 {
					if _, isB := info.Uses[id].(*types.Builtin); !isB {
						return true
					}
					// first element of a fresh vector: append(values[:0]...) is not
					// recognisable in general; use the repo idiom: the vector is
					// `values` and the literal is a command name when the first
					// appended literal follows a reset `values = values[:0]` or
					// a `var values []string` in the same block.
					if firstAppendAfterReset(c, fn, x) {
						if s, ok := constString(info, x.Args[1]); ok {
							checkName(strings.ToLower(s), fn.Obj.Name(), x)
						}
					}
				}
			}
			return true
		})
	}
}

// firstAppendAfterReset: call is `v = append(v, lit, ...)` and the statement
// immediately before it in the same block resets or declares v (v = v[:0],
// var v []string), or v is nil-declared in the enclosing block start.
func firstAppendAfterReset(c *Ctx, fn *FuncInfo, call *ast.CallExpr) bool {
	info := fn.Info()
	as, ok := c.Parent(call).(*ast.AssignStmt)
	if !ok || len(as.Lhs) != 1 {
		return false
	}
	vid, ok := as.Lhs[0].(*ast.Ident)
	if !ok {
		return false
	}
	arg0, ok := ast.Unparen(call.Args[0]).(*ast.Ident)
	if !ok || info.ObjectOf(arg0) != info.ObjectOf(vid) {
		return false
	}
	// find the enclosing statement list and the previous statement
	var list []ast.Stmt
	switch p := c.Parent(as).(type) {
	case *ast.BlockStmt:
		list = p.List
	case *ast.CaseClause:
		list = p.Body
	default:
		// if/else branch bodies are BlockStmts; anything else: give up
		return false
	}
	idx := -1
	for i, s := range list {
		if s == as {
			idx = i
		}
	}
	if idx < 0 {
		return false
	}
	isReset := func(s ast.Stmt) bool {
		switch x := s.(type) {
		case *ast.AssignStmt:
			if len(x.Lhs) == 1 && len(x.Rhs) == 1 {
				if id, ok := x.Lhs[0].(*ast.Ident); ok && info.ObjectOf(id) == info.ObjectOf(vid) {
					if sl, ok := ast.Unparen(x.Rhs[0]).(*ast.SliceExpr); ok && sl.Low == nil {
						if hv, ok := info.Types[sl.High]; ok && hv.Value != nil && hv.Value.String() == "0" {
							return true
						}
					}
				}
			}
		case *ast.DeclStmt:
			if gd, ok := x.Decl.(*ast.GenDecl); ok {
				for _, sp := range gd.Specs {
					if vs, ok := sp.(*ast.ValueSpec); ok && len(vs.Values) == 0 {
						for _, nm := range vs.Names {
							if info.ObjectOf(nm) == info.ObjectOf(vid) {
								return true
							}
						}
					}
				}
			}
		}
		return false
	}
	if idx > 0 && isReset(list[idx-1]) {
		return true
	}
	// first statement of an if/else body whose if-statement directly follows the declaration
	if idx == 0 {
		if blk, ok := c.Parent(as).(*ast.BlockStmt); ok {
			if ifs, ok := c.Parent(blk).(*ast.IfStmt); ok {
				switch pp := c.Parent(ifs).(type) {
				case *ast.BlockStmt:
					for i, s := range pp.List {
						if s == ifs && i > 0 && isReset(pp.List[i-1]) {
							return true
						}
					}
				}
			}
		}
	}
	return false
}

// ---------------------------------------------------------------------------
// R3.apply-log

type applySite struct {
	fn   *FuncInfo
	unit *ast.BlockStmt // body that contains the dispatch (function body or literal body)
	name string
	disp *ast.CallExpr // the dispatch call (or the invocation of the literal that contains it)
	desc string
}

func isDispatcher(f *types.Func) bool {
	return isMethod(f, modPath+"/internal/server", "Server", "command") || isMethod(f, modPath+"/internal/server", "Server", "commandInScript")
}

func ruleApplyLog(c *Ctx) {
	a := c.muLK()
	if a.err != "" {
		c.und("engine", 0, "%s", a.err)
		return
	}
	ct := a.ct
	// write handlers = handlers of write-class commands
	writeHandlers := map[*types.Func]bool{}
	for _, cl := range ct.DT.Clauses {
		for _, s := range cl.Strings {
			if lc := ct.classOf(s); lc != nil && lc.Write {
				for _, h := range ct.Handlers[cl] {
					writeHandlers[h] = true
				}
			}
		}
	}
	dispatchers := map[*types.Func]bool{ct.Command.Obj: true}
	if cis := c.Func("internal/server", "Server", "commandInScript"); cis != nil {
		dispatchers[cis.Obj] = true
	}
	isDispatchCall := func(fn *FuncInfo, call *ast.CallExpr) (bool, string) {
		f := callee(fn.Info(), call)
		if f == nil {
			return false, ""
		}
		if dispatchers[f] {
			return true, f.Name()
		}
		// direct call of a write handler from outside the dispatchers
		if writeHandlers[f] && !dispatchers[fn.Obj] && !writeHandlers[fn.Obj] {
			return true, f.Name()
		}
		return false, ""
	}
	nSites := 0
	for _, fn := range c.AllFuncs("internal/server") {
		if dispatchers[fn.Obj] {
			continue // the dispatch tables themselves (incl. the re-dispatch)
		}
		// collect bodies: the function body and each literal body
		type body struct {
			blk  *ast.BlockStmt
			name string
		}
		bodies := []body{{fn.Decl.Body, funcName(fn.Obj)}}
		n := 0
		ast.Inspect(fn.Decl.Body, func(x ast.Node) bool {
			if lit, ok := x.(*ast.FuncLit); ok {
				n++
				bodies = append(bodies, body{lit.Body, fmt.Sprintf("%s$lit%d", funcName(fn.Obj), n)})
			}
			return true
		})
		// which literal bodies contain a dispatch call directly?
		litHasDispatch := map[*ast.BlockStmt]string{}
		for _, b := range bodies[1:] {
			inspectNoLit(b.blk, func(x ast.Node) bool {
				if call, ok := x.(*ast.CallExpr); ok {
					if ok, d := isDispatchCall(fn, call); ok {
						litHasDispatch[b.blk] = d
					}
				}
				return true
			})
		}
		for _, b := range bodies {
			var sites []applySite
			inspectNoLit(b.blk, func(x ast.Node) bool {
				call, ok := x.(*ast.CallExpr)
				if !ok {
					return true
				}
				if ok, d := isDispatchCall(fn, call); ok {
					sites = append(sites, applySite{fn, b.blk, b.name, call, d})
				} else if lit, ok := ast.Unparen(call.Fun).(*ast.FuncLit); ok {
					if d, ok := litHasDispatch[lit.Body]; ok {
						sites = append(sites, applySite{fn, b.blk, b.name, call, d + " (inside the invoked literal)"})
					}
				}
				return true
			})
			for _, s := range sites {
				// a literal that contains the dispatch and whose invocation is checked in the parent: skip the inner site
				if _, inner := litHasDispatch[b.blk]; inner {
					if callOfLit(c, b.blk) != nil {
						continue
					}
				}
				nSites++
				checkApplySite(c, s)
			}
		}
	}
	c.stat("apply_sites", nSites)
}

// callOfLit: the call expression that immediately invokes the literal owning body.
func callOfLit(c *Ctx, body *ast.BlockStmt) *ast.CallExpr {
	lit, ok := c.Parent(body).(*ast.FuncLit)
	if !ok {
		return nil
	}
	var p ast.Node = lit
	for {
		pp := c.Parent(p)
		if pe, ok := pp.(*ast.ParenExpr); ok {
			p = pe
			continue
		}
		if call, ok := pp.(*ast.CallExpr); ok && ast.Unparen(call.Fun) == lit {
			return call
		}
		return nil
	}
}

func checkApplySite(c *Ctx, s applySite) {
	info := s.fn.Info()
	key := s.name + "→" + s.desc
	fname := s.fn.Obj.Name()
	// exemptions by role
	if c.calledOnlyFrom("loadAOF")[s.fn.Obj] {
		c.ok(key, s.disp.Pos(), false, "the log replayer (loadAOF or a helper only it calls): commands come from the log and are not logged again (R3.replay-path)")
		return
	}
	switch fname {
	case "luaTile38AtomicRO":
		// licence checked by R15.write-gates: every write-class string returns errReadOnly before the dispatch
		c.ok(key, s.disp.Pos(), false, "read-only script class: write-class commands are refused before the dispatch (R15.write-gates, R18.ro-effect-free)")
		return
	}
	fg := newFlowGraph(info, s.unit)
	d := fg.LocOf(s.disp)
	if !d.Valid() {
		c.und(key, s.disp.Pos(), "dispatch call not located in the flow graph")
		return
	}
	ws := fg.FindCalls(func(f *types.Func, call *ast.CallExpr) bool { return isWriteAOF(f) })
	if len(ws) == 0 {
		c.bad(key, s.disp.Pos(), "apply site %s dispatches a command but never calls writeAOF: the effect is not logged", s.name)
		return
	}
	isW := func(l Loc) bool {
		hit := false
		inspectNoLit(l.Node, func(n ast.Node) bool {
			if call, ok := n.(*ast.CallExpr); ok && isWriteAOF(callee(info, call)) {
				hit = true
			}
			return true
		})
		return hit
	}
	// write flags: local bool variables assigned the constant true somewhere in the function
	flags := map[types.Object]bool{}
	ast.Inspect(s.fn.Decl.Body, func(n ast.Node) bool {
		if as, ok := n.(*ast.AssignStmt); ok && len(as.Lhs) == len(as.Rhs) {
			for i, l := range as.Lhs {
				if id, ok := l.(*ast.Ident); ok && boolConst(info, as.Rhs[i]) == '1' {
					if o := info.ObjectOf(id); o != nil && types.Identical(o.Type(), types.Typ[types.Bool]) {
						flags[o] = true
					}
				}
			}
		}
		return true
	})
	excused := func(b *cfg.Block, si int) (bool, string) {
		for _, f := range fg.edgeFacts(b, si) {
			if f.Tag != nil {
				if !f.Neg && c.calledOnlyFrom("followHandleCommand")[s.fn.Obj] && isCommandCall(info, f.Tag) {
					if v, ok := constString(info, f.E); ok && v == "publish" {
						return true, "reviewed skip: followers do not log PUBLISH"
					}
				}
				continue
			}
			e := ast.Unparen(f.E)
			if id, ok := e.(*ast.Ident); ok && f.Neg && flags[info.ObjectOf(id)] {
				return true, "write flag is false"
			}
			// the false edge of a conjunction `err == nil && write`: one of the conjuncts failed — excused when
			// each of them fails for an excused reason (an error, or the write flag being false)
			if be, ok := e.(*ast.BinaryExpr); ok && f.Neg && be.Op == token.LAND {
				var cs []ast.Expr
				flattenAnd(be, &cs)
				all := len(cs) > 0
				for _, cj := range cs {
					cj = ast.Unparen(cj)
					okc := false
					if id, ok := cj.(*ast.Ident); ok && flags[info.ObjectOf(id)] {
						okc = true
					}
					if cb, ok := cj.(*ast.BinaryExpr); ok && cb.Op == token.EQL {
						for _, side := range [][2]ast.Expr{{cb.X, cb.Y}, {cb.Y, cb.X}} {
							if tv, ok := info.Types[side[1]]; ok && tv.IsNil() {
								if xt, ok := info.Types[side[0]]; ok && isErrorType(xt.Type) {
									okc = true
								}
							}
						}
					}
					if !okc {
						all = false
					}
				}
				if all {
					return true, "an error, or the write flag is false"
				}
			}
			// msg.Command() == "publish" (either polarity of the test) in the follower's apply function
			if be, ok := e.(*ast.BinaryExpr); ok && c.calledOnlyFrom("followHandleCommand")[s.fn.Obj] {
				if be.Op.String() == "==" && !f.Neg || be.Op.String() == "!=" && f.Neg {
					for _, side := range [][2]ast.Expr{{be.X, be.Y}, {be.Y, be.X}} {
						if isCommandCall(info, side[0]) {
							if v, ok := constString(info, side[1]); ok && v == "publish" {
								return true, "reviewed skip: followers do not log PUBLISH"
							}
						}
					}
				}
			}
			if be, ok := e.(*ast.BinaryExpr); ok {
				if be.Op.String() == "!=" && !f.Neg || be.Op.String() == "==" && f.Neg {
					// X != nil with X an error
					for _, side := range [][2]ast.Expr{{be.X, be.Y}, {be.Y, be.X}} {
						if tv, ok := info.Types[side[1]]; ok && tv.IsNil() {
							if xt, ok := info.Types[side[0]]; ok && isErrorType(xt.Type) {
								return true, "error exit"
							}
						}
					}
				}
				if be.Op.String() == "==" && !f.Neg {
					// X.Type() == resp.Error
					if se, ok := ast.Unparen(be.Y).(*ast.SelectorExpr); ok && se.Sel.Name == "Error" {
						if o := info.ObjectOf(se.Sel); o != nil && o.Pkg() != nil && o.Pkg().Path() == "github.com/tidwall/resp" {
							return true, "error reply"
						}
					}
				}
			}
		}
		return false, ""
	}
	reach, trail := fg.Reach(PathQuery{
		From:   d,
		Target: func(l Loc) bool { _, ok := l.Node.(*ast.ReturnStmt); return ok },
		Avoid:  isW,
		EdgeOK: func(b *cfg.Block, si int) bool { ex, _ := excused(b, si); return !ex },
	})
	if reach {
		var path []string
		for _, n := range trail {
			path = append(path, c.posStr(n.Pos()))
		}
		c.badPath(key, s.disp.Pos(), path, "a normal return is reachable from the dispatch without passing writeAOF (and without an error exit or the write==false edge): the applied command is not logged")
		return
	}
	// writeAOF must itself not be guarded by anything but write flags / error checks:
	// covered by the path search above (any other guard leaves an unexcused path).
	// no release of Server.mu between dispatch and writeAOF
	rel, _ := fg.Reach(PathQuery{
		From: d,
		Target: func(l Loc) bool {
			hit := false
			inspectNoLit(l.Node, func(n ast.Node) bool {
				if _, isDefer := n.(*ast.DeferStmt); isDefer {
					return false
				}
				if call, ok := n.(*ast.CallExpr); ok {
					if k := c.serverMuOp(info, call); k == lkUnlock || k == lkRUnlock {
						hit = true
					}
				}
				return true
			})
			return hit
		},
		Avoid: isW,
	})
	if rel {
		c.bad(key, s.disp.Pos(), "Server.mu can be released between the dispatch and writeAOF: apply and log are not one critical section")
		return
	}
	c.ok(key, s.disp.Pos(), true, "writeAOF passed on every non-error, write-flagged path from the dispatch; no lock release in between")
}

func isErrorType(t types.Type) bool {
	if t == nil {
		return false
	}
	return types.Identical(t, types.Universe.Lookup("error").Type())
}

// ---------------------------------------------------------------------------
// R3.updated-flag

func ruleUpdatedFlag(c *Ctx) {
	a := c.muLK()
	if a.err != "" {
		c.und("engine", 0, "%s", a.err)
		return
	}
	ct := a.ct
	updated := c.Field("internal/server", "commandDetails", "updated")
	if updated == nil {
		c.und("anchors", 0, "commandDetails.updated not found")
		return
	}
	seen := map[*types.Func]bool{}
	var hs []*types.Func
	for _, cl := range ct.DT.Clauses {
		for _, s := range cl.Strings {
			if lc := ct.classOf(s); lc != nil && lc.Write {
				for _, h := range ct.Handlers[cl] {
					if !seen[h] {
						seen[h] = true
						hs = append(hs, h)
					}
				}
			}
		}
	}
	sort.Slice(hs, func(i, j int) bool { return hs[i].Name() < hs[j].Name() })
	for _, h := range hs {
		fi := c.FuncOf(h)
		if fi == nil {
			continue
		}
		info := fi.Info()
		// does the handler return a commandDetails?
		sig := h.Type().(*types.Signature)
		hasD := false
		for i := 0; i < sig.Results().Len(); i++ {
			if isNamedType(sig.Results().At(i).Type(), modPath+"/internal/server", "commandDetails") {
				hasD = true
			}
		}
		if !hasD {
			continue
		}
		fg := newFlowGraph(info, fi.Decl.Body)
		// direct mutation sites in this function body (including callbacks: literals are searched too)
		var muts []Loc
		spec := c.muSpec(false)
		u := a.lk.ofDecl[h]
		for _, b := range fg.G.Blocks {
			if !fg.Reachable(b) {
				continue
			}
			for i, n := range b.Nodes {
				ast.Inspect(n, func(x ast.Node) bool {
					for _, acc := range spec.Classify(u, x, ctxRead) {
						if acc.Write && persistLocs[acc.Loc] {
							muts = append(muts, Loc{b, i, x})
						}
					}
					// calls of helpers that mutate (cmdDROPop, cmdDELHOOKop, ...)
					if call, ok := x.(*ast.CallExpr); ok {
						if f := callee(info, call); f != nil && f != h && a.lk.ofDecl[f] != nil && !isDispatcher(f) {
							if eff := persistEffects(c, f); len(eff) > 0 {
								muts = append(muts, Loc{b, i, x})
							}
						}
					}
					return true
				})
			}
		}
		if len(muts) == 0 {
			c.ok(funcName(h), fi.Decl.Pos(), false, "no direct mutation site")
			continue
		}
		isUpdStore := func(l Loc) bool {
			hit := false
			inspectNoLit(l.Node, func(n ast.Node) bool {
				switch x := n.(type) {
				case *ast.AssignStmt:
					for i, lhs := range x.Lhs {
						if selField(info, lhs) == updated {
							if len(x.Lhs) == len(x.Rhs) && boolConst(info, x.Rhs[i]) == '0' {
								continue
							}
							hit = true
						}
					}
				case *ast.CallExpr:
					// delegation: the handler returns what another write handler returns (res, d, err = s.cmdSET(msg))
					if f := callee(info, x); f != nil && f != h && seen[f] {
						hit = true
					}
					// d = helper(…): a helper that builds the details and marks them updated on every path
					if f := callee(info, x); f != nil && f != h && returnsUpdatedDetails(c, f, updated) {
						hit = true
					}
				}
				return true
			})
			return hit
		}
		stores := fg.Find(func(n ast.Node) bool {
			as, ok := n.(*ast.AssignStmt)
			if !ok {
				return false
			}
			for i, lhs := range as.Lhs {
				if selField(info, lhs) == updated && !(len(as.Lhs) == len(as.Rhs) && boolConst(info, as.Rhs[i]) == '0') {
					return true
				}
			}
			return false
		})
		for _, m := range muts {
			key := funcName(h) + "→" + exprStr(mutExpr(m.Node))
			if isFreshCollectionInsert(info, fi, m.Node) {
				c.ok(key, m.Node.Pos(), false, "registers a freshly created, still empty collection: nothing to log until an object is stored (R1.empty-collection)")
				continue
			}
			// Collection.Delete returning nil is not an effective mutation: the
			// repo idiom tests the result; that continuation is the only one
			// that counts. Approximation: edges where the delete result is nil
			// are excused.
			reach, trail := fg.Reach(PathQuery{
				From: Loc{m.Block, m.Idx, m.Node},
				Target: func(l Loc) bool {
					r, ok := l.Node.(*ast.ReturnStmt)
					if !ok {
						return false
					}
					return !returnsError(info, fi, r)
				},
				Avoid: isUpdStore,
				EdgeOK: func(b *cfg.Block, si int) bool {
					return !deleteResultNilEdge(info, fg, b, si, m.Node)
				},
				Correlate: true,
			})
			if isUpdStore(Loc{m.Block, m.Idx, m.Block.Nodes[m.Idx]}) {
				reach = false // the mutation and the store are one statement (d.updated = s.cmdDELHOOKop(...))
			}
			for _, st := range stores {
				if fg.Dominates(st, m) {
					reach = false // the store precedes the mutation on every path
				}
			}
			if reach {
				var path []string
				for _, n := range trail {
					path = append(path, c.posStr(n.Pos()))
				}
				c.badPath(key, m.Node.Pos(), path, "a non-error return is reachable after the mutation without a store of a non-false value to commandDetails.updated: writeAOF would drop the command")
			} else {
				c.ok(key, m.Node.Pos(), true, "every non-error path from the mutation stores commandDetails.updated")
			}
		}
	}
}

func mutExpr(n ast.Node) ast.Expr {
	switch x := n.(type) {
	case *ast.CallExpr:
		return x.Fun
	case ast.Expr:
		return x
	}
	return &ast.Ident{Name: "?"}
}

// returnsError: the return statement returns a non-nil error value
// syntactically (an identifier other than nil, a call), or is a bare return
// in a function with named results (undetermined: treated as normal).
func returnsError(info *types.Info, fi *FuncInfo, r *ast.ReturnStmt) bool {
	sig := fi.Obj.Type().(*types.Signature)
	n := sig.Results().Len()
	if n == 0 || len(r.Results) == 0 {
		return false
	}
	if len(r.Results) == 1 && n > 1 {
		// return f(): retrerr(...) idiom
		if call, ok := ast.Unparen(r.Results[0]).(*ast.CallExpr); ok {
			if f := callee(info, call); f != nil && (f.Name() == "retrerr" || f.Name() == "retwerr") {
				return true
			}
		}
		return false
	}
	last := r.Results[len(r.Results)-1]
	if !isErrorType(sig.Results().At(n - 1).Type()) {
		return false
	}
	if tv, ok := info.Types[last]; ok && tv.IsNil() {
		return false
	}
	return true
}

// deleteResultNilEdge: the edge tests the result of the mutation call
// (prev := col.Delete(id); if prev != nil) and is the nil side.
func deleteResultNilEdge(info *types.Info, fg *FlowGraph, b *cfg.Block, si int, mut ast.Node) bool {
	call, ok := mut.(*ast.CallExpr)
	if !ok {
		return false
	}
	f := callee(info, call)
	if f == nil || f.Name() != "Delete" {
		return false
	}
	// variable assigned from the call
	var res types.Object
	for _, blk := range fg.G.Blocks {
		for _, n := range blk.Nodes {
			if as, ok := n.(*ast.AssignStmt); ok && len(as.Rhs) == 1 && ast.Unparen(as.Rhs[0]) == call && len(as.Lhs) >= 1 {
				if id, ok := as.Lhs[0].(*ast.Ident); ok {
					res = info.ObjectOf(id)
				}
			}
		}
	}
	if res == nil {
		return false
	}
	// through a flag: updated := old != nil … if !updated
	if isNil, ok := fg.closeFacts(fg.identFacts(fg.edgeFacts(b, si)))[identFact{res, true}]; ok && isNil {
		return true
	}
	for _, fct := range fg.edgeFacts(b, si) {
		be, ok := ast.Unparen(fct.E).(*ast.BinaryExpr)
		if !ok {
			continue
		}
		id, ok := ast.Unparen(be.X).(*ast.Ident)
		if !ok || info.ObjectOf(id) != res {
			continue
		}
		if tv, ok := info.Types[be.Y]; !ok || !tv.IsNil() {
			continue
		}
		isNilSide := be.Op.String() == "==" && !fct.Neg || be.Op.String() == "!=" && fct.Neg
		if isNilSide {
			return true
		}
	}
	return false
}

// ---------------------------------------------------------------------------
// R3.replay-path

func ruleReplayPath(c *Ctx) {
	la := c.Func("internal/server", "Server", "loadAOF")
	if la == nil {
		c.und("anchors", 0, "loadAOF not found")
		return
	}
	n := 0
	for f := range c.calledOnlyFrom("loadAOF") {
		fi := c.FuncOf(f)
		if fi == nil {
			continue
		}
		info := fi.Info()
		ast.Inspect(fi.Decl.Body, func(x ast.Node) bool {
			if call, ok := x.(*ast.CallExpr); ok && isMethod(callee(info, call), modPath+"/internal/server", "Server", "command") {
				n++
			}
			return true
		})
	}
	c.check(n >= 1, "loadAOF→command", la.Decl.Pos(), "loadAOF calls command statically", "loadAOF does not call command: start-up does not replay through the run-time handlers")
	// the tolerated errors
	fatal := c.Func("internal/server", "", "commandErrIsFatal")
	if fatal == nil {
		c.und("commandErrIsFatal", 0, "commandErrIsFatal not found")
		return
	}
	// the reviewed set: each entry is an error that can only mean "a later command in the log supersedes this
	// one" when it occurs while a log is loaded —
	//   errKeyNotFound, errIDNotFound    the target was deleted later (the rewrite's snapshot no longer has it)
	//   errHookChannelSameName           the name was deleted and reused as the other kind later (fix f2ba58a;
	//                                    the rewrite writes the hooks last, the captured DEL and SET follow)
	allowed := map[string]bool{"errKeyNotFound": true, "errIDNotFound": true, "errHookChannelSameName": true}
	var vars []string
	ast.Inspect(fatal.Decl.Body, func(x ast.Node) bool {
		if id, ok := x.(*ast.Ident); ok {
			if v, ok := fatal.Info().Uses[id].(*types.Var); ok && v.Parent() == v.Pkg().Scope() {
				vars = append(vars, v.Name())
			}
		}
		return true
	})
	okv := len(vars) > 0
	for _, v := range vars {
		if !allowed[v] {
			okv = false
		}
	}
	c.check(okv, "commandErrIsFatal", fatal.Decl.Pos(), fmt.Sprintf("tolerated replay errors %v ⊆ {errKeyNotFound errIDNotFound errHookChannelSameName}", vars), fmt.Sprintf("replay tolerates errors %v beyond the reviewed ones (an error skipped at load time silently drops a logged command)", vars))
}

// isFreshCollectionInsert: n is s.cols.Set(k, v) where every definition of v
// in the function is a call of collection.New.
func isFreshCollectionInsert(info *types.Info, fi *FuncInfo, n ast.Node) bool {
	call, ok := n.(*ast.CallExpr)
	if !ok || len(call.Args) != 2 {
		return false
	}
	se, ok := ast.Unparen(call.Fun).(*ast.SelectorExpr)
	if !ok || se.Sel.Name != "Set" {
		return false
	}
	id, ok := ast.Unparen(call.Args[1]).(*ast.Ident)
	if !ok {
		return false
	}
	o := info.ObjectOf(id)
	fresh, other := 0, 0
	// the definition reaching the call: the nearest preceding assignment to v
	var last ast.Expr
	ast.Inspect(fi.Decl.Body, func(x ast.Node) bool {
		as, ok := x.(*ast.AssignStmt)
		if !ok || as.Pos() > call.Pos() {
			return true
		}
		for i, l := range as.Lhs {
			if lid, ok := l.(*ast.Ident); ok && info.ObjectOf(lid) == o {
				if len(as.Lhs) == len(as.Rhs) {
					last = as.Rhs[i]
				} else {
					last = nil
				}
			}
		}
		return true
	})
	if c2, ok := ast.Unparen(last).(*ast.CallExpr); last != nil && ok {
		if f := callee(info, c2); isFunc(f, modPath+"/internal/collection", "New") {
			fresh++
		} else {
			other++
		}
	} else {
		other++
	}
	return fresh == 1 && other == 0
}

// ---------------------------------------------------------------------------
// R3.replay-deterministic: no wall-clock dependent decision in a replayed handler

func init() {
	register(&Rule{ID: "R3.replay-deterministic", Props: []string{"C03", "C06"}, Floor: 10,
		Text: "in every handler of a write-class command (and the tile38 functions it calls synchronously) no branch condition depends on the wall clock — on time.Now/Since/Until or on a local derived from them: the command is re-executed at a different time by start-up and by followers, so a time-dependent decision (treating a not-yet-swept expired object as absent, say) makes the replayed state differ from the acknowledged one; computing the stored deadline or the elapsed time from the clock is fine",
		Run:  ruleReplayDeterministic})
}

func ruleReplayDeterministic(c *Ctx) {
	a := c.muLK()
	if a.err != "" {
		c.und("engine", 0, "%s", a.err)
		return
	}
	ct := a.ct
	seen := map[*Unit]bool{}
	var units []*Unit
	for _, cl := range ct.DT.Clauses {
		for _, s := range cl.Strings {
			if lc := ct.classOf(s); lc != nil && lc.Write {
				for _, h := range ct.Handlers[cl] {
					if u := a.lk.ofDecl[h]; u != nil {
						for _, x := range a.lk.reachSync(u) {
							if !seen[x] && x.Fn.Pkg.PkgPath == modPath+"/internal/server" {
								seen[x] = true
								units = append(units, x)
							}
						}
					}
				}
			}
		}
	}
	isClock := func(info *types.Info, n ast.Node) bool {
		hit := false
		ast.Inspect(n, func(x ast.Node) bool {
			if call, ok := x.(*ast.CallExpr); ok {
				f := callee(info, call)
				if isFunc(f, "time", "Now") || isFunc(f, "time", "Since") || isFunc(f, "time", "Until") {
					hit = true
				}
			}
			return true
		})
		return hit
	}
	for _, u := range units {
		if u.Lit != nil {
			continue // literals are part of their function's body below
		}
		info := u.Info()
		// taint: locals assigned from clock expressions, transitively
		tainted := map[types.Object]bool{}
		mentions := func(n ast.Node) bool {
			if isClock(info, n) {
				return true
			}
			hit := false
			ast.Inspect(n, func(x ast.Node) bool {
				if id, ok := x.(*ast.Ident); ok && tainted[info.ObjectOf(id)] {
					hit = true
				}
				return true
			})
			return hit
		}
		for changed := true; changed; {
			changed = false
			ast.Inspect(u.Fn.Decl.Body, func(x ast.Node) bool {
				as, ok := x.(*ast.AssignStmt)
				if !ok || len(as.Lhs) != len(as.Rhs) {
					return true
				}
				for i, l := range as.Lhs {
					if id, ok := l.(*ast.Ident); ok {
						if o := info.ObjectOf(id); o != nil && !tainted[o] && mentions(as.Rhs[i]) {
							tainted[o] = true
							changed = true
						}
					}
				}
				return true
			})
		}
		bad := 0
		ast.Inspect(u.Fn.Decl.Body, func(x ast.Node) bool {
			var cond ast.Expr
			switch s := x.(type) {
			case *ast.IfStmt:
				cond = s.Cond
			case *ast.ForStmt:
				cond = s.Cond
			case *ast.SwitchStmt:
				cond = s.Tag
			}
			if cond != nil && mentions(cond) {
				// `ttl > 0`-style arithmetic on the elapsed time for output only is still a decision; report it
				bad++
				c.bad(u.Name+"→if "+exprStr(cond), cond.Pos(), "a write handler that is re-executed from the log branches on the wall clock (%s): replay at start-up or on a follower can take the other branch", exprStr(cond))
			}
			return true
		})
		if bad == 0 {
			c.ok(u.Name, u.Pos(), len(tainted) > 0, "no branch condition depends on the clock (%d clock-derived locals: deadlines, elapsed time)", len(tainted))
		}
	}
	c.stat("replayed_functions_scanned", len(units))
}

var updatedDetailsCache = map[*types.Func]bool{}

// returnsUpdatedDetails: f returns a commandDetails and every path to a return passes a store of a non-false
// value to the updated field of the value it returns.
func returnsUpdatedDetails(c *Ctx, f *types.Func, updated *types.Var) bool {
	if v, ok := updatedDetailsCache[f]; ok {
		return v
	}
	updatedDetailsCache[f] = false
	fi := c.FuncOf(f)
	if fi == nil || fi.Decl.Body == nil {
		return false
	}
	sig := f.Type().(*types.Signature)
	hasD := false
	for i := 0; i < sig.Results().Len(); i++ {
		if isNamedType(sig.Results().At(i).Type(), modPath+"/internal/server", "commandDetails") {
			hasD = true
		}
	}
	if !hasD {
		return false
	}
	info := fi.Info()
	fg := newFlowGraph(info, fi.Decl.Body)
	isStore := func(n ast.Node) bool {
		hit := false
		inspectNoLit(n, func(y ast.Node) bool {
			if as, ok := y.(*ast.AssignStmt); ok {
				for i, lhs := range as.Lhs {
					if selField(info, lhs) == updated && !(len(as.Lhs) == len(as.Rhs) && boolConst(info, as.Rhs[i]) == '0') {
						hit = true
					}
				}
			}
			return true
		})
		return hit
	}
	any := false
	for _, b := range fg.G.Blocks {
		for _, n := range b.Nodes {
			if isStore(n) {
				any = true
			}
		}
	}
	if !any {
		return false
	}
	skip, _ := fg.Reach(PathQuery{
		Target: func(l Loc) bool {
			if _, ok := l.Node.(*ast.ReturnStmt); ok {
				return true
			}
			return len(l.Block.Succs) == 0 && l.Idx == len(l.Block.Nodes)-1
		},
		Avoid: func(l Loc) bool { return isStore(l.Block.Nodes[l.Idx]) },
	})
	updatedDetailsCache[f] = !skip
	return !skip
}
