package main

// Rules added after the second round of seeded changes (one independent change per property, again).

import (
	"fmt"
	"go/ast"
	"go/constant"
	"go/token"
	"go/types"
	"math/big"
	"strings"

	"golang.org/x/tools/go/cfg"
)

func init() {
	register(&Rule{ID: "R3.hook-immutable", Props: []string{"C03", "C05", "C14"}, Floor: 8,
		Text: "a registered hook is never modified in place: every store to a definition field of Hook (Key, Name, Endpoints, Message, Fence, Metas, channel, expires — what SETHOOK/SETCHAN log) goes through a variable bound in the same function to a freshly allocated Hook; a change to a registered hook would take effect in memory without the command being logged (the 'equal hook' path of cmdSetHook returns with updated == false)",
		Run:  ruleHookImmutable})
	register(&Rule{ID: "R5.switches-restored", Props: []string{"C05", "C20"}, Floor: 1,
		Text: "the switches of a fence (*liveFenceSwitches shared by a hook, a channel or a live connection) are not changed by evaluating it: a store to a field through a pointer that was not allocated in the same function (a parameter, an alias of one, a field of a hook) is dominated by an equality test of that field with a constant and is followed on every path to every exit by a store of that constant back through the same pointer or an alias of it",
		Run:  ruleSwitchesRestored})
	register(&Rule{ID: "R1.alias-safe-update", Props: []string{"C01"}, Floor: 1,
		Text: "commands with two key operands stay correct when the operands are equal: in a write handler no Server.cols.Delete(k2) is reachable after a Server.cols.Set(k1, …) with a different key expression unless a dominating test established k1 != k2 — store-then-delete removes the collection just stored when the keys alias (RENAME k k answers OK and the key is gone); delete-then-store is safe",
		Run:  ruleAliasSafeUpdate})
	register(&Rule{ID: "R2.outward-direction", Props: []string{"C02"}, Floor: 4,
		Text: "the two float32 quantisers of the spatial index move a value in the right direction for either sign: in the function applied to Min coordinates (resp. Max), the float32 conversion of the input is kept only on the edge on which it is already <= (resp. >=) the input, and every other value returned is float32(E) with E = a·d + b·|d| strictly below (resp. above) d in real arithmetic for the sign of d known on that path — decided symbolically on the exact rational constants; that the nudge is large enough to survive the conversion is numeric and not decided",
		Run:  ruleOutwardDirection})
}

var hookDefinitionFields = []string{"Key", "Name", "Endpoints", "Message", "Fence", "Metas", "channel", "expires"}

func ruleHookImmutable(c *Ctx) {
	pk := "internal/server"
	fields := map[*types.Var]string{}
	for _, n := range hookDefinitionFields {
		if f := c.Field(pk, "Hook", n); f != nil {
			fields[f] = n
		} else {
			c.und("field/"+n, 0, "Hook.%s not found", n)
		}
	}
	bad := map[string][]token.Pos{}
	nStores := 0
	for _, fn := range c.AllFuncs(pk) {
		info := fn.Info()
		// variables bound to a fresh Hook in this function
		fresh := map[types.Object]bool{}
		ast.Inspect(fn.Decl.Body, func(n ast.Node) bool {
			as, ok := n.(*ast.AssignStmt)
			if !ok || len(as.Lhs) != len(as.Rhs) {
				return true
			}
			for i, r := range as.Rhs {
				isNew := false
				switch x := ast.Unparen(r).(type) {
				case *ast.UnaryExpr:
					if cl, ok := ast.Unparen(x.X).(*ast.CompositeLit); ok && x.Op == token.AND && isNamedType(info.TypeOf(cl), modPath+"/"+pk, "Hook") {
						isNew = true
					}
				case *ast.CallExpr:
					if id, ok := ast.Unparen(x.Fun).(*ast.Ident); ok && id.Name == "new" && len(x.Args) == 1 && isNamedType(info.TypeOf(x.Args[0]), modPath+"/"+pk, "Hook") {
						isNew = true
					}
				}
				if id, ok := as.Lhs[i].(*ast.Ident); ok && isNew {
					fresh[info.ObjectOf(id)] = true
				}
			}
			return true
		})
		// a variable is fresh only if every assignment to it is a fresh allocation
		ast.Inspect(fn.Decl.Body, func(n ast.Node) bool {
			as, ok := n.(*ast.AssignStmt)
			if !ok {
				return true
			}
			for i, l := range as.Lhs {
				id, ok := l.(*ast.Ident)
				if !ok || !fresh[info.ObjectOf(id)] {
					continue
				}
				okNew := false
				if len(as.Lhs) == len(as.Rhs) {
					switch x := ast.Unparen(as.Rhs[i]).(type) {
					case *ast.UnaryExpr:
						_, okNew = ast.Unparen(x.X).(*ast.CompositeLit)
					case *ast.CallExpr:
						if fid, ok := ast.Unparen(x.Fun).(*ast.Ident); ok && fid.Name == "new" {
							okNew = true
						}
					}
				}
				if !okNew {
					delete(fresh, info.ObjectOf(id))
				}
			}
			return true
		})
		check := func(lhs ast.Expr) {
			e := ast.Unparen(lhs)
			// *h = ...
			if st, ok := e.(*ast.StarExpr); ok && isNamedType(info.TypeOf(st), modPath+"/"+pk, "Hook") {
				nStores++
				if id, ok := ast.Unparen(st.X).(*ast.Ident); !ok || !fresh[info.ObjectOf(id)] {
					bad["(whole struct)"] = append(bad["(whole struct)"], lhs.Pos())
				}
				return
			}
			// peel index expressions: h.Metas[i] = ...
			for {
				if ix, ok := e.(*ast.IndexExpr); ok {
					e = ast.Unparen(ix.X)
					continue
				}
				break
			}
			se, ok := e.(*ast.SelectorExpr)
			if !ok {
				return
			}
			fv := selField(info, se)
			name, isDef := fields[fv]
			if !isDef {
				return
			}
			nStores++
			if id, ok := ast.Unparen(se.X).(*ast.Ident); ok && fresh[info.ObjectOf(id)] {
				return
			}
			bad[name] = append(bad[name], lhs.Pos())
		}
		ast.Inspect(fn.Decl.Body, func(n ast.Node) bool {
			switch x := n.(type) {
			case *ast.AssignStmt:
				for _, l := range x.Lhs {
					check(l)
				}
			case *ast.IncDecStmt:
				check(x.X)
			}
			return true
		})
	}
	for _, n := range append(append([]string{}, hookDefinitionFields...), "(whole struct)") {
		if ps := bad[n]; len(ps) > 0 {
			c.bad("Hook."+n, ps[0], "Hook.%s is stored through a hook that was not allocated in the same function (%d site(s)): a registered hook is changed in place, which takes effect in memory but is not what the logged SETHOOK/SETCHAN commands describe — after a restart the change is gone", n, len(ps))
		} else if n != "(whole struct)" {
			c.ok("Hook."+n, 0, true, "no store to Hook.%s outside a freshly allocated hook", n)
		}
	}
	c.stat("hook_definition_field_stores", nStores)
}

func ruleSwitchesRestored(c *Ctx) {
	pk := "internal/server"
	n := 0
	for _, fn := range c.AllFuncs(pk) {
		info := fn.Info()
		isSwPtr := func(t types.Type) bool {
			p, ok := t.(*types.Pointer)
			return ok && isNamedType(p.Elem(), modPath+"/"+pk, "liveFenceSwitches")
		}
		// pointer variables allocated here
		local := map[types.Object]bool{}
		alias := map[types.Object]types.Object{} // alias -> root
		ast.Inspect(fn.Decl.Body, func(x ast.Node) bool {
			as, ok := x.(*ast.AssignStmt)
			if !ok || len(as.Lhs) != len(as.Rhs) {
				return true
			}
			for i, r := range as.Rhs {
				id, ok := as.Lhs[i].(*ast.Ident)
				if !ok || !isSwPtr(info.TypeOf(id)) {
					continue
				}
				switch y := ast.Unparen(r).(type) {
				case *ast.UnaryExpr:
					if y.Op == token.AND {
						local[info.ObjectOf(id)] = true
					}
				case *ast.Ident:
					if isSwPtr(info.TypeOf(y)) {
						alias[info.ObjectOf(id)] = info.ObjectOf(y)
					}
				}
			}
			return true
		})
		root := func(o types.Object) types.Object {
			for i := 0; i < 8; i++ {
				r, ok := alias[o]
				if !ok {
					return o
				}
				o = r
			}
			return o
		}
		// stores through a shared pointer: root ident of the selector chain has pointer-to-switches type
		type store struct {
			as    *ast.AssignStmt
			ptr   types.Object
			path  string // field path after the pointer
			value ast.Expr
		}
		var stores []store
		splitPath := func(e ast.Expr) (types.Object, string, bool) {
			var parts []string
			e = ast.Unparen(e)
			for {
				se, ok := e.(*ast.SelectorExpr)
				if !ok {
					break
				}
				parts = append([]string{se.Sel.Name}, parts...)
				e = ast.Unparen(se.X)
			}
			id, ok := e.(*ast.Ident)
			if !ok || len(parts) == 0 || !isSwPtr(info.TypeOf(id)) {
				return nil, "", false
			}
			return info.ObjectOf(id), strings.Join(parts, "."), true
		}
		inspectNoLit(fn.Decl.Body, func(x ast.Node) bool {
			as, ok := x.(*ast.AssignStmt)
			if !ok {
				return true
			}
			for i, l := range as.Lhs {
				p, path, ok := splitPath(l)
				if !ok || local[root(p)] {
					continue
				}
				var v ast.Expr
				if len(as.Lhs) == len(as.Rhs) {
					v = as.Rhs[i]
				}
				stores = append(stores, store{as, root(p), path, v})
			}
			return true
		})
		if len(stores) == 0 {
			continue
		}
		fg := newFlowGraph(info, fn.Decl.Body)
		constOf := func(e ast.Expr) string {
			if e == nil {
				return ""
			}
			if tv, ok := info.Types[e]; ok && tv.Value != nil {
				return tv.Value.ExactString()
			}
			return ""
		}
		origOf := func(st store) string {
			sl := fg.LocOf(st.as)
			if !sl.Valid() {
				return ""
			}
			for _, f := range fg.DominatingFacts(sl) {
				be, ok := ast.Unparen(f.E).(*ast.BinaryExpr)
				if !ok || f.Tag != nil || !(be.Op == token.EQL && !f.Neg || be.Op == token.NEQ && f.Neg) {
					continue
				}
				if p, path, ok := splitPath(be.X); ok && root(p) == st.ptr && path == st.path && constOf(be.Y) != "" {
					return constOf(be.Y)
				}
			}
			return ""
		}
		// values that some changing store of the same field will have to restore
		restoreValues := map[string]bool{}
		for _, st := range stores {
			if o := origOf(st); o != "" && constOf(st.value) != o {
				restoreValues[fmt.Sprintf("%p/%s/%s", st.ptr, st.path, o)] = true
			}
		}
		seenKey := map[string]int{}
		for _, st := range stores {
			n++
			key := fmt.Sprintf("%s→%s", funcName(fn.Obj), st.path)
			seenKey[key]++
			if seenKey[key] > 1 {
				key = fmt.Sprintf("%s#%d", key, seenKey[key])
			}
			sl := fg.LocOf(st.as)
			if !sl.Valid() {
				c.und(key, st.as.Pos(), "store not located in the flow graph")
				continue
			}
			orig := origOf(st)
			// a store that puts back the value a changing store replaced is the restore, not a change
			if v := constOf(st.value); v != "" && (v == orig || restoreValues[fmt.Sprintf("%p/%s/%s", st.ptr, st.path, v)]) {
				c.ok(key, st.as.Pos(), true, "stores the original value %s back", v)
				continue
			}
			// a later restoring store: any store to the same path through the same object whose value is a constant
			// equal to orig, or (when no test dominates) such that it is guarded by a flag set with this store
			restoreTo := orig
			isRestore := func(l Loc) bool {
				hit := false
				inspectNoLit(l.Node, func(y ast.Node) bool {
					as, ok := y.(*ast.AssignStmt)
					if !ok || as == st.as {
						return true
					}
					for i, lh := range as.Lhs {
						if p, path, ok := splitPath(lh); ok && root(p) == st.ptr && path == st.path && len(as.Lhs) == len(as.Rhs) {
							if restoreTo != "" && constOf(as.Rhs[i]) == restoreTo {
								hit = true
							}
						}
					}
					return true
				})
				return hit
			}
			if orig == "" {
				c.bad(key, st.as.Pos(), "a field of the shared fence switches is stored without a dominating test that fixes its previous value: the fence's definition is changed by evaluating it")
				continue
			}
			leak, trail := fg.Reach(PathQuery{From: sl, Target: func(l Loc) bool { _, ok := l.Node.(*ast.ReturnStmt); return ok }, Avoid: isRestore, Correlate: true})
			// falling off the end of the function counts as an exit too
			if !leak {
				for _, b := range fg.G.Blocks {
					if fg.Reachable(b) && len(b.Succs) == 0 && (len(b.Nodes) == 0 || !isReturn(b.Nodes[len(b.Nodes)-1])) {
						l2, _ := fg.Reach(PathQuery{From: sl, Target: func(l Loc) bool { return l.Block == b && l.Idx == len(b.Nodes)-1 }, Avoid: isRestore, Correlate: true})
						if l2 || (sl.Block == b) {
							leak = l2 || pathToEndAvoids(fg, sl, isRestore)
						}
					}
				}
			}
			if leak {
				var path []string
				for _, nd := range trail {
					path = append(path, c.posStr(nd.Pos()))
				}
				c.badPath(key, st.as.Pos(), path, "%s of a shared fence is changed from %s and an exit is reachable without restoring it: the fence keeps the changed switch for every later evaluation (a WITHIN fence turns into INTERSECTS for good)", st.path, orig)
			} else {
				c.ok(key, st.as.Pos(), true, "changed from %s and restored on every path to every exit", orig)
			}
		}
	}
	c.stat("shared_switch_stores", n)
}

func isReturn(n ast.Node) bool { _, ok := n.(*ast.ReturnStmt); return ok }

// pathToEndAvoids: from sl, the end of sl's own block (a block without successors) is reached without a restore.
func pathToEndAvoids(fg *FlowGraph, sl Loc, isRestore func(Loc) bool) bool {
	for i := sl.Idx + 1; i < len(sl.Block.Nodes); i++ {
		if isRestore(Loc{sl.Block, i, sl.Block.Nodes[i]}) {
			return false
		}
	}
	return len(sl.Block.Succs) == 0
}

func ruleAliasSafeUpdate(c *Ctx) {
	hs := writeHandlers(c)
	if hs == nil {
		c.und("engine", 0, "command tables not available")
		return
	}
	cols := c.Field("internal/server", "Server", "cols")
	n := 0
	for _, h := range hs {
		fi := c.FuncOf(h)
		if fi == nil {
			continue
		}
		info := fi.Info()
		isColsCall := func(call *ast.CallExpr, m string) bool {
			se, ok := ast.Unparen(call.Fun).(*ast.SelectorExpr)
			return ok && se.Sel.Name == m && selField(info, se.X) == cols && len(call.Args) >= 1
		}
		fg := newFlowGraph(info, fi.Decl.Body)
		sets := fg.Find(func(x ast.Node) bool { call, ok := x.(*ast.CallExpr); return ok && isColsCall(call, "Set") })
		dels := fg.Find(func(x ast.Node) bool { call, ok := x.(*ast.CallExpr); return ok && isColsCall(call, "Delete") })
		if len(sets) == 0 || len(dels) == 0 {
			continue
		}
		for _, s := range sets {
			k1 := s.Node.(*ast.CallExpr).Args[0]
			for _, d := range dels {
				k2 := d.Node.(*ast.CallExpr).Args[0]
				if sameExpr(info, k1, k2) {
					continue
				}
				n++
				key := fmt.Sprintf("%s→Set(%s)…Delete(%s)", funcName(h), exprStr(k1), exprStr(k2))
				// distinct keys established?
				distinct := false
				for _, f := range fg.DominatingFacts(d) {
					be, ok := ast.Unparen(f.E).(*ast.BinaryExpr)
					if !ok || f.Tag != nil {
						continue
					}
					ne := be.Op == token.NEQ && !f.Neg || be.Op == token.EQL && f.Neg
					if ne && (sameExpr(info, be.X, k1) && sameExpr(info, be.Y, k2) || sameExpr(info, be.X, k2) && sameExpr(info, be.Y, k1)) {
						distinct = true
					}
				}
				after, trail := fg.Reach(PathQuery{From: s, Target: func(l Loc) bool { return l.Block == d.Block && l.Idx == d.Idx }})
				if after && !distinct {
					var path []string
					for _, nd := range trail {
						path = append(path, c.posStr(nd.Pos()))
					}
					c.badPath(key, d.Node.Pos(), path, "the keyspace entry %s is deleted after %s was stored, and nothing establishes that the two keys differ: when they are equal the collection just stored is removed (the command still reports success and is logged)", exprStr(k2), exprStr(k1))
				} else {
					c.ok(key, d.Node.Pos(), true, "the delete is not reachable after the store (or the keys are known to differ)")
				}
			}
		}
	}
	c.stat("set_delete_pairs", n)
}

// ---------------------------------------------------------------------------

type linForm struct{ a, b *big.Rat } // a·d + b·|d|

func ratOfConst(v constant.Value) (*big.Rat, bool) {
	if v == nil {
		return nil, false
	}
	switch x := constant.Val(constant.ToFloat(v)).(type) {
	case *big.Rat:
		return x, true
	case *big.Float:
		r, _ := x.Rat(nil)
		return r, r != nil
	case float64:
		return new(big.Rat).SetFloat64(x), true
	case int64:
		return new(big.Rat).SetInt64(x), true
	}
	return nil, false
}

func ruleOutwardDirection(c *Ctx) {
	rr := c.Func("internal/collection", "", "rtreeRect")
	if rr == nil {
		c.und("anchors", 0, "rtreeRect not found")
		return
	}
	info := rr.Info()
	// by role: the callee applied to <rect>.Min.* is the down-rounding, to <rect>.Max.* the up-rounding
	role := map[*types.Func]string{}
	ast.Inspect(rr.Decl.Body, func(n ast.Node) bool {
		call, ok := n.(*ast.CallExpr)
		if !ok || len(call.Args) != 1 {
			return true
		}
		f := callee(info, call)
		if f == nil {
			return true
		}
		if s2, ok := ast.Unparen(call.Args[0]).(*ast.SelectorExpr); ok {
			if s1, ok := ast.Unparen(s2.X).(*ast.SelectorExpr); ok {
				switch s1.Sel.Name {
				case "Min":
					if role[f] == "up" {
						role[f] = "conflict"
					} else if role[f] == "" {
						role[f] = "down"
					}
				case "Max":
					if role[f] == "down" {
						role[f] = "conflict"
					} else if role[f] == "" {
						role[f] = "up"
					}
				}
			}
		}
		return true
	})
	nDown, nUp := 0, 0
	for f, r := range role {
		fi := c.FuncOf(f)
		if r == "conflict" || fi == nil {
			c.bad("roles/"+f.Name(), rr.Decl.Pos(), "%s is applied to both Min and Max coordinates (or is not a repository function): one side of every index rectangle is rounded inward", f.Name())
			continue
		}
		if r == "down" {
			nDown++
		} else {
			nUp++
		}
		checkRounding(c, fi, r == "up")
	}
	if nDown == 0 || nUp == 0 {
		c.bad("roles", rr.Decl.Pos(), "rtreeRect does not apply one rounding function to the Min coordinates and another to the Max coordinates")
	}
}

func checkRounding(c *Ctx, fn *FuncInfo, up bool) {
	info := fn.Info()
	name := fn.Obj.Name()
	if len(fn.Decl.Type.Params.List) != 1 || len(fn.Decl.Type.Params.List[0].Names) != 1 {
		c.und(name, fn.Decl.Pos(), "expected one parameter")
		return
	}
	dObj := info.ObjectOf(fn.Decl.Type.Params.List[0].Names[0])
	isD := func(e ast.Expr) bool {
		id, ok := ast.Unparen(e).(*ast.Ident)
		return ok && info.ObjectOf(id) == dObj
	}
	var lin func(e ast.Expr) (linForm, bool)
	lin = func(e ast.Expr) (linForm, bool) {
		e = ast.Unparen(e)
		zero := func() *big.Rat { return new(big.Rat) }
		if isD(e) {
			return linForm{big.NewRat(1, 1), zero()}, true
		}
		switch x := e.(type) {
		case *ast.CallExpr:
			if f := callee(info, x); f != nil && f.Pkg() != nil && f.Pkg().Path() == "math" && f.Name() == "Abs" && len(x.Args) == 1 && isD(x.Args[0]) {
				return linForm{zero(), big.NewRat(1, 1)}, true
			}
			// float64(d)
			if tv, ok := info.Types[x.Fun]; ok && tv.IsType() && len(x.Args) == 1 {
				if b, ok := tv.Type.Underlying().(*types.Basic); ok && b.Kind() == types.Float64 {
					return lin(x.Args[0])
				}
			}
		case *ast.UnaryExpr:
			if x.Op == token.SUB {
				if f, ok := lin(x.X); ok {
					return linForm{new(big.Rat).Neg(f.a), new(big.Rat).Neg(f.b)}, true
				}
			}
		case *ast.BinaryExpr:
			switch x.Op {
			case token.ADD, token.SUB:
				l, ok1 := lin(x.X)
				r, ok2 := lin(x.Y)
				if ok1 && ok2 {
					if x.Op == token.ADD {
						return linForm{new(big.Rat).Add(l.a, r.a), new(big.Rat).Add(l.b, r.b)}, true
					}
					return linForm{new(big.Rat).Sub(l.a, r.a), new(big.Rat).Sub(l.b, r.b)}, true
				}
			case token.MUL:
				for _, pr := range [][2]ast.Expr{{x.X, x.Y}, {x.Y, x.X}} {
					if tv, ok := info.Types[pr[0]]; ok && tv.Value != nil {
						if k, ok := ratOfConst(tv.Value); ok {
							if f, ok := lin(pr[1]); ok {
								return linForm{new(big.Rat).Mul(k, f.a), new(big.Rat).Mul(k, f.b)}, true
							}
						}
					}
				}
			}
		}
		return linForm{}, false
	}
	fg := newFlowGraph(info, fn.Decl.Body)
	// result variables: identifiers that some return hands back
	resVars := map[types.Object]bool{}
	for _, r := range fg.Returns() {
		rs := r.Node.(*ast.ReturnStmt)
		if len(rs.Results) == 1 {
			if id, ok := ast.Unparen(rs.Results[0]).(*ast.Ident); ok {
				resVars[info.ObjectOf(id)] = true
			}
		}
	}
	// value sites: assignments of float32(E) to a result variable, and returns of float32(E)
	type site struct {
		loc Loc
		E   ast.Expr
		v   types.Object // result variable, nil for a direct return
		as  *ast.AssignStmt
		pos token.Pos
	}
	var sites []site
	convArg := func(e ast.Expr) ast.Expr {
		conv, ok := ast.Unparen(e).(*ast.CallExpr)
		if !ok || len(conv.Args) != 1 {
			return nil
		}
		if tv, ok := info.Types[conv.Fun]; !ok || !tv.IsType() {
			return nil
		}
		return conv.Args[0]
	}
	for _, b := range fg.G.Blocks {
		if !fg.Reachable(b) {
			continue
		}
		for i, nd := range b.Nodes {
			switch x := nd.(type) {
			case *ast.AssignStmt:
				if len(x.Lhs) == 1 && len(x.Rhs) == 1 {
					if id, ok := x.Lhs[0].(*ast.Ident); ok && resVars[info.ObjectOf(id)] {
						if E := convArg(x.Rhs[0]); E != nil {
							sites = append(sites, site{Loc{b, i, x}, E, info.ObjectOf(id), x, x.Pos()})
						} else {
							c.und(name+"/value", x.Pos(), "result assigned from %s: not a float32 conversion", exprStr(x.Rhs[0]))
						}
					}
				}
			case *ast.ReturnStmt:
				if len(x.Results) == 1 {
					if _, isId := ast.Unparen(x.Results[0]).(*ast.Ident); !isId {
						if E := convArg(x.Results[0]); E != nil {
							sites = append(sites, site{Loc{b, i, x}, E, nil, nil, x.Pos()})
						} else {
							c.und(name+"/value", x.Pos(), "returns %s: not a float32 conversion", exprStr(x.Results[0]))
						}
					}
				}
			}
		}
	}
	one := big.NewRat(1, 1)
	dirWord := map[bool]string{true: "above", false: "below"}[up]
	wrongOp := token.LSS
	if !up {
		wrongOp = token.GTR
	}
	mentions := func(x ast.Expr, o types.Object) bool {
		hit := false
		ast.Inspect(x, func(n ast.Node) bool {
			if id, ok := n.(*ast.Ident); ok && info.ObjectOf(id) == o {
				hit = true
			}
			return true
		})
		return hit
	}
	nNudge, nPlain := 0, 0
	for _, st := range sites {
		if isD(st.E) {
			nPlain++
			key := name + "/plain-conversion-kept-only-if-outward"
			if st.v == nil {
				c.und(key, st.pos, "float32(d) is returned directly: the rule cannot see the test that it is on the outer side")
				continue
			}
			v := st.v
			isWrongSide := func(e ast.Expr) bool {
				be, ok := ast.Unparen(e).(*ast.BinaryExpr)
				if !ok {
					return false
				}
				flip := map[token.Token]token.Token{token.LSS: token.GTR, token.GTR: token.LSS}
				return be.Op == wrongOp && mentions(be.X, v) && isD(be.Y) || be.Op == flip[wrongOp] && isD(be.X) && mentions(be.Y, v)
			}
			escape, _ := fg.Reach(PathQuery{From: st.loc,
				Target: func(t Loc) bool {
					r, ok := t.Node.(*ast.ReturnStmt)
					if !ok || len(r.Results) != 1 {
						return false
					}
					id, ok := ast.Unparen(r.Results[0]).(*ast.Ident)
					return ok && info.ObjectOf(id) == v
				},
				Avoid: func(t Loc) bool {
					if a2, ok := t.Node.(*ast.AssignStmt); ok && a2 != st.as && len(a2.Lhs) == 1 {
						if id, ok := a2.Lhs[0].(*ast.Ident); ok && info.ObjectOf(id) == v {
							return true
						}
					}
					return false
				},
				EdgeOK: func(b *cfg.Block, si int) bool {
					// the kept value is fine on every edge on which the wrong-side test is known FALSE;
					// what remains are paths that keep the plain conversion although it may be on the wrong side
					for _, f := range fg.edgeFacts(b, si) {
						if f.Tag == nil && isWrongSide(f.E) && f.Neg {
							return false
						}
					}
					return true
				}})
			c.check(!escape, key, st.pos, "float32(d) is returned unchanged only when it is not "+map[bool]string{true: "below", false: "above"}[up]+" d", "float32(d) can be returned although it lies on the inner side of d: the index rectangle does not contain the object's rectangle")
			continue
		}
		nNudge++
		f, ok := lin(st.E)
		key := fmt.Sprintf("%s/nudge@%s", name, exprStr(st.E))
		if !ok {
			c.und(key, st.pos, "%s is not of the form a·d + b·|d| with constant a, b", exprStr(st.E))
			continue
		}
		// sign of d known here? facts, closed under  A ∧ ¬(A ∧ B) ⇒ ¬B
		type sfact struct {
			e   ast.Expr
			neg bool
		}
		var fs []sfact
		pos := map[string]bool{}
		for _, ft := range fg.DominatingFacts(st.loc) {
			if ft.Tag != nil {
				continue
			}
			fs = append(fs, sfact{ft.E, ft.Neg})
			if !ft.Neg {
				pos[exprStr(ft.E)] = true
			}
		}
		for _, ft := range append([]sfact(nil), fs...) {
			if be, ok := ast.Unparen(ft.e).(*ast.BinaryExpr); ok && ft.neg && be.Op == token.LAND {
				if pos[exprStr(be.X)] {
					fs = append(fs, sfact{be.Y, true})
				}
				if pos[exprStr(be.Y)] {
					fs = append(fs, sfact{be.X, true})
				}
			}
		}
		neg, nonneg := false, false
		for _, ft := range fs {
			be, ok := ast.Unparen(ft.e).(*ast.BinaryExpr)
			if !ok || !isD(be.X) {
				continue
			}
			tv, has := info.Types[be.Y]
			if !has || tv.Value == nil || constant.Sign(tv.Value) != 0 {
				continue
			}
			switch {
			case be.Op == token.LSS && !ft.neg:
				neg = true
			case be.Op == token.LSS && ft.neg, be.Op == token.GEQ && !ft.neg:
				nonneg = true
			case be.Op == token.GEQ && ft.neg:
				neg = true
			case be.Op == token.GTR && !ft.neg:
				nonneg = true
			}
		}
		sumPos := new(big.Rat).Add(f.a, f.b) // E = (a+b)·d for d > 0
		sumNeg := new(big.Rat).Sub(f.a, f.b) // E = (a−b)·d for d < 0
		okPos := up && sumPos.Cmp(one) > 0 || !up && sumPos.Cmp(one) < 0
		okNeg := up && sumNeg.Cmp(one) < 0 || !up && sumNeg.Cmp(one) > 0
		var problems []string
		if !neg && !okPos {
			problems = append(problems, fmt.Sprintf("for d > 0 it equals %s·d, which is not %s d", sumPos.RatString(), dirWord))
		}
		if !nonneg && !okNeg {
			problems = append(problems, fmt.Sprintf("for d < 0 it equals %s·d, which is not %s d", sumNeg.RatString(), dirWord))
		}
		if len(problems) == 0 {
			c.ok(key, st.pos, true, "%s lies strictly %s d for every sign of d possible here", exprStr(st.E), dirWord)
		} else {
			c.bad(key, st.pos, "the nudged value %s moves the wrong way: %s — the index box (or the search window) is shrunk on that side and objects touching the edge are not found", exprStr(st.E), strings.Join(problems, "; "))
		}
	}
	if nPlain == 0 || nNudge == 0 {
		c.bad(name+"/shape", fn.Decl.Pos(), "expected the plain conversion and at least one nudged value among the results of %s (found %d/%d)", name, nPlain, nNudge)
	}
}

func init() {
	register(&Rule{ID: "R11.stepper-exactly-once", Props: []string{"C11"}, Floor: 1,
		Text: "every helper of the collection package that steps a Cursor parameter (nextStep) steps it exactly once on every path on which the cursor is not nil — the per-item callbacks count one call of the helper as one step (R11.cursor-protocol), so a helper that skips the step on some path (a yield boundary, say) makes the reported cursor lag and the next page repeat entries",
		Run:  ruleStepperExactlyOnce})
	register(&Rule{ID: "R10.batch-not-aliased", Props: []string{"C10", "C05", "C07"}, Floor: 2,
		Text: "a consumer that takes the pending batch of a guarded queue into a local (batch := q.items) and then releases the queue's lock leaves the queue with a slice that does not share the batch's backing array: the field is reset to nil or a fresh slice, never to q.items[:0] — producers append under the lock while the consumer is still reading the batch without it, and would overwrite messages not yet delivered (lost, and the overwriting message delivered twice, out of order)",
		Run:  ruleBatchNotAliased})
	register(&Rule{ID: "R12.multi-glob-unbounded", Props: []string{"C12"}, Floor: 2,
		Text: "in multiGlobParse every pattern's limits pass the 'no literal prefix' test (both limits empty) before they are merged into the scan range, the first pattern included: every store of g.Limits into the result is dominated by the false edge of that test, and its true edge sets both result limits to the empty string and leaves the loop — otherwise ids that match an unbounded pattern but lie outside the range of a later pattern are never scanned",
		Run:  ruleMultiGlobUnbounded})
}

func ruleStepperExactlyOnce(c *Ctx) {
	stepping := steppingFuncs(c)
	n := 0
	for f := range stepping {
		fn := c.FuncOf(f)
		if fn == nil {
			continue
		}
		info := fn.Info()
		var cursorObj types.Object
		for _, p := range fn.Decl.Type.Params.List {
			for _, nm := range p.Names {
				if isNamedType(info.ObjectOf(nm).Type(), colPath, "Cursor") {
					cursorObj = info.ObjectOf(nm)
				}
			}
		}
		if cursorObj == nil {
			continue
		}
		n++
		fg := newFlowGraph(info, fn.Decl.Body)
		stepsIn := func(nd ast.Node) int {
			k := 0
			inspectNoLit(nd, func(x ast.Node) bool {
				call, ok := x.(*ast.CallExpr)
				if !ok {
					return true
				}
				if se, ok := ast.Unparen(call.Fun).(*ast.SelectorExpr); ok && se.Sel.Name == "Step" {
					if id, ok := ast.Unparen(se.X).(*ast.Ident); ok && info.ObjectOf(id) == cursorObj {
						k++
					}
				}
				if g := callee(info, call); g != nil && stepping[g] && g != f {
					for _, a := range call.Args {
						if id, ok := ast.Unparen(a).(*ast.Ident); ok && info.ObjectOf(id) == cursorObj {
							k++
							break
						}
					}
				}
				return true
			})
			return k
		}
		// state: set of (steps ∈ {0,1,2+}, cursor known nil)
		type st = uint8
		enc := func(steps, isNil int) st { return 1 << uint(steps*2+isNil) }
		in := map[int32]st{0: enc(0, 0)}
		work := []*cfg.Block{fg.G.Blocks[0]}
		problem := ""
		var at token.Pos
		checkExit := func(s st, pos token.Pos) {
			for steps := 0; steps < 3; steps++ {
				if s&enc(steps, 0) != 0 && steps != 1 && problem == "" {
					problem, at = fmt.Sprintf("it can return after %d steps of a cursor that is not nil", steps), pos
				}
			}
		}
		for len(work) > 0 {
			b := work[0]
			work = work[1:]
			s := in[b.Index]
			for _, nd := range b.Nodes {
				if k := stepsIn(nd); k > 0 {
					var o st
					for steps := 0; steps < 3; steps++ {
						for isNil := 0; isNil < 2; isNil++ {
							if s&enc(steps, isNil) != 0 {
								ns := steps + k
								if ns > 2 {
									ns = 2
								}
								o |= enc(ns, isNil)
							}
						}
					}
					s = o
				}
				if _, ok := nd.(*ast.ReturnStmt); ok {
					checkExit(s, nd.Pos())
				}
			}
			if len(b.Succs) == 0 && (len(b.Nodes) == 0 || !isReturn(b.Nodes[len(b.Nodes)-1])) {
				checkExit(s, fn.Decl.End())
			}
			for si, sc := range b.Succs {
				o := s
				if len(b.Succs) == 2 {
					for k, v := range fg.identFacts(fg.edgeFacts(b, si)) {
						if k.obj == cursorObj && k.isNil {
							var o2 st
							for steps := 0; steps < 3; steps++ {
								if v { // cursor == nil on this edge
									if s&(enc(steps, 0)|enc(steps, 1)) != 0 {
										o2 |= enc(steps, 1)
									}
								} else if s&enc(steps, 0) != 0 { // cursor != nil: drop the nil worlds
									o2 |= enc(steps, 0)
								}
							}
							o = o2
						}
					}
				}
				if in[sc.Index]|o != in[sc.Index] {
					in[sc.Index] |= o
					work = append(work, sc)
				}
			}
		}
		key := funcName(f)
		if problem == "" {
			c.ok(key, fn.Decl.Pos(), true, "steps the cursor exactly once on every path on which it is not nil")
		} else {
			c.bad(key, at, "%s is used as 'one step per item' by the iterators, but %s: the cursor reported to the client no longer equals the number of items passed, and following it repeats or skips entries", f.Name(), problem)
		}
	}
	c.stat("stepping_helpers", n)
}

func ruleBatchNotAliased(c *Ctx) {
	pk := "internal/server"
	// the guarded queue fields of the C10 specs: slices only
	queues := map[*types.Var]string{}
	for _, q := range [][2]string{{"subtarget", "msgs"}, {"pubQueue", "entries"}, {"liveBuffer", "details"}, {"Server", "lstack"}} {
		if f := c.Field(pk, q[0], q[1]); f != nil {
			if _, ok := f.Type().Underlying().(*types.Slice); ok {
				queues[f] = q[0] + "." + q[1]
			}
		}
	}
	n := 0
	for _, fn := range c.AllFuncs(pk) {
		info := fn.Info()
		ast.Inspect(fn.Decl.Body, func(x ast.Node) bool {
			body, ok := x.(*ast.BlockStmt)
			if !ok {
				return true
			}
			// within one block: batch := Q   followed by   Q = <reset>
			for i, st := range body.List {
				as, ok := st.(*ast.AssignStmt)
				if !ok || len(as.Lhs) != 1 || len(as.Rhs) != 1 {
					continue
				}
				qf := selField(info, as.Rhs[0])
				name, isQ := queues[qf]
				if !isQ {
					continue
				}
				if _, ok := as.Lhs[0].(*ast.Ident); !ok {
					continue
				}
				// the resets that follow, at any depth of the statements after the take (both arms of an if, …)
				var resets []*ast.AssignStmt
				for _, st2 := range body.List[i+1:] {
					inspectNoLit(st2, func(y ast.Node) bool {
						if as2, ok := y.(*ast.AssignStmt); ok && len(as2.Lhs) == 1 && len(as2.Rhs) == 1 && selField(info, as2.Lhs[0]) == qf && sameExpr(info, as2.Lhs[0], as.Rhs[0]) {
							resets = append(resets, as2)
						}
						return true
					})
				}
				for ri, as2 := range resets {
					n++
					key := funcName(fn.Obj) + "→" + name
					if ri > 0 {
						key = fmt.Sprintf("%s#%d", key, ri+1)
					}
					r := ast.Unparen(as2.Rhs[0])
					fresh := false
					if tv, ok := info.Types[r]; ok && tv.IsNil() {
						fresh = true
					}
					if call, ok := r.(*ast.CallExpr); ok {
						if id, ok := ast.Unparen(call.Fun).(*ast.Ident); ok && id.Name == "make" {
							fresh = true
						}
					}
					if _, ok := r.(*ast.CompositeLit); ok {
						fresh = true
					}
					aliased := false
					ast.Inspect(r, func(y ast.Node) bool {
						if e, ok := y.(ast.Expr); ok && (selField(info, e) == qf || sameExpr(info, e, as.Lhs[0])) {
							aliased = true
						}
						return true
					})
					// an append to the queue (a producer's or a re-insert) is not a reset
					if call, ok := r.(*ast.CallExpr); ok && aliased {
						if id, ok := ast.Unparen(call.Fun).(*ast.Ident); ok && id.Name == "append" && len(call.Args) >= 2 && selField(info, call.Args[0]) == qf {
							n--
							continue
						}
					}
					switch {
					case fresh && !aliased:
						c.ok(key, as2.Pos(), true, "after the batch is taken the queue is reset to a slice with its own backing array")
					case aliased:
						c.bad(key, as2.Pos(), "after `%s` the queue is reset to %s, which shares the backing array of the batch: producers appending under the lock overwrite messages the consumer has not delivered yet", exprStr(as.Lhs[0])+" := "+exprStr(as.Rhs[0]), exprStr(r))
					default:
						c.und(key, as2.Pos(), "queue reset to %s: not recognised as fresh or aliased", exprStr(r))
					}
				}
			}
			return true
		})
	}
	c.stat("batch_takes", n)
}

func ruleMultiGlobUnbounded(c *Ctx) {
	fn := c.Func("internal/server", "", "multiGlobParse")
	if fn == nil {
		c.und("anchors", 0, "multiGlobParse not found")
		return
	}
	info := fn.Info()
	fg := newFlowGraph(info, fn.Decl.Body)
	// g := glob.Parse(...)
	var gObj types.Object
	inspectNoLit(fn.Decl.Body, func(n ast.Node) bool {
		if as, ok := n.(*ast.AssignStmt); ok && len(as.Lhs) == 1 && len(as.Rhs) == 1 {
			if call, ok := ast.Unparen(as.Rhs[0]).(*ast.CallExpr); ok {
				if f := callee(info, call); f != nil && isFunc(f, modPath+"/internal/glob", "Parse") {
					if id, ok := as.Lhs[0].(*ast.Ident); ok {
						gObj = info.ObjectOf(id)
					}
				}
			}
		}
		return true
	})
	// the result variable: returned identifier
	var resObj types.Object
	for _, r := range fg.Returns() {
		rs := r.Node.(*ast.ReturnStmt)
		if len(rs.Results) == 1 {
			if id, ok := ast.Unparen(rs.Results[0]).(*ast.Ident); ok {
				resObj = info.ObjectOf(id)
			}
		}
	}
	if gObj == nil || resObj == nil {
		c.und("anchors", fn.Decl.Pos(), "the parsed glob or the result variable was not found")
		return
	}
	isGLimit := func(e ast.Expr, idx string) bool {
		// lo, hi := g.Limits[0], g.Limits[1]
		e = resolveLocal(info, fn.Decl.Body, e)
		ix, ok := ast.Unparen(e).(*ast.IndexExpr)
		if !ok {
			return false
		}
		se, ok := ast.Unparen(ix.X).(*ast.SelectorExpr)
		if !ok || se.Sel.Name != "Limits" {
			return false
		}
		id, ok := ast.Unparen(se.X).(*ast.Ident)
		if !ok || info.ObjectOf(id) != gObj {
			return false
		}
		tv, ok := info.Types[ix.Index]
		return ok && tv.Value != nil && (idx == "" || tv.Value.String() == idx)
	}
	isEmptyStr := func(e ast.Expr) bool {
		s, ok := constString(info, e)
		return ok && s == ""
	}
	isUnboundedTest := func(e ast.Expr) bool {
		be, ok := ast.Unparen(e).(*ast.BinaryExpr)
		if !ok || be.Op != token.LAND {
			return false
		}
		half := func(x ast.Expr, idx string) bool {
			b, ok := ast.Unparen(x).(*ast.BinaryExpr)
			return ok && b.Op == token.EQL && isGLimit(b.X, idx) && isEmptyStr(b.Y)
		}
		return half(be.X, "0") && half(be.Y, "1") || half(be.X, "1") && half(be.Y, "0")
	}
	// (1) every store of g.Limits into the result is dominated by the false edge of the test
	stores := fg.Find(func(n ast.Node) bool {
		as, ok := n.(*ast.AssignStmt)
		if !ok {
			return false
		}
		toRes := false
		for _, l := range as.Lhs {
			if ix, ok := ast.Unparen(l).(*ast.IndexExpr); ok {
				if id, ok := ast.Unparen(ix.X).(*ast.Ident); ok && info.ObjectOf(id) == resObj {
					toRes = true
				}
			}
		}
		fromG := false
		for _, r := range as.Rhs {
			if isGLimit(r, "") {
				fromG = true
			}
		}
		return toRes && fromG
	})
	if len(stores) == 0 {
		c.und("merge-sites", fn.Decl.Pos(), "no store of g.Limits into the result found")
		return
	}
	for i, s := range stores {
		key := fmt.Sprintf("merge%d-after-unbounded-test", i+1)
		dom := false
		for _, f := range fg.DominatingFacts(s) {
			if f.Neg && f.Tag == nil && isUnboundedTest(f.E) {
				dom = true
			}
		}
		c.check(dom, key, s.Node.Pos(), "the limits are merged only after the pattern was found to have a literal prefix", "a pattern's limits are merged into the scan range without the 'no literal prefix' test having failed for it: an unbounded pattern (leading *, ?, [ or escape) then bounds the scan, and ids it matches outside that range are never visited")
	}
	// (2) the true edge resets both limits to "" and leaves the loop
	okTrue := false
	ast.Inspect(fn.Decl.Body, func(n ast.Node) bool {
		ifs, ok := n.(*ast.IfStmt)
		if !ok || !isUnboundedTest(ifs.Cond) {
			return true
		}
		reset := map[string]bool{}
		leaves := false
		for _, st := range ifs.Body.List {
			switch x := st.(type) {
			case *ast.AssignStmt:
				for i, l := range x.Lhs {
					if ix, ok := ast.Unparen(l).(*ast.IndexExpr); ok && i < len(x.Rhs) {
						if id, ok := ast.Unparen(ix.X).(*ast.Ident); ok && info.ObjectOf(id) == resObj && isEmptyStr(x.Rhs[i]) {
							if tv, ok := info.Types[ix.Index]; ok && tv.Value != nil {
								reset[tv.Value.String()] = true
							}
						}
					}
				}
			case *ast.BranchStmt:
				if x.Tok == token.BREAK {
					leaves = true
				}
			case *ast.ReturnStmt:
				leaves = true
				// return [2]string{} / [2]string{"", ""}: both limits empty
				if len(x.Results) == 1 {
					if cl, ok := ast.Unparen(x.Results[0]).(*ast.CompositeLit); ok {
						allEmpty := true
						for _, el := range cl.Elts {
							if !isEmptyStr(el) {
								allEmpty = false
							}
						}
						if allEmpty {
							reset["0"], reset["1"] = true, true
						}
					}
				}
			}
		}
		if reset["0"] && reset["1"] && leaves {
			okTrue = true
		}
		return true
	})
	c.check(okTrue, "unbounded-pattern-unbounds-range", fn.Decl.Pos(), "a pattern without literal prefix sets both limits to \"\" and ends the merge", "a pattern without a literal prefix does not reset the range to unbounded and end the merge")
}

func init() {
	register(&Rule{ID: "R20.no-aliased-compaction", Props: []string{"C20", "C05"}, Floor: 1,
		Text: "two local slices that share a backing array (b = a, without a copy) are not used independently: in internal/server and internal/collection, after one of them is modified in place (an element or element-field store, a swap-remove, an append-compaction, an in-place sort) the other is not read again — fenceMatchRoam compacts the old-neighbour list in place while the new-neighbour list is still needed, so a shortcut that makes the two lists one array reports one neighbour twice and drops another",
		Run:  ruleNoAliasedCompaction})
}

func ruleNoAliasedCompaction(c *Ctx) {
	n := 0
	for _, rel := range []string{"internal/server", "internal/collection"} {
		for _, fn := range c.AllFuncs(rel) {
			info := fn.Info()
			isLocalSlice := func(e ast.Expr) types.Object {
				id, ok := ast.Unparen(e).(*ast.Ident)
				if !ok {
					return nil
				}
				v, ok := info.ObjectOf(id).(*types.Var)
				if !ok || v.IsField() || v.Pkg() == nil || v.Parent() == v.Pkg().Scope() {
					return nil
				}
				if _, ok := v.Type().Underlying().(*types.Slice); !ok {
					return nil
				}
				return v
			}
			// alias assignments a = b between local slices (both sides plain identifiers)
			type aliasT struct {
				as   *ast.AssignStmt
				a, b types.Object
			}
			var aliases []aliasT
			inspectNoLit(fn.Decl.Body, func(x ast.Node) bool {
				as, ok := x.(*ast.AssignStmt)
				if !ok || len(as.Lhs) != len(as.Rhs) || (as.Tok != token.ASSIGN && as.Tok != token.DEFINE) {
					return true
				}
				for i := range as.Lhs {
					a, b := isLocalSlice(as.Lhs[i]), isLocalSlice(as.Rhs[i])
					if a != nil && b != nil && a != b {
						aliases = append(aliases, aliasT{as, a, b})
					}
				}
				return true
			})
			if len(aliases) == 0 {
				continue
			}
			fg := newFlowGraph(info, fn.Decl.Body)
			// in-place modifications of a slice variable
			modifies := func(nd ast.Node, v types.Object) bool {
				hit := false
				inspectNoLit(nd, func(x ast.Node) bool {
					switch s := x.(type) {
					case *ast.AssignStmt:
						for i, l := range s.Lhs {
							// v[i] = …, v[i].f = …
							e := ast.Unparen(l)
							for {
								if se, ok := e.(*ast.SelectorExpr); ok {
									e = ast.Unparen(se.X)
									continue
								}
								break
							}
							if ix, ok := e.(*ast.IndexExpr); ok && isLocalSlice(ix.X) == v {
								hit = true
							}
							// v = append(v[:i], …)
							if isLocalSlice(l) == v && i < len(s.Rhs) && len(s.Lhs) == len(s.Rhs) {
								if call, ok := ast.Unparen(s.Rhs[i]).(*ast.CallExpr); ok && len(call.Args) > 0 {
									if id, ok := ast.Unparen(call.Fun).(*ast.Ident); ok && id.Name == "append" {
										if sl, ok := ast.Unparen(call.Args[0]).(*ast.SliceExpr); ok && isLocalSlice(sl.X) == v {
											hit = true
										}
									}
								}
							}
						}
					case *ast.CallExpr:
						// sort.Slice(v, …), sort.Sort-like helpers taking the slice: in-place reordering
						if f := callee(info, s); f != nil && f.Pkg() != nil && (f.Pkg().Path() == "sort" || strings.HasPrefix(f.Name(), "sort")) {
							for _, a := range s.Args {
								if isLocalSlice(a) == v {
									hit = true
								}
							}
						}
					}
					return true
				})
				return hit
			}
			reads := func(nd ast.Node, v types.Object, skip *ast.AssignStmt) bool {
				hit := false
				inspectNoLit(nd, func(x ast.Node) bool {
					if as, ok := x.(*ast.AssignStmt); ok {
						if as == skip {
							return false
						}
						// a plain re-assignment of v (v = …) is not a read of the shared array
						for _, r := range as.Rhs {
							ast.Inspect(r, func(y ast.Node) bool {
								if id, ok := y.(*ast.Ident); ok && info.ObjectOf(id) == v {
									hit = true
								}
								return true
							})
						}
						for _, l := range as.Lhs {
							if _, plain := ast.Unparen(l).(*ast.Ident); !plain {
								ast.Inspect(l, func(y ast.Node) bool {
									if id, ok := y.(*ast.Ident); ok && info.ObjectOf(id) == v {
										hit = true
									}
									return true
								})
							}
						}
						return false
					}
					if id, ok := x.(*ast.Ident); ok && info.ObjectOf(id) == v {
						hit = true
					}
					return true
				})
				return hit
			}
			for _, al := range aliases {
				n++
				key := fmt.Sprintf("%s→%s~%s", funcName(fn.Obj), al.a.Name(), al.b.Name())
				aloc := fg.LocOf(al.as)
				if !aloc.Valid() {
					c.und(key, al.as.Pos(), "alias assignment not located")
					continue
				}
				problem := ""
				var at token.Pos
				for _, pair := range [][2]types.Object{{al.a, al.b}, {al.b, al.a}} {
					mod, other := pair[0], pair[1]
					// a modification through `mod` reachable from the alias …
					var modLocs []Loc
					fg.Reach(PathQuery{From: aloc, Target: func(l Loc) bool {
						if modifies(l.Node, mod) {
							modLocs = append(modLocs, l)
						}
						return false
					}})
					for _, ml := range modLocs {
						// … after which `other` is read again (before being re-assigned as a whole)
						again, _ := fg.Reach(PathQuery{From: ml,
							Target: func(l Loc) bool { return reads(l.Node, other, nil) },
							Avoid: func(l Loc) bool {
								// `other` (or `mod`) re-assigned from something else ends the aliasing
								if as, ok := l.Node.(*ast.AssignStmt); ok && as != al.as {
									for i, lh := range as.Lhs {
										if o := isLocalSlice(lh); (o == other || o == mod) && i < len(as.Rhs) && !reads(as.Rhs[i], mod, nil) && !reads(as.Rhs[i], other, nil) {
											return true
										}
									}
								}
								return false
							}})
						if again && problem == "" {
							problem = fmt.Sprintf("%s is modified in place and %s, which shares its backing array since `%s = %s`, is read afterwards", mod.Name(), other.Name(), al.a.Name(), al.b.Name())
							at = ml.Node.Pos()
						}
					}
				}
				if problem == "" {
					c.ok(key, al.as.Pos(), true, "after the two slices share an array, neither is read again once the other was modified in place")
				} else {
					c.bad(key, at, "%s: the reader sees the other list's swaps and truncations (an element reported twice, another dropped)", problem)
				}
			}
		}
	}
	c.stat("local_slice_aliases", n)
}
