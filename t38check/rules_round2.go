package main

// Rules added after the second round of seeded changes (one independent change per property, again).

import (
	"fmt"
	"go/ast"
	"go/constant"
	"go/token"
	"go/types"
	"math/big"
	"strings"

	"golang.org/x/tools/go/cfg"
)

func init() {
	register(&Rule{ID: "R3.hook-immutable", Props: []string{"C03", "C05", "C14"}, Floor: 8,
		Text: "a registered hook is never modified in place: every store to a definition field of Hook (Key, Name, Endpoints, Message, Fence, Metas, channel, expires — what SETHOOK/SETCHAN log) goes through a variable bound in the same function to a freshly allocated Hook; a change to a registered hook would take effect in memory without the command being logged (the 'equal hook' path of cmdSetHook returns with updated == false)",
		Run:  ruleHookImmutable})
	register(&Rule{ID: "R5.switches-restored", Props: []string{"C05", "C20"}, Floor: 1,
		Text: "the switches of a fence (*liveFenceSwitches shared by a hook, a channel or a live connection) are not changed by evaluating it: a store to a field through a pointer that was not allocated in the same function (a parameter, an alias of one, a field of a hook) is dominated by an equality test of that field with a constant and is followed on every path to every exit by a store of that constant back through the same pointer or an alias of it",
		Run:  ruleSwitchesRestored})
	register(&Rule{ID: "R1.alias-safe-update", Props: []string{"C01"}, Floor: 1,
		Text: "commands with two key operands stay correct when the operands are equal: in a write handler no Server.cols.Delete(k2) is reachable after a Server.cols.Set(k1, …) with a different key expression unless a dominating test established k1 != k2 — store-then-delete removes the collection just stored when the keys alias (RENAME k k answers OK and the key is gone); delete-then-store is safe",
		Run:  ruleAliasSafeUpdate})
	register(&Rule{ID: "R2.outward-direction", Props: []string{"C02"}, Floor: 4,
		Text: "the two float32 quantisers of the spatial index move a value in the right direction for either sign: in the function applied to Min coordinates (resp. Max), the float32 conversion of the input is kept only on the edge on which it is already <= (resp. >=) the input, and every other value returned is float32(E) with E = a·d + b·|d| strictly below (resp. above) d in real arithmetic for the sign of d known on that path — decided symbolically on the exact rational constants; that the nudge is large enough to survive the conversion is numeric and not decided",
		Run:  ruleOutwardDirection})
}

var hookDefinitionFields = []string{"Key", "Name", "Endpoints", "Message", "Fence", "Metas", "channel", "expires"}

func ruleHookImmutable(c *Ctx) {
	pk := "internal/server"
	fields := map[*types.Var]string{}
	for _, n := range hookDefinitionFields {
		if f := c.Field(pk, "Hook", n); f != nil {
			fields[f] = n
		} else {
			c.und("field/"+n, 0, "Hook.%s not found", n)
		}
	}
	bad := map[string][]token.Pos{}
	nStores := 0
	for _, fn := range c.AllFuncs(pk) {
		info := fn.Info()
		// variables bound to a fresh Hook in this function
		fresh := map[types.Object]bool{}
		ast.Inspect(fn.Decl.Body, func(n ast.Node) bool {
			as, ok := n.(*ast.AssignStmt)
			if !ok || len(as.Lhs) != len(as.Rhs) {
				return true
			}
			for i, r := range as.Rhs {
				isNew := false
				switch x := ast.Unparen(r).(type) {
				case *ast.UnaryExpr:
					if cl, ok := ast.Unparen(x.X).(*ast.CompositeLit); ok && x.Op == token.AND && isNamedType(info.TypeOf(cl), modPath+"/"+pk, "Hook") {
						isNew = true
					}
				case *ast.CallExpr:
					if id, ok := ast.Unparen(x.Fun).(*ast.Ident); ok && id.Name == "new" && len(x.Args) == 1 && isNamedType(info.TypeOf(x.Args[0]), modPath+"/"+pk, "Hook") {
						isNew = true
					}
				}
				if id, ok := as.Lhs[i].(*ast.Ident); ok && isNew {
					fresh[info.ObjectOf(id)] = true
				}
			}
			return true
		})
		// a variable is fresh only if every assignment to it is a fresh allocation
		ast.Inspect(fn.Decl.Body, func(n ast.Node) bool {
			as, ok := n.(*ast.AssignStmt)
			if !ok {
				return true
			}
			for i, l := range as.Lhs {
				id, ok := l.(*ast.Ident)
				if !ok || !fresh[info.ObjectOf(id)] {
					continue
				}
				okNew := false
				if len(as.Lhs) == len(as.Rhs) {
					switch x := ast.Unparen(as.Rhs[i]).(type) {
					case *ast.UnaryExpr:
						_, okNew = ast.Unparen(x.X).(*ast.CompositeLit)
					case *ast.CallExpr:
						if fid, ok := ast.Unparen(x.Fun).(*ast.Ident); ok && fid.Name == "new" {
							okNew = true
						}
					}
				}
				if !okNew {
					delete(fresh, info.ObjectOf(id))
				}
			}
			return true
		})
		check := func(lhs ast.Expr) {
			e := ast.Unparen(lhs)
			// *h = ...
			if st, ok := e.(*ast.StarExpr); ok && isNamedType(info.TypeOf(st), modPath+"/"+pk, "Hook") {
				nStores++
				if id, ok := ast.Unparen(st.X).(*ast.Ident); !ok || !fresh[info.ObjectOf(id)] {
					bad["(whole struct)"] = append(bad["(whole struct)"], lhs.Pos())
				}
				return
			}
			// peel index expressions: h.Metas[i] = ...
			for {
				if ix, ok := e.(*ast.IndexExpr); ok {
					e = ast.Unparen(ix.X)
					continue
				}
				break
			}
			se, ok := e.(*ast.SelectorExpr)
			if !ok {
				return
			}
			fv := selField(info, se)
			name, isDef := fields[fv]
			if !isDef {
				return
			}
			nStores++
			if id, ok := ast.Unparen(se.X).(*ast.Ident); ok && fresh[info.ObjectOf(id)] {
				return
			}
			bad[name] = append(bad[name], lhs.Pos())
		}
		ast.Inspect(fn.Decl.Body, func(n ast.Node) bool {
			switch x := n.(type) {
			case *ast.AssignStmt:
				for _, l := range x.Lhs {
					check(l)
				}
			case *ast.IncDecStmt:
				check(x.X)
			}
			return true
		})
	}
	for _, n := range append(append([]string{}, hookDefinitionFields...), "(whole struct)") {
		if ps := bad[n]; len(ps) > 0 {
			c.bad("Hook."+n, ps[0], "Hook.%s is stored through a hook that was not allocated in the same function (%d site(s)): a registered hook is changed in place, which takes effect in memory but is not what the logged SETHOOK/SETCHAN commands describe — after a restart the change is gone", n, len(ps))
		} else if n != "(whole struct)" {
			c.ok("Hook."+n, 0, true, "no store to Hook.%s outside a freshly allocated hook", n)
		}
	}
	c.stat("hook_definition_field_stores", nStores)
}

func ruleSwitchesRestored(c *Ctx) {
	pk := "internal/server"
	n := 0
	for _, fn := range c.AllFuncs(pk) {
		info := fn.Info()
		isSwPtr := func(t types.Type) bool {
			p, ok := t.(*types.Pointer)
			return ok && isNamedType(p.Elem(), modPath+"/"+pk, "liveFenceSwitches")
		}
		// pointer variables allocated here
		local := map[types.Object]bool{}
		alias := map[types.Object]types.Object{} // alias -> root
		ast.Inspect(fn.Decl.Body, func(x ast.Node) bool {
			as, ok := x.(*ast.AssignStmt)
			if !ok || len(as.Lhs) != len(as.Rhs) {
				return true
			}
			for i, r := range as.Rhs {
				id, ok := as.Lhs[i].(*ast.Ident)
				if !ok || !isSwPtr(info.TypeOf(id)) {
					continue
				}
				switch y := ast.Unparen(r).(type) {
				case *ast.UnaryExpr:
					if y.Op == token.AND {
						local[info.ObjectOf(id)] = true
					}
				case *ast.Ident:
					if isSwPtr(info.TypeOf(y)) {
						alias[info.ObjectOf(id)] = info.ObjectOf(y)
					}
				}
			}
			return true
		})
		root := func(o types.Object) types.Object {
			for i := 0; i < 8; i++ {
				r, ok := alias[o]
				if !ok {
					return o
				}
				o = r
			}
			return o
		}
		// stores through a shared pointer: root ident of the selector chain has pointer-to-switches type
		type store struct {
			as    *ast.AssignStmt
			ptr   types.Object
			path  string // field path after the pointer
			value ast.Expr
		}
		var stores []store
		splitPath := func(e ast.Expr) (types.Object, string, bool) {
			var parts []string
			e = ast.Unparen(e)
			for {
				se, ok := e.(*ast.SelectorExpr)
				if !ok {
					break
				}
				parts = append([]string{se.Sel.Name}, parts...)
				e = ast.Unparen(se.X)
			}
			id, ok := e.(*ast.Ident)
			if !ok || len(parts) == 0 || !isSwPtr(info.TypeOf(id)) {
				return nil, "", false
			}
			return info.ObjectOf(id), strings.Join(parts, "."), true
		}
		inspectNoLit(fn.Decl.Body, func(x ast.Node) bool {
			as, ok := x.(*ast.AssignStmt)
			if !ok {
				return true
			}
			for i, l := range as.Lhs {
				p, path, ok := splitPath(l)
				if !ok || local[root(p)] {
					continue
				}
				var v ast.Expr
				if len(as.Lhs) == len(as.Rhs) {
					v = as.Rhs[i]
				}
				stores = append(stores, store{as, root(p), path, v})
			}
			return true
		})
		if len(stores) == 0 {
			continue
		}
		fg := newFlowGraph(info, fn.Decl.Body)
		constOf := func(e ast.Expr) string {
			if e == nil {
				return ""
			}
			if tv, ok := info.Types[e]; ok && tv.Value != nil {
				return tv.Value.ExactString()
			}
			return ""
		}
		origOf := func(st store) string {
			sl := fg.LocOf(st.as)
			if !sl.Valid() {
				return ""
			}
			for _, f := range fg.DominatingFacts(sl) {
				be, ok := ast.Unparen(f.E).(*ast.BinaryExpr)
				if !ok || f.Tag != nil || !(be.Op == token.EQL && !f.Neg || be.Op == token.NEQ && f.Neg) {
					continue
				}
				if p, path, ok := splitPath(be.X); ok && root(p) == st.ptr && path == st.path && constOf(be.Y) != "" {
					return constOf(be.Y)
				}
			}
			return ""
		}
		// values that some changing store of the same field will have to restore
		restoreValues := map[string]bool{}
		for _, st := range stores {
			if o := origOf(st); o != "" && constOf(st.value) != o {
				restoreValues[fmt.Sprintf("%p/%s/%s", st.ptr, st.path, o)] = true
			}
		}
		seenKey := map[string]int{}
		for _, st := range stores {
			n++
			key := fmt.Sprintf("%s→%s", funcName(fn.Obj), st.path)
			seenKey[key]++
			if seenKey[key] > 1 {
				key = fmt.Sprintf("%s#%d", key, seenKey[key])
			}
			sl := fg.LocOf(st.as)
			if !sl.Valid() {
				c.und(key, st.as.Pos(), "store not located in the flow graph")
				continue
			}
			orig := origOf(st)
			// a store that puts back the value a changing store replaced is the restore, not a change
			if v := constOf(st.value); v != "" && (v == orig || restoreValues[fmt.Sprintf("%p/%s/%s", st.ptr, st.path, v)]) {
				c.ok(key, st.as.Pos(), true, "stores the original value %s back", v)
				continue
			}
			// a later restoring store: any store to the same path through the same object whose value is a constant
			// equal to orig, or (when no test dominates) such that it is guarded by a flag set with this store
			restoreTo := orig
			isRestore := func(l Loc) bool {
				hit := false
				inspectNoLit(l.Node, func(y ast.Node) bool {
					as, ok := y.(*ast.AssignStmt)
					if !ok || as == st.as {
						return true
					}
					for i, lh := range as.Lhs {
						if p, path, ok := splitPath(lh); ok && root(p) == st.ptr && path == st.path && len(as.Lhs) == len(as.Rhs) {
							if restoreTo != "" && constOf(as.Rhs[i]) == restoreTo {
								hit = true
							}
						}
					}
					return true
				})
				return hit
			}
			if orig == "" {
				c.bad(key, st.as.Pos(), "a field of the shared fence switches is stored without a dominating test that fixes its previous value: the fence's definition is changed by evaluating it")
				continue
			}
			leak, trail := fg.Reach(PathQuery{From: sl, Target: func(l Loc) bool { _, ok := l.Node.(*ast.ReturnStmt); return ok }, Avoid: isRestore, Correlate: true})
			// falling off the end of the function counts as an exit too
			if !leak {
				for _, b := range fg.G.Blocks {
					if fg.Reachable(b) && len(b.Succs) == 0 && (len(b.Nodes) == 0 || !isReturn(b.Nodes[len(b.Nodes)-1])) {
						l2, _ := fg.Reach(PathQuery{From: sl, Target: func(l Loc) bool { return l.Block == b && l.Idx == len(b.Nodes)-1 }, Avoid: isRestore, Correlate: true})
						if l2 || (sl.Block == b) {
							leak = l2 || pathToEndAvoids(fg, sl, isRestore)
						}
					}
				}
			}
			if leak {
				var path []string
				for _, nd := range trail {
					path = append(path, c.posStr(nd.Pos()))
				}
				c.badPath(key, st.as.Pos(), path, "%s of a shared fence is changed from %s and an exit is reachable without restoring it: the fence keeps the changed switch for every later evaluation (a WITHIN fence turns into INTERSECTS for good)", st.path, orig)
			} else {
				c.ok(key, st.as.Pos(), true, "changed from %s and restored on every path to every exit", orig)
			}
		}
	}
	c.stat("shared_switch_stores", n)
}

func isReturn(n ast.Node) bool { _, ok := n.(*ast.ReturnStmt); return ok }

// pathToEndAvoids: from sl, the end of sl's own block (a block without successors) is reached without a restore.
func pathToEndAvoids(fg *FlowGraph, sl Loc, isRestore func(Loc) bool) bool {
	for i := sl.Idx + 1; i < len(sl.Block.Nodes); i++ {
		if isRestore(Loc{sl.Block, i, sl.Block.Nodes[i]}) {
			return false
		}
	}
	return len(sl.Block.Succs) == 0
}

func ruleAliasSafeUpdate(c *Ctx) {
	hs := writeHandlers(c)
	if hs == nil {
		c.und("engine", 0, "command tables not available")
		return
	}
	cols := c.Field("internal/server", "Server", "cols")
	n := 0
	for _, h := range hs {
		fi := c.FuncOf(h)
		if fi == nil {
			continue
		}
		info := fi.Info()
		isColsCall := func(call *ast.CallExpr, m string) bool {
			se, ok := ast.Unparen(call.Fun).(*ast.SelectorExpr)
			return ok && se.Sel.Name == m && selField(info, se.X) == cols && len(call.Args) >= 1
		}
		fg := newFlowGraph(info, fi.Decl.Body)
		sets := fg.Find(func(x ast.Node) bool { call, ok := x.(*ast.CallExpr); return ok && isColsCall(call, "Set") })
		dels := fg.Find(func(x ast.Node) bool { call, ok := x.(*ast.CallExpr); return ok && isColsCall(call, "Delete") })
		if len(sets) == 0 || len(dels) == 0 {
			continue
		}
		for _, s := range sets {
			k1 := s.Node.(*ast.CallExpr).Args[0]
			for _, d := range dels {
				k2 := d.Node.(*ast.CallExpr).Args[0]
				if sameExpr(info, k1, k2) {
					continue
				}
				n++
				key := fmt.Sprintf("%s→Set(%s)…Delete(%s)", funcName(h), exprStr(k1), exprStr(k2))
				// distinct keys established?
				distinct := false
				for _, f := range fg.DominatingFacts(d) {
					be, ok := ast.Unparen(f.E).(*ast.BinaryExpr)
					if !ok || f.Tag != nil {
						continue
					}
					ne := be.Op == token.NEQ && !f.Neg || be.Op == token.EQL && f.Neg
					if ne && (sameExpr(info, be.X, k1) && sameExpr(info, be.Y, k2) || sameExpr(info, be.X, k2) && sameExpr(info, be.Y, k1)) {
						distinct = true
					}
				}
				after, trail := fg.Reach(PathQuery{From: s, Target: func(l Loc) bool { return l.Block == d.Block && l.Idx == d.Idx }})
				if after && !distinct {
					var path []string
					for _, nd := range trail {
						path = append(path, c.posStr(nd.Pos()))
					}
					c.badPath(key, d.Node.Pos(), path, "the keyspace entry %s is deleted after %s was stored, and nothing establishes that the two keys differ: when they are equal the collection just stored is removed (the command still reports success and is logged)", exprStr(k2), exprStr(k1))
				} else {
					c.ok(key, d.Node.Pos(), true, "the delete is not reachable after the store (or the keys are known to differ)")
				}
			}
		}
	}
	c.stat("set_delete_pairs", n)
}

// ---------------------------------------------------------------------------

type linForm struct{ a, b *big.Rat } // a·d + b·|d|

func ratOfConst(v constant.Value) (*big.Rat, bool) {
	if v == nil {
		return nil, false
	}
	switch x := constant.Val(constant.ToFloat(v)).(type) {
	case *big.Rat:
		return x, true
	case *big.Float:
		r, _ := x.Rat(nil)
		return r, r != nil
	case float64:
		return new(big.Rat).SetFloat64(x), true
	case int64:
		return new(big.Rat).SetInt64(x), true
	}
	return nil, false
}

func ruleOutwardDirection(c *Ctx) {
	rr := c.Func("internal/collection", "", "rtreeRect")
	if rr == nil {
		c.und("anchors", 0, "rtreeRect not found")
		return
	}
	info := rr.Info()
	// by role: the callee applied to <rect>.Min.* is the down-rounding, to <rect>.Max.* the up-rounding
	role := map[*types.Func]string{}
	ast.Inspect(rr.Decl.Body, func(n ast.Node) bool {
		call, ok := n.(*ast.CallExpr)
		if !ok || len(call.Args) != 1 {
			return true
		}
		f := callee(info, call)
		if f == nil {
			return true
		}
		if s2, ok := ast.Unparen(call.Args[0]).(*ast.SelectorExpr); ok {
			if s1, ok := ast.Unparen(s2.X).(*ast.SelectorExpr); ok {
				switch s1.Sel.Name {
				case "Min":
					if role[f] == "up" {
						role[f] = "conflict"
					} else if role[f] == "" {
						role[f] = "down"
					}
				case "Max":
					if role[f] == "down" {
						role[f] = "conflict"
					} else if role[f] == "" {
						role[f] = "up"
					}
				}
			}
		}
		return true
	})
	nDown, nUp := 0, 0
	for f, r := range role {
		fi := c.FuncOf(f)
		if r == "conflict" || fi == nil {
			c.bad("roles/"+f.Name(), rr.Decl.Pos(), "%s is applied to both Min and Max coordinates (or is not a repository function): one side of every index rectangle is rounded inward", f.Name())
			continue
		}
		if r == "down" {
			nDown++
		} else {
			nUp++
		}
		checkRounding(c, fi, r == "up")
	}
	if nDown == 0 || nUp == 0 {
		c.bad("roles", rr.Decl.Pos(), "rtreeRect does not apply one rounding function to the Min coordinates and another to the Max coordinates")
	}
}

// checkRounding decides one quantiser by enumerating the (acyclic) paths of
// its flow graph: along a path it keeps the latest right-hand side of every
// local (with the environment it was evaluated in), the sign facts about the
// parameter and the outcome of the "is the plain conversion on the inner
// side" test; at a return the value is either the plain conversion — then the
// path must have established that it is not on the inner side — or
// float32(a·d + b·|d|), which must lie strictly on the outer side for every
// sign of d the path allows.
func checkRounding(c *Ctx, fn *FuncInfo, up bool) {
	info := fn.Info()
	name := fn.Obj.Name()
	if len(fn.Decl.Type.Params.List) != 1 || len(fn.Decl.Type.Params.List[0].Names) != 1 {
		c.und(name, fn.Decl.Pos(), "expected one parameter")
		return
	}
	dObj := info.ObjectOf(fn.Decl.Type.Params.List[0].Names[0])
	type envT map[types.Object]*rndBinding
	isDId := func(e ast.Expr) bool {
		id, ok := ast.Unparen(e).(*ast.Ident)
		return ok && info.ObjectOf(id) == dObj
	}
	lookup := func(e ast.Expr, env envT) (*rndBinding, bool) {
		id, ok := ast.Unparen(e).(*ast.Ident)
		if !ok {
			return nil, false
		}
		bd, ok := env[info.ObjectOf(id)]
		return bd, ok
	}
	isFloatConv := func(x *ast.CallExpr, kind types.BasicKind) bool {
		if len(x.Args) != 1 {
			return false
		}
		tv, ok := info.Types[x.Fun]
		if !ok || !tv.IsType() {
			return false
		}
		bt, ok := tv.Type.Underlying().(*types.Basic)
		return ok && bt.Kind() == kind
	}
	// stripD: e is d under conversions; n32 counts float32 conversions on the way
	var stripD func(e ast.Expr, env envT, depth int) (isD bool, n32 int)
	stripD = func(e ast.Expr, env envT, depth int) (bool, int) {
		e = ast.Unparen(e)
		if isDId(e) {
			return true, 0
		}
		if depth > 8 {
			return false, 0
		}
		if bd, ok := lookup(e, env); ok {
			if bd == nil || bd.e == nil {
				return false, 0
			}
			return stripD(bd.e, bd.env.(envT), depth+1)
		}
		if x, ok := e.(*ast.CallExpr); ok {
			if isFloatConv(x, types.Float64) {
				return stripD(x.Args[0], env, depth+1)
			}
			if isFloatConv(x, types.Float32) {
				ok, n := stripD(x.Args[0], env, depth+1)
				return ok, n + 1
			}
		}
		return false, 0
	}
	zero := func() *big.Rat { return new(big.Rat) }
	var konst func(e ast.Expr, env envT, depth int) (*big.Rat, bool)
	konst = func(e ast.Expr, env envT, depth int) (*big.Rat, bool) {
		e = ast.Unparen(e)
		if tv, ok := info.Types[e]; ok && tv.Value != nil {
			return ratOfConst(tv.Value)
		}
		if depth > 8 {
			return nil, false
		}
		if bd, ok := lookup(e, env); ok && bd != nil && bd.e != nil {
			return konst(bd.e, bd.env.(envT), depth+1)
		}
		if x, ok := e.(*ast.CallExpr); ok && isFloatConv(x, types.Float64) {
			return konst(x.Args[0], env, depth+1)
		}
		return nil, false
	}
	var lin func(e ast.Expr, env envT, depth int) (linForm, bool)
	lin = func(e ast.Expr, env envT, depth int) (linForm, bool) {
		e = ast.Unparen(e)
		if isDId(e) {
			return linForm{big.NewRat(1, 1), zero()}, true
		}
		if depth > 8 {
			return linForm{}, false
		}
		if bd, ok := lookup(e, env); ok {
			if bd == nil || bd.e == nil {
				return linForm{}, false
			}
			return lin(bd.e, bd.env.(envT), depth+1)
		}
		switch x := e.(type) {
		case *ast.CallExpr:
			if f := callee(info, x); f != nil && f.Pkg() != nil && f.Pkg().Path() == "math" && f.Name() == "Abs" && len(x.Args) == 1 {
				if isD, n32 := stripD(x.Args[0], env, depth+1); isD && n32 == 0 {
					return linForm{zero(), big.NewRat(1, 1)}, true
				}
			}
			if isFloatConv(x, types.Float64) {
				return lin(x.Args[0], env, depth+1)
			}
		case *ast.UnaryExpr:
			if x.Op == token.SUB {
				if f, ok := lin(x.X, env, depth+1); ok {
					return linForm{new(big.Rat).Neg(f.a), new(big.Rat).Neg(f.b)}, true
				}
			}
		case *ast.BinaryExpr:
			switch x.Op {
			case token.ADD, token.SUB:
				l, ok1 := lin(x.X, env, depth+1)
				r, ok2 := lin(x.Y, env, depth+1)
				if ok1 && ok2 {
					if x.Op == token.ADD {
						return linForm{new(big.Rat).Add(l.a, r.a), new(big.Rat).Add(l.b, r.b)}, true
					}
					return linForm{new(big.Rat).Sub(l.a, r.a), new(big.Rat).Sub(l.b, r.b)}, true
				}
			case token.MUL:
				for _, pr := range [][2]ast.Expr{{x.X, x.Y}, {x.Y, x.X}} {
					if k, ok := konst(pr[0], env, depth+1); ok {
						if f, ok := lin(pr[1], env, depth+1); ok {
							return linForm{new(big.Rat).Mul(k, f.a), new(big.Rat).Mul(k, f.b)}, true
						}
					}
				}
			case token.QUO:
				if k, ok := konst(x.Y, env, depth+1); ok && k.Sign() != 0 {
					if f, ok := lin(x.X, env, depth+1); ok {
						return linForm{new(big.Rat).Quo(f.a, k), new(big.Rat).Quo(f.b, k)}, true
					}
				}
			}
		}
		return linForm{}, false
	}
	// atoms about the path: "f>d" style (f = a float32 conversion of d) and the sign of d
	atom := func(e ast.Expr, env envT) string {
		be, ok := ast.Unparen(e).(*ast.BinaryExpr)
		if !ok {
			return ""
		}
		op := be.Op
		flip := map[token.Token]token.Token{token.LSS: token.GTR, token.GTR: token.LSS, token.LEQ: token.GEQ, token.GEQ: token.LEQ}
		if _, ok := flip[op]; !ok {
			return ""
		}
		lD, l32 := stripD(be.X, env, 0)
		rD, r32 := stripD(be.Y, env, 0)
		isZero := func(x ast.Expr) bool {
			tv, has := info.Types[x]
			return has && tv.Value != nil && constant.Sign(tv.Value) == 0
		}
		switch {
		case lD && rD && l32 > 0 && r32 == 0:
			return "f" + op.String() + "d"
		case lD && rD && l32 == 0 && r32 > 0:
			return "f" + flip[op].String() + "d"
		case lD && l32 == 0 && isZero(be.Y):
			return "d" + op.String() + "0"
		case rD && r32 == 0 && isZero(be.X):
			return "d" + flip[op].String() + "0"
		}
		return ""
	}
	type pfact struct {
		e     ast.Expr
		truth bool
		env   envT
	}
	type verdict struct {
		pos      token.Pos
		ok       bool
		und      string
		problems []string
		good     string
	}
	results := map[string]*verdict{}
	var order []string
	note := func(key string, pos token.Pos) *verdict {
		v := results[key]
		if v == nil {
			v = &verdict{pos: pos, ok: true}
			results[key] = v
			order = append(order, key)
		}
		return v
	}
	one := big.NewRat(1, 1)
	dirWord := map[bool]string{true: "above", false: "below"}[up]
	nNudge, nPlain := 0, 0
	atReturn := func(r *ast.ReturnStmt, env envT, facts []pfact) {
		if len(r.Results) != 1 {
			note(name+"/value", r.Pos()).und = "expected one result"
			return
		}
		// what is known on this path
		known := map[string]bool{}
		var pending []pfact
		var learn func(e ast.Expr, truth bool, fenv envT)
		learn = func(e ast.Expr, truth bool, fenv envT) {
			e = ast.Unparen(e)
			switch x := e.(type) {
			case *ast.UnaryExpr:
				if x.Op == token.NOT {
					learn(x.X, !truth, fenv)
					return
				}
			case *ast.BinaryExpr:
				if x.Op == token.LAND && truth || x.Op == token.LOR && !truth {
					learn(x.X, truth, fenv)
					learn(x.Y, truth, fenv)
					return
				}
				if x.Op == token.LAND || x.Op == token.LOR {
					pending = append(pending, pfact{e, truth, fenv})
					return
				}
			}
			if a := atom(e, fenv); a != "" {
				known[a] = truth
			}
		}
		for _, f := range facts {
			learn(f.e, f.truth, f.env)
		}
		var val3 func(e ast.Expr, fenv envT) byte
		val3 = func(e ast.Expr, fenv envT) byte {
			e = ast.Unparen(e)
			if u, ok := e.(*ast.UnaryExpr); ok && u.Op == token.NOT {
				switch val3(u.X, fenv) {
				case '1':
					return '0'
				case '0':
					return '1'
				}
				return '?'
			}
			if a := atom(e, fenv); a != "" {
				if t, ok := known[a]; ok {
					if t {
						return '1'
					}
					return '0'
				}
			}
			return '?'
		}
		for changed := true; changed; {
			changed = false
			rest := pending[:0:0]
			for _, p := range pending {
				be := ast.Unparen(p.e).(*ast.BinaryExpr)
				// ¬(A ∧ B) with A known true gives ¬B; (A ∨ B) with A known false gives B
				want := byte('1')
				if be.Op == token.LOR {
					want = '0'
				}
				switch {
				case val3(be.X, p.env) == want:
					learn(be.Y, p.truth, p.env)
					changed = true
				case val3(be.Y, p.env) == want:
					learn(be.X, p.truth, p.env)
					changed = true
				default:
					rest = append(rest, p)
				}
			}
			pending = rest
		}
		is := func(a string, t bool) bool { v, ok := known[a]; return ok && v == t }
		neg := is("d<0", true) || is("d>=0", false) || is("d<=0", true) || is("d>0", false)
		nonneg := is("d<0", false) || is("d>=0", true) || is("d>0", true) || is("d<=0", false)
		res := r.Results[0]
		if isD, n32 := stripD(res, env, 0); isD {
			if n32 == 0 {
				note(name+"/value", r.Pos()).und = "returns the parameter without a float32 conversion"
				return
			}
			nPlain++
			v := note(name+"/plain-conversion-kept-only-if-outward", r.Pos())
			var fine bool
			if up {
				fine = is("f<d", false) || is("f>=d", true)
			} else {
				fine = is("f>d", false) || is("f<=d", true)
			}
			if !fine {
				v.ok = false
				v.pos = r.Pos()
			}
			return
		}
		// float32(E), possibly through locals
		var E ast.Expr
		var Eenv envT
		cur, curEnv := res, env
		for depth := 0; depth < 8; depth++ {
			cur = ast.Unparen(cur)
			if bd, ok := lookup(cur, curEnv); ok {
				if bd == nil || bd.e == nil {
					break
				}
				cur, curEnv = bd.e, bd.env.(envT)
				continue
			}
			if x, ok := cur.(*ast.CallExpr); ok && isFloatConv(x, types.Float32) {
				E, Eenv = x.Args[0], curEnv
			}
			break
		}
		if E == nil {
			note(name+"/value", r.Pos()).und = fmt.Sprintf("returns %s: not a float32 conversion the rule can follow", exprStr(res))
			return
		}
		nNudge++
		key := fmt.Sprintf("%s/nudge@%s", name, exprStr(E))
		v := note(key, E.Pos())
		f, ok := lin(E, Eenv, 0)
		if !ok {
			v.und = fmt.Sprintf("%s is not of the form a·d + b·|d| with constant a, b", exprStr(E))
			return
		}
		sumPos := new(big.Rat).Add(f.a, f.b) // E = (a+b)·d for d > 0
		sumNeg := new(big.Rat).Sub(f.a, f.b) // E = (a−b)·d for d < 0
		okPos := up && sumPos.Cmp(one) > 0 || !up && sumPos.Cmp(one) < 0
		okNeg := up && sumNeg.Cmp(one) < 0 || !up && sumNeg.Cmp(one) > 0
		if !neg && !okPos {
			v.ok = false
			v.problems = append(v.problems, fmt.Sprintf("for d > 0 it equals %s·d, which is not %s d", sumPos.RatString(), dirWord))
		}
		if !nonneg && !okNeg {
			v.ok = false
			v.problems = append(v.problems, fmt.Sprintf("for d < 0 it equals %s·d, which is not %s d", sumNeg.RatString(), dirWord))
		}
		v.good = fmt.Sprintf("%s lies strictly %s d for every sign of d possible on the paths that return it", exprStr(E), dirWord)
	}
	fg := newFlowGraph(info, fn.Decl.Body)
	paths := 0
	overflow := false
	var walk func(b *cfg.Block, env envT, facts []pfact, onPath map[int32]bool)
	walk = func(b *cfg.Block, env envT, facts []pfact, onPath map[int32]bool) {
		if overflow {
			return
		}
		if onPath[b.Index] {
			note(name+"/shape", fn.Decl.Pos()).und = "the quantiser contains a loop"
			return
		}
		onPath[b.Index] = true
		defer delete(onPath, b.Index)
		bind := func(l ast.Expr, r ast.Expr) {
			id, ok := ast.Unparen(l).(*ast.Ident)
			if !ok {
				return
			}
			o := info.ObjectOf(id)
			if o == nil || o == dObj {
				if o == dObj {
					note(name+"/shape", l.Pos()).und = "the parameter is reassigned"
				}
				return
			}
			n := envT{}
			for k, v := range env {
				n[k] = v
			}
			if r == nil {
				n[o] = nil
			} else {
				n[o] = &rndBinding{e: r, env: env}
			}
			env = n
		}
		for _, nd := range b.Nodes {
			switch x := nd.(type) {
			case *ast.AssignStmt:
				if len(x.Lhs) == len(x.Rhs) && (x.Tok == token.ASSIGN || x.Tok == token.DEFINE) {
					before := env
					for i := range x.Lhs {
						saved := env
						env = before
						// bind against the environment before the statement
						id, ok := ast.Unparen(x.Lhs[i]).(*ast.Ident)
						env = saved
						if !ok {
							continue
						}
						o := info.ObjectOf(id)
						if o == nil {
							continue
						}
						if o == dObj {
							note(name+"/shape", x.Pos()).und = "the parameter is reassigned"
							continue
						}
						n := envT{}
						for k, v := range env {
							n[k] = v
						}
						n[o] = &rndBinding{e: x.Rhs[i], env: before}
						env = n
					}
				} else {
					for _, l := range x.Lhs {
						bind(l, nil)
					}
				}
			case *ast.IncDecStmt:
				bind(x.X, nil)
			case *ast.DeclStmt:
				if gd, ok := x.Decl.(*ast.GenDecl); ok {
					for _, sp := range gd.Specs {
						if vs, ok := sp.(*ast.ValueSpec); ok {
							for i, nm := range vs.Names {
								if len(vs.Values) == len(vs.Names) {
									bind(nm, vs.Values[i])
								} else {
									bind(nm, nil)
								}
							}
						}
					}
				}
			case *ast.ReturnStmt:
				paths++
				if paths > 5000 {
					overflow = true
					return
				}
				atReturn(x, env, facts)
				return
			}
		}
		for si, s := range b.Succs {
			nf := facts
			for _, f := range fg.edgeFacts(b, si) {
				if f.Tag != nil {
					continue
				}
				nf = append(nf[:len(nf):len(nf)], pfact{f.E, !f.Neg, env})
			}
			walk(s, env, nf, onPath)
		}
	}
	if len(fg.G.Blocks) > 0 {
		walk(fg.G.Blocks[0], envT{}, nil, map[int32]bool{})
	}
	if overflow {
		c.und(name+"/shape", fn.Decl.Pos(), "more than 5000 paths through the quantiser")
	}
	for _, key := range order {
		v := results[key]
		switch {
		case v.und != "":
			c.und(key, v.pos, "%s", v.und)
		case strings.HasSuffix(key, "/plain-conversion-kept-only-if-outward"):
			c.check(v.ok, key, v.pos, "float32(d) is returned unchanged only when it is not "+map[bool]string{true: "below", false: "above"}[up]+" d", "float32(d) can be returned although it lies on the inner side of d: the index rectangle does not contain the object's rectangle")
		case v.ok:
			c.ok(key, v.pos, true, "%s", v.good)
		default:
			c.bad(key, v.pos, "the nudged value %s moves the wrong way: %s — the index box (or the search window) is shrunk on that side and objects touching the edge are not found", strings.TrimPrefix(key, name+"/nudge@"), strings.Join(dedupStrings(v.problems), "; "))
		}
	}
	if nPlain == 0 || nNudge == 0 {
		c.bad(name+"/shape", fn.Decl.Pos(), "expected the plain conversion and at least one nudged value among the results of %s (found %d/%d)", name, nPlain, nNudge)
	}
}

type rndBinding struct {
	e   ast.Expr
	env interface{}
}

func dedupStrings(in []string) []string {
	seen := map[string]bool{}
	var out []string
	for _, s := range in {
		if !seen[s] {
			seen[s] = true
			out = append(out, s)
		}
	}
	return out
}

func init() {
	register(&Rule{ID: "R11.stepper-exactly-once", Props: []string{"C11"}, Floor: 1,
		Text: "every helper of the collection package that steps a Cursor parameter (nextStep) steps it exactly once on every path on which the cursor is not nil — the per-item callbacks count one call of the helper as one step (R11.cursor-protocol), so a helper that skips the step on some path (a yield boundary, say) makes the reported cursor lag and the next page repeat entries",
		Run:  ruleStepperExactlyOnce})
	register(&Rule{ID: "R10.batch-not-aliased", Props: []string{"C10", "C05", "C07"}, Floor: 2,
		Text: "a consumer that takes the pending batch of a guarded queue into a local (batch := q.items) and then releases the queue's lock leaves the queue with a slice that does not share the batch's backing array: the field is reset to nil or a fresh slice, never to q.items[:0] — producers append under the lock while the consumer is still reading the batch without it, and would overwrite messages not yet delivered (lost, and the overwriting message delivered twice, out of order)",
		Run:  ruleBatchNotAliased})
	register(&Rule{ID: "R12.multi-glob-unbounded", Props: []string{"C12"}, Floor: 2,
		Text: "in multiGlobParse every pattern's limits pass the 'no literal prefix' test (both limits empty) before they are merged into the scan range, the first pattern included: every store of g.Limits into the result is dominated by the false edge of that test, and its true edge sets both result limits to the empty string and leaves the loop — otherwise ids that match an unbounded pattern but lie outside the range of a later pattern are never scanned",
		Run:  ruleMultiGlobUnbounded})
}

func ruleStepperExactlyOnce(c *Ctx) {
	stepping := steppingFuncs(c)
	n := 0
	for f := range stepping {
		fn := c.FuncOf(f)
		if fn == nil {
			continue
		}
		info := fn.Info()
		var cursorObj types.Object
		for _, p := range fn.Decl.Type.Params.List {
			for _, nm := range p.Names {
				if isNamedType(info.ObjectOf(nm).Type(), colPath, "Cursor") {
					cursorObj = info.ObjectOf(nm)
				}
			}
		}
		if cursorObj == nil {
			continue
		}
		n++
		fg := newFlowGraph(info, fn.Decl.Body)
		stepsIn := func(nd ast.Node) int {
			k := 0
			inspectNoLit(nd, func(x ast.Node) bool {
				call, ok := x.(*ast.CallExpr)
				if !ok {
					return true
				}
				if se, ok := ast.Unparen(call.Fun).(*ast.SelectorExpr); ok && se.Sel.Name == "Step" {
					if id, ok := ast.Unparen(se.X).(*ast.Ident); ok && info.ObjectOf(id) == cursorObj {
						k++
					}
				}
				if g := callee(info, call); g != nil && stepping[g] && g != f {
					for _, a := range call.Args {
						if id, ok := ast.Unparen(a).(*ast.Ident); ok && info.ObjectOf(id) == cursorObj {
							k++
							break
						}
					}
				}
				return true
			})
			return k
		}
		// state: set of (steps ∈ {0,1,2+}, cursor known nil)
		type st = uint8
		enc := func(steps, isNil int) st { return 1 << uint(steps*2+isNil) }
		in := map[int32]st{0: enc(0, 0)}
		work := []*cfg.Block{fg.G.Blocks[0]}
		problem := ""
		var at token.Pos
		checkExit := func(s st, pos token.Pos) {
			for steps := 0; steps < 3; steps++ {
				if s&enc(steps, 0) != 0 && steps != 1 && problem == "" {
					problem, at = fmt.Sprintf("it can return after %d steps of a cursor that is not nil", steps), pos
				}
			}
		}
		for len(work) > 0 {
			b := work[0]
			work = work[1:]
			s := in[b.Index]
			for _, nd := range b.Nodes {
				if k := stepsIn(nd); k > 0 {
					var o st
					for steps := 0; steps < 3; steps++ {
						for isNil := 0; isNil < 2; isNil++ {
							if s&enc(steps, isNil) != 0 {
								ns := steps + k
								if ns > 2 {
									ns = 2
								}
								o |= enc(ns, isNil)
							}
						}
					}
					s = o
				}
				if _, ok := nd.(*ast.ReturnStmt); ok {
					checkExit(s, nd.Pos())
				}
			}
			if len(b.Succs) == 0 && (len(b.Nodes) == 0 || !isReturn(b.Nodes[len(b.Nodes)-1])) {
				checkExit(s, fn.Decl.End())
			}
			for si, sc := range b.Succs {
				o := s
				if len(b.Succs) == 2 {
					for k, v := range fg.identFacts(fg.edgeFacts(b, si)) {
						if k.obj == cursorObj && k.isNil {
							var o2 st
							for steps := 0; steps < 3; steps++ {
								if v { // cursor == nil on this edge
									if s&(enc(steps, 0)|enc(steps, 1)) != 0 {
										o2 |= enc(steps, 1)
									}
								} else if s&enc(steps, 0) != 0 { // cursor != nil: drop the nil worlds
									o2 |= enc(steps, 0)
								}
							}
							o = o2
						}
					}
				}
				if in[sc.Index]|o != in[sc.Index] {
					in[sc.Index] |= o
					work = append(work, sc)
				}
			}
		}
		key := funcName(f)
		if problem == "" {
			c.ok(key, fn.Decl.Pos(), true, "steps the cursor exactly once on every path on which it is not nil")
		} else {
			c.bad(key, at, "%s is used as 'one step per item' by the iterators, but %s: the cursor reported to the client no longer equals the number of items passed, and following it repeats or skips entries", f.Name(), problem)
		}
	}
	c.stat("stepping_helpers", n)
}

func ruleBatchNotAliased(c *Ctx) {
	pk := "internal/server"
	// the guarded queue fields of the C10 specs: slices only
	queues := map[*types.Var]string{}
	for _, q := range [][2]string{{"subtarget", "msgs"}, {"pubQueue", "entries"}, {"liveBuffer", "details"}, {"Server", "lstack"}} {
		if f := c.Field(pk, q[0], q[1]); f != nil {
			if _, ok := f.Type().Underlying().(*types.Slice); ok {
				queues[f] = q[0] + "." + q[1]
			}
		}
	}
	n := 0
	for _, fn := range c.AllFuncs(pk) {
		info := fn.Info()
		ast.Inspect(fn.Decl.Body, func(x ast.Node) bool {
			body, ok := x.(*ast.BlockStmt)
			if !ok {
				return true
			}
			// within one block: batch := Q   followed by   Q = <reset>
			for i, st := range body.List {
				as, ok := st.(*ast.AssignStmt)
				if !ok || len(as.Lhs) != 1 || len(as.Rhs) != 1 {
					continue
				}
				qf := selField(info, as.Rhs[0])
				name, isQ := queues[qf]
				if !isQ {
					continue
				}
				if _, ok := as.Lhs[0].(*ast.Ident); !ok {
					continue
				}
				// the resets that follow, at any depth of the statements after the take (both arms of an if, …)
				var resets []*ast.AssignStmt
				for _, st2 := range body.List[i+1:] {
					inspectNoLit(st2, func(y ast.Node) bool {
						if as2, ok := y.(*ast.AssignStmt); ok && len(as2.Lhs) == 1 && len(as2.Rhs) == 1 && selField(info, as2.Lhs[0]) == qf && sameExpr(info, as2.Lhs[0], as.Rhs[0]) {
							resets = append(resets, as2)
						}
						return true
					})
				}
				for ri, as2 := range resets {
					n++
					key := funcName(fn.Obj) + "→" + name
					if ri > 0 {
						key = fmt.Sprintf("%s#%d", key, ri+1)
					}
					r := ast.Unparen(as2.Rhs[0])
					fresh := false
					if tv, ok := info.Types[r]; ok && tv.IsNil() {
						fresh = true
					}
					if call, ok := r.(*ast.CallExpr); ok {
						if id, ok := ast.Unparen(call.Fun).(*ast.Ident); ok && id.Name == "make" {
							fresh = true
						}
					}
					if _, ok := r.(*ast.CompositeLit); ok {
						fresh = true
					}
					aliased := false
					ast.Inspect(r, func(y ast.Node) bool {
						if e, ok := y.(ast.Expr); ok && (selField(info, e) == qf || sameExpr(info, e, as.Lhs[0])) {
							aliased = true
						}
						return true
					})
					// an append to the queue (a producer's or a re-insert) is not a reset
					if call, ok := r.(*ast.CallExpr); ok && aliased {
						if id, ok := ast.Unparen(call.Fun).(*ast.Ident); ok && id.Name == "append" && len(call.Args) >= 2 && selField(info, call.Args[0]) == qf {
							n--
							continue
						}
					}
					switch {
					case fresh && !aliased:
						c.ok(key, as2.Pos(), true, "after the batch is taken the queue is reset to a slice with its own backing array")
					case aliased:
						c.bad(key, as2.Pos(), "after `%s` the queue is reset to %s, which shares the backing array of the batch: producers appending under the lock overwrite messages the consumer has not delivered yet", exprStr(as.Lhs[0])+" := "+exprStr(as.Rhs[0]), exprStr(r))
					default:
						c.und(key, as2.Pos(), "queue reset to %s: not recognised as fresh or aliased", exprStr(r))
					}
				}
			}
			return true
		})
	}
	c.stat("batch_takes", n)
}

func ruleMultiGlobUnbounded(c *Ctx) {
	fn := c.Func("internal/server", "", "multiGlobParse")
	if fn == nil {
		c.und("anchors", 0, "multiGlobParse not found")
		return
	}
	info := fn.Info()
	fg := newFlowGraph(info, fn.Decl.Body)
	// g := glob.Parse(...)
	var gObj types.Object
	inspectNoLit(fn.Decl.Body, func(n ast.Node) bool {
		if as, ok := n.(*ast.AssignStmt); ok && len(as.Lhs) == 1 && len(as.Rhs) == 1 {
			if call, ok := ast.Unparen(as.Rhs[0]).(*ast.CallExpr); ok {
				if f := callee(info, call); f != nil && isFunc(f, modPath+"/internal/glob", "Parse") {
					if id, ok := as.Lhs[0].(*ast.Ident); ok {
						gObj = info.ObjectOf(id)
					}
				}
			}
		}
		return true
	})
	// the result variable: returned identifier
	var resObj types.Object
	for _, r := range fg.Returns() {
		rs := r.Node.(*ast.ReturnStmt)
		if len(rs.Results) == 1 {
			if id, ok := ast.Unparen(rs.Results[0]).(*ast.Ident); ok {
				resObj = info.ObjectOf(id)
			}
		}
	}
	if gObj == nil || resObj == nil {
		c.und("anchors", fn.Decl.Pos(), "the parsed glob or the result variable was not found")
		return
	}
	isGLimit := func(e ast.Expr, idx string) bool {
		// lo, hi := g.Limits[0], g.Limits[1]
		e = resolveLocal(info, fn.Decl.Body, e)
		ix, ok := ast.Unparen(e).(*ast.IndexExpr)
		if !ok {
			return false
		}
		se, ok := ast.Unparen(ix.X).(*ast.SelectorExpr)
		if !ok || se.Sel.Name != "Limits" {
			return false
		}
		id, ok := ast.Unparen(se.X).(*ast.Ident)
		if !ok || info.ObjectOf(id) != gObj {
			return false
		}
		tv, ok := info.Types[ix.Index]
		return ok && tv.Value != nil && (idx == "" || tv.Value.String() == idx)
	}
	isEmptyStr := func(e ast.Expr) bool {
		s, ok := constString(info, e)
		return ok && s == ""
	}
	isUnboundedTest := func(e ast.Expr) bool {
		be, ok := ast.Unparen(e).(*ast.BinaryExpr)
		if !ok || be.Op != token.LAND {
			return false
		}
		half := func(x ast.Expr, idx string) bool {
			b, ok := ast.Unparen(x).(*ast.BinaryExpr)
			return ok && b.Op == token.EQL && isGLimit(b.X, idx) && isEmptyStr(b.Y)
		}
		return half(be.X, "0") && half(be.Y, "1") || half(be.X, "1") && half(be.Y, "0")
	}
	// (1) every store of g.Limits into the result is dominated by the false edge of the test
	stores := fg.Find(func(n ast.Node) bool {
		as, ok := n.(*ast.AssignStmt)
		if !ok {
			return false
		}
		toRes := false
		for _, l := range as.Lhs {
			if ix, ok := ast.Unparen(l).(*ast.IndexExpr); ok {
				if id, ok := ast.Unparen(ix.X).(*ast.Ident); ok && info.ObjectOf(id) == resObj {
					toRes = true
				}
			}
		}
		fromG := false
		for _, r := range as.Rhs {
			if isGLimit(r, "") {
				fromG = true
			}
		}
		return toRes && fromG
	})
	if len(stores) == 0 {
		c.und("merge-sites", fn.Decl.Pos(), "no store of g.Limits into the result found")
		return
	}
	for i, s := range stores {
		key := fmt.Sprintf("merge%d-after-unbounded-test", i+1)
		dom := false
		for _, f := range fg.DominatingFacts(s) {
			if f.Neg && f.Tag == nil && isUnboundedTest(f.E) {
				dom = true
			}
		}
		c.check(dom, key, s.Node.Pos(), "the limits are merged only after the pattern was found to have a literal prefix", "a pattern's limits are merged into the scan range without the 'no literal prefix' test having failed for it: an unbounded pattern (leading *, ?, [ or escape) then bounds the scan, and ids it matches outside that range are never visited")
	}
	// (2) the true edge resets both limits to "" and leaves the loop
	okTrue := false
	ast.Inspect(fn.Decl.Body, func(n ast.Node) bool {
		ifs, ok := n.(*ast.IfStmt)
		if !ok || !isUnboundedTest(ifs.Cond) {
			return true
		}
		reset := map[string]bool{}
		leaves := false
		for _, st := range ifs.Body.List {
			switch x := st.(type) {
			case *ast.AssignStmt:
				for i, l := range x.Lhs {
					if ix, ok := ast.Unparen(l).(*ast.IndexExpr); ok && i < len(x.Rhs) {
						if id, ok := ast.Unparen(ix.X).(*ast.Ident); ok && info.ObjectOf(id) == resObj && isEmptyStr(x.Rhs[i]) {
							if tv, ok := info.Types[ix.Index]; ok && tv.Value != nil {
								reset[tv.Value.String()] = true
							}
						}
					}
				}
			case *ast.BranchStmt:
				if x.Tok == token.BREAK {
					leaves = true
				}
			case *ast.ReturnStmt:
				leaves = true
				// return [2]string{} / [2]string{"", ""}: both limits empty
				if len(x.Results) == 1 {
					if cl, ok := ast.Unparen(x.Results[0]).(*ast.CompositeLit); ok {
						allEmpty := true
						for _, el := range cl.Elts {
							if !isEmptyStr(el) {
								allEmpty = false
							}
						}
						if allEmpty {
							reset["0"], reset["1"] = true, true
						}
					}
				}
			}
		}
		if reset["0"] && reset["1"] && leaves {
			okTrue = true
		}
		return true
	})
	c.check(okTrue, "unbounded-pattern-unbounds-range", fn.Decl.Pos(), "a pattern without literal prefix sets both limits to \"\" and ends the merge", "a pattern without a literal prefix does not reset the range to unbounded and end the merge")
}

func init() {
	register(&Rule{ID: "R20.no-aliased-compaction", Props: []string{"C20", "C05"}, Floor: 1,
		Text: "two local slices that share a backing array (b = a, without a copy) are not used independently: in internal/server and internal/collection, after one of them is modified in place (an element or element-field store, a swap-remove, an append-compaction, an in-place sort) the other is not read again — fenceMatchRoam compacts the old-neighbour list in place while the new-neighbour list is still needed, so a shortcut that makes the two lists one array reports one neighbour twice and drops another",
		Run:  ruleNoAliasedCompaction})
}

func ruleNoAliasedCompaction(c *Ctx) {
	n := 0
	for _, rel := range []string{"internal/server", "internal/collection"} {
		for _, fn := range c.AllFuncs(rel) {
			info := fn.Info()
			isLocalSlice := func(e ast.Expr) types.Object {
				id, ok := ast.Unparen(e).(*ast.Ident)
				if !ok {
					return nil
				}
				v, ok := info.ObjectOf(id).(*types.Var)
				if !ok || v.IsField() || v.Pkg() == nil || v.Parent() == v.Pkg().Scope() {
					return nil
				}
				if _, ok := v.Type().Underlying().(*types.Slice); !ok {
					return nil
				}
				return v
			}
			// alias assignments a = b between local slices (both sides plain identifiers)
			type aliasT struct {
				as   *ast.AssignStmt
				a, b types.Object
			}
			var aliases []aliasT
			inspectNoLit(fn.Decl.Body, func(x ast.Node) bool {
				as, ok := x.(*ast.AssignStmt)
				if !ok || len(as.Lhs) != len(as.Rhs) || (as.Tok != token.ASSIGN && as.Tok != token.DEFINE) {
					return true
				}
				for i := range as.Lhs {
					a, b := isLocalSlice(as.Lhs[i]), isLocalSlice(as.Rhs[i])
					if a != nil && b != nil && a != b {
						aliases = append(aliases, aliasT{as, a, b})
					}
				}
				return true
			})
			if len(aliases) == 0 {
				continue
			}
			fg := newFlowGraph(info, fn.Decl.Body)
			// in-place modifications of a slice variable
			modifies := func(nd ast.Node, v types.Object) bool {
				hit := false
				inspectNoLit(nd, func(x ast.Node) bool {
					switch s := x.(type) {
					case *ast.AssignStmt:
						for i, l := range s.Lhs {
							// v[i] = …, v[i].f = …
							e := ast.Unparen(l)
							for {
								if se, ok := e.(*ast.SelectorExpr); ok {
									e = ast.Unparen(se.X)
									continue
								}
								break
							}
							if ix, ok := e.(*ast.IndexExpr); ok && isLocalSlice(ix.X) == v {
								hit = true
							}
							// v = append(v[:i], …)
							if isLocalSlice(l) == v && i < len(s.Rhs) && len(s.Lhs) == len(s.Rhs) {
								if call, ok := ast.Unparen(s.Rhs[i]).(*ast.CallExpr); ok && len(call.Args) > 0 {
									if id, ok := ast.Unparen(call.Fun).(*ast.Ident); ok && id.Name == "append" {
										if sl, ok := ast.Unparen(call.Args[0]).(*ast.SliceExpr); ok && isLocalSlice(sl.X) == v {
											hit = true
										}
									}
								}
							}
						}
					case *ast.CallExpr:
						// sort.Slice(v, …), sort.Sort-like helpers taking the slice: in-place reordering
						if f := callee(info, s); f != nil && f.Pkg() != nil && (f.Pkg().Path() == "sort" || strings.HasPrefix(f.Name(), "sort")) {
							for _, a := range s.Args {
								if isLocalSlice(a) == v {
									hit = true
								}
							}
						}
					}
					return true
				})
				return hit
			}
			reads := func(nd ast.Node, v types.Object, skip *ast.AssignStmt) bool {
				hit := false
				inspectNoLit(nd, func(x ast.Node) bool {
					if as, ok := x.(*ast.AssignStmt); ok {
						if as == skip {
							return false
						}
						// a plain re-assignment of v (v = …) is not a read of the shared array
						for _, r := range as.Rhs {
							ast.Inspect(r, func(y ast.Node) bool {
								if id, ok := y.(*ast.Ident); ok && info.ObjectOf(id) == v {
									hit = true
								}
								return true
							})
						}
						for _, l := range as.Lhs {
							if _, plain := ast.Unparen(l).(*ast.Ident); !plain {
								ast.Inspect(l, func(y ast.Node) bool {
									if id, ok := y.(*ast.Ident); ok && info.ObjectOf(id) == v {
										hit = true
									}
									return true
								})
							}
						}
						return false
					}
					if id, ok := x.(*ast.Ident); ok && info.ObjectOf(id) == v {
						hit = true
					}
					return true
				})
				return hit
			}
			for _, al := range aliases {
				n++
				key := fmt.Sprintf("%s→%s~%s", funcName(fn.Obj), al.a.Name(), al.b.Name())
				aloc := fg.LocOf(al.as)
				if !aloc.Valid() {
					c.und(key, al.as.Pos(), "alias assignment not located")
					continue
				}
				problem := ""
				var at token.Pos
				for _, pair := range [][2]types.Object{{al.a, al.b}, {al.b, al.a}} {
					mod, other := pair[0], pair[1]
					// a modification through `mod` reachable from the alias …
					var modLocs []Loc
					fg.Reach(PathQuery{From: aloc, Target: func(l Loc) bool {
						if modifies(l.Node, mod) {
							modLocs = append(modLocs, l)
						}
						return false
					}})
					for _, ml := range modLocs {
						// … after which `other` is read again (before being re-assigned as a whole)
						again, _ := fg.Reach(PathQuery{From: ml,
							Target: func(l Loc) bool { return reads(l.Node, other, nil) },
							Avoid: func(l Loc) bool {
								// `other` (or `mod`) re-assigned from something else ends the aliasing
								if as, ok := l.Node.(*ast.AssignStmt); ok && as != al.as {
									for i, lh := range as.Lhs {
										if o := isLocalSlice(lh); (o == other || o == mod) && i < len(as.Rhs) && !reads(as.Rhs[i], mod, nil) && !reads(as.Rhs[i], other, nil) {
											return true
										}
									}
								}
								return false
							}})
						if again && problem == "" {
							problem = fmt.Sprintf("%s is modified in place and %s, which shares its backing array since `%s = %s`, is read afterwards", mod.Name(), other.Name(), al.a.Name(), al.b.Name())
							at = ml.Node.Pos()
						}
					}
				}
				if problem == "" {
					c.ok(key, al.as.Pos(), true, "after the two slices share an array, neither is read again once the other was modified in place")
				} else {
					c.bad(key, at, "%s: the reader sees the other list's swaps and truncations (an element reported twice, another dropped)", problem)
				}
			}
		}
	}
	c.stat("local_slice_aliases", n)
}
