package main

import (
	"go/ast"
	"go/types"
	"strings"
)

// container method classification (quick tier: table of the methods tile38
// calls today; thorough tier re-derives it from the libraries' source).
var containerMutators = map[string]bool{
	"Set": true, "Delete": true, "Clear": true, "Insert": true, "Replace": true, "Load": true,
	"SetHint": true, "DeleteHint": true, "PopMin": true, "PopMax": true, "ReplaceOrInsert": true,
	"DeleteAt": true, "PopFront": true, "PopBack": true, "PushFront": true, "PushBack": true,
}

var containerReaders = map[string]bool{
	"Get": true, "GetHint": true, "Scan": true, "Ascend": true, "Descend": true, "Search": true,
	"Len": true, "Count": true, "Keys": true, "Values": true, "KeyValues": true, "Walk": true, "Min": true, "Max": true,
	"Bounds": true, "Height": true, "Less": true, "Iter": true, "Reverse": true, "GetAt": true,
	"LeftMost": true, "RightMost": true, "TopMost": true, "BottomMost": true, "Nearby": true,
	"AscendHint": true, "DescendHint": true, "Copy": true, "IsoCopy": true, "Seek": true, "Children": true,
	"AscendMut": true, "DescendMut": true, "GetMut": true, "ScanReverse": true,
}

var fileReaders = map[string]bool{"Name": true, "Stat": true, "Fd": true}

// serverGuarded: Server fields guarded by Server.mu (DESIGN.md 3.2).
var serverGuardedNames = []string{"cols", "hooks", "hooksOut", "hookTree", "hookCross", "hookExpires",
	"groupHooks", "groupObjects", "aof", "aofbuf", "aofsz", "shrinking", "shrinklog", "qidx", "aofconnM"}

// persistLocs: subset of guarded locations whose mutation must be logged.
var persistLocs = map[string]bool{"Server.cols": true, "Collection": true, "Server.hooks": true}

type muSpecData struct {
	guarded  map[*types.Var]string
	aofdirty *types.Var
	colMut   map[*types.Func]bool
	unknown  map[string]bool // container methods in neither table
}

var muSpecCache = map[*Program]*muSpecData{}

func (p *Program) muData() *muSpecData {
	if d, ok := muSpecCache[p]; ok {
		return d
	}
	d := &muSpecData{guarded: map[*types.Var]string{}, unknown: map[string]bool{}}
	for _, n := range serverGuardedNames {
		if v := p.Field("internal/server", "Server", n); v != nil {
			d.guarded[v] = "Server." + n
		}
	}
	d.aofdirty = p.Field("internal/server", "Server", "aofdirty")
	d.colMut = p.collectionMutators()
	muSpecCache[p] = d
	return d
}

// collectionMutators computes which methods of *collection.Collection mutate
// their receiver: a store to a receiver field, a mutating container call on
// a receiver field, or a call of another mutating method on the receiver.
func (p *Program) collectionMutators() map[*types.Func]bool {
	out := map[*types.Func]bool{}
	fns := p.AllFuncs("internal/collection")
	isColMethod := func(f *FuncInfo) bool {
		n := recvNamed(f.Obj)
		return n != nil && n.Obj().Name() == "Collection"
	}
	recvObj := func(f *FuncInfo) types.Object {
		if f.Decl.Recv == nil || len(f.Decl.Recv.List) == 0 || len(f.Decl.Recv.List[0].Names) == 0 {
			return nil
		}
		return f.Info().ObjectOf(f.Decl.Recv.List[0].Names[0])
	}
	rootIsRecvField := func(f *FuncInfo, e ast.Expr) bool {
		r := recvObj(f)
		for {
			e = ast.Unparen(e)
			switch x := e.(type) {
			case *ast.SelectorExpr:
				if id, ok := ast.Unparen(x.X).(*ast.Ident); ok && f.Info().ObjectOf(id) == r && r != nil {
					return true
				}
				e = x.X
			case *ast.IndexExpr:
				e = x.X
			case *ast.StarExpr:
				e = x.X
			default:
				return false
			}
		}
	}
	changed := true
	for changed {
		changed = false
		for _, f := range fns {
			if !isColMethod(f) || out[f.Obj] {
				continue
			}
			mut := false
			ast.Inspect(f.Decl.Body, func(n ast.Node) bool {
				switch x := n.(type) {
				case *ast.AssignStmt:
					for _, l := range x.Lhs {
						if rootIsRecvField(f, l) {
							mut = true
						}
					}
				case *ast.IncDecStmt:
					if rootIsRecvField(f, x.X) {
						mut = true
					}
				case *ast.CallExpr:
					if se, ok := ast.Unparen(x.Fun).(*ast.SelectorExpr); ok {
						if rootIsRecvField(f, se.X) && containerMutators[se.Sel.Name] {
							mut = true
						}
						if c := callee(f.Info(), x); c != nil && out[c] {
							if id, ok := ast.Unparen(se.X).(*ast.Ident); ok && f.Info().ObjectOf(id) == recvObj(f) {
								mut = true
							}
						}
					}
				}
				return true
			})
			if mut {
				out[f.Obj] = true
				changed = true
			}
		}
	}
	return out
}

// muSpec: Server.mu and the locations it guards.
func (p *Program) muSpec(withDirty bool) *LockSpec {
	d := p.muData()
	colPath := modPath + "/internal/collection"
	return &LockSpec{
		Name: "Server.mu",
		Op: func(u *Unit, call *ast.CallExpr) lockKind {
			return p.serverMuOp(u.Info(), call)
		},
		Classify: func(u *Unit, n ast.Node, ctx accessCtx) []*Access {
			info := u.Info()
			switch x := n.(type) {
			case *ast.CallExpr:
				se, ok := ast.Unparen(x.Fun).(*ast.SelectorExpr)
				if !ok {
					return nil
				}
				// method call on a guarded field
				if fv := selField(info, se.X); fv != nil {
					if loc, ok := d.guarded[fv]; ok {
						m := se.Sel.Name
						tn := namedOf(fv.Type())
						isFile := tn != nil && tn.Obj().Pkg() != nil && tn.Obj().Pkg().Path() == "os"
						switch {
						case isFile:
							return []*Access{{Loc: loc, Write: !fileReaders[m], Pos: x.Pos(), Desc: exprStr(x.Fun) + "()", Node: x}}
						case containerMutators[m]:
							return []*Access{{Loc: loc, Write: true, Pos: x.Pos(), Desc: exprStr(x.Fun) + "()", Node: x}}
						case containerReaders[m]:
							return []*Access{{Loc: loc, Write: false, Pos: x.Pos(), Desc: exprStr(x.Fun) + "()", Node: x}}
						default:
							d.unknown[loc+"."+m] = true
							return []*Access{{Loc: loc, Write: true, Pos: x.Pos(), Desc: exprStr(x.Fun) + "() [unclassified container method]", Node: x}}
						}
					}
					if withDirty && fv == d.aofdirty && (se.Sel.Name == "Store" || se.Sel.Name == "CompareAndSwap" || se.Sel.Name == "Swap") {
						return []*Access{{Loc: "Server.aofdirty.Store", Write: true, Pos: x.Pos(), Desc: exprStr(x.Fun) + "(" + exprsStr(x.Args) + ")", Node: x}}
					}
				}
				// a local that holds the value of a guarded file handle (f := s.aof): a method call through
				// the alias is an access to the same file — writing the log through an alias after the lock
				// was released is still a write of the log
				if id, ok := ast.Unparen(se.X).(*ast.Ident); ok {
					if loc := p.guardedFileAlias(u, d, id); loc != "" {
						m := se.Sel.Name
						return []*Access{{Loc: loc, Write: !fileReaders[m], Pos: x.Pos(), Desc: exprStr(x.Fun) + "() [" + id.Name + " holds " + loc + "]", Node: x}}
					}
				}
				// any Collection method, whatever the provenance of the value
				if f := callee(info, x); f != nil && isMethod(f, colPath, "Collection", f.Name()) {
					return []*Access{{Loc: "Collection", Write: d.colMut[f], Pos: x.Pos(), Desc: exprStr(x.Fun) + "()", Node: x}}
				}
			case *ast.SelectorExpr:
				fv := selField(info, x)
				if fv == nil {
					return nil
				}
				loc, ok := d.guarded[fv]
				if !ok {
					return nil
				}
				// the method-call case above already classified X.f.M(); here
				// the field itself is read, stored or has its address taken.
				if par, ok := p.Parent(x).(*ast.SelectorExpr); ok && par.X == x {
					if call, ok := p.Parent(par).(*ast.CallExpr); ok && ast.Unparen(call.Fun) == par {
						return nil
					}
				}
				return []*Access{{Loc: loc, Write: ctx != ctxRead, Pos: x.Pos(), Desc: exprStr(x), Node: x}}
			}
			return nil
		},
	}
}

func exprsStr(es []ast.Expr) string {
	var s []string
	for _, e := range es {
		s = append(s, exprStr(e))
	}
	return strings.Join(s, ", ")
}

// guardedFileAlias: the identifier is a local variable of type *os.File all of whose definitions in the
// enclosing declared function read one guarded field (f := s.aof; buf, f := s.aofbuf, s.aof); returns that
// field's location name, or "".
func (p *Program) guardedFileAlias(u *Unit, d *muSpecData, id *ast.Ident) string {
	info := u.Info()
	v, ok := info.ObjectOf(id).(*types.Var)
	if !ok || v.IsField() || v.Pkg() == nil || v.Parent() == v.Pkg().Scope() {
		return ""
	}
	tn := namedOf(v.Type())
	if tn == nil || tn.Obj().Pkg() == nil || tn.Obj().Pkg().Path() != "os" || tn.Obj().Name() != "File" {
		return ""
	}
	loc, defs, bad := "", 0, false
	ast.Inspect(u.Fn.Decl, func(n ast.Node) bool {
		switch s := n.(type) {
		case *ast.AssignStmt:
			for i, l := range s.Lhs {
				lid, ok := ast.Unparen(l).(*ast.Ident)
				if !ok || info.ObjectOf(lid) != v {
					continue
				}
				defs++
				if len(s.Lhs) != len(s.Rhs) {
					bad = true
					continue
				}
				fv := selField(info, s.Rhs[i])
				if fv == nil || d.guarded[fv] == "" || (loc != "" && loc != d.guarded[fv]) {
					bad = true
					continue
				}
				loc = d.guarded[fv]
			}
		case *ast.ValueSpec:
			for i, nm := range s.Names {
				if info.ObjectOf(nm) != v {
					continue
				}
				defs++
				if i >= len(s.Values) {
					bad = true
					continue
				}
				fv := selField(info, s.Values[i])
				if fv == nil || d.guarded[fv] == "" {
					bad = true
					continue
				}
				loc = d.guarded[fv]
			}
		}
		return true
	})
	if defs == 0 || bad {
		return ""
	}
	return loc
}
