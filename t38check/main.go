// t38check: repository-specific static checker for tidwall/tile38.
// See /verif/DESIGN.md.
package main

import (
	"encoding/json"
	"flag"
	"fmt"
	"os"
	"path/filepath"
	"runtime/debug"
	"sort"
	"strconv"
	"strings"
	"time"
)

var propLevelText = map[string]string{}

func main() {
	var (
		prop     = flag.String("property", "", "property id (C01..C20)")
		tier     = flag.String("tier", "quick", "quick|thorough")
		repo     = flag.String("repo", "/repo", "path of the tile38 working tree")
		evPath   = flag.String("evidence", "", "evidence file to write")
		verifDir = flag.String("verif", "/verif", "verif directory (known findings, violations)")
		mutant   = flag.String("mutant", "", "internal: run the named sentinel mutant and print violated keys as JSON")
		list     = flag.Bool("list", false, "list rules")
		dump     = flag.Bool("dump", false, "print every obligation")
		replay   = flag.String("replay", "", "re-evaluate the obligation stored in this replay file")
	)
	flag.Parse()
	if *list {
		for _, r := range allRules {
			fmt.Printf("%-28s %-20s floor=%d\n", r.ID, strings.Join(r.Props, ","), r.Floor)
		}
		return
	}
	if *replay != "" {
		b, err := os.ReadFile(*replay)
		if err != nil {
			fmt.Println("UNDECIDED cannot read replay file:", err)
			os.Exit(2)
		}
		var rp struct {
			Property string `json:"property"`
			Ob       Ob     `json:"obligation"`
		}
		if err := json.Unmarshal(b, &rp); err != nil {
			fmt.Println("UNDECIDED bad replay file:", err)
			os.Exit(2)
		}
		*prop = rp.Property
		os.Exit(runProperty(*prop, *tier, *repo, "", *verifDir, *dump, rp.Ob.ID()))
	}
	if *prop == "" {
		fmt.Fprintln(os.Stderr, "usage: t38check -property Cnn [-tier quick|thorough]")
		os.Exit(2)
	}
	if *mutant != "" {
		os.Exit(runMutantChild(*prop, *repo, *mutant))
	}
	os.Exit(runProperty(*prop, *tier, *repo, *evPath, *verifDir, *dump, ""))
}

// evalRules loads the program and evaluates all rules of the property.
func evalRules(prop, tier, repo string, o loadOpts) (c *Ctx, rules []*Rule, err error) {
	rules = rulesFor(prop)
	if len(rules) == 0 {
		return nil, nil, fmt.Errorf("no rules registered for %s", prop)
	}
	o.repo = repo
	p, err := load(o)
	if err != nil {
		return nil, rules, err
	}
	c = newCtx(p, tier)
	for _, r := range rules {
		c.cur = r
		func() {
			defer func() {
				if v := recover(); v != nil {
					c.und("internal-panic", 0, "rule panicked: %v\n%s", v, debug.Stack())
				}
			}()
			r.Run(c)
		}()
	}
	return c, rules, nil
}

func runProperty(prop, tier, repo, evPath, verifDir string, dump bool, only string) int {
	start := time.Now()
	seed, _ := strconv.Atoi(os.Getenv("VERIF_SEED"))
	if t := os.Getenv("VERIF_TIER"); t != "" && (t == "quick" || t == "thorough") && tier == "" {
		tier = t
	}
	c, rules, err := evalRules(prop, tier, repo, loadOpts{})
	if err != nil {
		fmt.Printf("UNDECIDED property=%s %v\n", prop, err)
		return 2
	}
	known, _, err := loadKnown(filepath.Join(verifDir, "known_findings.txt"))
	if err != nil {
		fmt.Printf("UNDECIDED property=%s %v\n", prop, err)
		return 2
	}

	var res result
	perRule := map[string]int{}
	okc, nontriv := 0, 0
	for _, o := range c.obs {
		perRule[o.Rule]++
		if only != "" && o.ID() != only {
			continue
		}
		switch o.Status {
		case stOK:
			okc++
			if o.Nontrivial {
				nontriv++
			}
		case stUndecided:
			res.undecided = append(res.undecided, o)
		case stViolated:
			isKnown := false
			for _, k := range known {
				if k.Property == prop && k.Rule == o.Rule && k.Key == o.Key {
					isKnown = true
					fmt.Printf("KNOWN-FINDING: property=%s %s [%s %s]\n", prop, k.What, o.ID(), o.Pos)
				}
			}
			if isKnown {
				res.known = append(res.known, o)
			} else {
				res.violations = append(res.violations, o)
			}
		}
	}
	if only == "" {
		for _, r := range rules {
			if perRule[r.ID] < r.Floor {
				res.floorFail = append(res.floorFail, fmt.Sprintf("%s matched %d instances, floor %d", r.ID, perRule[r.ID], r.Floor))
			}
		}
	}

	// thorough tier extras: sentinel mutants, neutral variants, other platforms
	var thorough map[string]any
	if tier == "thorough" && only == "" {
		var fails []string
		thorough, fails = runThorough(prop, repo, c)
		res.floorFail = append(res.floorFail, fails...)
	}

	if dump {
		for _, o := range sortedObs(c.obs) {
			fmt.Printf("%-10s %-60s %s  -- %s\n", o.Status, o.ID(), o.Pos, o.How)
		}
	}

	// violations → replay files
	vdir := filepath.Join(verifDir, "evidence", "violations")
	exit := 0
	sort.Slice(res.violations, func(i, j int) bool { return res.violations[i].ID() < res.violations[j].ID() })
	for i, o := range res.violations {
		path := filepath.Join(vdir, fmt.Sprintf("%s-%d.json", prop, i+1))
		_ = writeJSON(path, map[string]any{"property": prop, "obligation": o,
			"replay": fmt.Sprintf("./check %s --replay %s", prop, path)})
		fmt.Printf("  %s at %s: %s\n", o.ID(), o.Pos, o.How)
		for _, s := range o.Path {
			fmt.Printf("      %s\n", s)
		}
		fmt.Printf("VIOLATION property=%s replay=%s\n", prop, path)
		exit = 1
	}
	for _, o := range res.undecided {
		fmt.Printf("UNDECIDED property=%s %s at %s: %s\n", prop, o.ID(), o.Pos, o.How)
		if exit == 0 {
			exit = 2
		}
	}
	for _, f := range res.floorFail {
		fmt.Printf("UNDECIDED property=%s %s\n", prop, f)
		if exit == 0 {
			exit = 2
		}
	}

	if evPath != "" {
		var ruleTexts []string
		var samples []any
		seenRule := map[string]int{}
		for _, r := range rules {
			ruleTexts = append(ruleTexts, r.ID+": "+r.Text)
		}
		for _, o := range sortedObs(c.obs) {
			if seenRule[o.Rule] < 3 && (o.Nontrivial || o.Status != stOK) {
				seenRule[o.Rule]++
				samples = append(samples, o)
			}
		}
		if len(samples) == 0 {
			for _, o := range sortedObs(c.obs) {
				if len(samples) < 5 {
					samples = append(samples, o)
				}
			}
		}
		cov := map[string]any{
			"explanation": fmt.Sprintf("Static analysis of /repo's current source (go/packages type-checked AST, go/cfg, go/ssa; nothing executed). "+
				"Decides the structural necessary conditions of %s listed in 'rules' (DESIGN.md section 4, %s); it does not decide the behavioural statement itself. "+
				"Each obligation is a rule instance at a named construct; an obligation is non-trivial when its discharge needed a dominating guard, a lock on every path, or a table lookup.", prop, prop),
			"obligations":         len(c.obs),
			"discharged":          okc,
			"evaluations":         len(c.obs),
			"distinct_nontrivial": nontriv,
			"rule":                "obligations enumerated from the source by the rules below; distinct = distinct rule+construct key; non-trivial = discharge needed a path/lock/table argument",
			"rules":               ruleTexts,
			"per_rule":            perRule,
			"samples":             samples,
			"known_findings":      len(res.known),
			"undecided":           len(res.undecided) + len(res.floorFail),
			"analysed":            c.stats,
			"checker_cmd":         fmt.Sprintf("./check %s %s", prop, tier),
			"trusted_base":        []string{"go/types", "golang.org/x/tools v0.29.0 (go/packages, go/cfg, go/ssa)", "anchor function names from the property"},
			"exhaustive":          false,
		}
		for k, v := range thorough {
			cov[k] = v
		}
		ev := evidence{PropertyID: prop, Tier: tier, Seed: seed, Level: "other", Coverage: cov,
			Assumptions: []string{
				"Go type checker and x/tools SSA/CFG construction are correct",
				"semantics of sync.RWMutex; write(2) data survives a process kill; POSIX rename atomicity",
				"restricted call model (static callees, lexical closures, command-table join) covers the tile38 call edges; unmodelled escapes become roots in the weakest context",
			},
			WallS: since(start), Violations: len(res.violations)}
		if err := writeJSON(evPath, ev); err != nil {
			fmt.Printf("UNDECIDED property=%s cannot write evidence: %v\n", prop, err)
			return 2
		}
	}
	fmt.Printf("%s tier=%s obligations=%d discharged=%d nontrivial=%d violations=%d known=%d undecided=%d wall=%.1fs\n",
		prop, tier, len(c.obs), okc, nontriv, len(res.violations), len(res.known), len(res.undecided)+len(res.floorFail), since(start))
	return exit
}
