package main

import (
	"fmt"
	"go/ast"
	"go/token"
	"go/types"
	"sort"
)

func init() {
	register(&Rule{ID: "R16.per-read-state", Props: []string{"C16"}, Floor: 2,
		Text: "in the connection closure of netServe, state that is written while the messages of one read are processed (an assignment inside a loop nested in the read loop) and consulted outside that loop must be scoped to the connection, not to the read: a local declared inside the read loop with its zero value holds that value again after every conn.Read, so what it says depends on where the read boundaries fell; the one permitted use of such a per-read local is as the condition of an immediate break or return (a stop flag)",
		Run:  rulePerReadState})
}

func rulePerReadState(c *Ctx) {
	ns := c.Func("internal/server", "Server", "netServe")
	if ns == nil {
		c.und("anchors", 0, "netServe not found")
		return
	}
	info := ns.Info()
	var lit *ast.FuncLit
	ast.Inspect(ns.Decl.Body, func(n ast.Node) bool {
		if g, ok := n.(*ast.GoStmt); ok {
			if l, ok := ast.Unparen(g.Call.Fun).(*ast.FuncLit); ok && lit == nil {
				lit = l
			}
		}
		return true
	})
	if lit == nil {
		c.und("closure", ns.Decl.Pos(), "connection closure not found in netServe")
		return
	}
	// the read loop: the outermost for statement of the closure whose body calls conn.Read
	var loop *ast.ForStmt
	inspectNoLit(lit.Body, func(n ast.Node) bool {
		fs, ok := n.(*ast.ForStmt)
		if !ok || loop != nil {
			return loop == nil
		}
		reads := false
		inspectNoLit(fs.Body, func(m ast.Node) bool {
			if call, ok := m.(*ast.CallExpr); ok {
				if f := callee(info, call); f != nil && f.Name() == "Read" && isNetConnRecv(info, call) {
					reads = true
				}
			}
			return true
		})
		if reads {
			loop = fs
			return false
		}
		return true
	})
	if loop == nil {
		c.und("read-loop", lit.Pos(), "no loop around conn.Read in the connection closure")
		return
	}
	inLoop := func(p token.Pos) bool { return loop.Body.Pos() <= p && p < loop.Body.End() }
	// nested loops of the read loop
	var nested []ast.Node
	inspectNoLit(loop.Body, func(n ast.Node) bool {
		switch n.(type) {
		case *ast.ForStmt, *ast.RangeStmt:
			nested = append(nested, n)
		}
		return true
	})
	inNested := func(p token.Pos) bool {
		for _, n := range nested {
			if n.Pos() <= p && p < n.End() {
				return true
			}
		}
		return false
	}
	// locals assigned inside a nested loop
	type use struct {
		assignedNested, assignedElsewhere bool
		reads                             []*ast.Ident
	}
	uses := map[*types.Var]*use{}
	get := func(v *types.Var) *use {
		if uses[v] == nil {
			uses[v] = &use{}
		}
		return uses[v]
	}
	lhs := map[*ast.Ident]bool{}
	inspectNoLit(loop.Body, func(n ast.Node) bool {
		switch s := n.(type) {
		case *ast.AssignStmt:
			for _, l := range s.Lhs {
				if id, ok := ast.Unparen(l).(*ast.Ident); ok {
					lhs[id] = true
					if v, ok := info.ObjectOf(id).(*types.Var); ok && !v.IsField() && s.Tok != token.DEFINE {
						if inNested(s.Pos()) {
							get(v).assignedNested = true
						} else {
							get(v).assignedElsewhere = true
						}
					}
				}
			}
		case *ast.IncDecStmt:
			if id, ok := ast.Unparen(s.X).(*ast.Ident); ok {
				if v, ok := info.ObjectOf(id).(*types.Var); ok {
					get(v).assignedElsewhere = true
				}
			}
		}
		return true
	})
	inspectNoLit(loop.Body, func(n ast.Node) bool {
		id, ok := n.(*ast.Ident)
		if !ok || lhs[id] {
			return true
		}
		if v, ok := info.Uses[id].(*types.Var); ok && !v.IsField() && uses[v] != nil && uses[v].assignedNested && !inNested(id.Pos()) {
			uses[v].reads = append(uses[v].reads, id)
		}
		return true
	})
	// declared with the zero value (var v T) or a constant
	zeroDeclared := func(v *types.Var) bool {
		z := false
		inspectNoLit(loop.Body, func(n ast.Node) bool {
			switch d := n.(type) {
			case *ast.ValueSpec:
				for i, nm := range d.Names {
					if info.Defs[nm] == v {
						z = i >= len(d.Values) || isConstExpr(info, d.Values[i])
					}
				}
			case *ast.AssignStmt:
				if d.Tok == token.DEFINE {
					for i, l := range d.Lhs {
						if id, ok := l.(*ast.Ident); ok && info.Defs[id] == v && len(d.Lhs) == len(d.Rhs) {
							z = isConstExpr(info, d.Rhs[i])
						}
					}
				}
			}
			return true
		})
		return z
	}
	stopOnly := func(id *ast.Ident) bool {
		// the identifier (or its negation) is the whole condition of an if whose body only breaks or returns
		var p ast.Node = id
		for {
			q := c.Parent(p)
			switch x := q.(type) {
			case *ast.ParenExpr:
				p = x
				continue
			case *ast.UnaryExpr:
				if x.Op == token.NOT {
					p = x
					continue
				}
			case *ast.IfStmt:
				if x.Cond != p || x.Else != nil || x.Init != nil {
					return false
				}
				for _, st := range x.Body.List {
					switch b := st.(type) {
					case *ast.ReturnStmt:
					case *ast.BranchStmt:
						if b.Tok != token.BREAK {
							return false
						}
					default:
						return false
					}
				}
				return len(x.Body.List) > 0
			}
			return false
		}
	}
	for v, u := range uses {
		if !u.assignedNested || len(u.reads) == 0 {
			continue
		}
		key := "netServe$conn/" + v.Name()
		switch {
		case !inLoop(v.Pos()):
			c.ok(key, v.Pos(), true, "written per message, consulted after the message loop, and declared outside the read loop: it describes the connection")
		case !zeroDeclared(v) || u.assignedElsewhere:
			c.ok(key, v.Pos(), false, "per-read local that is (re)computed in every read before it is consulted")
		default:
			var bad *ast.Ident
			for _, r := range u.reads {
				if !stopOnly(r) {
					bad = r
				}
			}
			if bad == nil {
				c.ok(key, v.Pos(), true, "per-read stop flag: consulted only as the condition of an immediate break or return")
			} else {
				c.bad(key, bad.Pos(), "%s is declared inside the read loop, so it is reset by every conn.Read, but it is set while messages are processed and consulted afterwards: what the server does here depends on whether the earlier message arrived in the same read or in a previous one", v.Name())
			}
		}
	}
}

func init() {
	register(&Rule{ID: "R16.buffer-agreement", Props: []string{"C16"}, Floor: 1,
		Text: "one read of the connection is parsed by one call of the pipeline reader, which drains its source with a single Read into its own fixed array; whatever that Read leaves behind is parked until the next byte arrives from the peer, so a complete command at the end of a full read would go unanswered. Hence the two capacities agree: the length of the buffer handed to conn.Read in the connection loop (a constant) does not exceed the length of the array the pipeline reader reads into (a constant), and the reader reads into the whole array",
		Run:  ruleBufferAgreement})
}

func ruleBufferAgreement(c *Ctx) {
	ns := c.Func("internal/server", "Server", "netServe")
	if ns == nil {
		c.und("anchors", 0, "netServe not found")
		return
	}
	info := ns.Info()
	// K: the buffer handed to conn.Read
	var k int64 = -1
	var kpos ast.Node
	ast.Inspect(ns.Decl.Body, func(n ast.Node) bool {
		call, ok := n.(*ast.CallExpr)
		if !ok || len(call.Args) != 1 {
			return true
		}
		f := callee(info, call)
		if f == nil || f.Name() != "Read" || !isNetConnRecv(info, call) {
			return true
		}
		arg := call.Args[0]
		if id, ok := ast.Unparen(arg).(*ast.Ident); ok {
			// the make that defines it (later reslices of the same variable do not grow it)
			var mk *ast.CallExpr
			ast.Inspect(ns.Decl.Body, func(m ast.Node) bool {
				as, ok := m.(*ast.AssignStmt)
				if !ok || len(as.Lhs) != len(as.Rhs) {
					return true
				}
				for i, l := range as.Lhs {
					if lid, ok := ast.Unparen(l).(*ast.Ident); ok && info.ObjectOf(lid) == info.ObjectOf(id) {
						if cl, ok := ast.Unparen(as.Rhs[i]).(*ast.CallExpr); ok {
							if fid, ok := ast.Unparen(cl.Fun).(*ast.Ident); ok && fid.Name == "make" && len(cl.Args) >= 2 {
								mk = cl
							}
						}
					}
				}
				return true
			})
			if mk != nil {
				if tv, ok := info.Types[mk.Args[len(mk.Args)-1]]; ok && tv.Value != nil {
					if v, ok := constInt64(tv); ok {
						k, kpos = v, mk
					}
				}
			}
		}
		return true
	})
	if k < 0 {
		c.und("connection-buffer", ns.Decl.Pos(), "the buffer handed to conn.Read is not a make with a constant length")
		return
	}
	// N: the array the pipeline reader reads into
	var nlen int64 = -1
	var npos ast.Node
	whole := false
	for _, fn := range c.AllFuncs("internal/server") {
		if recvNamed(fn.Obj) == nil || recvNamed(fn.Obj).Obj().Name() != "PipelineReader" {
			continue
		}
		finfo := fn.Info()
		ast.Inspect(fn.Decl.Body, func(n ast.Node) bool {
			call, ok := n.(*ast.CallExpr)
			if !ok || len(call.Args) != 1 {
				return true
			}
			se, ok := ast.Unparen(call.Fun).(*ast.SelectorExpr)
			if !ok || se.Sel.Name != "Read" {
				return true
			}
			sl, ok := ast.Unparen(call.Args[0]).(*ast.SliceExpr)
			if !ok {
				return true
			}
			if arr, ok := finfo.TypeOf(sl.X).Underlying().(*types.Array); ok {
				nlen, npos = arr.Len(), call
				whole = sl.Low == nil && sl.High == nil
			}
			return true
		})
	}
	if nlen < 0 {
		c.und("reader-buffer", ns.Decl.Pos(), "the array the pipeline reader reads into was not found")
		return
	}
	switch {
	case !whole:
		c.bad("capacities", npos.Pos(), "the pipeline reader reads into a part of its array: one call no longer drains what one conn.Read delivered")
	case k > nlen:
		c.bad("capacities", kpos.Pos(), "conn.Read can deliver %d bytes but the pipeline reader takes at most %d per call: after a full read the last bytes (a complete command, or its final newline) stay parked until the peer sends more, so the reply to a pipelined command depends on where the read boundary fell", k, nlen)
	default:
		c.ok("capacities", kpos.Pos(), true, "conn.Read delivers at most %d bytes and the pipeline reader takes up to %d per call", k, nlen)
	}
}

func init() {
	register(&Rule{ID: "R16.empty-message-rejected", Props: []string{"C16"}, Floor: 2,
		Text: "the reviewed entries of R16.message-nonempty for the HTTP path rest on a claim that is checked here: in PipelineReader.ReadMessages a message is handed on (appended to the result) only where it is known to have at least one argument — under the false edge of `len(msg.Args) == 0` (whose true edge returns an error), or under `len(args) > 0` for the argument vector the message is filled from; a request whose path or body holds only blanks parses to no arguments, and (*Message).Command indexes Args[0] in the connection goroutine, which has no recover",
		Run:  ruleEmptyMessageRejected})
}

func ruleEmptyMessageRejected(c *Ctx) {
	rm := c.Func("internal/server", "PipelineReader", "ReadMessages")
	if rm == nil {
		c.und("anchors", 0, "PipelineReader.ReadMessages not found")
		return
	}
	info := rm.Info()
	fg := newFlowGraph(info, rm.Decl.Body)
	isMsgPtr := func(t types.Type) bool {
		p, ok := t.(*types.Pointer)
		return ok && isNamedType(p.Elem(), modPath+"/internal/server", "Message")
	}
	n := 0
	for _, l := range fg.Find(func(x ast.Node) bool {
		call, ok := x.(*ast.CallExpr)
		if !ok || len(call.Args) != 2 {
			return false
		}
		id, ok := ast.Unparen(call.Fun).(*ast.Ident)
		if !ok || id.Name != "append" {
			return false
		}
		t := info.TypeOf(call.Args[1])
		return t != nil && isMsgPtr(t)
	}) {
		call := l.Node.(*ast.CallExpr)
		n++
		key := "ReadMessages→" + exprStr(call)
		if n > 1 {
			key = fmt.Sprintf("%s#%d", key, n)
		}
		msg := call.Args[1]
		good, why := false, ""
		for _, f := range fg.DominatingFacts(l) {
			be, ok := ast.Unparen(f.E).(*ast.BinaryExpr)
			if !ok {
				continue
			}
			lc, ok := ast.Unparen(be.X).(*ast.CallExpr)
			if !ok || len(lc.Args) != 1 {
				continue
			}
			if id, ok := ast.Unparen(lc.Fun).(*ast.Ident); !ok || id.Name != "len" {
				continue
			}
			zero := false
			if tv, ok := info.Types[be.Y]; ok && tv.Value != nil && tv.Value.String() == "0" {
				zero = true
			}
			if !zero {
				continue
			}
			nonEmpty := (be.Op == token.EQL && f.Neg) || ((be.Op == token.GTR || be.Op == token.NEQ) && !f.Neg)
			if !nonEmpty {
				continue
			}
			arg := ast.Unparen(lc.Args[0])
			// len(msg.Args)
			if se, ok := arg.(*ast.SelectorExpr); ok && se.Sel.Name == "Args" && sameExpr(info, se.X, msg) {
				good, why = true, "dominated by len("+exprStr(arg)+") != 0"
			}
			// len(args) for the vector the message is filled from
			if id, ok := arg.(*ast.Ident); ok {
				filled := false
				// the vector itself, or the element variable of a range over it
				from := map[types.Object]bool{info.ObjectOf(id): true}
				ast.Inspect(rm.Decl.Body, func(y ast.Node) bool {
					if rs, ok := y.(*ast.RangeStmt); ok {
						if rid, ok := ast.Unparen(rs.X).(*ast.Ident); ok && info.ObjectOf(rid) == info.ObjectOf(id) {
							if vid, ok := rs.Value.(*ast.Ident); ok {
								from[info.ObjectOf(vid)] = true
							}
						}
					}
					return true
				})
				ast.Inspect(rm.Decl.Body, func(y ast.Node) bool {
					as, ok := y.(*ast.AssignStmt)
					if !ok || len(as.Lhs) != 1 || len(as.Rhs) != 1 {
						return true
					}
					lse, ok := ast.Unparen(as.Lhs[0]).(*ast.SelectorExpr)
					if !ok || lse.Sel.Name != "Args" || !sameExpr(info, lse.X, msg) {
						return true
					}
					ast.Inspect(as.Rhs[0], func(z ast.Node) bool {
						if zid, ok := z.(*ast.Ident); ok && from[info.ObjectOf(zid)] {
							filled = true
						}
						return true
					})
					return true
				})
				if filled {
					good, why = true, "dominated by len("+id.Name+") > 0, the vector the message's arguments are copied from"
				}
			}
		}
		c.check(good, key, call.Pos(), why, "a message is handed on without a test that it has any argument: an HTTP request whose path or body holds only blanks (GET /+ HTTP/1.1) parses to an empty argument vector, Message.Command() then indexes Args[0] in the connection goroutine and the whole server process exits")
	}
	c.stat("messages_handed_on", n)
}

// R16.per-command-connection-state
func init() {
	register(&Rule{ID: "R16.per-command-connection-state", Props: []string{"C16"}, Floor: 2,
		Text: "how many commands one read delivers is an accident of the network, so nothing a command can change may be fixed per read: in netServe's connection loop, every field of the connection's Client value that is assigned inside the loop over the commands of one read (the write-back of the output format and of the strict-RESP flag after each command) is read inside that loop when it is used there — no local that was computed from such a field before the loop is used in the loop body. OUTPUT json followed by another command in the same segment must answer in JSON, whatever the segmentation",
		Run:  rulePerCommandConnectionState})
}

func rulePerCommandConnectionState(c *Ctx) {
	ns := c.Func("internal/server", "Server", "netServe")
	if ns == nil || ns.Decl.Body == nil {
		c.und("anchors", 0, "netServe not found")
		return
	}
	info := ns.Info()
	// the loop over the commands of one read: a range over the first result of a ReadMessages call
	var loops []*ast.RangeStmt
	msgsVars := map[types.Object]bool{}
	ast.Inspect(ns.Decl.Body, func(n ast.Node) bool {
		as, ok := n.(*ast.AssignStmt)
		if !ok || len(as.Rhs) != 1 || len(as.Lhs) < 1 {
			return true
		}
		if call, ok := ast.Unparen(as.Rhs[0]).(*ast.CallExpr); ok {
			if f := callee(info, call); f != nil && f.Name() == "ReadMessages" {
				if id, ok := as.Lhs[0].(*ast.Ident); ok {
					msgsVars[info.ObjectOf(id)] = true
				}
			}
		}
		return true
	})
	ast.Inspect(ns.Decl.Body, func(n ast.Node) bool {
		if rs, ok := n.(*ast.RangeStmt); ok {
			if id, ok := ast.Unparen(rs.X).(*ast.Ident); ok && msgsVars[info.ObjectOf(id)] {
				loops = append(loops, rs)
			}
		}
		return true
	})
	if len(loops) == 0 {
		c.und("loop", ns.Decl.Pos(), "no range loop over the result of ReadMessages found in netServe")
		return
	}
	isClientField := func(e ast.Expr) *types.Var {
		fv := selField(info, e)
		if fv == nil {
			return nil
		}
		if fv == c.Field("internal/server", "Client", fv.Name()) {
			return fv
		}
		return nil
	}
	n := 0
	for _, loop := range loops {
		// Client fields assigned in the loop body, directly or by a callee through a pointer parameter
		written := map[*types.Var]bool{}
		ast.Inspect(loop.Body, func(x ast.Node) bool {
			switch s := x.(type) {
			case *ast.AssignStmt:
				for _, l := range s.Lhs {
					if fv := isClientField(l); fv != nil {
						written[fv] = true
					}
				}
			case *ast.CallExpr:
				f := callee(info, s)
				if f == nil {
					return true
				}
				passesClient := false
				for _, a := range s.Args {
					if tv, ok := info.Types[a]; ok {
						if p, ok := tv.Type.(*types.Pointer); ok && isNamedType(p.Elem(), modPath+"/internal/server", "Client") {
							passesClient = true
						}
					}
				}
				if passesClient {
					for name := range c.modifiedFields(f, 0) {
						if fv := c.Field("internal/server", "Client", name); fv != nil {
							written[fv] = true
						}
					}
				}
			}
			return true
		})
		if len(written) == 0 {
			c.und("written", loop.Pos(), "no field of Client is assigned in the command loop: the per-command state of the connection is not recognised")
			continue
		}
		// locals computed before the loop from a written field (transitively through other locals)
		lit := enclosingFuncLit(c.Program, loop)
		var scope ast.Node = ns.Decl.Body
		if lit != nil {
			scope = lit.Body
		}
		stale := map[types.Object]*types.Var{}
		mentions := func(e ast.Expr) *types.Var {
			var hit *types.Var
			ast.Inspect(e, func(m ast.Node) bool {
				switch y := m.(type) {
				case *ast.SelectorExpr:
					if fv := isClientField(y); fv != nil && written[fv] {
						hit = fv
					}
				case *ast.Ident:
					if fv := stale[info.ObjectOf(y)]; fv != nil {
						hit = fv
					}
				}
				return hit == nil
			})
			return hit
		}
		outside := func(x ast.Node) bool { return x.End() <= loop.Pos() || x.Pos() >= loop.End() }
		for changed := true; changed; {
			changed = false
			ast.Inspect(scope, func(x ast.Node) bool {
				if x == ast.Node(loop) {
					return false
				}
				as, ok := x.(*ast.AssignStmt)
				if !ok || !outside(as) {
					return true
				}
				for i, l := range as.Lhs {
					id, ok := ast.Unparen(l).(*ast.Ident)
					if !ok {
						continue
					}
					var fv *types.Var
					if len(as.Lhs) == len(as.Rhs) {
						fv = mentions(as.Rhs[i])
					} else {
						for _, r := range as.Rhs {
							if v := mentions(r); v != nil {
								fv = v
							}
						}
					}
					if o := info.ObjectOf(id); fv != nil && o != nil && stale[o] == nil {
						stale[o] = fv
						changed = true
					}
				}
				return true
			})
		}
		// a local assigned again inside the loop from the field itself is fresh there: only flag uses of
		// locals that are never assigned inside the loop
		assignedInLoop := map[types.Object]bool{}
		ast.Inspect(loop.Body, func(x ast.Node) bool {
			if as, ok := x.(*ast.AssignStmt); ok {
				for _, l := range as.Lhs {
					if id, ok := ast.Unparen(l).(*ast.Ident); ok {
						assignedInLoop[info.ObjectOf(id)] = true
					}
				}
			}
			return true
		})
		var fields []string
		for fv := range written {
			fields = append(fields, fv.Name())
		}
		sort.Strings(fields)
		for _, name := range fields {
			fv := c.Field("internal/server", "Client", name)
			n++
			var bad *ast.Ident
			ast.Inspect(loop.Body, func(x ast.Node) bool {
				if id, ok := x.(*ast.Ident); ok && bad == nil {
					o := info.ObjectOf(id)
					if stale[o] == fv && !assignedInLoop[o] && info.Uses[id] != nil {
						bad = id
					}
				}
				return true
			})
			key := "client." + name
			if bad != nil {
				c.bad(key, bad.Pos(), "%s is computed from client.%s before the loop over the commands of one read and used inside it, while client.%s is assigned inside the loop: the second and later commands of a segment see the value from before the first — replies depend on how the client's bytes were split into reads", bad.Name, name, name)
			} else {
				c.ok(key, loop.Pos(), true, "client.%s is assigned in the command loop and no local computed from it before the loop is used in the loop", name)
			}
		}
	}
	c.stat("per_command_client_fields", n)
}
