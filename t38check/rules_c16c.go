package main

import (
	"fmt"
	"go/ast"
	"go/token"
	"go/types"
)

func init() {
	register(&Rule{ID: "R16.per-read-state", Props: []string{"C16"}, Floor: 2,
		Text: "in the connection closure of netServe, state that is written while the messages of one read are processed (an assignment inside a loop nested in the read loop) and consulted outside that loop must be scoped to the connection, not to the read: a local declared inside the read loop with its zero value holds that value again after every conn.Read, so what it says depends on where the read boundaries fell; the one permitted use of such a per-read local is as the condition of an immediate break or return (a stop flag)",
		Run:  rulePerReadState})
}

func rulePerReadState(c *Ctx) {
	ns := c.Func("internal/server", "Server", "netServe")
	if ns == nil {
		c.und("anchors", 0, "netServe not found")
		return
	}
	info := ns.Info()
	var lit *ast.FuncLit
	ast.Inspect(ns.Decl.Body, func(n ast.Node) bool {
		if g, ok := n.(*ast.GoStmt); ok {
			if l, ok := ast.Unparen(g.Call.Fun).(*ast.FuncLit); ok && lit == nil {
				lit = l
			}
		}
		return true
	})
	if lit == nil {
		c.und("closure", ns.Decl.Pos(), "connection closure not found in netServe")
		return
	}
	// the read loop: the outermost for statement of the closure whose body calls conn.Read
	var loop *ast.ForStmt
	inspectNoLit(lit.Body, func(n ast.Node) bool {
		fs, ok := n.(*ast.ForStmt)
		if !ok || loop != nil {
			return loop == nil
		}
		reads := false
		inspectNoLit(fs.Body, func(m ast.Node) bool {
			if call, ok := m.(*ast.CallExpr); ok {
				if f := callee(info, call); f != nil && f.Name() == "Read" && isNetConnRecv(info, call) {
					reads = true
				}
			}
			return true
		})
		if reads {
			loop = fs
			return false
		}
		return true
	})
	if loop == nil {
		c.und("read-loop", lit.Pos(), "no loop around conn.Read in the connection closure")
		return
	}
	inLoop := func(p token.Pos) bool { return loop.Body.Pos() <= p && p < loop.Body.End() }
	// nested loops of the read loop
	var nested []ast.Node
	inspectNoLit(loop.Body, func(n ast.Node) bool {
		switch n.(type) {
		case *ast.ForStmt, *ast.RangeStmt:
			nested = append(nested, n)
		}
		return true
	})
	inNested := func(p token.Pos) bool {
		for _, n := range nested {
			if n.Pos() <= p && p < n.End() {
				return true
			}
		}
		return false
	}
	// locals assigned inside a nested loop
	type use struct {
		assignedNested, assignedElsewhere bool
		reads                             []*ast.Ident
	}
	uses := map[*types.Var]*use{}
	get := func(v *types.Var) *use {
		if uses[v] == nil {
			uses[v] = &use{}
		}
		return uses[v]
	}
	lhs := map[*ast.Ident]bool{}
	inspectNoLit(loop.Body, func(n ast.Node) bool {
		switch s := n.(type) {
		case *ast.AssignStmt:
			for _, l := range s.Lhs {
				if id, ok := ast.Unparen(l).(*ast.Ident); ok {
					lhs[id] = true
					if v, ok := info.ObjectOf(id).(*types.Var); ok && !v.IsField() && s.Tok != token.DEFINE {
						if inNested(s.Pos()) {
							get(v).assignedNested = true
						} else {
							get(v).assignedElsewhere = true
						}
					}
				}
			}
		case *ast.IncDecStmt:
			if id, ok := ast.Unparen(s.X).(*ast.Ident); ok {
				if v, ok := info.ObjectOf(id).(*types.Var); ok {
					get(v).assignedElsewhere = true
				}
			}
		}
		return true
	})
	inspectNoLit(loop.Body, func(n ast.Node) bool {
		id, ok := n.(*ast.Ident)
		if !ok || lhs[id] {
			return true
		}
		if v, ok := info.Uses[id].(*types.Var); ok && !v.IsField() && uses[v] != nil && uses[v].assignedNested && !inNested(id.Pos()) {
			uses[v].reads = append(uses[v].reads, id)
		}
		return true
	})
	// declared with the zero value (var v T) or a constant
	zeroDeclared := func(v *types.Var) bool {
		z := false
		inspectNoLit(loop.Body, func(n ast.Node) bool {
			switch d := n.(type) {
			case *ast.ValueSpec:
				for i, nm := range d.Names {
					if info.Defs[nm] == v {
						z = i >= len(d.Values) || isConstExpr(info, d.Values[i])
					}
				}
			case *ast.AssignStmt:
				if d.Tok == token.DEFINE {
					for i, l := range d.Lhs {
						if id, ok := l.(*ast.Ident); ok && info.Defs[id] == v && len(d.Lhs) == len(d.Rhs) {
							z = isConstExpr(info, d.Rhs[i])
						}
					}
				}
			}
			return true
		})
		return z
	}
	stopOnly := func(id *ast.Ident) bool {
		// the identifier (or its negation) is the whole condition of an if whose body only breaks or returns
		var p ast.Node = id
		for {
			q := c.Parent(p)
			switch x := q.(type) {
			case *ast.ParenExpr:
				p = x
				continue
			case *ast.UnaryExpr:
				if x.Op == token.NOT {
					p = x
					continue
				}
			case *ast.IfStmt:
				if x.Cond != p || x.Else != nil || x.Init != nil {
					return false
				}
				for _, st := range x.Body.List {
					switch b := st.(type) {
					case *ast.ReturnStmt:
					case *ast.BranchStmt:
						if b.Tok != token.BREAK {
							return false
						}
					default:
						return false
					}
				}
				return len(x.Body.List) > 0
			}
			return false
		}
	}
	for v, u := range uses {
		if !u.assignedNested || len(u.reads) == 0 {
			continue
		}
		key := "netServe$conn/" + v.Name()
		switch {
		case !inLoop(v.Pos()):
			c.ok(key, v.Pos(), true, "written per message, consulted after the message loop, and declared outside the read loop: it describes the connection")
		case !zeroDeclared(v) || u.assignedElsewhere:
			c.ok(key, v.Pos(), false, "per-read local that is (re)computed in every read before it is consulted")
		default:
			var bad *ast.Ident
			for _, r := range u.reads {
				if !stopOnly(r) {
					bad = r
				}
			}
			if bad == nil {
				c.ok(key, v.Pos(), true, "per-read stop flag: consulted only as the condition of an immediate break or return")
			} else {
				c.bad(key, bad.Pos(), "%s is declared inside the read loop, so it is reset by every conn.Read, but it is set while messages are processed and consulted afterwards: what the server does here depends on whether the earlier message arrived in the same read or in a previous one", v.Name())
			}
		}
	}
}

func init() {
	register(&Rule{ID: "R16.buffer-agreement", Props: []string{"C16"}, Floor: 1,
		Text: "one read of the connection is parsed by one call of the pipeline reader, which drains its source with a single Read into its own fixed array; whatever that Read leaves behind is parked until the next byte arrives from the peer, so a complete command at the end of a full read would go unanswered. Hence the two capacities agree: the length of the buffer handed to conn.Read in the connection loop (a constant) does not exceed the length of the array the pipeline reader reads into (a constant), and the reader reads into the whole array",
		Run:  ruleBufferAgreement})
}

func ruleBufferAgreement(c *Ctx) {
	ns := c.Func("internal/server", "Server", "netServe")
	if ns == nil {
		c.und("anchors", 0, "netServe not found")
		return
	}
	info := ns.Info()
	// K: the buffer handed to conn.Read
	var k int64 = -1
	var kpos ast.Node
	ast.Inspect(ns.Decl.Body, func(n ast.Node) bool {
		call, ok := n.(*ast.CallExpr)
		if !ok || len(call.Args) != 1 {
			return true
		}
		f := callee(info, call)
		if f == nil || f.Name() != "Read" || !isNetConnRecv(info, call) {
			return true
		}
		arg := call.Args[0]
		if id, ok := ast.Unparen(arg).(*ast.Ident); ok {
			// the make that defines it (later reslices of the same variable do not grow it)
			var mk *ast.CallExpr
			ast.Inspect(ns.Decl.Body, func(m ast.Node) bool {
				as, ok := m.(*ast.AssignStmt)
				if !ok || len(as.Lhs) != len(as.Rhs) {
					return true
				}
				for i, l := range as.Lhs {
					if lid, ok := ast.Unparen(l).(*ast.Ident); ok && info.ObjectOf(lid) == info.ObjectOf(id) {
						if cl, ok := ast.Unparen(as.Rhs[i]).(*ast.CallExpr); ok {
							if fid, ok := ast.Unparen(cl.Fun).(*ast.Ident); ok && fid.Name == "make" && len(cl.Args) >= 2 {
								mk = cl
							}
						}
					}
				}
				return true
			})
			if mk != nil {
				if tv, ok := info.Types[mk.Args[len(mk.Args)-1]]; ok && tv.Value != nil {
					if v, ok := constInt64(tv); ok {
						k, kpos = v, mk
					}
				}
			}
		}
		return true
	})
	if k < 0 {
		c.und("connection-buffer", ns.Decl.Pos(), "the buffer handed to conn.Read is not a make with a constant length")
		return
	}
	// N: the array the pipeline reader reads into
	var nlen int64 = -1
	var npos ast.Node
	whole := false
	for _, fn := range c.AllFuncs("internal/server") {
		if recvNamed(fn.Obj) == nil || recvNamed(fn.Obj).Obj().Name() != "PipelineReader" {
			continue
		}
		finfo := fn.Info()
		ast.Inspect(fn.Decl.Body, func(n ast.Node) bool {
			call, ok := n.(*ast.CallExpr)
			if !ok || len(call.Args) != 1 {
				return true
			}
			se, ok := ast.Unparen(call.Fun).(*ast.SelectorExpr)
			if !ok || se.Sel.Name != "Read" {
				return true
			}
			sl, ok := ast.Unparen(call.Args[0]).(*ast.SliceExpr)
			if !ok {
				return true
			}
			if arr, ok := finfo.TypeOf(sl.X).Underlying().(*types.Array); ok {
				nlen, npos = arr.Len(), call
				whole = sl.Low == nil && sl.High == nil
			}
			return true
		})
	}
	if nlen < 0 {
		c.und("reader-buffer", ns.Decl.Pos(), "the array the pipeline reader reads into was not found")
		return
	}
	switch {
	case !whole:
		c.bad("capacities", npos.Pos(), "the pipeline reader reads into a part of its array: one call no longer drains what one conn.Read delivered")
	case k > nlen:
		c.bad("capacities", kpos.Pos(), "conn.Read can deliver %d bytes but the pipeline reader takes at most %d per call: after a full read the last bytes (a complete command, or its final newline) stay parked until the peer sends more, so the reply to a pipelined command depends on where the read boundary fell", k, nlen)
	default:
		c.ok("capacities", kpos.Pos(), true, "conn.Read delivers at most %d bytes and the pipeline reader takes up to %d per call", k, nlen)
	}
}

func init() {
	register(&Rule{ID: "R16.empty-message-rejected", Props: []string{"C16"}, Floor: 2,
		Text: "the reviewed entries of R16.message-nonempty for the HTTP path rest on a claim that is checked here: in PipelineReader.ReadMessages a message is handed on (appended to the result) only where it is known to have at least one argument — under the false edge of `len(msg.Args) == 0` (whose true edge returns an error), or under `len(args) > 0` for the argument vector the message is filled from; a request whose path or body holds only blanks parses to no arguments, and (*Message).Command indexes Args[0] in the connection goroutine, which has no recover",
		Run:  ruleEmptyMessageRejected})
}

func ruleEmptyMessageRejected(c *Ctx) {
	rm := c.Func("internal/server", "PipelineReader", "ReadMessages")
	if rm == nil {
		c.und("anchors", 0, "PipelineReader.ReadMessages not found")
		return
	}
	info := rm.Info()
	fg := newFlowGraph(info, rm.Decl.Body)
	isMsgPtr := func(t types.Type) bool {
		p, ok := t.(*types.Pointer)
		return ok && isNamedType(p.Elem(), modPath+"/internal/server", "Message")
	}
	n := 0
	for _, l := range fg.Find(func(x ast.Node) bool {
		call, ok := x.(*ast.CallExpr)
		if !ok || len(call.Args) != 2 {
			return false
		}
		id, ok := ast.Unparen(call.Fun).(*ast.Ident)
		if !ok || id.Name != "append" {
			return false
		}
		t := info.TypeOf(call.Args[1])
		return t != nil && isMsgPtr(t)
	}) {
		call := l.Node.(*ast.CallExpr)
		n++
		key := "ReadMessages→" + exprStr(call)
		if n > 1 {
			key = fmt.Sprintf("%s#%d", key, n)
		}
		msg := call.Args[1]
		good, why := false, ""
		for _, f := range fg.DominatingFacts(l) {
			be, ok := ast.Unparen(f.E).(*ast.BinaryExpr)
			if !ok {
				continue
			}
			lc, ok := ast.Unparen(be.X).(*ast.CallExpr)
			if !ok || len(lc.Args) != 1 {
				continue
			}
			if id, ok := ast.Unparen(lc.Fun).(*ast.Ident); !ok || id.Name != "len" {
				continue
			}
			zero := false
			if tv, ok := info.Types[be.Y]; ok && tv.Value != nil && tv.Value.String() == "0" {
				zero = true
			}
			if !zero {
				continue
			}
			nonEmpty := (be.Op == token.EQL && f.Neg) || ((be.Op == token.GTR || be.Op == token.NEQ) && !f.Neg)
			if !nonEmpty {
				continue
			}
			arg := ast.Unparen(lc.Args[0])
			// len(msg.Args)
			if se, ok := arg.(*ast.SelectorExpr); ok && se.Sel.Name == "Args" && sameExpr(info, se.X, msg) {
				good, why = true, "dominated by len("+exprStr(arg)+") != 0"
			}
			// len(args) for the vector the message is filled from
			if id, ok := arg.(*ast.Ident); ok {
				filled := false
				ast.Inspect(rm.Decl.Body, func(y ast.Node) bool {
					as, ok := y.(*ast.AssignStmt)
					if !ok || len(as.Lhs) != 1 || len(as.Rhs) != 1 {
						return true
					}
					lse, ok := ast.Unparen(as.Lhs[0]).(*ast.SelectorExpr)
					if !ok || lse.Sel.Name != "Args" || !sameExpr(info, lse.X, msg) {
						return true
					}
					ast.Inspect(as.Rhs[0], func(z ast.Node) bool {
						if zid, ok := z.(*ast.Ident); ok && info.ObjectOf(zid) == info.ObjectOf(id) {
							filled = true
						}
						return true
					})
					return true
				})
				if filled {
					good, why = true, "dominated by len("+id.Name+") > 0, the vector the message's arguments are copied from"
				}
			}
		}
		c.check(good, key, call.Pos(), why, "a message is handed on without a test that it has any argument: an HTTP request whose path or body holds only blanks (GET /+ HTTP/1.1) parses to an empty argument vector, Message.Command() then indexes Args[0] in the connection goroutine and the whole server process exits")
	}
	c.stat("messages_handed_on", n)
}
