package main

import (
	"fmt"
	"go/ast"
	"go/constant"
	"go/token"
	"go/types"
	"sort"
	"strings"

	"golang.org/x/tools/go/cfg"
)

// ---------------------------------------------------------------------------
// LK — lock-state analysis (DESIGN.md 3.3), on go/cfg + types.
//
// A Unit is a declared function body or a function literal body. For every
// unit and every concrete lock state it can be entered in, a forward
// dataflow over the unit's CFG tracks (lock state, pending deferred
// operations). Calls propagate the state at the call site to the callee unit
// (restricted call model: static callees, lexical closures, synchronous
// callbacks); `go` statements and escaping function values create roots in
// state N.

type Unit struct {
	ID      int
	Name    string
	Fn      *FuncInfo    // enclosing declared function
	Lit     *ast.FuncLit // nil for a declared function
	Body    *ast.BlockStmt
	Parent  *Unit
	fg      *FlowGraph
	events  map[*cfg.Block][]*lkEvent
	nLits   int
	bools   map[types.Object]int // tracked local booleans
	caseSet map[ast.Expr]cmdSet  // case expressions of Command() switches
	hasCmd  bool                 // contains a Command() switch
}

func (u *Unit) Info() *types.Info { return u.Fn.Info() }
func (u *Unit) Pos() token.Pos {
	if u.Lit != nil {
		return u.Lit.Pos()
	}
	return u.Fn.Decl.Pos()
}

type evKind int

const (
	evLockOp evKind = iota
	evDefer         // push a deferred lock op / call
	evCall          // synchronous call of units
	evGo            // goroutine roots
	evEscape        // function value escapes: root in N
	evAccess
	evReturn
	evBoolSet // a tracked local boolean is assigned a constant
)

type lkEvent struct {
	Kind    evKind
	Pos     token.Pos
	Op      lockKind // evLockOp, evDefer (when a lock op)
	Targets []*Unit  // evCall, evGo, evEscape, evDefer (deferred call)
	Acc     *Access
	Desc    string
	Async   bool
	BoolIdx int  // evBoolSet
	BoolVal byte // '0', '1' or '?'
	Call    *ast.CallExpr
}

// Access is one read/write of a guarded location.
type Access struct {
	Loc   string // e.g. "Server.cols", "Collection", "Server.aofdirty.Store"
	Write bool
	Pos   token.Pos
	Desc  string
	Node  ast.Node
}

// LockSpec parametrises the engine with one lock and what it guards.
type LockSpec struct {
	Name string
	// Op recognises operations on this lock.
	Op func(u *Unit, call *ast.CallExpr) lockKind
	// Classify returns the guarded accesses performed by node n itself
	// (not by its children). ctx describes how n is used.
	Classify func(u *Unit, n ast.Node, ctx accessCtx) []*Access
}

type accessCtx int

const (
	ctxRead accessCtx = iota
	ctxWrite
	ctxAddr
)

// entryKey: the context a unit is entered in: lock state (or "joined": a
// pseudo context whose per-arm states come from an override) and the set of
// command strings msg.Command() may still have (only kept for dispatcher-like
// callees; "any" otherwise).
type entryKey struct {
	ls     int // LN, LR, LX
	joined bool
	cmds   cmdSet
}

type cmdSet [4]uint64

var cmdAny = cmdSet{^uint64(0), ^uint64(0), ^uint64(0), ^uint64(0)}

func (a cmdSet) and(b cmdSet) cmdSet {
	return cmdSet{a[0] & b[0], a[1] & b[1], a[2] & b[2], a[3] & b[3]}
}
func (a cmdSet) not() cmdSet    { return cmdSet{^a[0], ^a[1], ^a[2], ^a[3]} }
func (a cmdSet) empty() bool    { return a == cmdSet{} }
func (a cmdSet) has(i int) bool { return a[i/64]&(1<<(i%64)) != 0 }
func (a *cmdSet) set(i int)     { a[i/64] |= 1 << (i % 64) }

func ek(ls int) entryKey { return entryKey{ls: ls, cmds: cmdAny} }

var ctxJoined = entryKey{joined: true, cmds: cmdAny}

type witness struct {
	From  *Unit
	FromK entryKey
	Pos   token.Pos
	How   string
}

type accState struct {
	Unit   *Unit
	Acc    *Access
	States int // mask of LN|LR|LX in which the access may execute
	wit    map[int]entryKey
}

type lkProblem struct {
	Kind string // "balance", "double-lock", "release-not-held", "release-callers-lock", "defer-overflow"
	Unit *Unit
	Pos  token.Pos
	Msg  string
	Key  entryKey
}

type LK struct {
	p         *Program
	spec      *LockSpec
	units     []*Unit
	ofDecl    map[*types.Func]*Unit
	ofLit     map[*ast.FuncLit]*Unit
	litVars   map[types.Object][]*ast.FuncLit
	entries   map[*Unit]map[entryKey]*witness
	accs      map[*Access]*accState
	problems  []*lkProblem
	probSeen  map[string]bool
	override  map[*Unit]func(b *cfg.Block) (int, bool) // joined context: state at entry of block
	skipCall  map[*Unit]map[*Unit]bool                 // caller → callee edges replaced by a join
	force     map[*Unit]int                            // unit analysed in a fixed state (start-up phase)
	exempt    map[*Unit]bool                           // accesses in this unit are not checked
	autoRoots []*Unit
	work      []entry
	pkgs      []string
	asyncPkgs map[string]bool
	cmdIdx    map[string]int // universe of command strings
	cmdNames  []string
	dispFns   map[*types.Func]bool // declared functions containing a Command() switch
	// callCmds lets the client restrict/rewrite the command set on a call edge
	callCmds func(from, to *Unit, cmds cmdSet) cmdSet
}

type entry struct {
	u *Unit
	k entryKey
}

func newLK(p *Program, spec *LockSpec, pkgs ...string) *LK {
	lk := &LK{p: p, spec: spec, ofDecl: map[*types.Func]*Unit{}, ofLit: map[*ast.FuncLit]*Unit{},
		litVars: map[types.Object][]*ast.FuncLit{}, entries: map[*Unit]map[entryKey]*witness{},
		accs: map[*Access]*accState{}, probSeen: map[string]bool{},
		override: map[*Unit]func(b *cfg.Block) (int, bool){}, skipCall: map[*Unit]map[*Unit]bool{},
		force: map[*Unit]int{}, exempt: map[*Unit]bool{}, pkgs: pkgs,
		asyncPkgs: map[string]bool{"net/http": true, "time": true, "github.com/yuin/gopher-lua": true,
			"github.com/prometheus/client_golang/prometheus": true},
	}
	lk.cmdIdx = map[string]int{}
	lk.dispFns = map[*types.Func]bool{}
	for _, rel := range pkgs {
		for _, fn := range p.AllFuncs(rel) {
			lk.makeUnits(fn)
			for _, ss := range stringSwitches(fn, func(e ast.Expr) bool { return p.isCommandTag(fn, e) }) {
				lk.dispFns[fn.Obj] = true
				for _, s := range ss.allStrings() {
					if _, ok := lk.cmdIdx[s]; !ok {
						lk.cmdIdx[s] = len(lk.cmdNames)
						lk.cmdNames = append(lk.cmdNames, s)
					}
				}
			}
		}
	}
	return lk
}

func (lk *LK) cmdSetOf(strs ...string) cmdSet {
	var cs cmdSet
	for _, s := range strs {
		if i, ok := lk.cmdIdx[s]; ok && i < 256 {
			cs.set(i)
		}
	}
	return cs
}

func (lk *LK) cmdSetStr(cs cmdSet) string {
	if cs == cmdAny {
		return "*"
	}
	var out []string
	for i, n := range lk.cmdNames {
		if i < 256 && cs.has(i) {
			out = append(out, n)
		}
	}
	if len(out) > 6 {
		out = append(out[:6], fmt.Sprintf("…+%d", len(out)-6))
	}
	return strings.Join(out, ",")
}

func (lk *LK) makeUnits(fn *FuncInfo) {
	root := &Unit{ID: len(lk.units), Name: funcName(fn.Obj), Fn: fn, Body: fn.Decl.Body}
	lk.units = append(lk.units, root)
	lk.ofDecl[fn.Obj] = root
	info := fn.Info()
	// function-literal bindings to local variables
	ast.Inspect(fn.Decl.Body, func(n ast.Node) bool {
		switch s := n.(type) {
		case *ast.AssignStmt:
			if len(s.Lhs) == len(s.Rhs) {
				for i, r := range s.Rhs {
					if lit, ok := ast.Unparen(r).(*ast.FuncLit); ok {
						if id, ok := s.Lhs[i].(*ast.Ident); ok {
							if o := info.ObjectOf(id); o != nil {
								lk.litVars[o] = append(lk.litVars[o], lit)
							}
						}
					}
				}
			}
		case *ast.ValueSpec:
			if len(s.Names) == len(s.Values) {
				for i, r := range s.Values {
					if lit, ok := ast.Unparen(r).(*ast.FuncLit); ok {
						if o := info.ObjectOf(s.Names[i]); o != nil {
							lk.litVars[o] = append(lk.litVars[o], lit)
						}
					}
				}
			}
		}
		return true
	})
	var rec func(parent *Unit, body ast.Node)
	rec = func(parent *Unit, body ast.Node) {
		inspectNoLitChildren(body, func(lit *ast.FuncLit) {
			parent.nLits++
			u := &Unit{ID: len(lk.units), Name: fmt.Sprintf("%s$%d", parent.Name, parent.nLits), Fn: fn, Lit: lit, Body: lit.Body, Parent: parent}
			lk.units = append(lk.units, u)
			lk.ofLit[lit] = u
			rec(u, lit.Body)
		})
	}
	rec(root, fn.Decl.Body)
}

// inspectNoLitChildren calls f for each FuncLit directly nested in n (not
// inside another FuncLit).
func inspectNoLitChildren(n ast.Node, f func(*ast.FuncLit)) {
	ast.Inspect(n, func(x ast.Node) bool {
		if lit, ok := x.(*ast.FuncLit); ok {
			f(lit)
			return false
		}
		return true
	})
}

func (lk *LK) Unit(rel, recv, name string) *Unit {
	fi := lk.p.Func(rel, recv, name)
	if fi == nil {
		return nil
	}
	return lk.ofDecl[fi.Obj]
}

// ---------------------------------------------------------------------------
// event extraction

func (lk *LK) prepare(u *Unit) {
	if u.fg != nil {
		return
	}
	u.fg = newFlowGraph(u.Info(), u.Body)
	u.events = map[*cfg.Block][]*lkEvent{}
	lk.trackBools(u)
	lk.computeRefine(u)
	for _, b := range u.fg.G.Blocks {
		if !u.fg.Reachable(b) {
			continue
		}
		var evs []*lkEvent
		emit := func(e *lkEvent) { evs = append(evs, e) }
		for _, n := range b.Nodes {
			lk.walk(u, n, ctxRead, emit)
			if r, ok := n.(*ast.ReturnStmt); ok {
				emit(&lkEvent{Kind: evReturn, Pos: r.Pos()})
			}
		}
		u.events[b] = evs
	}
}

// funcTargets resolves a function-valued expression to units.
func (lk *LK) funcTargets(u *Unit, e ast.Expr) (targets []*Unit, isFuncValue bool) {
	info := u.Info()
	e = ast.Unparen(e)
	switch x := e.(type) {
	case *ast.FuncLit:
		if t := lk.ofLit[x]; t != nil {
			return []*Unit{t}, true
		}
		return nil, true
	case *ast.Ident:
		o := info.ObjectOf(x)
		if lits, ok := lk.litVars[o]; ok {
			for _, l := range lits {
				if t := lk.ofLit[l]; t != nil {
					targets = append(targets, t)
				}
			}
			return targets, true
		}
		if f, ok := o.(*types.Func); ok {
			if t := lk.ofDecl[f]; t != nil {
				return []*Unit{t}, true
			}
			return nil, true
		}
	case *ast.SelectorExpr:
		if f, ok := info.ObjectOf(x.Sel).(*types.Func); ok {
			if t := lk.ofDecl[f]; t != nil {
				return []*Unit{t}, true
			}
			return nil, true
		}
	}
	if tv, ok := info.Types[e]; ok {
		if _, ok := tv.Type.Underlying().(*types.Signature); ok {
			return nil, true
		}
	}
	return nil, false
}

func (lk *LK) isAsyncCallee(f *types.Func) bool {
	return f != nil && f.Pkg() != nil && lk.asyncPkgs[f.Pkg().Path()]
}

func (lk *LK) walk(u *Unit, n ast.Node, ctx accessCtx, emit func(*lkEvent)) {
	if n == nil {
		return
	}
	info := u.Info()
	access := func(n ast.Node, ctx accessCtx) {
		if lk.spec.Classify == nil {
			return
		}
		for _, a := range lk.spec.Classify(u, n, ctx) {
			emit(&lkEvent{Kind: evAccess, Pos: a.Pos, Acc: a})
		}
	}
	switch x := n.(type) {
	case *ast.FuncLit:
		// a literal in a position that is neither called, passed, bound to
		// a local nor deferred/go'ed: it escapes.
		if t := lk.ofLit[x]; t != nil {
			emit(&lkEvent{Kind: evEscape, Pos: x.Pos(), Targets: []*Unit{t}, Desc: "function literal escapes"})
		}
	case *ast.DeferStmt:
		lk.walkCallArgs(u, x.Call, emit)
		if k := lk.spec.Op(u, x.Call); k != lkNone {
			emit(&lkEvent{Kind: evDefer, Pos: x.Pos(), Op: k})
			return
		}
		ts, _ := lk.callTargets(u, x.Call)
		emit(&lkEvent{Kind: evDefer, Pos: x.Pos(), Targets: ts, Desc: exprStr(x.Call.Fun)})
	case *ast.GoStmt:
		lk.walkCallArgs(u, x.Call, emit)
		ts, _ := lk.callTargets(u, x.Call)
		emit(&lkEvent{Kind: evGo, Pos: x.Pos(), Targets: ts, Desc: "go " + exprStr(x.Call.Fun)})
	case *ast.CallExpr:
		// conversion?
		if tv, ok := info.Types[x.Fun]; ok && tv.IsType() {
			for _, a := range x.Args {
				lk.walk(u, a, ctxRead, emit)
			}
			return
		}
		// builtin delete/append etc.
		if id, ok := ast.Unparen(x.Fun).(*ast.Ident); ok {
			if b, ok := info.Uses[id].(*types.Builtin); ok {
				for i, a := range x.Args {
					c := ctxRead
					if b.Name() == "delete" && i == 0 || b.Name() == "clear" || (b.Name() == "copy" && i == 0) {
						c = ctxWrite
					}
					lk.walk(u, a, c, emit)
				}
				return
			}
		}
		// receiver / function expression
		switch f := ast.Unparen(x.Fun).(type) {
		case *ast.FuncLit, *ast.Ident:
		case *ast.SelectorExpr:
			// method call on a guarded location is classified as a whole
			access(x, ctxRead)
			lk.walkRecv(u, f.X, emit)
		default:
			lk.walk(u, f, ctxRead, emit)
		}
		lk.walkCallArgs(u, x, emit)
		if k := lk.spec.Op(u, x); k != lkNone {
			emit(&lkEvent{Kind: evLockOp, Pos: x.Pos(), Op: k})
			return
		}
		ts, async := lk.callTargets(u, x)
		if len(ts) > 0 {
			emit(&lkEvent{Kind: evCall, Pos: x.Pos(), Targets: ts, Desc: exprStr(x.Fun), Async: async, Call: x})
		}
	case *ast.AssignStmt:
		for _, r := range x.Rhs {
			if _, ok := ast.Unparen(r).(*ast.FuncLit); ok {
				if len(x.Lhs) == len(x.Rhs) {
					continue // bound to a variable: resolved at the call sites
				}
			}
			lk.walk(u, r, ctxRead, emit)
		}
		for i, l := range x.Lhs {
			// binding of a literal to a non-local (field, index): escapes
			if len(x.Lhs) == len(x.Rhs) {
				if lit, ok := ast.Unparen(x.Rhs[i]).(*ast.FuncLit); ok {
					if _, isIdent := l.(*ast.Ident); !isIdent {
						if t := lk.ofLit[lit]; t != nil {
							emit(&lkEvent{Kind: evEscape, Pos: lit.Pos(), Targets: []*Unit{t}, Desc: "function literal stored"})
						}
					}
				}
			}
			lk.walk(u, l, ctxWrite, emit)
			if id, ok := l.(*ast.Ident); ok {
				if idx, ok := u.bools[info.ObjectOf(id)]; ok {
					val := byte('?')
					if len(x.Lhs) == len(x.Rhs) {
						val = boolConst(info, x.Rhs[i])
					}
					emit(&lkEvent{Kind: evBoolSet, Pos: x.Pos(), BoolIdx: idx, BoolVal: val})
				}
			}
		}
	case *ast.IncDecStmt:
		lk.walk(u, x.X, ctxWrite, emit)
	case *ast.ValueSpec:
		for _, r := range x.Values {
			if _, ok := ast.Unparen(r).(*ast.FuncLit); ok && len(x.Names) == len(x.Values) {
				continue
			}
			lk.walk(u, r, ctxRead, emit)
		}
		for i, nm := range x.Names {
			if idx, ok := u.bools[info.ObjectOf(nm)]; ok {
				val := byte('0') // zero value
				if len(x.Values) == len(x.Names) {
					val = boolConst(info, x.Values[i])
				} else if len(x.Values) > 0 {
					val = '?'
				}
				emit(&lkEvent{Kind: evBoolSet, Pos: x.Pos(), BoolIdx: idx, BoolVal: val})
			}
		}
	case *ast.UnaryExpr:
		if x.Op == token.AND {
			lk.walk(u, x.X, ctxAddr, emit)
		} else {
			lk.walk(u, x.X, ctxRead, emit)
		}
	case *ast.SelectorExpr:
		access(x, ctx)
		lk.walkRecv(u, x.X, emit)
	case *ast.IndexExpr:
		lk.walk(u, x.X, ctx, emit)
		lk.walk(u, x.Index, ctxRead, emit)
	case *ast.SliceExpr:
		lk.walk(u, x.X, ctx, emit)
		lk.walk(u, x.Low, ctxRead, emit)
		lk.walk(u, x.High, ctxRead, emit)
		lk.walk(u, x.Max, ctxRead, emit)
	case *ast.StarExpr:
		lk.walk(u, x.X, ctx, emit)
	case *ast.ParenExpr:
		lk.walk(u, x.X, ctx, emit)
	case *ast.Ident:
		// a reference to a declared function or a bound literal outside
		// call/argument position: the value escapes
		if ts, isFn := lk.funcTargets(u, x); isFn && len(ts) > 0 {
			if _, isVar := info.ObjectOf(x).(*types.Var); !isVar {
				emit(&lkEvent{Kind: evEscape, Pos: x.Pos(), Targets: ts, Desc: "function value " + x.Name + " escapes"})
			}
		}
	default:
		// generic traversal of children, stopping at literals handled above
		ast.Inspect(n, func(c ast.Node) bool {
			if c == n || c == nil {
				return c == n
			}
			lk.walk(u, c, ctxRead, emit)
			return false
		})
	}
}

// walkRecv walks the receiver/base of a selector: reads it.
func (lk *LK) walkRecv(u *Unit, e ast.Expr, emit func(*lkEvent)) {
	lk.walk(u, e, ctxRead, emit)
}

// walkCallArgs walks call arguments; function-valued arguments are callbacks
// resolved by callTargets and are not treated as escapes.
func (lk *LK) walkCallArgs(u *Unit, call *ast.CallExpr, emit func(*lkEvent)) {
	for _, a := range call.Args {
		if _, isFn := lk.funcTargets(u, a); isFn {
			// method value receiver may read guarded state
			if se, ok := ast.Unparen(a).(*ast.SelectorExpr); ok {
				if _, isFunc := u.Info().ObjectOf(se.Sel).(*types.Func); isFunc {
					lk.walk(u, se.X, ctxRead, emit)
				}
			}
			continue
		}
		lk.walk(u, a, ctxRead, emit)
	}
}

// callTargets: units run (synchronously unless async) by this call: the
// static callee, a called literal / bound literal, and function-valued
// arguments (synchronous-callback assumption; asynchronous registrars make
// them roots).
func (lk *LK) callTargets(u *Unit, call *ast.CallExpr) (ts []*Unit, async bool) {
	info := u.Info()
	f := callee(info, call)
	if f != nil {
		if t := lk.ofDecl[f]; t != nil {
			ts = append(ts, t)
		}
	} else {
		t2, _ := lk.funcTargets(u, call.Fun)
		ts = append(ts, t2...)
	}
	async = lk.isAsyncCallee(f)
	for _, a := range call.Args {
		if t2, isFn := lk.funcTargets(u, a); isFn {
			ts = append(ts, t2...)
		}
	}
	return
}

// ---------------------------------------------------------------------------

func boolConst(info *types.Info, e ast.Expr) byte {
	if tv, ok := info.Types[e]; ok && tv.Value != nil && tv.Value.Kind() == constant.Bool {
		if constant.BoolVal(tv.Value) {
			return '1'
		}
		return '0'
	}
	return '?'
}

// trackBools selects the local boolean variables of the unit that are
// declared in it and assigned only in it (never inside a nested literal,
// never address-taken): their constant values are carried in the abstract
// state so that `write = true` in a lock arm correlates with `if write`.
func (lk *LK) trackBools(u *Unit) {
	u.bools = map[types.Object]int{}
	info := u.Info()
	cands := map[types.Object]bool{}
	inspectNoLit(u.Body, func(n ast.Node) bool {
		switch x := n.(type) {
		case *ast.ValueSpec:
			for _, nm := range x.Names {
				if o := info.ObjectOf(nm); o != nil && types.Identical(o.Type(), types.Typ[types.Bool]) {
					cands[o] = true
				}
			}
		case *ast.AssignStmt:
			if x.Tok == token.DEFINE {
				for _, l := range x.Lhs {
					if id, ok := l.(*ast.Ident); ok {
						if o := info.Defs[id]; o != nil && types.Identical(o.Type(), types.Typ[types.Bool]) {
							cands[o] = true
						}
					}
				}
			}
		}
		return true
	})
	if len(cands) == 0 {
		return
	}
	// disqualify: assigned or address-taken inside nested literals, or address-taken anywhere
	var inLit int
	var visit func(n ast.Node) bool
	visit = func(n ast.Node) bool {
		switch x := n.(type) {
		case *ast.FuncLit:
			inLit++
			ast.Inspect(x.Body, visit)
			inLit--
			return false
		case *ast.AssignStmt:
			if inLit > 0 {
				for _, l := range x.Lhs {
					if id, ok := l.(*ast.Ident); ok {
						delete(cands, info.ObjectOf(id))
					}
				}
			}
		case *ast.UnaryExpr:
			if x.Op == token.AND {
				if id, ok := ast.Unparen(x.X).(*ast.Ident); ok {
					delete(cands, info.ObjectOf(id))
				}
			}
		}
		return true
	}
	ast.Inspect(u.Body, visit)
	var objs []types.Object
	for o := range cands {
		objs = append(objs, o)
	}
	sort.Slice(objs, func(i, j int) bool { return objs[i].Pos() < objs[j].Pos() })
	for i, o := range objs {
		if i >= 16 {
			break
		}
		u.bools[o] = i
	}
}

// computeRefine: for every Command() switch directly in the unit, the command
// string each case expression stands for. The refinement is applied on the
// edges leaving the case test (true edge: the command is that string; false
// edge: it is not), so fallthrough and default arms come out right.
func (lk *LK) computeRefine(u *Unit) {
	u.caseSet = map[ast.Expr]cmdSet{}
	info := u.Info()
	inspectNoLit(u.Body, func(n ast.Node) bool {
		sw, ok := n.(*ast.SwitchStmt)
		if !ok || sw.Tag == nil || !lk.p.isCommandTag(u.Fn, sw.Tag) {
			return true
		}
		for _, c := range sw.Body.List {
			for _, e := range c.(*ast.CaseClause).List {
				if s, ok := constString(info, e); ok {
					u.caseSet[e] = lk.cmdSetOf(s)
					u.hasCmd = true
				}
			}
		}
		return true
	})
}

// ---------------------------------------------------------------------------
// propagation

func (lk *LK) enter(u *Unit, k entryKey, w *witness) {
	if u == nil {
		return
	}
	m := lk.entries[u]
	if m == nil {
		m = map[entryKey]*witness{}
		lk.entries[u] = m
	}
	if _, ok := m[k]; ok {
		return
	}
	m[k] = w
	lk.work = append(lk.work, entry{u, k})
}

func (lk *LK) problem(kind string, u *Unit, k entryKey, pos token.Pos, msg string) {
	id := fmt.Sprintf("%s|%s|%d", kind, u.Name, pos)
	if lk.probSeen[id] {
		return
	}
	lk.probSeen[id] = true
	lk.problems = append(lk.problems, &lkProblem{Kind: kind, Unit: u, Pos: pos, Msg: msg, Key: k})
}

// abstract state: lock state + pending deferred operations (LIFO) + values
// of tracked local booleans + commands msg.Command() may still denote.
type lkState struct {
	ls     int // exactly one of LN, LR, LX
	dstack string
	bools  string // one byte per tracked bool: '0', '1', '?'
	cmds   cmdSet
}

func (lk *LK) Run(roots []*Unit) {
	for _, r := range roots {
		lk.enter(r, ek(LN), &witness{How: "root"})
	}
	for {
		for len(lk.work) > 0 {
			e := lk.work[len(lk.work)-1]
			lk.work = lk.work[:len(lk.work)-1]
			lk.analyse(e.u, e.k)
		}
		// units never entered: automatic roots in the weakest context
		added := false
		for _, u := range lk.units {
			if u.Lit == nil && len(lk.entries[u]) == 0 {
				lk.autoRoots = append(lk.autoRoots, u)
				lk.enter(u, ek(LN), &witness{How: "automatic root (no modelled caller)"})
				added = true
			}
		}
		if !added {
			for _, u := range lk.units {
				if u.Lit != nil && len(lk.entries[u]) == 0 {
					lk.autoRoots = append(lk.autoRoots, u)
					lk.enter(u, ek(LN), &witness{How: "automatic root (literal never invoked in the model)"})
					added = true
				}
			}
		}
		if !added {
			break
		}
	}
}

func (lk *LK) analyse(u *Unit, k entryKey) {
	lk.prepare(u)
	fg := u.fg
	var dtab []*lkEvent
	dcode := func(e *lkEvent) string {
		for i, x := range dtab {
			if x == e {
				return fmt.Sprintf("C%d;", i)
			}
		}
		dtab = append(dtab, e)
		return fmt.Sprintf("C%d;", len(dtab)-1)
	}
	bools0 := strings.Repeat("?", len(u.bools))
	var initial []lkState
	if k.joined {
		for _, st := range []int{LN, LR, LX} {
			initial = append(initial, lkState{st, "", bools0, k.cmds})
		}
	} else {
		initial = []lkState{{k.ls, "", bools0, k.cmds}}
	}
	in := map[*cfg.Block]map[lkState]bool{}
	add := func(b *cfg.Block, s lkState) bool {
		m := in[b]
		if m == nil {
			m = map[lkState]bool{}
			in[b] = m
		}
		if m[s] {
			return false
		}
		m[s] = true
		return true
	}
	var wl []*cfg.Block
	for _, s := range initial {
		add(fg.G.Blocks[0], s)
	}
	wl = append(wl, fg.G.Blocks[0])
	ov := lk.override[u]
	forced, isForced := lk.force[u]

	applyOp := func(s lkState, op lockKind, pos token.Pos) lkState {
		switch op {
		case lkLock, lkRLock:
			if s.ls != LN {
				lk.problem("double-lock", u, k, pos, fmt.Sprintf("%s acquired in state %s (entered in %s)", lk.spec.Name, lockStr(s.ls), lk.keyStr(k)))
			}
			if op == lkLock {
				s.ls = LX
			} else {
				s.ls = LR
			}
		case lkUnlock:
			if s.ls != LX {
				lk.problem("release-not-held", u, k, pos, fmt.Sprintf("Unlock of %s in state %s (entered in %s)", lk.spec.Name, lockStr(s.ls), lk.keyStr(k)))
			}
			s.ls = LN
		case lkRUnlock:
			if s.ls != LR {
				lk.problem("release-not-held", u, k, pos, fmt.Sprintf("RUnlock of %s in state %s (entered in %s)", lk.spec.Name, lockStr(s.ls), lk.keyStr(k)))
			}
			s.ls = LN
		}
		return s
	}
	callInto := func(e *lkEvent, s lkState, how string) {
		for _, t := range e.Targets {
			if lk.skipCall[u][t] {
				continue
			}
			st := s.ls
			if isForced {
				st = forced
			}
			cm := cmdAny
			// the command set is only meaningful for lexical closures and
			// for dispatcher-like callees (functions with a Command() switch)
			if t.Lit != nil && t.Fn == u.Fn || t.Lit == nil && lk.dispFns[t.Fn.Obj] {
				cm = s.cmds
			}
			if lk.callCmds != nil {
				cm = lk.callCmds(u, t, cm)
			}
			if cm.empty() {
				continue
			}
			lk.enter(t, entryKey{ls: st, cmds: cm}, &witness{From: u, FromK: k, Pos: e.Pos, How: how})
		}
	}

	for len(wl) > 0 {
		b := wl[len(wl)-1]
		wl = wl[:len(wl)-1]
		var states []lkState
		for s := range in[b] {
			states = append(states, s)
		}
		sort.Slice(states, func(i, j int) bool {
			a, c := states[i], states[j]
			if a.ls != c.ls {
				return a.ls < c.ls
			}
			if a.dstack != c.dstack {
				return a.dstack < c.dstack
			}
			if a.bools != c.bools {
				return a.bools < c.bools
			}
			for x := 0; x < 4; x++ {
				if a.cmds[x] != c.cmds[x] {
					return a.cmds[x] < c.cmds[x]
				}
			}
			return false
		})
		for _, s0 := range states {
			cur := []lkState{s0}
			if k.joined && ov != nil {
				if mask, ok := ov(b); ok {
					cur = cur[:0]
					for _, st := range []int{LN, LR, LX} {
						if mask&st != 0 {
							cur = append(cur, lkState{st, s0.dstack, s0.bools, s0.cmds})
						}
					}
				}
			}
			for _, s := range cur {
				returned := false
				for _, e := range u.events[b] {
					switch e.Kind {
					case evLockOp:
						if (e.Op == lkUnlock || e.Op == lkRUnlock) && !k.joined && k.ls != LN && s.ls == k.ls {
							lk.problem("release-callers-lock", u, k, e.Pos, fmt.Sprintf("%s releases %s that was acquired by its caller (entered in %s)", u.Name, lk.spec.Name, lk.keyStr(k)))
						}
						s = applyOp(s, e.Op, e.Pos)
					case evDefer:
						if len(s.dstack) > 64 {
							lk.problem("defer-overflow", u, k, e.Pos, "too many pending deferred operations (defer in a loop?)")
							continue
						}
						if e.Op != lkNone {
							s.dstack += opCode(e.Op)
						} else if len(e.Targets) > 0 {
							s.dstack += dcode(e)
						}
					case evCall:
						if e.Async {
							for _, t := range e.Targets {
								lk.enter(t, ek(LN), &witness{From: u, FromK: k, Pos: e.Pos, How: "registered with an asynchronous caller: " + e.Desc})
							}
						} else {
							callInto(e, s, "call "+e.Desc)
						}
					case evGo:
						for _, t := range e.Targets {
							lk.enter(t, ek(LN), &witness{From: u, FromK: k, Pos: e.Pos, How: e.Desc})
						}
					case evEscape:
						for _, t := range e.Targets {
							lk.enter(t, ek(LN), &witness{From: u, FromK: k, Pos: e.Pos, How: e.Desc})
						}
					case evBoolSet:
						bs := []byte(s.bools)
						if e.BoolIdx < len(bs) {
							bs[e.BoolIdx] = e.BoolVal
							s.bools = string(bs)
						}
					case evAccess:
						st := s.ls
						if isForced {
							st = forced
						}
						if !lk.exempt[u] {
							as := lk.accs[e.Acc]
							if as == nil {
								as = &accState{Unit: u, Acc: e.Acc, wit: map[int]entryKey{}}
								lk.accs[e.Acc] = as
							}
							if as.States&st == 0 {
								as.States |= st
								as.wit[st] = k
							}
						}
					case evReturn:
						returned = true
					}
				}
				if len(b.Succs) == 0 {
					if !returned && !fg.isReturnBlock(b) {
						continue // no-return call (panic, Fatal): no balance obligation
					}
					pos := u.Body.Rbrace
					if len(b.Nodes) > 0 {
						pos = b.Nodes[len(b.Nodes)-1].Pos()
					}
					fin := s
					ds := fin.dstack
					fin.dstack = ""
					for len(ds) > 0 {
						var code string
						if strings.HasSuffix(ds, ";") {
							i := strings.LastIndex(ds[:len(ds)-1], "C")
							code, ds = ds[i:], ds[:i]
						} else {
							code, ds = ds[len(ds)-1:], ds[:len(ds)-1]
						}
						switch code {
						case "U":
							fin = applyOp(fin, lkUnlock, pos)
						case "u":
							fin = applyOp(fin, lkRUnlock, pos)
						case "L":
							fin = applyOp(fin, lkLock, pos)
						case "l":
							fin = applyOp(fin, lkRLock, pos)
						default:
							var idx int
							fmt.Sscanf(code, "C%d;", &idx)
							callInto(dtab[idx], fin, "deferred "+dtab[idx].Desc)
						}
					}
					if !k.joined && fin.ls != k.ls {
						lk.problem("balance", u, k, pos, fmt.Sprintf("%s entered with %s in state %s returns in state %s", u.Name, lk.spec.Name, lockStr(k.ls), lockStr(fin.ls)))
					}
					continue
				}
				for si, succ := range b.Succs {
					ns := s
					if len(b.Succs) == 2 && len(u.caseSet) > 0 && len(b.Nodes) > 0 {
						if ce, ok := b.Nodes[len(b.Nodes)-1].(ast.Expr); ok {
							if cs, ok := u.caseSet[ce]; ok {
								if si == 0 {
									ns.cmds = ns.cmds.and(cs)
								} else {
									ns.cmds = ns.cmds.and(cs.not())
								}
								if ns.cmds.empty() {
									continue // infeasible with the commands that reach this test
								}
							}
						}
					}
					if len(b.Succs) == 2 && len(u.bools) > 0 {
						feasible := true
						bs := []byte(ns.bools)
						for _, f := range fg.edgeFacts(b, si) {
							if f.Tag != nil {
								continue
							}
							id, ok := ast.Unparen(f.E).(*ast.Ident)
							if !ok {
								continue
							}
							idx, ok := u.bools[u.Info().ObjectOf(id)]
							if !ok || idx >= len(bs) {
								continue
							}
							want := byte('1')
							if f.Neg {
								want = '0'
							}
							if bs[idx] != '?' && bs[idx] != want {
								feasible = false
							}
							bs[idx] = want
						}
						if !feasible {
							continue
						}
						ns.bools = string(bs)
					}
					if add(succ, ns) {
						wl = append(wl, succ)
					}
				}
			}
		}
	}
}

func opCode(k lockKind) string {
	switch k {
	case lkUnlock:
		return "U"
	case lkRUnlock:
		return "u"
	case lkLock:
		return "L"
	case lkRLock:
		return "l"
	}
	return ""
}

func (lk *LK) keyStr(k entryKey) string {
	s := lockStr(k.ls)
	if k.joined {
		s = "joined"
	}
	if k.cmds != cmdAny {
		s += " cmd∈{" + lk.cmdSetStr(k.cmds) + "}"
	}
	return s
}

// Chain renders the call path by which unit u came to be entered with key k.
func (lk *LK) Chain(u *Unit, k entryKey) []string {
	var out []string
	seen := map[entry]bool{}
	for u != nil && !seen[entry{u, k}] {
		seen[entry{u, k}] = true
		w := lk.entries[u][k]
		if w == nil {
			break
		}
		if w.From == nil {
			out = append(out, fmt.Sprintf("%s [%s] — %s", u.Name, lk.keyStr(k), w.How))
			break
		}
		out = append(out, fmt.Sprintf("%s [%s] ← %s at %s (%s)", u.Name, lk.keyStr(k), w.From.Name, lk.p.posShort(w.Pos), w.How))
		u, k = w.From, w.FromK
	}
	return out
}

func (p *Program) posShort(pos token.Pos) string {
	pp := p.Fset.Position(pos)
	i := strings.LastIndex(pp.Filename, "/")
	return fmt.Sprintf("%s:%d", pp.Filename[i+1:], pp.Line)
}

// Accesses returns all recorded accesses sorted by position.
func (lk *LK) Accesses() []*accState {
	var out []*accState
	for _, a := range lk.accs {
		out = append(out, a)
	}
	sort.Slice(out, func(i, j int) bool { return out[i].Acc.Pos < out[j].Acc.Pos })
	return out
}

// entryLockStates: mask of lock states the unit is entered in.
func (lk *LK) entryLockStates(u *Unit) (mask int, joined bool) {
	for k := range lk.entries[u] {
		if k.joined {
			joined = true
		} else {
			mask |= k.ls
		}
	}
	return
}

// reachSync returns the units that run synchronously when u runs: static
// callees, invoked/bound literals, synchronous callbacks and deferred calls
// (not goroutines, not escaping values), transitively.
func (lk *LK) reachSync(u *Unit) []*Unit { return lk.reachSyncStop(u, nil) }

func (lk *LK) reachSyncStop(u *Unit, stop func(*Unit) bool) []*Unit {
	seen := map[*Unit]bool{}
	var order []*Unit
	var visit func(x *Unit)
	visit = func(x *Unit) {
		if seen[x] {
			return
		}
		seen[x] = true
		lk.prepare(x)
		if stop != nil && stop(x) {
			return
		}
		order = append(order, x)
		for _, evs := range x.events {
			for _, e := range evs {
				if (e.Kind == evCall && !e.Async) || (e.Kind == evDefer && e.Op == lkNone) {
					for _, t := range e.Targets {
						visit(t)
					}
				}
			}
		}
	}
	visit(u)
	return order
}

// effects: write accesses to the given locations reachable synchronously from u.
func (lk *LK) effects(u *Unit, locs map[string]bool) []*accState { return lk.effectsStop(u, locs, nil) }

func (lk *LK) effectsStop(u *Unit, locs map[string]bool, stop func(*Unit) bool) []*accState {
	var out []*accState
	for _, x := range lk.reachSyncStop(u, stop) {
		for _, evs := range x.events {
			for _, e := range evs {
				if e.Kind == evAccess && e.Acc.Write && locs[e.Acc.Loc] {
					out = append(out, &accState{Unit: x, Acc: e.Acc})
				}
			}
		}
	}
	sort.Slice(out, func(i, j int) bool { return out[i].Acc.Pos < out[j].Acc.Pos })
	return out
}

// reads: read accesses to the given locations reachable synchronously from u.
func (lk *LK) reads(u *Unit, locs map[string]bool) []*accState {
	var out []*accState
	for _, x := range lk.reachSync(u) {
		for _, evs := range x.events {
			for _, e := range evs {
				if e.Kind == evAccess && !e.Acc.Write && locs[e.Acc.Loc] {
					out = append(out, &accState{Unit: x, Acc: e.Acc})
				}
			}
		}
	}
	sort.Slice(out, func(i, j int) bool { return out[i].Acc.Pos < out[j].Acc.Pos })
	return out
}
