package main

// Sentinel mutants (must be detected by the named rule at the named key) and
// neutral variants (behaviour-preserving; every rule must stay silent).
// Applied in memory through packages.Config.Overlay. A mutant whose Old text
// no longer occurs exactly once is reported as stale, not as a failure.

const (
	fServer  = "internal/server/server.go"
	fAOF     = "internal/server/aof.go"
	fScripts = "internal/server/scripts.go"
	fExpire  = "internal/server/expire.go"
	fFollow  = "internal/server/follow.go"
	fLive    = "internal/server/live.go"
	fCrud    = "internal/server/crud.go"
	fJSON    = "internal/server/json.go"
	fHooks   = "internal/server/hooks.go"
	fShrink  = "internal/server/aofshrink.go"
	fColl    = "internal/collection/collection.go"
)

func init() {
	// ---- R3.write-class / R7.lock-write / R15 ------------------------------
	mutant(&Mutant{Name: "lt-drop-fset", Props: []string{"C03", "C07", "C15"}, File: fServer,
		Old: `case "set", "del", "drop", "fset", "flushdb",`, New: `case "set", "del", "drop", "flushdb",`,
		Expect: "R3.write-class", Key: "fset", Why: "FSET falls to the default (shared, unlogged, ungated) class"})
	mutant(&Mutant{Name: "lt-drop-jdel-lock", Props: []string{"C07"}, File: fServer,
		Old: `"expire", "persist", "jset", "jdel", "pdel", "rename", "renamenx":`, New: `"expire", "persist", "jset", "pdel", "rename", "renamenx":`,
		Expect: "R7.lock-write", Key: "cmdJdel", Why: "reverse of the JDEL fix"})
	mutant(&Mutant{Name: "lt-get-nolock", Props: []string{"C07"}, File: fServer,
		Old: "case \"get\", \"keys\", \"scan\", \"nearby\", \"within\", \"intersects\", \"hooks\",\n\t\t\"chans\"",
		New: "case \"keys\", \"scan\", \"nearby\", \"within\", \"intersects\", \"hooks\",\n\t\t\"chans\"",
		Edits: []Edit{{fServer, `	case "output":
		// this is local connection operation. Locks not needed.`, `	case "output", "get":
		// this is local connection operation. Locks not needed.`}},
		Expect: "R7.lock-read", Key: "cmdGET", Why: "GET dispatched without any lock"})
	mutant(&Mutant{Name: "syncaof-nolock", Props: []string{"C07"}, File: fServer,
		Old: "\t\ts.mu.LockLowPriority()\n\t\tdefer s.mu.Unlock()\n\t\ts.flushAOF(true)", New: "\t\ts.flushAOF(true)",
		Expect: "R7.lock-write", Key: "flushAOF", Why: "background flusher touches aofbuf without the lock"})
	mutant(&Mutant{Name: "follow-drop-relock", Props: []string{"C07"}, File: fFollow,
		Old: "\t\t\tif m[\"id\"] == \"\" {\n\t\t\t\ts.mu.Lock()\n", New: "\t\t\tif m[\"id\"] == \"\" {\n",
		Expect: "R7.balance", Key: "cmdFollow", Why: "one error return of FOLLOW leaves the lock released"})
	mutant(&Mutant{Name: "pdel-unlock-inside", Props: []string{"C07"}, File: fCrud,
		Old: "\td.timestamp = now\n\td.parent = true\n", New: "\ts.mu.Unlock()\n\ts.mu.Lock()\n\td.timestamp = now\n\td.parent = true\n",
		Expect: "R7.handlers-lock-neutral", Key: "cmdPDEL", Why: "a multi-object command drops the lock between effect and log"})
	mutant(&Mutant{Name: "golive-rlock-fence", Props: []string{"C05"}, File: fLive,
		Old: "\t\t\t\ts.mu.Lock()\n\t\t\t\tdefer s.mu.Unlock()\n\t\t\t\tmsgs = FenceMatch", New: "\t\t\t\ts.mu.RLock()\n\t\t\t\tdefer s.mu.RUnlock()\n\t\t\t\tmsgs = FenceMatch",
		Expect: "R5.under-lock", Key: "FenceMatch", Why: "live fences evaluated under the shared lock"})
	mutant(&Mutant{Name: "golive-rlock", Props: []string{"C07"}, File: fLive,
		Old: "\t\t\t\ts.mu.Lock()\n\t\t\t\tdefer s.mu.Unlock()\n\t\t\t\tmsgs = FenceMatch", New: "\t\t\t\ts.mu.RLock()\n\t\t\t\tdefer s.mu.RUnlock()\n\t\t\t\tmsgs = FenceMatch",
		Expect: "R7.lock-write", Key: "groupConnect", Why: "reverse of the live-fence fix"})
	mutant(&Mutant{Name: "read-handler-mutates", Props: []string{"C07", "C03"}, File: fCrud,
		Old:    "func (s *Server) cmdTYPE(msg *Message) (resp.Value, error) {\n\tstart := time.Now()\n",
		New:    "func (s *Server) cmdTYPE(msg *Message) (resp.Value, error) {\n\tstart := time.Now()\n\tif len(msg.Args) > 7 {\n\t\ts.cols.Delete(msg.Args[1])\n\t}\n",
		Expect: "R3.write-class", Key: "type", Why: "a read command acquires a hidden mutation"})

	// ---- R3.apply-log / updated / vocabulary -------------------------------
	mutant(&Mutant{Name: "expire-drop-writeaof", Props: []string{"C03", "C14"}, File: fExpire,
		Old:    "\t\t_, d, err := s.cmdDEL(msg)\n\t\tif err != nil {\n\t\t\tlog.Fatal(err)\n\t\t}\n\t\tif err := s.writeAOF(msg.Args, &d); err != nil {\n\t\t\tlog.Fatal(err)\n\t\t}",
		New:    "\t\t_, d, err := s.cmdDEL(msg)\n\t\tif err != nil {\n\t\t\tlog.Fatal(err)\n\t\t}\n\t\t_ = d",
		Expect: "R3.apply-log", Key: "backgroundExpireObjects", Why: "expiry applied but not logged"})
	mutant(&Mutant{Name: "nonatomic-write-false", Props: []string{"C03", "C18"}, File: fScripts,
		Old:    "\tif err != nil {\n\t\treturn resp.NullValue(), err\n\t}\n\n\tif write {\n\t\tif err := s.writeAOF(msg.Args, &d); err != nil {\n\t\t\treturn resp.NullValue(), err\n\t\t}\n\t}\n\n\treturn res, nil\n}\n\n// Opens",
		New:    "\tif err != nil {\n\t\treturn resp.NullValue(), err\n\t}\n\n\tif write && msg.OutputType == JSON {\n\t\tif err := s.writeAOF(msg.Args, &d); err != nil {\n\t\t\treturn resp.NullValue(), err\n\t\t}\n\t}\n\n\treturn res, nil\n}\n\n// Opens",
		Expect: "R3.apply-log", Key: "luaTile38NonAtomic", Why: "script writes logged only under an unrelated condition"})
	mutant(&Mutant{Name: "expire-drop-updated", Props: []string{"C03"}, File: fCrud,
		Old: "\t\td.command = \"expire\"\n\t\td.updated = true\n", New: "\t\td.command = \"expire\"\n",
		Expect: "R3.updated-flag", Key: "cmdEXPIRE", Why: "EXPIRE mutates but writeAOF drops the command"})
	mutant(&Mutant{Name: "expire-hooks-vocab", Props: []string{"C03"}, File: fExpire,
		Old: `msg.Args = []string{"delchan", h.Name}`, New: `msg.Args = []string{"delchannel", h.Name}`,
		Expect: "R3.vocabulary", Key: "delchannel", Why: "logged name cannot be replayed"})

	// ---- R15 ---------------------------------------------------------------
	mutant(&Mutant{Name: "eval-drop-readonly", Props: []string{"C15", "C18"}, File: fServer,
		Old:    "\tcase \"eval\", \"evalsha\":\n\t\t// write operations (potentially) but no AOF for the script command itself\n\t\ts.mu.Lock()\n\t\tdefer s.mu.Unlock()\n\t\tif s.config.followHost() != \"\" {\n\t\t\treturn writeErr(\"not the leader\")\n\t\t}\n\t\tif s.config.readOnly() {\n\t\t\treturn writeErr(\"read only\")\n\t\t}",
		New:    "\tcase \"eval\", \"evalsha\":\n\t\t// write operations (potentially) but no AOF for the script command itself\n\t\ts.mu.Lock()\n\t\tdefer s.mu.Unlock()\n\t\tif s.config.followHost() != \"\" {\n\t\t\treturn writeErr(\"not the leader\")\n\t\t}",
		Expect: "R15.write-gates", Key: "eval,evalsha/read-only", Why: "EVAL on a read-only server"})
	mutant(&Mutant{Name: "ro-write-list-drop-rename", Props: []string{"C15", "C18"}, File: fScripts,
		Old:    "\tcase \"set\", \"del\", \"drop\", \"fset\", \"flushdb\", \"expire\", \"persist\", \"jset\", \"pdel\",\n\t\t\"rename\", \"renamenx\":\n\t\t// write operations\n\t\treturn resp.NullValue(), errReadOnly\n\n\tcase \"get\",",
		New:    "\tcase \"set\", \"del\", \"drop\", \"fset\", \"flushdb\", \"expire\", \"persist\", \"jset\", \"pdel\",\n\t\t\"renamenx\":\n\t\t// write operations\n\t\treturn resp.NullValue(), errReadOnly\n\n\tcase \"rename\", \"get\",",
		Expect: "R15.write-gates", Key: "luaTile38AtomicRO", Why: "EVALRO can RENAME"})
	mutant(&Mutant{Name: "auth-exempt-server", Props: []string{"C15"}, File: fServer,
		Old: `if (!client.authd || cmd == "auth") && cmd != "output" && cmd != "healthz" {`, New: `if (!client.authd || cmd == "auth") && cmd != "output" && cmd != "healthz" && cmd != "server" {`,
		Expect: "R15.auth-dominates", Key: "auth-exemptions", Why: "SERVER readable without password"})
	mutant(&Mutant{Name: "authd-before-compare", Props: []string{"C15"}, File: fServer,
		Old:    "\t\t\tif s.config.requirePass() != strings.TrimSpace(password) {\n\t\t\t\treturn writeErr(\"invalid password\")\n\t\t\t}\n\t\t\tclient.authd = true\n",
		New:    "\t\t\tclient.authd = true\n\t\t\tif s.config.requirePass() != strings.TrimSpace(password) {\n\t\t\t\treturn writeErr(\"invalid password\")\n\t\t\t}\n",
		Expect: "R15.authd-store", Key: "authd=true", Why: "a wrong password authenticates the connection for the next command"})
	mutant(&Mutant{Name: "protected-after-read", Props: []string{"C15"}, File: fServer,
		Old:    "\t\t\t\tif s.isProtected() {\n\t\t\t\t\t// This is a protected server. Only loopback is allowed.\n\t\t\t\t\tconn.Write(deniedMessage)\n\t\t\t\t\treturn // close connection\n\t\t\t\t}",
		New:    "\t\t\t\tif s.isProtected() {\n\t\t\t\t\t// This is a protected server. Only loopback is allowed.\n\t\t\t\t\tconn.Write(deniedMessage)\n\t\t\t\t}",
		Expect: "R15.protected-first", Key: "protected-before-read", Why: "protected mode writes the denial but keeps serving"})
	mutant(&Mutant{Name: "read-gate-drop-get", Props: []string{"C15"}, File: fServer,
		Old:    "case \"get\", \"keys\", \"scan\", \"nearby\", \"within\", \"intersects\", \"hooks\",\n\t\t\"chans\"",
		New:    "case \"keys\", \"scan\", \"nearby\", \"within\", \"intersects\", \"hooks\",\n\t\t\"chans\"",
		Expect: "R15.read-gate", Key: "get", Why: "GET served by a follower that never caught up"})

	// ---- R8 ----------------------------------------------------------------
	mutant(&Mutant{Name: "dirty-clear-outside", Props: []string{"C08"}, File: fServer,
		Old:    "\t\t\t\t\t\t\ts.flushAOF(false)\n\t\t\t\t\t\t\ts.aofdirty.Store(false)\n\t\t\t\t\t\t}()\n\t\t\t\t\t}\n\t\t\t\t\tconn.Write(client.out)",
		New:    "\t\t\t\t\t\t\ts.flushAOF(false)\n\t\t\t\t\t\t}()\n\t\t\t\t\t\ts.aofdirty.Store(false)\n\t\t\t\t\t}\n\t\t\t\t\tconn.Write(client.out)",
		Expect: "R8.flag-under-lock", Key: "aofdirty.Store(false)", Why: "reverse of the dirty-flag fix"})
	mutant(&Mutant{Name: "detach-no-prewrite", Props: []string{"C08"}, File: fServer,
		Old: "\t\t\t\t\t\t\t\t\tif s.aofdirty.Load() {\n\t\t\t\t\t\t\t\t\t\tfunc() {", New: "\t\t\t\t\t\t\t\t\tif s.aofdirty.Load() && false {\n\t\t\t\t\t\t\t\t\t\tfunc() {",
		Expect: "R8.flush-before-send", Key: "client.conn.Write(client.out)", Why: "reverse of the detach-path fix"})
	mutant(&Mutant{Name: "prewrite-wrong-test", Props: []string{"C08"}, File: fServer,
		Old: "\t\t\t\tif len(client.out) > 0 {\n\t\t\t\t\tif s.aofdirty.Load() {", New: "\t\t\t\tif len(client.out) > 0 {\n\t\t\t\t\tif s.aofdirty.Load() && len(client.out) > 64 {",
		Expect: "R8.flush-before-send", Key: "conn.Write(client.out)", Why: "the flush is skipped for short replies"})
	mutant(&Mutant{Name: "prewrite-rlock", Props: []string{"C08", "C07"}, File: fServer,
		Old: "\t\t\t\t\t\t\t// prewrite\n\t\t\t\t\t\t\ts.mu.Lock()\n\t\t\t\t\t\t\tdefer s.mu.Unlock()", New: "\t\t\t\t\t\t\t// prewrite\n\t\t\t\t\t\t\ts.mu.RLock()\n\t\t\t\t\t\t\tdefer s.mu.RUnlock()",
		Expect: "R8.flag-under-lock", Key: "aofdirty.Store(false)", Why: "flush and clear under the shared lock"})
	mutant(&Mutant{Name: "writeaof-no-dirty", Props: []string{"C08"}, File: fAOF,
		Old: "\t\ts.aofdirty.Store(true) // prewrite optimization flag\n", New: "",
		Expect: "R8.set-on-append", Key: "writeAOF", Why: "appends never mark the buffer dirty"})
	mutant(&Mutant{Name: "flush-truncate-first", Props: []string{"C08"}, File: fAOF,
		Old: "\tif len(s.aofbuf) > 0 {\n\t\t_, err := s.aof.Write(s.aofbuf)", New: "\tif len(s.aofbuf) > 0 {\n\t\tif len(s.aofbuf) > 1<<30 {\n\t\t\ts.aofbuf = s.aofbuf[:0]\n\t\t}\n\t\t_, err := s.aof.Write(s.aofbuf)",
		Expect: "R8.flush-complete", Key: "write-before-truncate", Why: "buffer can be dropped unwritten"})

	// ---- R18 ---------------------------------------------------------------
	mutant(&Mutant{Name: "eval-late-clear", Props: []string{"C18"}, File: fScripts,
		Old: "\tluaSetEvalCmd(luaState, lua.LString(msg.Command()))\n", New: "\tluaSetEvalCmd(luaState, lua.LString(msg.Command()))\n\tif scriptIsSha && len(script) != 40 {\n\t\treturn NOMessage, errShaNotFound\n\t}\n",
		Expect: "R18.per-call-globals", Key: "cmdEvalUnified", Why: "an early return between the set and the deferred clear (shape of the repaired defect)"})
	mutant(&Mutant{Name: "evalcmd-in-global", Props: []string{"C18"}, File: fScripts,
		Old: "\t\tevalCmd = luaGetEvalCmd(ls)\n", New: "\t\tevalCmd = ls.GetGlobal(\"EVAL_CMD\").String()\n",
		Expect: "R18.class-binding", Key: "selector-not-script-writable", Why: "reverse of the registry fix: the class selector is a script-writable global"})
	mutant(&Mutant{Name: "sandbox-open-io", Props: []string{"C18"}, File: fScripts,
		Old: "\t\t{lua.OsLibName, openOsSubset}, // See below for impl, only opens clock/difftime\n", New: "\t\t{lua.OsLibName, openOsSubset}, // See below for impl, only opens clock/difftime\n\t\t{lua.IoLibName, lua.OpenIo},\n",
		Expect: "R18.sandbox-env", Key: "OpenIo", Why: "the io library is opened"})
	mutant(&Mutant{Name: "sandbox-os-getenv", Props: []string{"C18"}, File: fScripts,
		Old: "\t\t\"difftime\": osDiffTime,\n\t}", New: "\t\t\"difftime\": osDiffTime,\n\t\t\"getenv\":   osClock,\n\t}",
		Expect: "R18.sandbox-env", Key: "os.getenv", Why: "a new name in the os table"})
	mutant(&Mutant{Name: "sandbox-sha1-reads-file", Props: []string{"C18"}, File: fScripts,
		Old: "\t\tshaSum := Sha1Sum(ls.ToString(1))\n", New: "\t\tshaSum := Sha1Sum(ls.ToString(1))\n\t\tif b, err := os.ReadFile(ls.ToString(2)); err == nil {\n\t\t\tshaSum = Sha1Sum(string(b))\n\t\t}\n",
		Edits:  []Edit{{fScripts, "import (\n\t\"bytes\"", "import (\n\t\"os\"\n\t\"bytes\""}},
		Expect: "R18.sandbox-env", Key: "reach/tile38.sha1hex", Why: "a script function reads files"})
	mutant(&Mutant{Name: "globals-unlocked", Props: []string{"C18"}, File: fScripts,
		Old: "\tL.SetMetatable(L.Get(lua.GlobalsIndex), mt)\n", New: "\t_ = mt\n",
		Expect: "R18.globals-locked", Key: "metatable-installed", Why: "new globals can be created and survive in the pool"})
	mutant(&Mutant{Name: "ro-read-list-del", Props: []string{"C18", "C15"}, File: fScripts,
		Old: "\t\treturn resp.NullValue(), errReadOnly\n\n\tcase \"get\", \"keys\",", New: "\t\treturn resp.NullValue(), errReadOnly\n\n\tcase \"jdel\", \"get\", \"keys\",",
		Expect: "R18.ro-effect-free", Key: "jdel", Why: "EVALRO can run a mutating command"})
	mutant(&Mutant{Name: "evalro-nolock", Props: []string{"C18", "C07"}, File: fServer,
		Old: "\"chans\", \"search\", \"ttl\", \"bounds\", \"server\", \"info\", \"type\", \"jget\",\n\t\t\"evalro\", \"evalrosha\", \"role\",", New: "\"chans\", \"search\", \"ttl\", \"bounds\", \"server\", \"info\", \"type\", \"jget\",\n\t\t\"role\",",
		Edits:  []Edit{{fServer, "\tcase \"evalna\", \"evalnasha\":\n\t\t// No locking for scripts", "\tcase \"evalna\", \"evalnasha\", \"evalro\", \"evalrosha\":\n\t\t// No locking for scripts"}},
		Expect: "R18.script-locks", Key: "lock-table/evalro", Why: "EVALRO runs without the shared lock"})
	mutant(&Mutant{Name: "whereeval-close-no-clear", Props: []string{"C18"}, File: "internal/server/token.go",
		Old: "func (whereeval whereevalT) Close() {\n\tluaSetRawGlobals(\n\t\twhereeval.luaState, map[string]lua.LValue{\n\t\t\t\"ARGV\": lua.LNil,\n\t\t})\n", New: "func (whereeval whereevalT) Close() {\n",
		Expect: "R18.per-call-globals", Key: "Close", Why: "ARGV of a WHEREEVAL survives in the pooled state"})
	mutant(&Mutant{Name: "evalcmd-from-arg", Props: []string{"C18"}, File: fScripts,
		Old: "\tluaSetEvalCmd(luaState, lua.LString(msg.Command()))\n", New: "\tluaSetEvalCmd(luaState, lua.LString(\"eval\"))\n",
		Expect: "R18.class-binding", Key: "eval-cmd-setter", Why: "EVALRO scripts run in the read-write class"})

	// ---- R9 ----------------------------------------------------------------
	mutant(&Mutant{Name: "shrink-rename-away", Props: []string{"C09"}, File: fShrink,
		Old:    "\t\t\tif err := os.Rename(s.opts.AppendFileName+\"-shrink\", s.opts.AppendFileName); err != nil {",
		New:    "\t\t\tif err := os.Rename(s.opts.AppendFileName, s.opts.AppendFileName+\"-bak\"); err != nil {\n\t\t\t\tlog.Fatalf(\"shrink backup fatal operation: %v\", err)\n\t\t\t}\n\t\t\tif err := os.Rename(s.opts.AppendFileName+\"-shrink\", s.opts.AppendFileName); err != nil {",
		Expect: "R9.live-never-absent", Key: "os.Rename(s.opts.AppendFileName,", Why: "reverse of the single-rename fix"})
	mutant(&Mutant{Name: "shrinklog-extra-guard", Props: []string{"C09"}, File: fAOF,
		Old: "\tif s.shrinking {\n\t\tnargs := make", New: "\tif s.shrinking && d != nil {\n\t\tnargs := make",
		Expect: "R9.shrinklog-capture", Key: "shrinklog-guarded-only-by-flag", Why: "commands logged without details (expiry of hooks via nil d) are not captured"})
	mutant(&Mutant{Name: "shrinklog-after-live", Props: []string{"C09"}, File: fAOF,
		Old:    "\tif s.shrinking {\n\t\tnargs := make([]string, len(args))\n\t\tcopy(nargs, args)\n\t\ts.shrinklog = append(s.shrinklog, nargs)\n\t}\n\n\tif s.aof != nil {\n\t\ts.aofdirty.Store(true) // prewrite optimization flag",
		New:    "\tif s.aof != nil {\n\t\tif len(args) > 3 && s.shrinking {\n\t\t\tnargs := make([]string, len(args))\n\t\t\tcopy(nargs, args)\n\t\t\ts.shrinklog = append(s.shrinklog, nargs)\n\t\t}\n\t\ts.aofdirty.Store(true) // prewrite optimization flag",
		Expect: "R9.shrinklog-capture", Key: "", Why: "short commands reach the live log only"})
	mutant(&Mutant{Name: "shrink-sync-after-rename", Props: []string{"C09"}, File: fShrink,
		Old:    "\t\t\tif _, err := f.Write(aofbuf); err != nil {\n\t\t\t\treturn err\n\t\t\t}\n\t\t\tif err := f.Sync(); err != nil {\n\t\t\t\treturn err\n\t\t\t}\n\t\t\t// we now have",
		New:    "\t\t\tif _, err := f.Write(aofbuf); err != nil {\n\t\t\t\treturn err\n\t\t\t}\n\t\t\t// we now have",
		Expect: "R9.swap-order", Key: "sync-new-file", Why: "the shrink log is not synced before the swap"})
	mutant(&Mutant{Name: "shrink-drop-aofsz", Props: []string{"C09"}, File: fShrink,
		Old: "\t\t\ts.aofsz = int(n)\n", New: "\t\t\t_ = n\n",
		Expect: "R9.swap-order", Key: "store-aofsz", Why: "the write offset keeps the size of the old file"})
	mutant(&Mutant{Name: "shrink-no-flush", Props: []string{"C09"}, File: fShrink,
		Old: "\t\t\t// flush the aof buffer\n\t\t\ts.flushAOF(false)\n", New: "",
		Expect: "R9.swap-order", Key: "flushAOF", Why: "buffered commands are written to the closed file"})
	mutant(&Mutant{Name: "shrink-ex-option", Props: []string{"C09"}, File: fShrink,
		Old: "\t\t\t\t\t\t\t\tvalues = append(values, \"ex\")\n", New: "\t\t\t\t\t\t\t\tvalues = append(values, \"expire\")\n",
		Expect: "R9.options-agree", Key: "object-emitter/expire", Why: "emitted option is not parsed by SET"})
	mutant(&Mutant{Name: "shrink-cursor-after-emit", Props: []string{"C09"}, File: fShrink,
		Old: "\t\t\t\t\t\t\tif count == maxids {\n\t\t\t\t\t\t\t\t// we reached the max number of ids for one batch\n\t\t\t\t\t\t\t\tnextid = o.ID()\n\t\t\t\t\t\t\t\tidsdone = false\n\t\t\t\t\t\t\t\treturn false\n\t\t\t\t\t\t\t}\n",
		New: "",
		Edits: []Edit{{fShrink, "\t\t\t\t\t\t\t// increment the object count\n\t\t\t\t\t\t\tcount++\n\t\t\t\t\t\t\treturn true\n",
			"\t\t\t\t\t\t\t// increment the object count\n\t\t\t\t\t\t\tcount++\n\t\t\t\t\t\t\tif count == maxids {\n\t\t\t\t\t\t\t\tnextid = o.ID()\n\t\t\t\t\t\t\t\tidsdone = false\n\t\t\t\t\t\t\t\treturn false\n\t\t\t\t\t\t\t}\n\t\t\t\t\t\t\treturn true\n"}},
		Expect: "R9.resume-cursor", Key: "cursor/nextid", Why: "the element that fills a batch is emitted and then used as the inclusive resume point: written twice"})

	// ---- R12 ---------------------------------------------------------------
	mutant(&Mutant{Name: "glob-no-escape-stop", Props: []string{"C12"}, File: "internal/glob/glob.go",
		Old: "\t\tcase '[', '*', '?', '\\\\':\n\t\t\t// An escape", New: "\t\tcase '[', '*', '?':\n\t\t\t// An escape",
		Expect: "R12.stop-set", Key: "stop-byte", Why: "reverse of the escape fix"})
	mutant(&Mutant{Name: "glob-empty-prefix-limits", Props: []string{"C12"}, File: "internal/glob/glob.go",
		Old: "\t\tg.IsGlob = isGlob\n\t\treturn g\n\t}\n\tvar a, b string", New: "\t\tg.Limits = []string{pattern, pattern}\n\t\tg.IsGlob = isGlob\n\t\treturn g\n\t}\n\tvar a, b string",
		Expect: "R12.empty-prefix-unbounded", Key: "limits-when-prefix-empty", Why: "reverse of the leading-operator fix"})
	mutant(&Mutant{Name: "search-count-all-objects", Props: []string{"C12", "C19"}, File: "internal/server/search.go",
		Old: "count := sw.col.StringCount() - int(sargs.cursor)", New: "count := sw.col.Count() - int(sargs.cursor)",
		Expect: "R12.count-shortcut", Key: "cmdSearch→counter-matches-index", Why: "reverse of the SEARCH COUNT fix (counter)"})
	mutant(&Mutant{Name: "scan-count-ignores-wherein", Props: []string{"C12", "C19"}, File: "internal/server/scan.go",
		Old: "\t\tif sw.output == outputCount && len(sw.wheres) == 0 &&\n\t\t\tlen(sw.whereins) == 0 && len(sw.whereevals) == 0 &&", New: "\t\tif sw.output == outputCount && len(sw.wheres) == 0 &&\n\t\t\tlen(sw.whereevals) == 0 &&",
		Expect: "R12.count-shortcut", Key: "cmdScan→guard-covers-filters", Why: "SCAN COUNT with WHEREIN returns the unfiltered count"})
	mutant(&Mutant{Name: "keys-range-no-match", Props: []string{"C12"}, File: "internal/server/keys.go",
		Old:    "\t\t\t\tif key > g.Limits[1] {\n\t\t\t\t\treturn false\n\t\t\t\t}\n\t\t\t\tmatch, _ := glob.Match(pattern, key)\n\t\t\t\tif match {\n\t\t\t\t\tkeys = append(keys, key)\n\t\t\t\t}",
		New:    "\t\t\t\tif key > g.Limits[1] {\n\t\t\t\t\treturn false\n\t\t\t\t}\n\t\t\t\tkeys = append(keys, key)",
		Expect: "R12.range-then-match", Key: "cmdKEYS→s.cols.Ascend", Why: "KEYS ab*c returns everything with prefix ab"})
	mutant(&Mutant{Name: "where-extra-operator", Props: []string{"C12"}, File: "internal/server/token.go",
		Old: "\t\t\t\t\tcase \"<\", \"<=\", \">\", \">=\", \"==\", \"!=\":\n\t\t\t\t\tdefault:", New: "\t\t\t\t\tcase \"<\", \"<=\", \">\", \">=\", \"==\", \"!=\", \"<>\":\n\t\t\t\t\tdefault:",
		Expect: "R12.where-operators", Key: "accepted/<>", Why: "an operator the matcher does not know"})

	// ---- R19 / R2 / R20 ----------------------------------------------------
	mutant(&Mutant{Name: "delete-forgets-points", Props: []string{"C19"}, File: fColl,
		Old:    "\tif prev.Expires() != 0 {\n\t\tc.expires.Delete(prev)\n\t}\n\tc.points -= prev.Geo().NumPoints()\n\tc.weight -= prev.Weight()\n\treturn prev",
		New:    "\tif prev.Expires() != 0 {\n\t\tc.expires.Delete(prev)\n\t}\n\tc.weight -= prev.Weight()\n\treturn prev",
		Expect: "R19.delta", Key: "points", Why: "num_points drifts after DEL"})
	mutant(&Mutant{Name: "setfill-wrong-operand", Props: []string{"C19"}, File: fColl,
		Old: "\t\tc.points -= prev.Geo().NumPoints()\n\t\tc.weight -= prev.Weight()\n\t}", New: "\t\tc.points -= prev.Geo().NumPoints()\n\t\tc.weight -= obj.Weight()\n\t}",
		Expect: "R19.delta", Key: "weight", Why: "overwrite subtracts the new object's weight"})
	mutant(&Mutant{Name: "setfill-expires-guard", Props: []string{"C19", "C14"}, File: fColl,
		Old: "\tif obj.Expires() != 0 {\n\t\tc.expires.Set(obj)\n\t}", New: "\tif obj.Expires() > 0 {\n\t\tc.expires.Set(obj)\n\t}",
		Expect: "R19.delta", Key: "expires", Why: "insert and delete guards of the expiry index disagree"})
	mutant(&Mutant{Name: "setfill-expires-entered-before-retired", Props: []string{"C19", "C14"}, File: fColl,
		Old:    "\t\tif prev.Expires() != 0 {\n\t\t\tc.expires.Delete(prev)\n\t\t}\n\t\tc.points -= prev.Geo().NumPoints()\n\t\tc.weight -= prev.Weight()\n\t}",
		New:    "\t\tc.points -= prev.Geo().NumPoints()\n\t\tc.weight -= prev.Weight()\n\t}",
		Edits:  []Edit{{fColl, "\tif obj.Expires() != 0 {\n\t\tc.expires.Set(obj)\n\t}\n\tc.points += obj", "\tif obj.Expires() != 0 {\n\t\tc.expires.Set(obj)\n\t}\n\tif prev != nil && prev.Expires() != 0 {\n\t\tc.expires.Delete(prev)\n\t}\n\tc.points += obj"}},
		Expect: "R19.delta", Key: "order/expires", Why: "the new deadline is entered before the previous one is retired: with the same id and deadline the new entry is the one removed and the object never expires"})
	mutant(&Mutant{Name: "indexinsert-unguarded", Props: []string{"C19", "C02"}, File: fColl,
		Old:    "func (c *Collection) indexInsert(item *object.Object) {\n\tif !item.Geo().Empty() {\n\t\tc.spatial.Insert(rtreeItem(item))\n\t}\n}",
		New:    "func (c *Collection) indexInsert(item *object.Object) {\n\tc.spatial.Insert(rtreeItem(item))\n}",
		Expect: "R19.delta", Key: "inverse/spatial", Why: "objects with an empty geometry enter the spatial index and are never removed from it"})
	mutant(&Mutant{Name: "collection-extra-writer", Props: []string{"C19"}, File: fColl,
		Old: "// Get returns an object.", New: "// Touch is a test helper.\nfunc (c *Collection) Touch() { c.objects++ }\n\n// Get returns an object.",
		Expect: "R19.who-writes", Key: "Touch", Why: "a counter written outside the bookkeeping functions"})
	mutant(&Mutant{Name: "count-wrong-field", Props: []string{"C19"}, File: fColl,
		Old: "\treturn c.objects + c.nobjects\n", New: "\treturn c.objects\n",
		Expect: "R19.accessors", Key: "accessor/Count", Why: "Count ignores string values"})
	mutant(&Mutant{Name: "search-plain-float32", Props: []string{"C02"}, File: fColl,
		Old: "\talive := true\n\tmin, max := rtreeRect(rect)\n", New: "\talive := true\n\tmin := [2]float32{float32(rect.Min.X), float32(rect.Min.Y)}\n\tmax := [2]float32{float32(rect.Max.X), float32(rect.Max.Y)}\n",
		Expect: "R2.quantiser-agreement", Key: "geoSearch", Why: "the reader rounds to nearest while the writer rounds outward"})
	mutant(&Mutant{Name: "within-unfiltered", Props: []string{"C02"}, File: fColl,
		Old: "\t\tnextStep(count, cursor, deadline)\n\t\tif o.Geo().Within(obj) {\n\t\t\treturn iter(o)\n\t\t}\n\t\treturn true", New: "\t\tnextStep(count, cursor, deadline)\n\t\treturn iter(o)",
		Expect: "R2.exact-filter", Key: "Within", Why: "WITHIN returns every index candidate"})
	mutant(&Mutant{Name: "intersects-wrong-operand", Props: []string{"C02"}, File: fColl,
		Old: "\t\t\tif match = o.Geo().Intersects(gobj); match {", New: "\t\t\tif match = o.Geo().Intersects(o.Geo()); match {",
		Expect: "R2.no-self-operand", Key: "Intersects", Why: "sparse INTERSECTS tests the candidate against itself"})
	mutant(&Mutant{Name: "roam-self-distance-operand", Props: []string{"C02"}, File: "internal/server/fence.go",
		Old: "meters := obj.Geo().Distance(o.Geo())\n\t\t\tif meters > fence.roam.meters {", New: "meters := o.Geo().Distance(o.Geo())\n\t\t\tif meters > fence.roam.meters {",
		Expect: "R2.no-self-operand", Key: "fenceMatchNearbys", Why: "reverse of the roaming distance fix (self operand)"})
	mutant(&Mutant{Name: "roam-self-distance", Props: []string{"C20"}, File: "internal/server/fence.go",
		Old: "meters := obj.Geo().Distance(o.Geo())\n\t\t\tif meters > fence.roam.meters {", New: "meters := o.Geo().Distance(o.Geo())\n\t\t\tif meters > fence.roam.meters {",
		Expect: "R20.radius-operands", Key: "radius-guard", Why: "reverse of the roaming distance fix"})
	mutant(&Mutant{Name: "roam-no-radius-test", Props: []string{"C20"}, File: "internal/server/fence.go",
		Old: "\t\t\tif meters > fence.roam.meters {\n\t\t\t\treturn true // skip outside radius\n\t\t\t}\n", New: "\t\t\t_ = meters\n",
		Expect: "R20.radius-operands", Key: "radius-guard", Why: "everything in the bounding rectangle is nearby"})
	mutant(&Mutant{Name: "roam-pattern-always-glob", Props: []string{"C20"}, File: "internal/server/fence.go",
		Old:    "\t\t\tif fence.roam.pattern {\n\t\t\t\tidMatch, _ = glob.Match(fence.roam.id, o.ID())\n\t\t\t} else {\n\t\t\t\tidMatch = fence.roam.id == o.ID()\n\t\t\t}\n\t\t\tif !idMatch {\n\t\t\t\treturn true // skip non-id match\n\t\t\t}",
		New:    "\t\t\tif fence.roam.pattern {\n\t\t\t\tidMatch, _ = glob.Match(fence.roam.id, o.ID())\n\t\t\t} else {\n\t\t\t\tidMatch = fence.roam.id == o.ID()\n\t\t\t}\n\t\t\tif !idMatch && len(nearbys) > 1000 {\n\t\t\t\treturn true // skip non-id match\n\t\t\t}",
		Expect: "R20.pattern-filter", Key: "filter-dominates-append", Why: "the id filter is computed but not applied"})
	mutant(&Mutant{Name: "roam-faraway-stale-distance", Props: []string{"C20"}, File: "internal/server/fence.go",
		Old: "\t\tfaraways[i].meters = faraways[i].obj.Distance(obj.Geo())\n", New: "\t\tfaraways[i].meters = faraways[i].obj.Distance(old.Geo())\n",
		Expect: "R20.radius-operands", Key: "faraway-recompute", Why: "faraway distances refer to the previous position"})
	mutant(&Mutant{Name: "neutral-delete-helper", Props: []string{"C19", "C02", "C14"}, Neutral: true, File: fColl,
		Old: "\tif prev.IsSpatial() {\n\t\tif !prev.Geo().Empty() {\n\t\t\tc.indexDelete(prev)\n\t\t}\n\t\tc.objects--", New: "\tif prev.IsSpatial() {\n\t\tc.indexDelete(prev)\n\t\tc.objects--",
		Why: "the redundant outer emptiness test removed (the helper tests it)"})

	// ---- R11 / R14 ---------------------------------------------------------
	mutant(&Mutant{Name: "scanrange-skip-off-by-one", Props: []string{"C11"}, File: fColl,
		Old:    "\titer := func(_ string, o *object.Object) bool {\n\t\tcount++\n\t\tif count <= offset {\n\t\t\treturn true\n\t\t}\n\t\tnextStep(count, cursor, deadline)\n\t\tif !desc {",
		New:    "\titer := func(_ string, o *object.Object) bool {\n\t\tcount++\n\t\tif count < offset {\n\t\t\treturn true\n\t\t}\n\t\tnextStep(count, cursor, deadline)\n\t\tif !desc {",
		Expect: "R11.cursor-protocol", Key: "ScanRange", Why: "the first element of every later page repeats the last of the previous one"})
	mutant(&Mutant{Name: "nearby-step-after-iter", Props: []string{"C11"}, File: fColl,
		Old: "\t\t\tnextStep(count, cursor, deadline)\n\t\t\talive = iter(o, dist)\n\t\t\treturn alive", New: "\t\t\talive = iter(o, dist)\n\t\t\tnextStep(count, cursor, deadline)\n\t\t\treturn alive",
		Expect: "R11.cursor-protocol", Key: "Nearby", Why: "the element that hits the limit is not counted in the cursor"})
	mutant(&Mutant{Name: "searchvalues-no-prestep", Props: []string{"C11"}, File: fColl,
		Old:    "func (c *Collection) SearchValues(\n\tdesc bool,\n\tcursor Cursor,\n\tdeadline *deadline.Deadline,\n\titerator func(o *object.Object) bool,\n) bool {\n\tvar keepon = true\n\tvar count uint64\n\tvar offset uint64\n\tif cursor != nil {\n\t\toffset = cursor.Offset()\n\t\tcursor.Step(offset)\n\t}",
		New:    "func (c *Collection) SearchValues(\n\tdesc bool,\n\tcursor Cursor,\n\tdeadline *deadline.Deadline,\n\titerator func(o *object.Object) bool,\n) bool {\n\tvar keepon = true\n\tvar count uint64\n\tvar offset uint64\n\tif cursor != nil {\n\t\toffset = cursor.Offset()\n\t}",
		Expect: "R11.cursor-protocol", Key: "SearchValues/offset-and-step", Why: "the cursor of the second page restarts from the page size"})
	mutant(&Mutant{Name: "hitlimit-early", Props: []string{"C11"}, File: "internal/server/scanner.go",
		Old: "\tif sw.numberItems == sw.limit {\n\t\tsw.hitLimit = true\n\t\treturn false, nil\n\t}", New: "\tif sw.numberItems == sw.limit {\n\t\tsw.hitLimit = true\n\t}",
		Expect: "R11.cursor-report", Key: "hitLimit-edge", Why: "iteration continues past the limit while the cursor says it stopped"})
	mutant(&Mutant{Name: "writefoot-cursor-always", Props: []string{"C11"}, File: "internal/server/scanner.go",
		Old: "\tcursor := sw.numberIters\n\tif !sw.hitLimit {\n\t\tcursor = 0\n\t}", New: "\tcursor := sw.numberIters\n\tif !sw.hitLimit && sw.numberItems == 0 {\n\t\tcursor = 0\n\t}",
		Expect: "R11.cursor-report", Key: "writeFoot-cursor", Why: "a non-zero cursor although nothing remains"})
	mutant(&Mutant{Name: "fset-drops-deadline", Props: []string{"C14"}, File: fCrud,
		Old: "obj := object.New(id, o.Geo(), o.Expires(), ofields)", New: "obj := object.New(id, o.Geo(), 0, ofields)",
		Expect: "R14.deadline-propagation", Key: "cmdFSET", Why: "FSET silently makes the object immortal"})
	mutant(&Mutant{Name: "persist-keeps-deadline", Props: []string{"C14"}, File: fCrud,
		Old: "obj = object.New(id, o.Geo(), 0, o.Fields())", New: "obj = object.New(id, o.Geo(), o.Expires(), o.Fields())",
		Expect: "R14.deadline-propagation", Key: "cmdPERSIST", Why: "PERSIST answers OK but the object still expires"})
	mutant(&Mutant{Name: "sweeper-continues", Props: []string{"C14"}, File: fExpire,
		Old: "\t\t\tif nano < o.Expires() {\n\t\t\t\treturn false\n\t\t\t}", New: "\t\t\tif nano < o.Expires() {\n\t\t\t\treturn true\n\t\t\t}\n\t\t\tif len(msgs) > 1000000 {\n\t\t\t\treturn false\n\t\t\t}",
		Expect: "R14.sweep-stop", Key: "sweep-objects", Why: "the early stop is gone (not wrong by itself, but the rule pins the protocol)"})
	mutant(&Mutant{Name: "sweeper-wrong-direction", Props: []string{"C14"}, File: fExpire,
		Old: "\t\tif h.expires.After(now) {\n\t\t\treturn false\n\t\t}", New: "\t\tif now.After(h.expires) {\n\t\t\treturn false\n\t\t}",
		Expect: "R14.sweep-stop", Key: "sweep-hooks", Why: "hooks expire early and due hooks stay"})
	mutant(&Mutant{Name: "byexpires-id-first", Props: []string{"C14"}, File: fColl,
		Old: "func byExpires(a, b *object.Object) bool {\n\tif a.Expires() < b.Expires() {", New: "func byExpires(a, b *object.Object) bool {\n\tif a.ID() < b.ID() {\n\t\treturn true\n\t}\n\tif a.Expires() < b.Expires() {",
		Expect: "R14.sweep-stop", Key: "byExpires-deadline-first", Why: "the expiry index is no longer ordered by deadline"})

	// ---- R4 ----------------------------------------------------------------
	mutant(&Mutant{Name: "loadaof-no-seek", Props: []string{"C04"}, File: fAOF,
		Old: "\t\t\t\tif _, err := s.aof.Seek(int64(s.aofsz), 0); err != nil {\n\t\t\t\t\treturn err\n\t\t\t\t}\n", New: "",
		Expect: "R4.size-accounting", Key: "tail-repair", Why: "after the truncate the next append lands beyond the cut"})
	mutant(&Mutant{Name: "loadaof-truncate-before-adjust", Props: []string{"C04"}, File: fAOF,
		Old:    "\t\t\t\ts.aofsz -= len(buf)\n\t\t\t\tif err := s.aof.Truncate(int64(s.aofsz)); err != nil {\n\t\t\t\t\treturn err\n\t\t\t\t}",
		New:    "\t\t\t\tif err := s.aof.Truncate(int64(s.aofsz)); err != nil {\n\t\t\t\t\treturn err\n\t\t\t\t}\n\t\t\t\ts.aofsz -= len(buf)",
		Expect: "R4.size-accounting", Key: "file-size-at-return", Why: "the torn bytes stay in the file"})
	mutant(&Mutant{Name: "loadaof-truncate-error-dropped", Props: []string{"C04"}, File: fAOF,
		Old: "\t\t\t\tif err := s.aof.Truncate(int64(s.aofsz)); err != nil {\n\t\t\t\t\treturn err\n\t\t\t\t}", New: "\t\t\t\ts.aof.Truncate(int64(s.aofsz))",
		Expect: "R4.size-accounting", Key: "truncate-error-returned", Why: "a failed repair goes unnoticed"})
	mutant(&Mutant{Name: "loadaof-no-nul-skip", Props: []string{"C04"}, File: fAOF,
		Old: "\t\t\tif len(data) > 0 && data[0] == 0 {\n\t\t\t\t// Zeros found in AOF file (issue #230).\n\t\t\t\t// Just ignore it and move the next byte.\n\t\t\t\tdata = data[1:]\n\t\t\t\tcontinue\n\t\t\t}\n", New: "",
		Expect: "R4.nul-skip", Key: "parse-after-nul-test", Why: "zero padding is parsed as a command"})
	mutant(&Mutant{Name: "loadaof-no-carry", Props: []string{"C04"}, File: fAOF,
		Old: "\t\tif len(data) > 0 {\n\t\t\tbuf = append(buf[:0], data...)\n\t\t} else if len(buf) > 0 {", New: "\t\tif len(data) > 1<<20 {\n\t\t\tbuf = append(buf[:0], data...)\n\t\t} else if len(buf) > 0 {",
		Expect: "R16.carry-content", Key: "loadAOF/buf", Why: "a command split across two reads is dropped"})
	mutant(&Mutant{Name: "loadaof-count-after-parse", Props: []string{"C04"}, File: fAOF,
		Old: "\t\ts.aofsz += n\n\t\tdata := packet[:n]", New: "\t\tdata := packet[:n]",
		Expect: "R4.size-accounting", Key: "aofsz-at-return", Why: "aofsz stays 0 after start-up"})

	// ---- R6 ----------------------------------------------------------------
	mutant(&Mutant{Name: "follow-small-log-no-reset", Props: []string{"C06"}, File: "internal/server/checksum.go",
		Old: "\t\treturn s.followStartOver()\n\t}\n\n\tconn, err := DialTimeout", New: "\t\treturn 0, nil\n\t}\n\n\tconn, err := DialTimeout",
		Expect: "R6.position-implies-state", Key: "return-0", Why: "reverse of the resync fix (small local log)"})
	mutant(&Mutant{Name: "follow-startover-no-reset", Props: []string{"C06"}, File: "internal/server/checksum.go",
		Old: "\t\treturn 0, err\n\t}\n\ts.reset()\n\treturn 0, nil\n}", New: "\t\treturn 0, err\n\t}\n\treturn 0, nil\n}",
		Expect: "R6.position-implies-state", Key: "return-0", Why: "reverse of the resync fix (mismatching first window)"})
	mutant(&Mutant{Name: "follow-reload-without-reset", Props: []string{"C06"}, File: "internal/server/checksum.go",
		Old: "\tlog.Infof(\"reloading aof commands\")\n\ts.reset()\n", New: "\tlog.Infof(\"reloading aof commands\")\n",
		Expect: "R6.position-implies-state", Key: "return-truncated", Why: "the truncated log is replayed on top of the old dataset"})
	mutant(&Mutant{Name: "follow-caughtup-unconditional", Props: []string{"C06"}, File: fFollow,
		Old: "\tcaughtUp := pos >= aofSize\n\tif caughtUp {\n\t\ts.setCaughtUp(true)", New: "\tcaughtUp := pos >= aofSize\n\tif caughtUp || pos == 0 {\n\t\ts.setCaughtUp(true)",
		Expect: "R6.caught-up-guard", Key: "setCaughtUp(true)", Why: "an empty follower reports caught up immediately"})
	mutant(&Mutant{Name: "follow-caughtup-wrong-operand", Props: []string{"C06"}, File: fFollow,
		Old: "\t\t\tif aofsz >= int(aofSize) {", New: "\t\t\tif aofsz >= int(pos) {",
		Expect: "R6.caught-up-guard", Key: "setCaughtUp(true)", Why: "compares the position with itself instead of the leader's size"})
	mutant(&Mutant{Name: "follow-handle-lock-late", Props: []string{"C06"}, File: fFollow,
		Old:    "\ts.mu.Lock()\n\tdefer s.mu.Unlock()\n\tif int(s.followc.Load()) != followc {\n\t\treturn s.aofsz, errNoLongerFollowing\n\t}\n\tmsg := &Message{Args: args}",
		New:    "\tif int(s.followc.Load()) != followc {\n\t\treturn 0, errNoLongerFollowing\n\t}\n\ts.mu.Lock()\n\tdefer s.mu.Unlock()\n\tmsg := &Message{Args: args}",
		Expect: "R6.apply-under-lock", Key: "lock-dominates", Why: "a command of a superseded leader can be applied after FOLLOW changed"})
	mutant(&Mutant{Name: "reset-forgets-hooks", Props: []string{"C06"}, File: fServer,
		Old: "\ts.hookExpires.Clear()\n\ts.hooks.Clear()\n\ts.hooksOut.Clear()\n\ts.hookTree.Clear()\n\ts.hookCross.Clear()\n}", New: "\ts.hookExpires.Clear()\n\ts.hooksOut.Clear()\n\ts.hookTree.Clear()\n\ts.hookCross.Clear()\n}",
		Expect: "R6.reset-complete", Key: "reset-clears/hooks", Why: "hooks of the previous life survive the resync"})

	// ---- R5 ----------------------------------------------------------------
	mutant(&Mutant{Name: "delhook-forgets-tree", Props: []string{"C05"}, File: fHooks,
		Old:    "\t\trect := hook.Fence.obj.Rect()\n\t\ts.hookTree.Delete(\n\t\t\t[2]float64{rect.Min.X, rect.Min.Y},\n\t\t\t[2]float64{rect.Max.X, rect.Max.Y},\n\t\t\thook)\n\t\tif hook.Fence.detect[\"cross\"] {",
		New:    "\t\trect := hook.Fence.obj.Rect()\n\t\tif hook.Fence.detect[\"cross\"] {",
		Expect: "R5.registry-co-update", Key: "cmdDELHOOKop/delete/hookTree", Why: "a deleted hook stays in the spatial candidate index and keeps firing"})
	mutant(&Mutant{Name: "sethook-forgets-hooksout", Props: []string{"C05"}, File: fHooks,
		Old: "\tif hook.Fence.detect == nil || hook.Fence.detect[\"outside\"] {\n\t\ts.hooksOut.Set(hook)\n\t}\n", New: "",
		Expect: "R5.registry-co-update", Key: "cmdSetHook/insert/hooksOut", Why: "outside detection never gets a candidate for far-away objects"})
	mutant(&Mutant{Name: "sethook-cross-guard-differs", Props: []string{"C05"}, File: fHooks,
		Old: "\t\t\thook)\n\t\tif hook.Fence.detect[\"cross\"] {\n\t\t\ts.hookCross.Insert(", New: "\t\t\thook)\n\t\tif hook.Fence.detect[\"cross\"] || hook.Fence.detect == nil {\n\t\t\ts.hookCross.Insert(",
		Expect: "R5.registry-co-update", Key: "guards-agree/hookCross", Why: "entries inserted under a wider predicate than they are deleted under"})
	mutant(&Mutant{Name: "candidates-skip-cross", Props: []string{"C05"}, File: fAOF,
		Old: "\tif d.old != nil && d.obj != nil && s.hookCross.Len() > 0 {\n\t\tr1, r2 := d.old.Rect(), d.obj.Rect()\n\t\ts.hookCross.Search(", New: "\tif d.old != nil && d.obj != nil && s.hookCross.Len() > 0 {\n\t\tr1, r2 := d.old.Rect(), d.obj.Rect()\n\t\ts.hookTree.Search(",
		Expect: "R5.registry-read", Key: "candidates-consult/hookCross", Why: "cross fences are never candidates"})
	mutant(&Mutant{Name: "detect-unknown-name", Props: []string{"C05"}, File: "internal/server/fence.go",
		Old: "\t\t\t} else if match1 && !match2 {\n\t\t\t\tdetect = \"exit\"", New: "\t\t\t} else if match1 && !match2 {\n\t\t\t\tdetect = \"leave\"",
		Expect: "R5.detect-vocabulary", Key: "produced/leave", Why: "a detect name nobody can select"})
	mutant(&Mutant{Name: "flushdb-forgets-cross", Props: []string{"C05"}, File: fCrud,
		Old: "\ts.hookTree.Clear()\n\ts.hookCross.Clear()\n\n\t// >> Response", New: "\ts.hookTree.Clear()\n\n\t// >> Response",
		Expect: "R5.registry-co-update", Key: "cmdFLUSHDB/clear/hookCross", Why: "FLUSHDB leaves cross fences in their index"})

	// ---- R10 ---------------------------------------------------------------
	mutant(&Mutant{Name: "publish-unlocked-append", Props: []string{"C10"}, File: "internal/server/pubsub.go",
		Old:    "\t\tmsg.target.cond.L.Lock()\n\t\tmsg.target.msgs = append(msg.target.msgs, msg)\n\t\tmsg.target.cond.Broadcast()\n\t\tmsg.target.cond.L.Unlock()",
		New:    "\t\tmsg.target.msgs = append(msg.target.msgs, msg)\n\t\tmsg.target.cond.Broadcast()",
		Expect: "R10.guarded-queues", Key: "subtarget.cond.L", Why: "two publishers append to one subscriber queue concurrently: a message is lost"})
	mutant(&Mutant{Name: "livebuffer-unlocked-append", Props: []string{"C10"}, File: fLive,
		Old:    "\t\t\t\tlb.cond.L.Lock()\n\t\t\t\tif lb.key != \"\" && lb.key == item.key {\n\t\t\t\t\tlb.details = append(lb.details, item)\n\t\t\t\t\tlb.cond.Broadcast()\n\t\t\t\t}\n\t\t\t\tlb.cond.L.Unlock()",
		New:    "\t\t\t\tif lb.key != \"\" && lb.key == item.key {\n\t\t\t\t\tlb.details = append(lb.details, item)\n\t\t\t\t\tlb.cond.Broadcast()\n\t\t\t\t}",
		Expect: "R10.guarded-queues", Key: "liveBuffer.cond.L", Why: "the live fence queue is appended while its consumer pops"})
	mutant(&Mutant{Name: "lstack-unlocked", Props: []string{"C10"}, File: fAOF,
		Old: "\t\ts.lcond.L.Lock()\n\t\tif len(s.lives) > 0 {", New: "\t\tif len(s.lives) > 0 {",
		Edits:  []Edit{{fAOF, "\t\t\ts.lcond.Broadcast()\n\t\t}\n\t\ts.lcond.L.Unlock()\n", "\t\t\ts.lcond.Broadcast()\n\t\t}\n"}},
		Expect: "R10.guarded-queues", Key: "Server.lcond.L", Why: "the live stack is pushed without its lock"})
	mutant(&Mutant{Name: "subscription-write-outside", Props: []string{"C10"}, File: "internal/server/pubsub.go",
		Old: "\t\tcase RESP:\n\t\t\twrite([]byte(\"+OK\\r\\n\"))\n\t\t}\n\t}\n\twritePing", New: "\t\tcase RESP:\n\t\t\twriteLiveMessage(conn, []byte(\"+OK\\r\\n\"), false, connType, websocket)\n\t\t}\n\t}\n\twritePing",
		Expect: "R10.single-writer", Key: "socket-write", Why: "a reply bypasses the connection write lock"})
	mutant(&Mutant{Name: "proc-reinsert-skips-failed", Props: []string{"C10"}, File: fHooks,
		Old: "\t\t\tkeys = keys[i:]\n\t\t\tvals = vals[i:]\n\t\t\tttls = ttls[i:]", New: "\t\t\tkeys = keys[i:]\n\t\t\tvals = vals[i+1:]\n\t\t\tttls = ttls[i:]",
		Expect: "R10.retry-path", Key: "reinsert-slices-agree", Why: "the failed message is re-queued under the key of its successor"})
	mutant(&Mutant{Name: "proc-no-reinsert", Props: []string{"C10"}, File: fHooks,
		Old: "\t\tif !sent {\n\t\t\t// failed to send. try to reinsert the remaining.", New: "\t\tif !sent && len(keys) > 1000 {\n\t\t\treturn false\n\t\t}\n\t\tif !sent {\n\t\t\t// failed to send. try to reinsert the remaining.",
		Expect: "R10.retry-path", Key: "reinsert-before-give-up", Why: "a path gives up without re-queuing"})
	mutant(&Mutant{Name: "endpoint-send-early-return", Props: []string{"C10"}, File: "internal/endpoint/endpoint.go",
		Old: "\tfor {\n\t\tepc.mu.Lock()\n\t\tconn, exists := epc.conns[endpoint]\n\t\tif !exists || conn.Expired() {", New: "\tfor {\n\t\tepc.mu.Lock()\n\t\tif len(msg) == 0 {\n\t\t\treturn nil\n\t\t}\n\t\tconn, exists := epc.conns[endpoint]\n\t\tif !exists || conn.Expired() {",
		Expect: "R10.endpoint-pairing", Key: "Send", Why: "an exit of Send keeps the manager mutex: every later webhook blocks"})
	mutant(&Mutant{Name: "queuehooks-shared-lock", Props: []string{"C10", "C05"}, File: fLive,
		Old: "\t\t\t\ts.mu.Lock()\n\t\t\t\tdefer s.mu.Unlock()\n\t\t\t\tmsgs = FenceMatch", New: "\t\t\t\ts.mu.RLock()\n\t\t\t\tdefer s.mu.RUnlock()\n\t\t\t\tmsgs = FenceMatch",
		Expect: "R5.under-lock", Key: "FenceMatch", Why: "fence evaluation under the shared lock"})

	// ---- R16 ---------------------------------------------------------------
	mutant(&Mutant{Name: "netserve-protocol-memory-per-read", Props: []string{"C16"}, File: fServer,
		Old:    "\t\t\tvar lastConnType Type\n\t\t\tvar lastOutputType Type\n\n",
		New:    "",
		Edits:  []Edit{{fServer, "\t\t\t\tvar close bool\n\t\t\t\tn, err := conn.Read(packet)", "\t\t\t\tvar close bool\n\t\t\t\tvar lastConnType, lastOutputType Type\n\t\t\t\tn, err := conn.Read(packet)"}},
		Expect: "R16.per-read-state", Key: "netServe$conn/lastConnType", Why: "the connection's memory of the peer's protocol is reset by every read: the reply to malformed input depends on where the read boundaries fell"})
	mutant(&Mutant{Name: "netserve-buffer-grown", Props: []string{"C16"}, File: fServer,
		Old:    "\t\t\t\tpr.rd = rdbuf\n",
		New:    "\t\t\t\tpr.rd = rdbuf\n\t\t\t\trdbuf.WriteByte('\\n')\n",
		Expect: "R16.bounds", Key: "netServe$go→packet[len(packet)", Why: "the buffer over the packet is written to: its unread length can exceed len(packet) and the tail expression panics"})
	mutant(&Mutant{Name: "expire-arity-loosened", Props: []string{"C16"}, File: fCrud,
		Old:    "\targs := msg.Args\n\tif len(args) != 4 {\n\t\treturn retwerr(errInvalidNumberOfArguments)\n\t}\n\tkey, id, svalue := args[1], args[2], args[3]",
		New:    "\targs := msg.Args\n\tif len(args) < 3 {\n\t\treturn retwerr(errInvalidNumberOfArguments)\n\t}\n\tkey, id, svalue := args[1], args[2], args[3]",
		Expect: "R16.bounds", Key: "cmdEXPIRE→args[3]", Why: "EXPIRE key id (without seconds) indexes past the arguments"})
	mutant(&Mutant{Name: "jset-no-default", Props: []string{"C16"}, File: fJSON,
		Old: "\tswitch len(msg.Args) {\n\tdefault:\n\t\treturn NOMessage, d, errInvalidNumberOfArguments\n\tcase 5:", New: "\tswitch len(msg.Args) {\n\tcase 5:",
		Expect: "R16.bounds", Key: "cmdJset→msg.Args[", Why: "JSET with too few arguments is not rejected"})
	mutant(&Mutant{Name: "set-field-guard-off-by-one", Props: []string{"C16"}, File: fCrud,
		Old: "\t\tcase \"field\":\n\t\t\tif i+2 >= len(args) {", New: "\t\tcase \"field\":\n\t\t\tif i+2 > len(args) {",
		Expect: "R16.bounds", Key: "cmdSET→args[i + 2]", Why: "SET k id FIELD name (value missing) indexes past the arguments"})
	mutant(&Mutant{Name: "where-empty-token", Props: []string{"C16"}, File: "internal/server/token.go",
		Old: "\tif len(v) == 0 {\n\t\t// an empty min value: WHERE name \"\" max\n\t\treturn false\n\t}\n", New: "",
		Expect: "R16.bounds", Key: "detectExprToken→v[0]", Why: "reverse of the empty WHERE token fix"})
	mutant(&Mutant{Name: "native-lone-quote", Props: []string{"C16"}, File: fServer,
		Old: "\t\tif len(line) > 1 && line[0] == '\"' && line[len(line)-1] == '\"' {", New: "\t\tif line[0] == '\"' && line[len(line)-1] == '\"' {",
		Expect: "R16.bounds", Key: "readNativeMessageLine→line[1:len(line) - 1]", Why: "reverse of the lone double quote fix"})
	mutant(&Mutant{Name: "timeout-rewrite-empty", Props: []string{"C16"}, File: fServer,
		Old: "\tif vs, valStr, ok = tokenval(vs); !ok || valStr == \"\" || len(vs) == 0 {", New: "\tif vs, valStr, ok = tokenval(vs); !ok || valStr == \"\" {",
		Expect: "R16.message-nonempty", Key: "rewriteTimeoutMsg", Why: "TIMEOUT 5 (no command) leaves a message without arguments: Command() indexes Args[0]"})
	mutant(&Mutant{Name: "glob-limits-one-element", Props: []string{"C16"}, File: "internal/glob/glob.go",
		Old: "\tg := &Glob{Pattern: pattern, Desc: desc, Limits: []string{\"\", \"\"}}", New: "\tg := &Glob{Pattern: pattern, Desc: desc, Limits: []string{\"\"}}",
		Expect: "R16.bounds", Key: "field-length-invariant/Glob.Limits", Why: "every g.Limits[1] in the callers is out of range"})
	mutant(&Mutant{Name: "fset-xx-return-nil", Props: []string{"C16", "C17"}, File: fCrud,
		Old: "\tif ret && d.obj != nil {", New: "\tif ret {",
		Expect: "R16.object-contract", Key: "cmdFSET", Why: "reverse of the FSET XX RETURN fix"})
	mutant(&Mutant{Name: "whereeval-leak-on-bad-sha", Props: []string{"C16"}, File: "internal/server/token.go",
		Old: "\t\t\t\t\terr = errShaNotFound\n\t\t\t\t\twhereeval.Close()\n\t\t\t\t\treturn", New: "\t\t\t\t\terr = errShaNotFound\n\t\t\t\t\treturn",
		Expect: "R16.pool-pairing", Key: "parseSearchScanBaseTokens", Why: "reverse of the pool leak fix (unknown sha)"})
	mutant(&Mutant{Name: "whereeval-no-deferred-closer", Props: []string{"C16"}, File: "internal/server/token.go",
		Old: "\tdefer func() {\n\t\tif err != nil {\n\t\t\tfor _, whereeval := range t.whereevals {\n\t\t\t\twhereeval.Close()\n\t\t\t}\n\t\t}\n\t}()\n", New: "",
		Expect: "R16.pool-pairing", Key: "parseSearchScanBaseTokens", Why: "reverse of the pool leak fix (later token errors)"})
	mutant(&Mutant{Name: "gate-without-return", Props: []string{"C16", "C17"}, File: fServer,
		Old:    "\t\twrite = true\n\t\ts.mu.Lock()\n\t\tdefer s.mu.Unlock()\n\t\tif s.config.followHost() != \"\" {\n\t\t\treturn writeErr(\"not the leader\")\n\t\t}\n\t\tif s.config.readOnly() {\n\t\t\treturn writeErr(\"read only\")\n\t\t}",
		New:    "\t\twrite = true\n\t\ts.mu.Lock()\n\t\tdefer s.mu.Unlock()\n\t\tif s.config.followHost() != \"\" {\n\t\t\treturn writeErr(\"not the leader\")\n\t\t}\n\t\tif s.config.readOnly() {\n\t\t\twriteErr(\"read only\")\n\t\t}",
		Expect: "R16.one-reply", Key: "read only", Why: "the read-only gate answers and then executes the command: two replies"})
	mutant(&Mutant{Name: "nonatomic-no-recover", Props: []string{"C16"}, File: fScripts,
		Old:    "\t\t\tdefer func() {\n\t\t\t\tif msg.Deadline.Hit() {\n\t\t\t\t\tv := recover()\n\t\t\t\t\tif v != nil {\n\t\t\t\t\t\tif s, ok := v.(string); !ok || s != \"deadline\" {\n\t\t\t\t\t\t\tpanic(v)\n\t\t\t\t\t\t}\n\t\t\t\t\t}\n\t\t\t\t\tres = NOMessage\n\t\t\t\t\terr = errTimeout\n\t\t\t\t}\n\t\t\t}()\n\t\t}\n\t\treturn s.commandInScript(msg)\n\t}()\n\tif err != nil {\n\t\treturn resp.NullValue(), err\n\t}\n\n\tif write {\n\t\tif err := s.writeAOF(msg.Args, &d); err != nil {\n\t\t\treturn resp.NullValue(), err\n\t\t}\n\t}\n\n\treturn res, nil\n}\n\n// Opens",
		New:    "\t\t}\n\t\treturn s.commandInScript(msg)\n\t}()\n\tif err != nil {\n\t\treturn resp.NullValue(), err\n\t}\n\n\tif write {\n\t\tif err := s.writeAOF(msg.Args, &d); err != nil {\n\t\t\treturn resp.NullValue(), err\n\t\t}\n\t}\n\n\treturn res, nil\n}\n\n// Opens",
		Expect: "R16.deadline-recover", Key: "luaTile38NonAtomic", Why: "a TIMEOUT that fires inside EVALNA kills the process"})

	// ---- R17 ---------------------------------------------------------------
	mutant(&Mutant{Name: "output-elapsed-unquoted", Props: []string{"C17"}, File: "internal/server/output.go",
		Old: "`{\"ok\":true,\"output\":\"json\",\"elapsed\":\"` +\n\t\t\t\ttime.Since(start).String() + `\"}`", New: "`{\"ok\":true,\"output\":\"json\",\"elapsed\":` +\n\t\t\t\ttime.Since(start).String() + `}`",
		Expect: "R17.json-fragments", Key: "cmdOUTPUT", Why: "reverse of the OUTPUT fix: a duration at value position"})
	mutant(&Mutant{Name: "hooks-name-unescaped", Props: []string{"C17"}, File: fHooks,
		Old: "buf.WriteString(`\"name\":` + jsonString(hook.Name))", New: "buf.WriteString(`\"name\":\"` + hook.Name + `\"`)",
		Expect: "R17.json-fragments", Key: "cmdHooks", Why: "a hook named with a double quote breaks the HOOKS reply"})
	mutant(&Mutant{Name: "type-raw-value", Props: []string{"C17"}, File: fCrud,
		Old: "`{\"ok\":true,\"type\":` + jsonString(typ) +", New: "`{\"ok\":true,\"type\":` + typ +",
		Expect: "R17.json-fragments", Key: "cmdTYPE", Why: "a bare word at value position"})
	mutant(&Mutant{Name: "fence-key-unescaped", Props: []string{"C17", "C05", "C10"}, File: "internal/server/fence.go",
		Old: "\tbuf = appendJSONString(append(buf, `,\"key\":`...), key)", New: "\tbuf = append(append(append(buf, `,\"key\":\"`...), key...), '\"')",
		Expect: "R17.json-fragments", Key: "makemsg", Why: "a collection key with a quote breaks every fence notification for it"})
	mutant(&Mutant{Name: "writeerr-raw-message", Props: []string{"C17"}, File: fServer,
		Old: "return writeOutput(`{\"ok\":false,\"err\":` + jsonString(errMsg) + `,\"elapsed\":\"`", New: "return writeOutput(`{\"ok\":false,\"err\":\"` + errMsg + `\",\"elapsed\":\"`",
		Expect: "R17.json-fragments", Key: "handleInputCommand", Why: "error texts echo client arguments: invalid argument '\"' breaks the error reply"})
	mutant(&Mutant{Name: "scriptflush-no-resp-arm", Props: []string{"C17"}, File: fScripts,
		Old: "\tcase RESP:\n\t\treturn resp.StringValue(\"OK\"), nil\n\t}\n\treturn resp.SimpleStringValue(\"\"), nil\n}\n\nfunc (s *Server) commandInScript", New: "\tcase Telnet:\n\t\treturn resp.StringValue(\"OK\"), nil\n\t}\n\treturn resp.SimpleStringValue(\"\"), nil\n}\n\nfunc (s *Server) commandInScript",
		Expect: "R17.both-modes", Key: "cmdScriptFlush", Why: "RESP clients get an empty reply to SCRIPT FLUSH"})

	mutant(&Mutant{Name: "eval-put-before-removecontext", Props: []string{"C16"}, File: fScripts,
		Old: "\t// registered first so that it runs last: everything deferred below still\n\t// uses the state and must be done before it goes back to the pool.\n\tdefer s.luapool.Put(luaState)\n", New: "",
		Edits:  []Edit{{fScripts, "\t\tluaDeadline = lua.LNumber(float64(dlTime.UnixNano()) / 1e9)\n\t}\n", "\t\tluaDeadline = lua.LNumber(float64(dlTime.UnixNano()) / 1e9)\n\t}\n\tdefer s.luapool.Put(luaState)\n"}},
		Expect: "R16.pool-pairing", Key: "put-runs-last", Why: "reverse of the defer-order fix"})

	// ---- neutral variants --------------------------------------------------
	mutant(&Mutant{Name: "neutral-rename-write-flag", Props: []string{"C03", "C07", "C15", "C18"}, Neutral: true, File: fScripts,
		Edits: []Edit{{fScripts, `re:\bwrite\b`, "mutating"}},
		Why:   "the write flag of the three script class functions renamed: the flag is recognised by its role (the boolean local the arms set), not by its name"})
	mutant(&Mutant{Name: "neutral-prewrite-helper", Props: []string{"C07", "C08"}, Neutral: true, File: fServer,
		Old:   "\t\t\t\t\tif s.aofdirty.Load() {\n\t\t\t\t\t\tfunc() {\n\t\t\t\t\t\t\t// prewrite\n\t\t\t\t\t\t\ts.mu.Lock()\n\t\t\t\t\t\t\tdefer s.mu.Unlock()\n\t\t\t\t\t\t\ts.flushAOF(false)\n\t\t\t\t\t\t\ts.aofdirty.Store(false)\n\t\t\t\t\t\t}()\n\t\t\t\t\t}",
		New:   "\t\t\t\t\ts.prewriteNeutral()",
		Edits: []Edit{{fServer, "func isReservedFieldName(field string) bool {", "func (s *Server) prewriteNeutral() {\n\tif !s.aofdirty.Load() {\n\t\treturn\n\t}\n\ts.mu.Lock()\n\tdefer s.mu.Unlock()\n\ts.flushAOF(false)\n\ts.aofdirty.Store(false)\n}\n\nfunc isReservedFieldName(field string) bool {"}},
		Why:   "the prewrite block extracted into a helper"})
	mutant(&Mutant{Name: "neutral-gate-operand-order", Props: []string{"C15"}, Neutral: true, File: fServer,
		Old: "\t\twrite = true\n\t\ts.mu.Lock()\n\t\tdefer s.mu.Unlock()\n\t\tif s.config.followHost() != \"\" {", New: "\t\twrite = true\n\t\ts.mu.Lock()\n\t\tdefer s.mu.Unlock()\n\t\tif \"\" != s.config.followHost() {",
		Why: "comparison operands swapped"})
	mutant(&Mutant{Name: "neutral-handler-rename", Props: []string{"C03", "C07", "C15"}, Neutral: true, File: fServer,
		Old: "\t\tres, err = s.cmdTTL(msg)\n\tcase \"shutdown\":", New: "\t\tres, err = s.cmdTTLrenamed(msg)\n\tcase \"shutdown\":",
		Edits: []Edit{{fCrud, "func (s *Server) cmdTTL(msg *Message) (resp.Value, error) {", "func (s *Server) cmdTTL(msg *Message) (resp.Value, error) { return s.cmdTTLrenamed(msg) }\n\nfunc (s *Server) cmdTTLrenamed(msg *Message) (resp.Value, error) {"}},
		Why:   "a handler renamed together with its dispatch entry (old name kept as a wrapper for the script table)"})
}

func init() {
	// ---- R1 (C01) ----------------------------------------------------------
	mutant(&Mutant{Name: "set-nx-after-store", Props: []string{"C01"}, File: fCrud,
		Old:    "\told := col.Set(obj)\n\n\t// >> Response\n\n\tvar d commandDetails\n\td.command = \"set\"",
		New:    "\told := col.Set(obj)\n\tif nx && old != nil {\n\t\treturn nada()\n\t}\n\n\t// >> Response\n\n\tvar d commandDetails\n\td.command = \"set\"",
		Expect: "R1.err-before-effect", Key: "cmdSET→col.Set", Why: "SET NX stores first and answers nil afterwards"})
	mutant(&Mutant{Name: "set-create-before-xx", Props: []string{"C01"}, File: fCrud,
		Old:    "\t\tif xx {\n\t\t\treturn nada()\n\t\t}\n\t\tcol = collection.New()\n\t\ts.cols.Set(key, col)\n\t}",
		New:    "\t\tcol = collection.New()\n\t\ts.cols.Set(key, col)\n\t\tif xx {\n\t\t\treturn nada()\n\t\t}\n\t}",
		Expect: "R1.empty-collection", Key: "cmdSET→s.cols.Set/filled", Why: "SET XX on a missing key leaves an empty collection behind"})
	mutant(&Mutant{Name: "set-create-before-xx/err", Props: []string{"C01"}, File: fCrud,
		Old:    "\t\tif xx {\n\t\t\treturn nada()\n\t\t}\n\t\tcol = collection.New()\n\t\ts.cols.Set(key, col)\n\t}",
		New:    "\t\tcol = collection.New()\n\t\ts.cols.Set(key, col)\n\t\tif xx {\n\t\t\treturn nada()\n\t\t}\n\t}",
		Expect: "R1.err-before-effect", Key: "cmdSET→s.cols.Set", Why: "negative reply after the keyspace changed"})
	mutant(&Mutant{Name: "del-no-cleanup", Props: []string{"C01", "C19"}, File: fCrud,
		Old:    "\t\tif old != nil {\n\t\t\tif col.Count() == 0 {\n\t\t\t\ts.cols.Delete(key)\n\t\t\t}\n\t\t\tupdated = true",
		New:    "\t\tif old != nil {\n\t\t\tupdated = true",
		Expect: "R1.empty-collection", Key: "cmdDEL→col.Delete/cleanup", Why: "last DEL leaves an empty collection in the keyspace"})
	mutant(&Mutant{Name: "pdel-no-cleanup", Props: []string{"C01", "C19"}, File: fCrud,
		Old:    "\t\t\ts.groupDisconnectObject(key, id)\n\t\t}\n\t\tif col.Count() == 0 {\n\t\t\ts.cols.Delete(key)\n\t\t}\n\t}",
		New:    "\t\t\ts.groupDisconnectObject(key, id)\n\t\t}\n\t}",
		Expect: "R1.empty-collection", Key: "cmdPDEL→col.Delete/cleanup", Why: "PDEL * leaves an empty collection"})
	mutant(&Mutant{Name: "del-cleanup-wrong-count", Props: []string{"C01"}, File: fCrud,
		Old:    "\t\tif old != nil {\n\t\t\tif col.Count() == 0 {\n\t\t\t\ts.cols.Delete(key)",
		New:    "\t\tif old != nil {\n\t\t\tif col.PointCount() == 0 {\n\t\t\t\ts.cols.Delete(key)",
		Expect: "R1.empty-collection", Key: "cmdDEL→col.Delete/cleanup", Why: "cleanup keyed on the wrong counter drops collections that still hold strings"})
	mutant(&Mutant{Name: "rename-delete-before-hook-check", Props: []string{"C01"}, File: fCrud,
		Old:    "\tvar hasHook, hasChannel bool\n\ts.hooks.Ascend(nil, func(v interface{}) bool {\n\t\th := v.(*Hook)\n\t\tif h.Key == key || h.Key == newKey {",
		New:    "\tif !nx {\n\t\ts.cols.Delete(newKey)\n\t}\n\tvar hasHook, hasChannel bool\n\ts.hooks.Ascend(nil, func(v interface{}) bool {\n\t\th := v.(*Hook)\n\t\tif h.Key == key || h.Key == newKey {",
		Expect: "R1.err-before-effect", Key: "cmdRENAME→s.cols.Delete", Why: "RENAME drops the destination and then refuses because of hooks"})
	mutant(&Mutant{Name: "del-erron404-after-delete", Props: []string{"C01"}, File: fCrud,
		Old:    "\t\t\tupdated = true\n\t\t} else if erron404 {\n\t\t\treturn retwerr(errIDNotFound)\n\t\t}",
		New:    "\t\t\tupdated = true\n\t\t}\n\t\tif erron404 && old.Expires() != 0 {\n\t\t\treturn retwerr(errIDNotFound)\n\t\t}",
		Expect: "R1.err-before-effect", Key: "cmdDEL→col.Delete", Why: "error after an effective delete"})
	mutant(&Mutant{Name: "neutral-del-cleanup-after-flag", Props: []string{"C01", "C19", "C03"}, File: fCrud, Neutral: true,
		Old: "\t\tif old != nil {\n\t\t\tif col.Count() == 0 {\n\t\t\t\ts.cols.Delete(key)\n\t\t\t}\n\t\t\tupdated = true",
		New: "\t\tif old != nil {\n\t\t\tupdated = true\n\t\t\tif col.Count() == 0 {\n\t\t\t\ts.cols.Delete(key)\n\t\t\t}",
		Why: "order of flag and cleanup is irrelevant"})
	mutant(&Mutant{Name: "neutral-set-xx-split", Props: []string{"C01"}, File: fCrud, Neutral: true,
		Old: "\tif xx || nx {\n\t\tif col.Get(id) == nil {\n\t\t\tif xx {\n\t\t\t\treturn nada()\n\t\t\t}\n\t\t} else {\n\t\t\tif nx {\n\t\t\t\treturn nada()\n\t\t\t}\n\t\t}\n\t}",
		New: "\tif xx && col.Get(id) == nil {\n\t\treturn nada()\n\t}\n\tif nx && col.Get(id) != nil {\n\t\treturn nada()\n\t}",
		Why: "same NX/XX decision written as two guards"})
}

func init() {
	// ---- rules added after the second batch of seeded changes ---------------
	mutant(&Mutant{Name: "within-disjunctive-fastpath", Props: []string{"C02"}, File: fColl,
		Old: "\t\tif o.Geo().Within(obj) {", New: "\t\tif o.Rect().Min == o.Rect().Max || o.Geo().Within(obj) {",
		Expect: "R2.exact-filter", Key: "Within/branch2", Why: "the exact predicate is only one disjunct of the guard"})
	mutant(&Mutant{Name: "liveaof-two-sections", Props: []string{"C06", "C09"}, File: fAOF,
		Old:    "\ts.mu.Lock()\n\tf, err := os.Open(s.aof.Name())\n\tif err == nil {\n\t\ts.aofconnM[conn] = f\n\t}\n\ts.mu.Unlock()\n\tif err != nil {\n\t\treturn err\n\t}\n",
		New:    "\ts.mu.RLock()\n\tf, err := os.Open(s.aof.Name())\n\ts.mu.RUnlock()\n\tif err != nil {\n\t\treturn err\n\t}\n\ts.mu.Lock()\n\ts.aofconnM[conn] = f\n\ts.mu.Unlock()\n",
		Expect: "R6.stream-registered", Key: "liveAOF→open-live-log/same-section", Why: "reverse of fix 8231116"})
	mutant(&Mutant{Name: "liveaof-register-after-seek", Props: []string{"C06", "C09"}, File: fAOF,
		Old:    "\tif err == nil {\n\t\ts.aofconnM[conn] = f\n\t}\n\ts.mu.Unlock()\n\tif err != nil {\n\t\treturn err\n\t}\n",
		New:    "\ts.mu.Unlock()\n\tif err != nil {\n\t\treturn err\n\t}\n\tif _, err := f.Seek(pos, 0); err != nil {\n\t\treturn err\n\t}\n\ts.mu.Lock()\n\ts.aofconnM[conn] = f\n\ts.mu.Unlock()\n",
		Expect: "R6.stream-registered", Key: "liveAOF→open-live-log/registered-before-read", Why: "handle used before it is registered"})
	mutant(&Mutant{Name: "liveaof-register-shared", Props: []string{"C06", "C07"}, File: fAOF,
		Old:    "\ts.mu.Lock()\n\tf, err := os.Open(s.aof.Name())\n\tif err == nil {\n\t\ts.aofconnM[conn] = f\n\t}\n\ts.mu.Unlock()\n",
		New:    "\ts.mu.RLock()\n\tf, err := os.Open(s.aof.Name())\n\tif err == nil {\n\t\ts.aofconnM[conn] = f\n\t}\n\ts.mu.RUnlock()\n",
		Expect: "R6.stream-registered", Key: "liveAOF→open-live-log/registered-exclusively", Why: "map store under the shared lock"})
	mutant(&Mutant{Name: "shrink-no-kick", Props: []string{"C06", "C09"}, File: fShrink,
		Old:    "\t\t\tfor conn, f := range s.aofconnM {\n\t\t\t\tconn.Close()\n\t\t\t\tf.Close()\n\t\t\t}\n",
		New:    "",
		Expect: "R6.stream-registered", Key: "shrink-kicks-followers", Why: "followers keep the replaced log open"})
	mutant(&Mutant{Name: "shrink-kick-conn-only", Props: []string{"C06", "C09"}, File: fShrink,
		Old:    "\t\t\tfor conn, f := range s.aofconnM {\n\t\t\t\tconn.Close()\n\t\t\t\tf.Close()\n\t\t\t}\n",
		New:    "\t\t\tfor conn := range s.aofconnM {\n\t\t\t\tconn.Close()\n\t\t\t}\n",
		Expect: "R6.stream-registered", Key: "shrink-kicks-followers", Why: "the files stay open (Windows rename fails; reader may keep streaming)"})
	mutant(&Mutant{Name: "shutdown-unlocked-connM", Props: []string{"C07"}, File: fServer,
		Old:    "\t\ts.mu.RLock()\n\t\tfor conn, f := range s.aofconnM {\n\t\t\tconn.Close()\n\t\t\tf.Close()\n\t\t}\n\t\ts.mu.RUnlock()\n",
		New:    "\t\tfor conn, f := range s.aofconnM {\n\t\t\tconn.Close()\n\t\t\tf.Close()\n\t\t}\n",
		Expect: "R7.lock-read", Key: "Serve$4→Server.aofconnM", Why: "reverse of fix 7ebfd76"})
	mutant(&Mutant{Name: "proc-bounded-scan", Props: []string{"C10"}, File: fHooks,
		Old:    "\t\t\t\t\t}\n\t\t\t\t}\n\t\t\t\treturn true\n\t\t\t},\n\t\t)",
		New:    "\t\t\t\t\t}\n\t\t\t\t}\n\t\t\t\treturn len(keys) < 256\n\t\t\t},\n\t\t)",
		Expect: "R10.drain-complete", Key: "scan1-exhaustive", Why: "the seeded change C10"})
	mutant(&Mutant{Name: "proc-send-loop-tail", Props: []string{"C10"}, File: fHooks,
		Old:    "\tfor i, key := range keys {\n\t\tval := vals[i]\n\t\tidx := stringToUint64(key[len(hookLogPrefix):])",
		New:    "\tfor i, key := range keys[:len(keys)/2+1] {\n\t\tval := vals[i]\n\t\tidx := stringToUint64(key[len(hookLogPrefix):])",
		Expect: "R10.drain-complete", Key: "send-loop-whole-slice", Why: "entries deleted from the queue and never sent"})
	mutant(&Mutant{Name: "proc-send-loop-break", Props: []string{"C10"}, File: fHooks,
		Old:    "\t\tidx := stringToUint64(key[len(hookLogPrefix):])\n\t\tvar sent bool",
		New:    "\t\tidx := stringToUint64(key[len(hookLogPrefix):])\n\t\tif time.Since(start) > time.Second {\n\t\t\tbreak\n\t\t}\n\t\tvar sent bool",
		Expect: "R10.drain-complete", Key: "send-loop-no-break", Why: "time-boxed pass drops the rest of the batch"})
	mutant(&Mutant{Name: "manager-wait-ignores-signal", Props: []string{"C10"}, File: fHooks,
		Old:    "\t\tif sig != h.sig {\n\t\t\t// there was another incoming signal\n\t\t\tcontinue\n\t\t}\n",
		New:    "\t\t_ = sig\n",
		Expect: "R10.drain-complete", Key: "manager-wait-no-missed-signal", Why: "a signal during proc() is lost"})
	mutant(&Mutant{Name: "neutral-proc-bounded-with-flag", Props: []string{"C10"}, File: fHooks, Neutral: true,
		Old: "\t\t\t\t\t}\n\t\t\t\t}\n\t\t\t\treturn true\n\t\t\t},\n\t\t)",
		New: "\t\t\t\t\t}\n\t\t\t\t}\n\t\t\t\tif len(keys) >= 1<<20 {\n\t\t\t\t\tmore = true\n\t\t\t\t\treturn false\n\t\t\t\t}\n\t\t\t\treturn true\n\t\t\t},\n\t\t)",
		Edits: []Edit{
			{fHooks, "\tvar ttls []time.Duration\n\tstart := time.Now()\n\terr := h.db.Update(", "\tvar ttls []time.Duration\n\tvar more bool\n\tstart := time.Now()\n\terr := h.db.Update("},
			{fHooks, "\t\t\t\treturn nil\n\t\t\t})\n\t\t\treturn false\n\t\t}\n\t}\n\treturn true\n}", "\t\t\t\treturn nil\n\t\t\t})\n\t\t\treturn false\n\t\t}\n\t}\n\tif more {\n\t\treturn false\n\t}\n\treturn true\n}"},
		},
		Why: "a bounded batch that reports 'not drained' when it stopped early"})
}

func init() {
	// ---- R4.size-accounting on the affine-equality analysis -------------------
	tailEdits := func(nulFix, init string) []Edit {
		return []Edit{
			{fAOF, "\tvar packet [0xFFFF]byte\n\tfor {\n\t\tn, err := s.aof.Read(packet[:])", "\tvar packet [0xFFFF]byte\n\t" + init + "\n\tfor {\n\t\tn, err := s.aof.Read(packet[:])"},
			{fAOF, "\t\t\t\ts.aofsz -= len(buf)\n", "\t\t\t\ts.aofsz = tail\n"},
			{fAOF, "\t\t\t\tdata = data[1:]\n\t\t\t\tcontinue\n", "\t\t\t\tdata = data[1:]\n" + nulFix + "\t\t\t\tcontinue\n"},
			{fAOF, "\t\t\tcomplete, args, _, data, err = redcon.ReadNextCommand(data, args[:0])\n\t\t\tif err != nil {\n\t\t\t\treturn err\n\t\t\t}\n\t\t\tif !complete {\n\t\t\t\tbreak\n\t\t\t}\n",
				"\t\t\tsize := len(data)\n\t\t\tcomplete, args, _, data, err = redcon.ReadNextCommand(data, args[:0])\n\t\t\tif err != nil {\n\t\t\t\treturn err\n\t\t\t}\n\t\t\tif !complete {\n\t\t\t\tbreak\n\t\t\t}\n\t\t\ttail += size - len(data)\n"},
		}
	}
	mutant(&Mutant{Name: "loadaof-tail-ignores-nuls", Props: []string{"C04"}, File: fAOF, Edits: tailEdits("", "tail := s.aofsz"),
		Expect: "R4.size-accounting", Key: "file-size-at-return", Why: "the seeded change C04: a running tail offset that the NUL-skip branch does not advance"})
	mutant(&Mutant{Name: "neutral-loadaof-tail-offset", Props: []string{"C04"}, File: fAOF, Neutral: true, Edits: tailEdits("\t\t\t\ttail++\n", "tail := s.aofsz"),
		Why: "the same refactoring done right: every consumed byte advances the tail offset"})
	mutant(&Mutant{Name: "loadaof-count-after-parse-skip", Props: []string{"C04"}, File: fAOF,
		Old: "\t\ts.aofsz += n\n\t\tdata := packet[:n]", New: "\t\tif n == len(packet) {\n\t\t\ts.aofsz += n\n\t\t}\n\t\tdata := packet[:n]",
		Expect: "R4.size-accounting", Key: "aofsz-at-return", Why: "short reads are not counted"})
	mutant(&Mutant{Name: "loadaof-truncate-keeps-one", Props: []string{"C04"}, File: fAOF,
		Old: "\t\t\t\ts.aofsz -= len(buf)\n", New: "\t\t\t\ts.aofsz -= len(buf) - 1\n",
		Expect: "R4.size-accounting", Key: "file-size-at-return", Why: "off by one at the cut"})
	mutant(&Mutant{Name: "loadaof-seek-old-size", Props: []string{"C04"}, File: fAOF,
		Old: "\t\t\t\tif _, err := s.aof.Seek(int64(s.aofsz), 0); err != nil {", New: "\t\t\t\tif _, err := s.aof.Seek(int64(s.aofsz+len(buf)), 0); err != nil {",
		Expect: "R4.size-accounting", Key: "write-offset-at-return", Why: "write offset left beyond the cut"})
	mutant(&Mutant{Name: "neutral-loadaof-cut-variable", Props: []string{"C04"}, File: fAOF, Neutral: true,
		Old: "\t\t\t\ts.aofsz -= len(buf)\n\t\t\t\tif err := s.aof.Truncate(int64(s.aofsz)); err != nil {\n\t\t\t\t\treturn err\n\t\t\t\t}\n\t\t\t\tif _, err := s.aof.Seek(int64(s.aofsz), 0); err != nil {",
		New: "\t\t\t\tcut := int64(s.aofsz - len(buf))\n\t\t\t\tif err := s.aof.Truncate(cut); err != nil {\n\t\t\t\t\treturn err\n\t\t\t\t}\n\t\t\t\ts.aofsz = int(cut)\n\t\t\t\tif _, err := s.aof.Seek(cut, 0); err != nil {",
		Why: "the cut offset held in a local"})
}

func init() {
	// ---- rules added after the third batch of seeded changes -----------------
	fScanner := "internal/server/scanner.go"
	fFence := "internal/server/fence.go"
	fGlob := "internal/glob/glob.go"
	mutant(&Mutant{Name: "scan-skip-steps-cursor", Props: []string{"C11"}, File: fColl,
		Old:    "\titer := func(_ string, obj *object.Object) bool {\n\t\tcount++\n\t\tif count <= offset {\n\t\t\treturn true\n\t\t}",
		New:    "\titer := func(_ string, obj *object.Object) bool {\n\t\tcount++\n\t\tif count <= offset {\n\t\t\tif count&(yieldStep-1) == (yieldStep - 1) {\n\t\t\t\tnextStep(count, cursor, deadline)\n\t\t\t}\n\t\t\treturn true\n\t\t}",
		Expect: "R11.cursor-protocol", Key: "Scan/callback1", Why: "the seeded change C11: a skipped item steps the cursor"})
	mutant(&Mutant{Name: "scan-double-step", Props: []string{"C11"}, File: fColl,
		Old:    "\titer := func(_ string, obj *object.Object) bool {\n\t\tcount++\n\t\tif count <= offset {\n\t\t\treturn true\n\t\t}\n\t\tnextStep(count, cursor, deadline)",
		New:    "\titer := func(_ string, obj *object.Object) bool {\n\t\tcount++\n\t\tif count <= offset {\n\t\t\treturn true\n\t\t}\n\t\tnextStep(count, cursor, deadline)\n\t\tif cursor != nil && obj.Expires() != 0 {\n\t\t\tcursor.Step(1)\n\t\t}",
		Expect: "R11.cursor-protocol", Key: "Scan/callback1", Why: "an item can step twice"})
	mutant(&Mutant{Name: "globmatch-literal-stops", Props: []string{"C12"}, File: fScanner,
		Old:    "\t\tok, _ := glob.Match(pattern, val)\n\t\tif ok {\n\t\t\treturn true, true\n\t\t}",
		New:    "\t\tok, _ := glob.Match(pattern, val)\n\t\tif ok {\n\t\t\treturn true, len(sw.globs) > 1 || glob.IsGlob(pattern)\n\t\t}",
		Edits:  []Edit{{fScanner, "\treturn ok, true, nil\n}", "\treturn ok, kg, nil\n}"}},
		Expect: "R12.filters-never-stop", Key: "globMatch/keep-going", Why: "the seeded change C12"})
	mutant(&Mutant{Name: "testobject-mismatch-stops", Props: []string{"C12"}, File: fScanner,
		Old:    "\tif !match {\n\t\treturn false, kg, nil\n\t}",
		New:    "\tif !match {\n\t\treturn false, kg && !sw.matchValues, nil\n\t}",
		Expect: "R12.filters-never-stop", Key: "testObject/keep-going", Why: "a value mismatch ends a SEARCH"})
	mutant(&Mutant{Name: "pushobject-stops-on-filter", Props: []string{"C12"}, File: fScanner,
		Old:    "\t\tif !ok {\n\t\t\treturn keepGoing, nil\n\t\t}",
		New:    "\t\tif !ok {\n\t\t\treturn sw.numberItems == 0, nil\n\t\t}",
		Expect: "R12.filters-never-stop", Key: "pushObject/stop-reasons", Why: "after the first hit a filtered object ends the scan"})
	mutant(&Mutant{Name: "glob-succ-unguarded", Props: []string{"C12"}, File: fGlob,
		Old:    "\t\ta = pattern[:n]\n\t\tif a[n-1] == 0xFF {\n\t\t\tb = string(append([]byte(a), 0x00))\n\t\t} else {\n\t\t\tb = string(append([]byte(a[:n-1]), a[n-1]+1))\n\t\t}",
		New:    "\t\ta = pattern[:n]\n\t\tb = string(append([]byte(a[:n-1]), a[n-1]+1))",
		Expect: "R12.far-limit-covers-prefix", Key: "Parse/asc/successor-unguarded", Why: "0xFF+1 wraps: the limit falls below the prefix"})
	mutant(&Mutant{Name: "glob-asc-append-ff", Props: []string{"C12"}, File: fGlob,
		Old:    "\t\t\tb = string(append([]byte(a[:n-1]), a[n-1]+1))\n\t\t}\n\t}\n\tg.Limits",
		New:    "\t\t\tb = string(append([]byte(a), 0x7F))\n\t\t}\n\t}\n\tg.Limits",
		Expect: "R12.far-limit-covers-prefix", Key: "Parse/asc/append-127", Why: "a new append-form bound (not the listed known finding) is still reported"})
	mutant(&Mutant{Name: "readmessages-carry-skip-copy", Props: []string{"C16"}, File: fServer,
		Old:    "\tif len(data) > 0 {\n\t\trd.buf = append(rd.buf[:0], data...)\n\t} else if len(rd.buf) > 0 {",
		New:    "\tif len(data) > 0 {\n\t\tif len(data) != len(rd.buf) {\n\t\t\trd.buf = append(rd.buf[:0], data...)\n\t\t}\n\t} else if len(rd.buf) > 0 {",
		Expect: "R16.carry-content", Key: "ReadMessages/rd.buf", Why: "the seeded change C16"})
	mutant(&Mutant{Name: "readmessages-carry-not-cleared", Props: []string{"C16"}, File: fServer,
		Old:    "\tif len(data) > 0 {\n\t\trd.buf = append(rd.buf[:0], data...)\n\t} else if len(rd.buf) > 0 {\n\t\trd.buf = rd.buf[:0]\n\t}\n\treturn msgs, err",
		New:    "\tif len(data) > 0 {\n\t\trd.buf = append(rd.buf[:0], data...)\n\t}\n\treturn msgs, err",
		Expect: "R16.carry-content", Key: "ReadMessages/rd.buf", Why: "a completed command's head is prepended to the next packet"})
	mutant(&Mutant{Name: "loadaof-carry-not-cleared", Props: []string{"C04", "C16"}, File: fAOF,
		Old:    "\t\t} else if len(buf) > 0 {\n\t\t\tbuf = buf[:0]\n\t\t}\n\t}\n}",
		New:    "\t\t}\n\t}\n}",
		Expect: "R16.carry-content", Key: "loadAOF/buf", Why: "stale carry is prepended to the next chunk during start-up"})
	mutant(&Mutant{Name: "neutral-readmessages-carry-always-copy", Props: []string{"C16"}, File: fServer, Neutral: true,
		Old: "\tif len(data) > 0 {\n\t\trd.buf = append(rd.buf[:0], data...)\n\t} else if len(rd.buf) > 0 {\n\t\trd.buf = rd.buf[:0]\n\t}\n\treturn msgs, err",
		New: "\trd.buf = append(rd.buf[:0], data...)\n\treturn msgs, err",
		Why: "copying an empty remainder empties the carry as well"})
	mutant(&Mutant{Name: "jsonstring-go-quote", Props: []string{"C17"}, File: fJSON,
		Old:    "\t\t\td, _ := json.Marshal(s)\n\t\t\treturn string(d)\n",
		New:    "\t\t\t_, _ = json.Marshal(s)\n\t\t\treturn strconv.Quote(s)\n",
		Expect: "R17.string-encoder", Key: "jsonString/slow-path-json-encoder", Why: "the seeded change C17 (Go quoting is not JSON)"})
	mutant(&Mutant{Name: "jsonstring-del-and-high-bytes-fast", Props: []string{"C17"}, File: fJSON,
		Old:    "func jsonString(s string) string {\n\tfor i := 0; i < len(s); i++ {\n\t\tif s[i] < ' ' || s[i] == '\\\\' || s[i] == '\"' || s[i] > 126 {",
		New:    "func jsonString(s string) string {\n\tfor i := 0; i < len(s); i++ {\n\t\tif s[i] < ' ' || s[i] == '\\\\' || s[i] == '\"' {",
		Expect: "R17.string-encoder", Key: "jsonString/byte-test", Why: "invalid UTF-8 is copied into the reply"})
	mutant(&Mutant{Name: "appendjsonstring-skips-first-byte", Props: []string{"C17"}, File: fJSON,
		Old:    "func appendJSONString(b []byte, s string) []byte {\n\tfor i := 0; i < len(s); i++ {",
		New:    "func appendJSONString(b []byte, s string) []byte {\n\tfor i := 1; i < len(s); i++ {",
		Expect: "R17.string-encoder", Key: "appendJSONString/scans-every-byte", Why: "a leading quote is emitted raw"})
	mutant(&Mutant{Name: "writeerr-resp-line-by-hand", Props: []string{"C17", "C16"}, File: fServer,
		Old:    "\t\t\tv, _ := resp.ErrorValue(errors.New(errMsg)).MarshalRESP()\n\t\t\treturn writeOutput(string(v))",
		New:    "\t\t\t_ = errors.New\n\t\t\treturn writeOutput(\"-\" + errMsg + \"\\r\\n\")",
		Expect: "R17.resp-lines", Key: "handleInputCommand→errMsg", Why: "the error text, which echoes client arguments, is written as a RESP error line without blanking control characters: an argument with CR LF ends the reply early"})
	mutant(&Mutant{Name: "monitor-raw-arguments", Props: []string{"C17"}, File: "internal/server/monitor.go",
		Old:    "\t\tline = append(line, strconv.Quote(arg)...)",
		New:    "\t\tline = append(line, arg...)\n\t\t_ = strconv.Quote",
		Expect: "R17.resp-lines", Key: "sendMonitor→line", Why: "MONITOR lines carry the raw arguments: a CR LF in an argument splits the line"})
	mutant(&Mutant{Name: "neutral-jsonstring-stricter-test", Props: []string{"C17"}, File: fJSON, Neutral: true,
		Old: "func jsonString(s string) string {\n\tfor i := 0; i < len(s); i++ {\n\t\tif s[i] < ' ' || s[i] == '\\\\' || s[i] == '\"' || s[i] > 126 {",
		New: "func jsonString(s string) string {\n\tfor i := 0; i < len(s); i++ {\n\t\tif s[i] < 0x20 || s[i] == '\\\\' || s[i] == '\"' || s[i] >= 0x7f || s[i] == '<' {",
		Why: "a stricter fast-path test"})
	mutant(&Mutant{Name: "roam-remove-no-revisit", Props: []string{"C20"}, File: fFence,
		Old:    "\t\t\toldNearbys[i] = oldNearbys[len(oldNearbys)-1]\n\t\t\toldNearbys = oldNearbys[:len(oldNearbys)-1]\n\t\t\ti--\n",
		New:    "\t\t\toldNearbys = append(oldNearbys[:i], oldNearbys[i+1:]...)\n",
		Expect: "R20.remove-revisits-slot", Key: "fenceMatchRoam→oldNearbys[i]", Why: "the seeded change C20"})
	mutant(&Mutant{Name: "roam-swap-remove-no-revisit", Props: []string{"C20"}, File: fFence,
		Old:    "\t\t\toldNearbys = oldNearbys[:len(oldNearbys)-1]\n\t\t\ti--\n",
		New:    "\t\t\toldNearbys = oldNearbys[:len(oldNearbys)-1]\n",
		Expect: "R20.remove-revisits-slot", Key: "fenceMatchRoam→oldNearbys[i]", Why: "swap-remove without re-examining slot i"})
	mutant(&Mutant{Name: "neutral-roam-ordered-remove", Props: []string{"C20"}, File: fFence, Neutral: true,
		Old: "\t\t\toldNearbys[i] = oldNearbys[len(oldNearbys)-1]\n\t\t\toldNearbys = oldNearbys[:len(oldNearbys)-1]\n\t\t\ti--\n",
		New: "\t\t\toldNearbys = append(oldNearbys[:i], oldNearbys[i+1:]...)\n\t\t\ti--\n",
		Why: "order-preserving removal that re-examines slot i"})
}

func init() {
	// ---- R13 (C13) ----------------------------------------------------------
	fSearch := "internal/server/search.go"
	fGeod := "internal/collection/geodesic.go"
	mutant(&Mutant{Name: "nearby-centre-transposed", Props: []string{"C13"}, File: fColl,
		Old: "distFn := geodeticDistAlgo([2]float64{center.X, center.Y})", New: "distFn := geodeticDistAlgo([2]float64{center.Y, center.X})",
		Expect: "R13.traversal-distance", Key: "algo-of-centre", Why: "results ordered by the distance to the mirrored point"})
	mutant(&Mutant{Name: "nearby-iter-recomputes-distance", Props: []string{"C13"}, File: fColl,
		Old: "\t\t\tnextStep(count, cursor, deadline)\n\t\t\talive = iter(o, dist)\n", New: "\t\t\tnextStep(count, cursor, deadline)\n\t\t\talive = iter(o, o.Geo().Distance(target))\n",
		Expect: "R13.traversal-distance", Key: "iterator-gets-traversal-distance", Why: "reported distance and cut-off use another distance than the ordering"})
	mutant(&Mutant{Name: "nearby-min-max-swapped", Props: []string{"C13"}, File: fColl,
		Old:    "\t\t\t\t[2]float64{float64(min[0]), float64(min[1])},\n\t\t\t\t[2]float64{float64(max[0]), float64(max[1])},",
		New:    "\t\t\t\t[2]float64{float64(min[1]), float64(min[0])},\n\t\t\t\t[2]float64{float64(max[0]), float64(max[1])},",
		Expect: "R13.traversal-distance", Key: "distance-callback-forwards", Why: "node boxes transposed for the lower bound"})
	mutant(&Mutant{Name: "geodesic-item-keeps-index-box", Props: []string{"C13"}, File: fGeod,
		Old:    "\t\tif item {\n\t\t\tr := obj.Rect()\n\t\t\tmin[0] = r.Min.X\n\t\t\tmin[1] = r.Min.Y\n\t\t\tmax[0] = r.Max.X\n\t\t\tmax[1] = r.Max.Y\n\t\t}\n",
		New:    "\t\t_ = item\n",
		Expect: "R13.item-distance-exact", Key: "item-uses-own-rect", Why: "DISTANCE quantised to the float32 index box"})
	mutant(&Mutant{Name: "geodesic-item-y-from-x", Props: []string{"C13"}, File: fGeod,
		Old: "\t\t\tmax[1] = r.Max.Y\n", New: "\t\t\tmax[1] = r.Max.X\n",
		Expect: "R13.item-distance-exact", Key: "item-uses-own-rect", Why: "copy-paste axis slip"})
	mutant(&Mutant{Name: "geodesic-replace-nodes-too", Props: []string{"C13"}, File: fGeod,
		Old: "\t\tif item {\n\t\t\tr := obj.Rect()", New: "\t\tif item || obj != nil {\n\t\t\tr := obj.Rect()",
		Expect: "R13.item-distance-exact", Key: "replacement-only-for-items", Why: "node lower bounds replaced by an object's box"})
	mutant(&Mutant{Name: "geodesic-lat-lng-transposed", Props: []string{"C13"}, File: fGeod,
		Old: "\t\t\tmin[1], min[0],\n", New: "\t\t\tmin[0], min[1],\n",
		Expect: "R13.item-distance-exact", Key: "lat-lng-argument-order", Why: "one pair transposed"})
	mutant(&Mutant{Name: "geodesic-deg-args-shifted", Props: []string{"C13"}, File: fGeod,
		Old: "\t\tminLat*math.Pi/180, minLng*math.Pi/180,\n", New: "\t\tminLng*math.Pi/180, minLat*math.Pi/180,\n",
		Expect: "R13.item-distance-exact", Key: "degrees-to-radians-one-to-one", Why: "arguments forwarded out of order"})
	mutant(&Mutant{Name: "nearby-radius-exclusive", Props: []string{"C13"}, File: fSearch,
		Old: "\t\t\t\tif maxDist > 0 && dist > maxDist {\n\t\t\t\t\treturn false\n\t\t\t\t}", New: "\t\t\t\tif maxDist > 0 && dist >= maxDist {\n\t\t\t\t\treturn false\n\t\t\t\t}",
		Expect: "R13.radius-cutoff", Key: "delivery-within-radius", Why: "objects at exactly the radius are dropped"})
	mutant(&Mutant{Name: "nearby-no-cutoff", Props: []string{"C13"}, File: fSearch,
		Old: "\t\t\t\tif maxDist > 0 && dist > maxDist {\n\t\t\t\t\treturn false\n\t\t\t\t}\n", New: "",
		Expect: "R13.radius-cutoff", Key: "delivery-within-radius", Why: "radius ignored"})
	mutant(&Mutant{Name: "nearby-distance-zeroed", Props: []string{"C13"}, File: fSearch,
		Old: "\t\t\t\tif sargs.distance {\n\t\t\t\t\tmeters = dist\n\t\t\t\t}\n\t\t\t\treturn iterStep(o, meters)", New: "\t\t\t\tif sargs.distance {\n\t\t\t\t\tmeters = maxDist\n\t\t\t\t}\n\t\t\t\treturn iterStep(o, meters)",
		Expect: "R13.radius-cutoff", Key: "reported-distance-is-traversal-distance", Why: "DISTANCE reports the radius"})
	mutant(&Mutant{Name: "neutral-nearby-cutoff-continues", Props: []string{"C13", "C12"}, File: fSearch, Neutral: true,
		Old: "\t\t\t\tif maxDist > 0 && dist > maxDist {\n\t\t\t\t\treturn false\n\t\t\t\t}", New: "\t\t\t\tif maxDist > 0 && dist > maxDist {\n\t\t\t\t\treturn true\n\t\t\t\t}",
		Why: "same result, only slower: objects beyond the radius are skipped instead of ending the traversal"})
	mutant(&Mutant{Name: "neutral-nearby-cutoff-positive-form", Props: []string{"C13"}, File: fSearch, Neutral: true,
		Old: "\t\t\t\tif maxDist > 0 && dist > maxDist {\n\t\t\t\t\treturn false\n\t\t\t\t}\n\t\t\t\tvar meters float64\n\t\t\t\tif sargs.distance {\n\t\t\t\t\tmeters = dist\n\t\t\t\t}\n\t\t\t\treturn iterStep(o, meters)",
		New: "\t\t\t\tif maxDist <= 0 || dist <= maxDist {\n\t\t\t\t\tvar meters float64\n\t\t\t\t\tif sargs.distance {\n\t\t\t\t\t\tmeters = dist\n\t\t\t\t\t}\n\t\t\t\t\treturn iterStep(o, meters)\n\t\t\t\t}\n\t\t\t\treturn false",
		Why: "the cut-off written as a positive test"})
}

func init() {
	// ---- rules added after the second round of seeded changes ------------------
	fFence := "internal/server/fence.go"
	mutant(&Mutant{Name: "loadaof-seek-relative-after-truncate", Props: []string{"C04"}, File: fAOF,
		Old:    "\t\t\t\ts.aofsz -= len(buf)\n\t\t\t\tif err := s.aof.Truncate(int64(s.aofsz)); err != nil {\n\t\t\t\t\treturn err\n\t\t\t\t}\n\t\t\t\tif _, err := s.aof.Seek(int64(s.aofsz), 0); err != nil {\n\t\t\t\t\treturn err\n\t\t\t\t}",
		New:    "\t\t\t\tif err := s.aof.Truncate(int64(s.aofsz - len(buf))); err != nil {\n\t\t\t\t\treturn err\n\t\t\t\t}\n\t\t\t\tpos, err := s.aof.Seek(-int64(len(buf)), io.SeekEnd)\n\t\t\t\tif err != nil {\n\t\t\t\t\treturn err\n\t\t\t\t}\n\t\t\t\ts.aofsz = int(pos)",
		Expect: "R4.size-accounting", Key: "write-offset-at-return", Why: "second seeded change for C04: relative seek computed against the already truncated file"})
	mutant(&Mutant{Name: "neutral-loadaof-seek-end", Props: []string{"C04"}, File: fAOF, Neutral: true,
		Old: "\t\t\t\tif _, err := s.aof.Seek(int64(s.aofsz), 0); err != nil {",
		New: "\t\t\t\tif _, err := s.aof.Seek(0, io.SeekEnd); err != nil {",
		Why: "seeking to the end of the truncated file is the same offset"})
	mutant(&Mutant{Name: "neutral-loadaof-size-from-seek", Props: []string{"C04"}, File: fAOF, Neutral: true,
		Old: "\t\t\t\ts.aofsz -= len(buf)\n\t\t\t\tif err := s.aof.Truncate(int64(s.aofsz)); err != nil {\n\t\t\t\t\treturn err\n\t\t\t\t}\n\t\t\t\tif _, err := s.aof.Seek(int64(s.aofsz), 0); err != nil {\n\t\t\t\t\treturn err\n\t\t\t\t}",
		New: "\t\t\t\tif err := s.aof.Truncate(int64(s.aofsz - len(buf))); err != nil {\n\t\t\t\t\treturn err\n\t\t\t\t}\n\t\t\t\tpos, err := s.aof.Seek(0, io.SeekEnd)\n\t\t\t\tif err != nil {\n\t\t\t\t\treturn err\n\t\t\t\t}\n\t\t\t\ts.aofsz = int(pos)",
		Why: "the size taken from the offset Seek returns"})
	mutant(&Mutant{Name: "sethook-equal-takes-deadline", Props: []string{"C03", "C14"}, File: fHooks,
		Old:    "\t\t\tprevHook.Signal()\n\t\t\tif !hook.expires.IsZero() {\n\t\t\t\ts.hookExpires.Set(hook)\n\t\t\t}",
		New:    "\t\t\tprevHook.expires = hook.expires\n\t\t\tprevHook.Signal()\n\t\t\tif !hook.expires.IsZero() {\n\t\t\t\ts.hookExpires.Set(prevHook)\n\t\t\t}",
		Expect: "R3.hook-immutable", Key: "Hook.expires", Why: "second seeded change for C03: the equal-hook path changes the registered hook and is not logged"})
	mutant(&Mutant{Name: "delhook-clears-endpoints", Props: []string{"C03"}, File: fHooks,
		Old:    "\thook.Close()\n\t// remove hook from maps",
		New:    "\thook.Close()\n\thook.Endpoints = nil\n\t// remove hook from maps",
		Expect: "R3.hook-immutable", Key: "Hook.Endpoints", Why: "a registered hook changed in place"})
	mutant(&Mutant{Name: "fence-cross-alias-no-restore", Props: []string{"C05"}, File: fFence,
		Old:    "\t\t\t\t\t\ttemp := false\n\t\t\t\t\t\tif fence.cmd == \"within\" {\n\t\t\t\t\t\t\t// because we are testing if the line croses the area we need to use\n\t\t\t\t\t\t\t// \"intersects\" instead of \"within\".\n\t\t\t\t\t\t\tfence.cmd = \"intersects\"\n\t\t\t\t\t\t\ttemp = true\n\t\t\t\t\t\t}",
		New:    "\t\t\t\t\t\ttemp := false\n\t\t\t\t\t\txfence := fence\n\t\t\t\t\t\tif xfence.cmd == \"within\" {\n\t\t\t\t\t\t\txfence.cmd = \"intersects\"\n\t\t\t\t\t\t}",
		Expect: "R5.switches-restored", Key: "fenceMatch→cmd", Why: "second seeded change for C05: the 'copy' is an alias and nothing restores the switch"})
	mutant(&Mutant{Name: "fence-cross-restore-skipped-on-match", Props: []string{"C05"}, File: fFence,
		Old:    "\t\t\t\t\t\tif fenceMatchObject(fence, lso) {\n\t\t\t\t\t\t\tdetect = \"cross\"\n\t\t\t\t\t\t}\n\t\t\t\t\t\tif temp {",
		New:    "\t\t\t\t\t\tif fenceMatchObject(fence, lso) {\n\t\t\t\t\t\t\tdetect = \"cross\"\n\t\t\t\t\t\t} else if temp {",
		Expect: "R5.switches-restored", Key: "fenceMatch→cmd", Why: "restored only when the crossing test failed"})
	mutant(&Mutant{Name: "neutral-fence-cross-real-copy", Props: []string{"C05"}, File: fFence, Neutral: true,
		Old: "\t\t\t\t\t\ttemp := false\n\t\t\t\t\t\tif fence.cmd == \"within\" {\n\t\t\t\t\t\t\t// because we are testing if the line croses the area we need to use\n\t\t\t\t\t\t\t// \"intersects\" instead of \"within\".\n\t\t\t\t\t\t\tfence.cmd = \"intersects\"\n\t\t\t\t\t\t\ttemp = true\n\t\t\t\t\t\t}\n\t\t\t\t\t\tlso := object.New(\"\", ls, 0, field.List{})\n\t\t\t\t\t\tif fenceMatchObject(fence, lso) {\n\t\t\t\t\t\t\tdetect = \"cross\"\n\t\t\t\t\t\t}\n\t\t\t\t\t\tif temp {\n\t\t\t\t\t\t\tfence.cmd = \"within\"\n\t\t\t\t\t\t}",
		New: "\t\t\t\t\t\txfence := *fence\n\t\t\t\t\t\tif xfence.cmd == \"within\" {\n\t\t\t\t\t\t\txfence.cmd = \"intersects\"\n\t\t\t\t\t\t}\n\t\t\t\t\t\tlso := object.New(\"\", ls, 0, field.List{})\n\t\t\t\t\t\tif fenceMatchObject(&xfence, lso) {\n\t\t\t\t\t\t\tdetect = \"cross\"\n\t\t\t\t\t\t}",
		Why: "the refactoring done right: a value copy of the switches"})
	mutant(&Mutant{Name: "rename-set-then-delete", Props: []string{"C01"}, File: fCrud,
		Old:    "\tif updated {\n\t\ts.cols.Delete(key)\n\t\ts.cols.Set(newKey, col)\n\t}",
		New:    "\tif updated {\n\t\ts.cols.Set(newKey, col)\n\t\ts.cols.Delete(key)\n\t}",
		Expect: "R1.alias-safe-update", Key: "cmdRENAME→Set(newKey)…Delete(key)", Why: "second seeded change for C01: RENAME k k stores and then deletes the same slot"})
	mutant(&Mutant{Name: "neutral-rename-set-then-delete-guarded", Props: []string{"C01"}, File: fCrud, Neutral: true,
		Old: "\tif updated {\n\t\ts.cols.Delete(key)\n\t\ts.cols.Set(newKey, col)\n\t}",
		New: "\tif updated {\n\t\ts.cols.Set(newKey, col)\n\t\tif key != newKey {\n\t\t\ts.cols.Delete(key)\n\t\t}\n\t}",
		Why: "store first, delete the source only when it is another key"})
	mutant(&Mutant{Name: "rtree-up-branch-free-wrong-sign", Props: []string{"C02"}, File: fColl,
		Old:    "\tif float64(f) < d {\n\t\tif d < 0 {\n\t\t\tf = float32(d * dRNDTOWARDS)\n\t\t} else {\n\t\t\tf = float32(d * dRNDAWAY)\n\t\t}\n\t}",
		New:    "\tif float64(f) < d {\n\t\tf = float32(d + d*(1.0/8388608.0))\n\t}",
		Expect: "R2.outward-direction", Key: "rtreeValueUp/nudge@", Why: "second seeded change for C02: the branch-free form forgets |d|, negative Max coordinates are nudged down"})
	mutant(&Mutant{Name: "neutral-rtree-branch-free", Props: []string{"C02"}, File: fColl, Neutral: true,
		Old: "\tif float64(f) < d {\n\t\tif d < 0 {\n\t\t\tf = float32(d * dRNDTOWARDS)\n\t\t} else {\n\t\t\tf = float32(d * dRNDAWAY)\n\t\t}\n\t}",
		New: "\tif float64(f) < d {\n\t\tf = float32(d + math.Abs(d)*(1.0/8388608.0))\n\t}",
		Why: "the branch-free form done right (identical values)"})
	mutant(&Mutant{Name: "rtree-down-keeps-wrong-side", Props: []string{"C02"}, File: fColl,
		Old:    "func rtreeValueDown(d float64) float32 {\n\tf := float32(d)\n\tif float64(f) > d {",
		New:    "func rtreeValueDown(d float64) float32 {\n\tf := float32(d)\n\tif float64(f) < d {",
		Expect: "R2.outward-direction", Key: "rtreeValueDown/plain-conversion-kept-only-if-outward", Why: "the correction is applied on the wrong side"})
	mutant(&Mutant{Name: "rtree-rect-max-rounded-down", Props: []string{"C02"}, File: fColl,
		Old: "\t\t\trtreeValueUp(rect.Max.X),", New: "\t\t\trtreeValueDown(rect.Max.X),",
		Expect: "R2.outward-direction", Key: "roles", Why: "one Max coordinate rounded inward"})
}

func init() {
	mutant(&Mutant{Name: "flushaof-skips-small-buffers", Props: []string{"C08"}, File: fAOF,
		Old:    "func (s *Server) flushAOF(sync bool) {\n\tif len(s.aofbuf) > 0 {",
		New:    "func (s *Server) flushAOF(sync bool) {\n\tif !sync && len(s.aofbuf) < 4096 {\n\t\treturn\n\t}\n\tif len(s.aofbuf) > 0 {",
		Expect: "R8.flush-complete", Key: "write-unconditional", Why: "a 'batch small writes' optimisation: the pre-write returns without writing and the reply goes out"})
	mutant(&Mutant{Name: "neutral-flushaof-early-return-empty", Props: []string{"C08"}, File: fAOF, Neutral: true,
		Old: "func (s *Server) flushAOF(sync bool) {\n\tif len(s.aofbuf) > 0 {",
		New: "func (s *Server) flushAOF(sync bool) {\n\tif len(s.aofbuf) == 0 {\n\t\treturn\n\t}\n\tif len(s.aofbuf) > 0 {",
		Why: "an early return for the empty buffer"})
}

func init() {
	mutant(&Mutant{Name: "shrink-skips-nearly-expired", Props: []string{"C09"}, File: fShrink,
		Old:    "\t\t\t\t\t\t\tif o.Expires() != 0 {\n\t\t\t\t\t\t\t\tttl := math.Floor(",
		New:    "\t\t\t\t\t\t\tif o.Expires() != 0 && o.Expires() > now {\n\t\t\t\t\t\t\t\tttl := math.Floor(",
		Expect: "R9.emit-covers-state", Key: "object/ex", Why: "an object past its deadline but not yet swept is rewritten without a deadline and becomes permanent"})
	mutant(&Mutant{Name: "neutral-shrink-renames-callback-params", Props: []string{"C09"}, File: fShrink, Neutral: true,
		Edits: []Edit{{fShrink, `re:\bo\b`, "obj"}, {fShrink, "func(f field.Field) bool {", "func(fld field.Field) bool {"}, {fShrink, "if !f.Value().IsZero() {", "if !fld.Value().IsZero() {"}, {fShrink, "append(values, f.Name())", "append(values, fld.Name())"}, {fShrink, "append(values, f.Value().JSON())", "append(values, fld.Value().JSON())"}, {fShrink, `re:\bhook\b`, "hk"}},
		Why:   "the callback parameters and the hook local renamed: the guards are compared by the types of their operands, not by their names"})
	mutant(&Mutant{Name: "shrink-drops-negative-fields", Props: []string{"C09"}, File: fShrink,
		Old:    "\t\t\t\t\t\t\t\tif !f.Value().IsZero() {\n",
		New:    "\t\t\t\t\t\t\t\tif !f.Value().IsZero() && f.Value().Num() >= 0 {\n",
		Expect: "R9.emit-covers-state", Key: "object/field", Why: "an extra condition on which fields are rewritten"})
	mutant(&Mutant{Name: "shrink-hook-drops-metas", Props: []string{"C09"}, File: fShrink,
		Old:    "\t\t\t\tfor _, meta := range hook.Metas {\n\t\t\t\t\tvalues = append(values, \"meta\", meta.Name, meta.Value)\n\t\t\t\t}\n",
		New:    "",
		Expect: "R9.emit-covers-state", Key: "hook/meta", Why: "hook metas lost by the rewrite"})
	mutant(&Mutant{Name: "shrink-hook-ex-only-for-hooks", Props: []string{"C09"}, File: fShrink,
		Old:    "\t\t\t\tif !hook.expires.IsZero() {\n\t\t\t\t\tex := float64(time.Until(hook.expires))",
		New:    "\t\t\t\tif !hook.expires.IsZero() && !hook.channel {\n\t\t\t\t\tex := float64(time.Until(hook.expires))",
		Expect: "R9.emit-covers-state", Key: "hook/ex", Why: "channels lose their expiration"})
}

func init() {
	fPubsub := "internal/server/pubsub.go"
	fSearch := "internal/server/search.go"
	mutant(&Mutant{Name: "nextstep-skips-step-on-yield", Props: []string{"C11"}, File: fColl,
		Old:    "\t\truntime.Gosched()\n\t\tdeadline.Check()\n\t}\n\tif cursor != nil {\n\t\tcursor.Step(1)\n\t}",
		New:    "\t\truntime.Gosched()\n\t\tdeadline.Check()\n\t} else if cursor != nil {\n\t\tcursor.Step(1)\n\t}",
		Expect: "R11.stepper-exactly-once", Key: "nextStep", Why: "second seeded change for C11: no step on yield boundaries"})
	mutant(&Mutant{Name: "neutral-nextstep-step-first", Props: []string{"C11"}, File: fColl, Neutral: true,
		Old: "\tif step&(yieldStep-1) == (yieldStep - 1) {\n\t\truntime.Gosched()\n\t\tdeadline.Check()\n\t}\n\tif cursor != nil {\n\t\tcursor.Step(1)\n\t}",
		New: "\tif cursor != nil {\n\t\tcursor.Step(1)\n\t}\n\tif step&(yieldStep-1) == (yieldStep - 1) {\n\t\truntime.Gosched()\n\t\tdeadline.Check()\n\t}",
		Why: "step before the yield check"})
	mutant(&Mutant{Name: "subscription-queue-reuses-array", Props: []string{"C10"}, File: fPubsub,
		Old:    "\t\t\t\tmsgs := target.msgs\n\t\t\t\ttarget.msgs = nil\n",
		New:    "\t\t\t\tmsgs := target.msgs\n\t\t\t\ttarget.msgs = target.msgs[:0]\n",
		Expect: "R10.batch-not-aliased", Key: "liveSubscription→subtarget.msgs", Why: "second seeded change for C10: the queue keeps the backing array of the batch being delivered"})
	mutant(&Mutant{Name: "pubqueue-reuses-array", Props: []string{"C10"}, File: "internal/server/pubqueue.go",
		Old:    "\t\t\tentries := s.pubq.entries\n\t\t\ts.pubq.entries = nil\n",
		New:    "\t\t\tentries := s.pubq.entries\n\t\t\ts.pubq.entries = entries[:0]\n",
		Expect: "R10.batch-not-aliased", Key: "startPublishQueue→pubQueue.entries", Why: "the same slip through the local alias"})
	mutant(&Mutant{Name: "multiglob-first-pattern-seeds-range", Props: []string{"C12"}, File: fSearch,
		Old:    "\t\tg := glob.Parse(pattern, desc)\n\t\tif g.Limits[0] == \"\" && g.Limits[1] == \"\" {\n\t\t\tlimits[0], limits[1] = \"\", \"\"\n\t\t\tbreak\n\t\t}\n\t\tif i == 0 {\n\t\t\tlimits[0], limits[1] = g.Limits[0], g.Limits[1]\n\t\t} else if desc {",
		New:    "\t\tg := glob.Parse(pattern, desc)\n\t\tif i == 0 {\n\t\t\tlimits[0], limits[1] = g.Limits[0], g.Limits[1]\n\t\t\tcontinue\n\t\t}\n\t\tif g.Limits[0] == \"\" && g.Limits[1] == \"\" {\n\t\t\tlimits[0], limits[1] = \"\", \"\"\n\t\t\tbreak\n\t\t}\n\t\tif desc {",
		Expect: "R12.multi-glob-unbounded", Key: "merge1-after-unbounded-test", Why: "second seeded change for C12: an unbounded first pattern seeds the range"})
	mutant(&Mutant{Name: "multiglob-unbounded-keeps-merging", Props: []string{"C12"}, File: fSearch,
		Old:    "\t\tif g.Limits[0] == \"\" && g.Limits[1] == \"\" {\n\t\t\tlimits[0], limits[1] = \"\", \"\"\n\t\t\tbreak\n\t\t}\n\t\tif i == 0 {",
		New:    "\t\tif g.Limits[0] == \"\" && g.Limits[1] == \"\" {\n\t\t\tlimits[0], limits[1] = \"\", \"\"\n\t\t\tcontinue\n\t\t}\n\t\tif i == 0 {",
		Expect: "R12.multi-glob-unbounded", Key: "unbounded-pattern-unbounds-range", Why: "later patterns narrow the range again"})
	mutant(&Mutant{Name: "neutral-multiglob-test-reordered", Props: []string{"C12"}, File: fSearch, Neutral: true,
		Old: "\t\tif g.Limits[0] == \"\" && g.Limits[1] == \"\" {\n\t\t\tlimits[0], limits[1] = \"\", \"\"\n\t\t\tbreak\n\t\t}\n\t\tif i == 0 {",
		New: "\t\tif g.Limits[1] == \"\" && g.Limits[0] == \"\" {\n\t\t\tlimits[1], limits[0] = \"\", \"\"\n\t\t\tbreak\n\t\t}\n\t\tif i == 0 {",
		Why: "the two halves of the test swapped"})
}

func init() {
	fFence := "internal/server/fence.go"
	fField := "internal/field/field.go"
	mutant(&Mutant{Name: "field-number-validates-trimmed-text", Props: []string{"C17"}, File: fField,
		Old:    "\t\tif gjson.Valid(data) {\n\t\t\treturn Value{kind: Number, data: data, num: num}",
		New:    "\t\tif gjson.Valid(strings.TrimPrefix(data, \"+\")) {\n\t\t\treturn Value{kind: Number, data: data, num: num}",
		Expect: "R17.raw-kinds-validated", Key: "ValueOf/Number@data", Why: "second seeded change for C17: +5 is stored as a Number and spliced into JSON replies"})
	mutant(&Mutant{Name: "field-number-unvalidated", Props: []string{"C17"}, File: fField,
		Old:    "\t\tif gjson.Valid(data) {\n\t\t\treturn Value{kind: Number, data: data, num: num}\n\t\t}",
		New:    "\t\treturn Value{kind: Number, data: data, num: num}",
		Expect: "R17.raw-kinds-validated", Key: "ValueOf/Number@data", Why: "0x10, 1_000 and 012 parse as floats and are not JSON numbers"})
	mutant(&Mutant{Name: "field-special-renamed", Props: []string{"C17"}, File: fField,
		Old:    "\t\t\t\treturn Value{kind: Number, data: \"+Inf\", num: pinf}\n\t\t\t} else {",
		New:    "\t\t\t\treturn Value{kind: Number, data: \"Infinity\", num: pinf}\n\t\t\t} else {",
		Expect: "R17.raw-kinds-validated", Key: "ValueOf/Number@\"Infinity\"", Why: "a special that JSON() does not quote"})
	mutant(&Mutant{Name: "neutral-field-number-valid-local", Props: []string{"C17"}, File: fField, Neutral: true,
		Old: "\t\tif gjson.Valid(data) {\n\t\t\treturn Value{kind: Number, data: data, num: num}\n\t\t}",
		New: "\t\tif !gjson.Valid(data) {\n\t\t\t// not a JSON number: falls through to the string forms below\n\t\t} else {\n\t\t\treturn Value{kind: Number, data: data, num: num}\n\t\t}",
		Why: "the validity test written negatively"})
	mutant(&Mutant{Name: "roam-same-position-shares-list", Props: []string{"C20"}, File: fFence,
		Old:    "\tnewNearbys := fenceMatchNearbys(s, fence, obj)\n",
		New:    "\tnewNearbys := oldNearbys\n\tif old == nil || old.Geo().Rect() != obj.Geo().Rect() {\n\t\tnewNearbys = fenceMatchNearbys(s, fence, obj)\n\t}\n",
		Expect: "R20.no-aliased-compaction", Key: "fenceMatchRoam→newNearbys~oldNearbys", Why: "second seeded change for C20: the two neighbour lists share one array while the dwell loop compacts one of them in place"})
	mutant(&Mutant{Name: "neutral-roam-same-position-copies-list", Props: []string{"C20"}, File: fFence, Neutral: true,
		Old: "\tnewNearbys := fenceMatchNearbys(s, fence, obj)\n",
		New: "\tvar newNearbys []roamMatch\n\tif r := obj.Geo().Rect(); old != nil && objIsSpatial(old.Geo()) && r.Min == r.Max && old.Geo().Rect() == r {\n\t\tnewNearbys = append([]roamMatch(nil), oldNearbys...)\n\t} else {\n\t\tnewNearbys = fenceMatchNearbys(s, fence, obj)\n\t}\n",
		Why: "the same shortcut (a point re-set at the same position) with a copy of the list; the previous value is tested for a position first — without that test the variant is not neutral (a STRING replaced by POINT 0 0) and R20.position-needs-spatial rightly reports it"})
}

func init() {
	// ---- rules added after the third seeding round -----------------------------
	mutant(&Mutant{Name: "fset-judges-against-stored-fields", Props: []string{"C01"}, File: fCrud,
		Old:    "\t\t\tprev := ofields.Get(f.Name())\n\t\t\tif !prev.Value().Equals(f.Value()) {",
		New:    "\t\t\tprev := o.Fields().Get(f.Name())\n\t\t\tif !prev.Value().Equals(f.Value()) {",
		Expect: "R1.fold-reads-accumulator", Key: "cmdFSET/ofields", Why: "FSET k id a 5 a 0: the second pair is compared with the stored value, not with the value the first pair just set"})
	mutant(&Mutant{Name: "neutral-fset-accumulator-renamed", Props: []string{"C01"}, File: fCrud, Neutral: true,
		Edits: []Edit{{fCrud, `re:\bofields\b`, "merged"}},
		Why:   "the accumulator of the FSET fold renamed"})
	mutant(&Mutant{Name: "lives-queue-popped-from-the-end", Props: []string{"C07", "C05", "C10"}, File: fLive,
		Old:    "\t\t\titem := s.lstack[0]\n\t\t\ts.lstack = s.lstack[1:]\n",
		New:    "\t\t\titem := s.lstack[len(s.lstack)-1]\n\t\t\ts.lstack = s.lstack[:len(s.lstack)-1]\n",
		Expect: "R7.log-order-delivery", Key: "queue/lstack", Why: "the seeded change C07c: pending write events reach the live connections newest first"})
	mutant(&Mutant{Name: "livebuffer-details-popped-from-the-end", Props: []string{"C07", "C05"}, File: fLive,
		Old:    "\t\t\tdetails := lb.details[0]\n\t\t\tlb.details = lb.details[1:]\n",
		New:    "\t\t\tdetails := lb.details[len(lb.details)-1]\n\t\t\tlb.details = lb.details[:len(lb.details)-1]\n",
		Expect: "R7.log-order-delivery", Key: "queue/details", Why: "the per-connection queue is consumed newest first"})
	mutant(&Mutant{Name: "loadaof-trims-trailing-nuls", Props: []string{"C04"}, File: fAOF,
		Old:    "\t\tvar complete bool\n\t\tfor {\n\t\t\tif len(data) > 0 && data[0] == 0 {",
		New:    "\t\tdata = bytes.TrimRight(data, \"\\x00\")\n\t\tvar complete bool\n\t\tfor {\n\t\t\tif len(data) > 0 && data[0] == 0 {",
		Edits:  []Edit{{fAOF, "import (\n", "import (\n\t\"bytes\"\n"}},
		Expect: "R4.size-accounting", Key: "cut-at-consumed", Why: "the seeded change C04c: bytes that were read and counted are dropped before parsing, the cut lands inside the torn command"})
	mutant(&Mutant{Name: "reset-forgets-hook-expiry-queue", Props: []string{"C06", "C05", "C14"}, File: fServer,
		Old:    "\ts.hookExpires.Clear()\n",
		New:    "",
		Expect: "R6.reset-complete", Key: "reset-clears/hookExpires", Why: "the seeded change C06c: a follower that resyncs keeps the deadlines of hooks it no longer has"})
	mutant(&Mutant{Name: "setfill-uses-rtree-replace", Props: []string{"C19", "C02", "C01", "C14"}, File: fColl,
		Old: "\t\tif prev.IsSpatial() {\n\t\t\tc.indexDelete(prev)\n\t\t\tc.objects--\n\t\t} else {\n\t\t\tc.values.Delete(prev)\n\t\t\tc.nobjects--\n\t\t}",
		New: "\t\tif prev.IsSpatial() {\n\t\t\tif replaced = obj.IsSpatial() && !obj.Geo().Empty(); replaced {\n\t\t\t\tpmin, pmax, _ := rtreeItem(prev)\n\t\t\t\tmin, max, _ := rtreeItem(obj)\n\t\t\t\tc.spatial.Replace(pmin, pmax, prev, min, max, obj)\n\t\t\t} else {\n\t\t\t\tc.indexDelete(prev)\n\t\t\t}\n\t\t\tc.objects--\n\t\t} else {\n\t\t\tc.values.Delete(prev)\n\t\t\tc.nobjects--\n\t\t}",
		Edits: []Edit{
			{fColl, "func (c *Collection) setFill(prev, obj *object.Object) {\n", "func (c *Collection) setFill(prev, obj *object.Object) {\n\tvar replaced bool\n"},
			{fColl, "\tif obj.IsSpatial() {\n\t\tc.indexInsert(obj)\n\t\tc.objects++", "\tif obj.IsSpatial() {\n\t\tif !replaced {\n\t\t\tc.indexInsert(obj)\n\t\t}\n\t\tc.objects++"},
		},
		Expect: "R19.delta", Key: "insertion-independent/spatial", Why: "the seeded change C02c: rtree.Replace enters the new entry only if the old one was found, and an object with an empty geometry never was"})
	mutant(&Mutant{Name: "neutral-setfill-uses-rtree-replace-guarded", Props: []string{"C19", "C02", "C01", "C14"}, File: fColl, Neutral: true,
		Old: "\t\tif prev.IsSpatial() {\n\t\t\tc.indexDelete(prev)\n\t\t\tc.objects--\n\t\t} else {\n\t\t\tc.values.Delete(prev)\n\t\t\tc.nobjects--\n\t\t}",
		New: "\t\tif prev.IsSpatial() {\n\t\t\tif replaced = obj.IsSpatial() && !obj.Geo().Empty() && !prev.Geo().Empty(); replaced {\n\t\t\t\tpmin, pmax, _ := rtreeItem(prev)\n\t\t\t\tmin, max, _ := rtreeItem(obj)\n\t\t\t\tc.spatial.Replace(pmin, pmax, prev, min, max, obj)\n\t\t\t} else {\n\t\t\t\tc.indexDelete(prev)\n\t\t\t}\n\t\t\tc.objects--\n\t\t} else {\n\t\t\tc.values.Delete(prev)\n\t\t\tc.nobjects--\n\t\t}",
		Edits: []Edit{
			{fColl, "func (c *Collection) setFill(prev, obj *object.Object) {\n", "func (c *Collection) setFill(prev, obj *object.Object) {\n\tvar replaced bool\n"},
			{fColl, "\tif obj.IsSpatial() {\n\t\tc.indexInsert(obj)\n\t\tc.objects++", "\tif obj.IsSpatial() {\n\t\tif !replaced {\n\t\t\tc.indexInsert(obj)\n\t\t}\n\t\tc.objects++"},
		},
		Why: "the same optimisation done right: Replace is used only when the previous object is an entry of the index"})
}

func init() {
	mutant(&Mutant{Name: "neutral-dispatch-switch-over-local", Props: []string{"C03", "C07", "C15", "C16", "C18"}, File: fServer, Neutral: true,
		Old: ") {\n\tswitch msg.Command() {\n\tdefault:\n\t\terr = fmt.Errorf(\"unknown command '%s'\", msg.Args[0])",
		New: ") {\n\tname := msg.Command()\n\tswitch name {\n\tdefault:\n\t\terr = fmt.Errorf(\"unknown command '%s'\", msg.Args[0])",
		Why: "the dispatch switch keyed on a local that holds msg.Command() (the function never rewrites the message)"})
	mutant(&Mutant{Name: "neutral-script-class-switch-over-local", Props: []string{"C15", "C18", "C03", "C07"}, File: fScripts, Neutral: true,
		Old: "func (s *Server) luaTile38AtomicRO(msg *Message) (resp.Value, error) {\n\tswitch msg.Command() {",
		New: "func (s *Server) luaTile38AtomicRO(msg *Message) (resp.Value, error) {\n\tname := msg.Command()\n\tswitch name {",
		Why: "a script class switch keyed on a local"})
}

func init() {
	mutant(&Mutant{Name: "hook-equals-ignores-deadline", Props: []string{"C14", "C05", "C03"}, File: fHooks,
		Old:    "\tif !h.expires.Equal(hook.expires) {\n\t\treturn false\n\t}\n",
		New:    "",
		Expect: "R5.equals-covers-definition", Key: "Hook.expires", Why: "the seeded change C14c: a re-issued SETHOOK with another EX is taken for a repetition; the old deadline stays and a phantom entry enters the expiry queue"})
	mutant(&Mutant{Name: "hook-equals-ignores-endpoints", Props: []string{"C05"}, File: fHooks,
		Old:    "\t\tlen(h.Endpoints) != len(hook.Endpoints) ||\n",
		New:    "",
		Edits:  []Edit{{fHooks, "\tfor i, endpoint := range h.Endpoints {\n\t\tif endpoint != hook.Endpoints[i] {\n\t\t\treturn false\n\t\t}\n\t}\n", ""}},
		Expect: "R5.equals-covers-definition", Key: "Hook.Endpoints", Why: "a SETHOOK that only changes the endpoint list is ignored"})
	mutant(&Mutant{Name: "shrink-file-not-truncated", Props: []string{"C09"}, File: fShrink,
		Old:    "\t\tf, err := os.Create(s.opts.AppendFileName + \"-shrink\")",
		New:    "\t\tf, err := os.OpenFile(s.opts.AppendFileName+\"-shrink\", os.O_CREATE|os.O_RDWR, 0600)",
		Expect: "R9.swap-order", Key: "new-file-starts-empty", Why: "the seeded change C09c: the tail of a longer leftover from an interrupted shrink becomes part of the live log"})
	mutant(&Mutant{Name: "neutral-shrink-file-openfile-trunc", Props: []string{"C09", "C06"}, File: fShrink, Neutral: true,
		Old: "\t\tf, err := os.Create(s.opts.AppendFileName + \"-shrink\")",
		New: "\t\tf, err := os.OpenFile(s.opts.AppendFileName+\"-shrink\", os.O_CREATE|os.O_RDWR|os.O_TRUNC, 0600)",
		Why: "the same open written out with its flags"})
	mutant(&Mutant{Name: "setfill-counts-only-new-ids", Props: []string{"C12", "C19"}, File: fColl,
		Old:    "\t\tif prev.IsSpatial() {\n\t\t\tc.indexDelete(prev)\n\t\t\tc.objects--\n\t\t} else {\n\t\t\tc.values.Delete(prev)\n\t\t\tc.nobjects--\n\t\t}",
		New:    "\t\tif prev.IsSpatial() {\n\t\t\tc.indexDelete(prev)\n\t\t} else {\n\t\t\tc.values.Delete(prev)\n\t\t}",
		Edits:  []Edit{{fColl, "\tif obj.IsSpatial() {\n\t\tc.indexInsert(obj)\n\t\tc.objects++\n\t} else {\n\t\tc.values.Set(obj)\n\t\tc.nobjects++\n\t}", "\tif obj.IsSpatial() {\n\t\tc.indexInsert(obj)\n\t\tif prev == nil {\n\t\t\tc.objects++\n\t\t}\n\t} else {\n\t\tc.values.Set(obj)\n\t\tif prev == nil {\n\t\t\tc.nobjects++\n\t\t}\n\t}"}},
		Expect: "R19.delta", Key: "objects", Why: "the seeded change C12c: the per-kind counters are only bumped for new ids, so an id overwritten with the other kind stays counted under its old kind and SEARCH COUNT disagrees with SEARCH IDS"})
}

func init() {
	mutant(&Mutant{Name: "queuehooks-persists-stale-index", Props: []string{"C10"}, File: fAOF,
		Old: "\t\t\ts.qidx++ // increment the log id\n\t\t\tkey := hookLogPrefix + uint64ToString(s.qidx)",
		New: "\t\t\tqidx++ // increment the log id\n\t\t\tkey := hookLogPrefix + uint64ToString(qidx)",
		Edits: []Edit{
			{fAOF, "\terr := s.qdb.Update(func(tx *buntdb.Tx) error {\n\t\tfor _, msg := range wmsgs {", "\tqidx := s.qidx\n\terr := s.qdb.Update(func(tx *buntdb.Tx) error {\n\t\tfor _, msg := range wmsgs {"},
			{fAOF, "\t\t\tlog.Debugf(\"queued hook: %d\", s.qidx)", "\t\t\tlog.Debugf(\"queued hook: %d\", qidx)"},
			{fAOF, "\t\t_, _, err := tx.Set(\"hook:idx\", uint64ToString(s.qidx), nil)\n\t\tif err != nil {\n\t\t\treturn err\n\t\t}\n\t\treturn nil\n\t})", "\t\t_, _, err := tx.Set(\"hook:idx\", uint64ToString(s.qidx), nil)\n\t\tif err != nil {\n\t\t\treturn err\n\t\t}\n\t\treturn nil\n\t})\n\ts.qidx = qidx"},
		},
		Expect: "R10.persisted-index-covers-keys", Key: "queueHooks/persisted-index", Why: "the seeded change C10c: the keys are taken from a local counter, the persisted index from the field that is only updated after the commit"})
	mutant(&Mutant{Name: "neutral-queuehooks-local-counter", Props: []string{"C10"}, File: fAOF, Neutral: true,
		Old: "\t\t\ts.qidx++ // increment the log id\n\t\t\tkey := hookLogPrefix + uint64ToString(s.qidx)",
		New: "\t\t\tqidx++ // increment the log id\n\t\t\tkey := hookLogPrefix + uint64ToString(qidx)",
		Edits: []Edit{
			{fAOF, "\terr := s.qdb.Update(func(tx *buntdb.Tx) error {\n\t\tfor _, msg := range wmsgs {", "\tqidx := s.qidx\n\terr := s.qdb.Update(func(tx *buntdb.Tx) error {\n\t\tfor _, msg := range wmsgs {"},
			{fAOF, "\t\t\tlog.Debugf(\"queued hook: %d\", s.qidx)", "\t\t\tlog.Debugf(\"queued hook: %d\", qidx)"},
			{fAOF, "\t\t_, _, err := tx.Set(\"hook:idx\", uint64ToString(s.qidx), nil)\n\t\tif err != nil {\n\t\t\treturn err\n\t\t}\n\t\treturn nil\n\t})", "\t\t_, _, err := tx.Set(\"hook:idx\", uint64ToString(qidx), nil)\n\t\tif err != nil {\n\t\t\treturn err\n\t\t}\n\t\treturn nil\n\t})\n\ts.qidx = qidx"},
		},
		Why: "the same refactoring done right: the local counter is the one that is persisted"})
}

func init() {
	// ---- after the fourth batch of the refactoring experiment: the rules follow helpers; the broken form of each
	// refactored shape must still be reported ------------------------------------------------------------------
	const fMonitor = "internal/server/monitor.go"
	mutant(&Mutant{Name: "fset-fold-in-helper-reads-stored-state", Props: []string{"C01"}, File: fCrud,
		Old: "\t\tofields := o.Fields()\n\t\tfor _, f := range fields {\n\t\t\tprev := ofields.Get(f.Name())\n\t\t\tif !prev.Value().Equals(f.Value()) {\n\t\t\t\tofields = ofields.Set(f)\n\t\t\t\tupdateCount++\n\t\t\t}\n\t\t}\n",
		New: "\t\tvar ofields field.List\n\t\tofields, updateCount = applyChangedFields(o, o.Fields(), fields)\n",
		Edits: []Edit{{fCrud, "// FSET key id [XX] field value [field value...]\n",
			"func applyChangedFields(o *object.Object, list field.List, fields []field.Field) (field.List, int) {\n\tvar changed int\n\tfor _, f := range fields {\n\t\tprev := o.Fields().Get(f.Name())\n\t\tif !prev.Value().Equals(f.Value()) {\n\t\t\tlist = list.Set(f)\n\t\t\tchanged++\n\t\t}\n\t}\n\treturn list, changed\n}\n\n// FSET key id [XX] field value [field value...]\n"}},
		Expect: "R1.fold-reads-accumulator", Key: "applyChangedFields/list", Why: "the FSET fold extracted into a helper that still judges every pair against the stored object (reads o.Fields() on the parameter that carries it)"})
	mutant(&Mutant{Name: "neutral-fset-fold-in-helper", Props: []string{"C01"}, File: fCrud, Neutral: true,
		Old: "\t\tofields := o.Fields()\n\t\tfor _, f := range fields {\n\t\t\tprev := ofields.Get(f.Name())\n\t\t\tif !prev.Value().Equals(f.Value()) {\n\t\t\t\tofields = ofields.Set(f)\n\t\t\t\tupdateCount++\n\t\t\t}\n\t\t}\n",
		New: "\t\tvar ofields field.List\n\t\tofields, updateCount = applyChangedFields(o.Fields(), fields)\n",
		Edits: []Edit{{fCrud, "// FSET key id [XX] field value [field value...]\n",
			"func applyChangedFields(list field.List, fields []field.Field) (field.List, int) {\n\tvar changed int\n\tfor _, f := range fields {\n\t\tprev := list.Get(f.Name())\n\t\tif !prev.Value().Equals(f.Value()) {\n\t\t\tlist = list.Set(f)\n\t\t\tchanged++\n\t\t}\n\t}\n\treturn list, changed\n}\n\n// FSET key id [XX] field value [field value...]\n"}},
		Why: "the FSET fold extracted into a helper that folds into its parameter (batch 4, C01-m3)"})
	mutant(&Mutant{Name: "monitor-helper-raw-arguments", Props: []string{"C17"}, File: fMonitor,
		Old:    "\tvar line []byte\n\tfor i, arg := range msg.Args {\n\t\tif i > 0 {\n\t\t\tline = append(line, ' ')\n\t\t}\n\t\tline = append(line, strconv.Quote(arg)...)\n\t}\n",
		New:    "\tline := appendMonitorArgs(nil, msg.Args)\n",
		Edits:  []Edit{{fMonitor, "func (s *Server) sendMonitor(", "func appendMonitorArgs(dst []byte, args []string) []byte {\n\tfor i, arg := range args {\n\t\tif i > 0 {\n\t\t\tdst = append(dst, ' ')\n\t\t}\n\t\tif i == 0 {\n\t\t\tdst = strconv.AppendQuote(dst, arg)\n\t\t} else {\n\t\t\tdst = append(dst, arg...)\n\t\t}\n\t}\n\treturn dst\n}\n\nfunc (s *Server) sendMonitor("}},
		Expect: "R17.resp-lines", Key: "sendMonitor→line", Why: "the MONITOR line is assembled by a helper that quotes only the command name: a CR LF in a later argument splits the line"})
	mutant(&Mutant{Name: "lives-queue-helper-pops-from-the-end", Props: []string{"C07", "C05", "C10"}, File: fLive,
		Old:    "\t\t\titem := s.lstack[0]\n\t\t\ts.lstack = s.lstack[1:]\n\t\t\tif len(s.lstack) == 0 {\n\t\t\t\ts.lstack = nil\n\t\t\t}\n",
		New:    "\t\t\titem := s.popLive()\n",
		Edits:  []Edit{{fLive, "func writeLiveMessage(", "func (s *Server) popLive() *commandDetails {\n\titem := s.lstack[len(s.lstack)-1]\n\ts.lstack = s.lstack[:len(s.lstack)-1]\n\tif len(s.lstack) == 0 {\n\t\ts.lstack = nil\n\t}\n\treturn item\n}\n\nfunc writeLiveMessage("}},
		Expect: "R7.log-order-delivery", Key: "queue/lstack", Why: "the pop of the pending-writes queue extracted into a helper that takes the newest entry"})
	mutant(&Mutant{Name: "shrink-helper-renames-after-reopen", Props: []string{"C09"}, File: fShrink,
		Old: "\t\t\tif err := os.Rename(s.opts.AppendFileName+\"-shrink\", s.opts.AppendFileName); err != nil {\n\t\t\t\tlog.Fatalf(\"shrink rename fatal operation: %v\", err)\n\t\t\t}\n",
		New: "",
		Edits: []Edit{
			{fShrink, "\t\t\tvar n int64\n\t\t\tn, err = s.aof.Seek(0, 2)\n", "\t\t\ts.installShrunkenAOF()\n\t\t\tvar n int64\n\t\t\tn, err = s.aof.Seek(0, 2)\n"},
			{fShrink, "func (s *Server) aofshrink() {", "func (s *Server) installShrunkenAOF() {\n\tif err := os.Rename(s.opts.AppendFileName+\"-shrink\", s.opts.AppendFileName); err != nil {\n\t\tlog.Fatalf(\"shrink rename fatal operation: %v\", err)\n\t}\n}\n\nfunc (s *Server) aofshrink() {"}},
		Expect: "R9.swap-order", Key: "rename-shrink-to-live→reopen-live", Why: "the rename moved into a helper that is called after the live log was reopened: the server appends to the old file, which the rename then replaces"})
}

func init() {
	// ---- R5.detect-table ------------------------------------------------------------------------------------
	const fFence = "internal/server/fence.go"
	mutant(&Mutant{Name: "detect-fallback-forgets-cross", Props: []string{"C05"}, File: fFence,
		Old:    "\t\t\tif detect == \"exit\" || detect == \"cross\" {\n\t\t\t\tdetect = \"outside\"\n\t\t\t\tcontinue\n\t\t\t}",
		New:    "\t\t\tif detect == \"exit\" {\n\t\t\t\tdetect = \"outside\"\n\t\t\t\tcontinue\n\t\t\t}",
		Expect: "R5.detect-table", Key: "set/outside→outside crossing", Why: "a fence with DETECT outside no longer reports 'outside' for an object that crosses the area"})
	mutant(&Mutant{Name: "detect-cross-without-outside", Props: []string{"C05"}, File: fFence,
		Old:    "\tcase \"exit\", \"cross\":\n\t\tif fence.detect == nil || fence.detect[\"outside\"] {",
		New:    "\tcase \"exit\":\n\t\tif fence.detect == nil || fence.detect[\"outside\"] {",
		Expect: "R5.detect-table", Key: "set/outside→outside crossing", Why: "'cross' is no longer followed by 'outside'"})
	mutant(&Mutant{Name: "detect-enter-inside-guard-swapped", Props: []string{"C05"}, File: fFence,
		Old:    "\tcase \"enter\":\n\t\tif fence.detect == nil || fence.detect[\"inside\"] {",
		New:    "\tcase \"enter\":\n\t\tif fence.detect == nil || fence.detect[\"enter\"] {",
		Expect: "R5.detect-table", Key: "set/outside→inside", Why: "with DETECT enter the follow-up 'inside' is sent although it was not asked for, and with DETECT enter,inside… the guard tests the wrong member"})
	mutant(&Mutant{Name: "detect-fset-may-cross", Props: []string{"C05"}, File: fFence,
		Old:    "\t\t\t\tif details.command != \"fset\" {\n\t\t\t\t\t// For cross detection",
		New:    "\t\t\t\tif details.command != \"\" {\n\t\t\t\t\t// For cross detection",
		Expect: "R5.detect-table", Key: "fset/outside→outside", Why: "an FSET (which does not move the object) is classified as crossing"})
	mutant(&Mutant{Name: "detect-exit-when-both-match", Props: []string{"C05"}, File: fFence,
		Old:    "\t\t\tif match1 && match2 {\n\t\t\t\tdetect = \"inside\"",
		New:    "\t\t\tif match1 && match2 && details.old.Geo().Center() == details.obj.Geo().Center() {\n\t\t\t\tdetect = \"inside\"",
		Expect: "R5.detect-table", Key: "set/inside→", Why: "an extra, unforeseen condition in the classification"})
	mutant(&Mutant{Name: "neutral-detect-classification-as-switch", Props: []string{"C05"}, File: fFence, Neutral: true,
		Old:   "\t\t\tif match1 && match2 {\n\t\t\t\tdetect = \"inside\"\n\t\t\t} else if match1 && !match2 {\n\t\t\t\tdetect = \"exit\"\n\t\t\t} else if !match1 && match2 {\n\t\t\t\tdetect = \"enter\"\n\t\t\t\tif details.command == \"fset\" {\n\t\t\t\t\tdetect = \"inside\"\n\t\t\t\t}\n\t\t\t} else {",
		New:   "\t\t\twasIn, isIn := match1, match2\n\t\t\tswitch {\n\t\t\tcase wasIn && isIn:\n\t\t\t\tdetect = \"inside\"\n\t\t\tcase wasIn:\n\t\t\t\tdetect = \"exit\"\n\t\t\tcase isIn && details.command == \"fset\":\n\t\t\t\tdetect = \"inside\"\n\t\t\tcase isIn:\n\t\t\t\tdetect = \"enter\"\n\t\t\tdefault:",
		Edits: []Edit{{fFence, "\t\t\t\t\t\tif temp {\n\t\t\t\t\t\t\tfence.cmd = \"within\"\n\t\t\t\t\t\t}\n\t\t\t\t\t}\n\t\t\t\t}\n\t\t\t}\n", "\t\t\t\t\t\tif temp {\n\t\t\t\t\t\t\tfence.cmd = \"within\"\n\t\t\t\t\t\t}\n\t\t\t\t\t}\n\t\t\t\t}\n\t\t\t}\n"}},
		Why:   "the classification written as a tagless switch over renamed locals"})
}

func init() {
	// ---- R6.size-tracks-file / R4.loader-entry (after the fourth seeding round) ---------------------------------
	mutant(&Mutant{Name: "reset-leaves-size-to-the-loader", Props: []string{"C06"}, File: fServer,
		Old:    "func (s *Server) reset() {\n\ts.aofsz = 0\n",
		New:    "func (s *Server) reset() {\n",
		Edits:  []Edit{{fAOF, "func (s *Server) loadAOF() (err error) {\n", "func (s *Server) loadAOF() (err error) {\n\ts.aofsz = 0\n"}},
		Expect: "R6.size-tracks-file", Key: "settled-after-open/server.(*Server).followStartOver", Why: "the seeded change C06d: the start-over path recreates the log empty but keeps the size of the previous log, so the caught-up test fires early"})
	mutant(&Mutant{Name: "reset-keeps-size", Props: []string{"C04", "C06"}, File: fServer,
		Old:    "func (s *Server) reset() {\n\ts.aofsz = 0\n",
		New:    "func (s *Server) reset() {\n",
		Expect: "R4.loader-entry", Key: "loader-entry/server.(*Server).followCheckSome", Why: "the reload after a truncation counts on top of the old size"})
	mutant(&Mutant{Name: "neutral-loader-zeroes-size-itself", Props: []string{"C04", "C06"}, File: fAOF, Neutral: true,
		Old: "func (s *Server) loadAOF() (err error) {\n",
		New: "func (s *Server) loadAOF() (err error) {\n\ts.aofsz = 0\n",
		Why: "the loader sets its own starting point (and reset() still zeroes the field)"})
	mutant(&Mutant{Name: "startover-without-reset-of-size", Props: []string{"C06"}, File: "internal/server/checksum.go",
		Old:    "\ts.reset()\n\treturn 0, nil\n}",
		New:    "\ts.cols.Clear()\n\treturn 0, nil\n}",
		Expect: "R6.size-tracks-file", Key: "settled-after-open/server.(*Server).followStartOver", Why: "the start-over path empties the keyspace by hand and forgets the size"})
}

func init() {
	// ---- R2.exact-filter/complete (after the fourth seeding round) --------------------------------------------
	mutant(&Mutant{Name: "within-box-prefilter-before-exact-test", Props: []string{"C02"}, File: fColl,
		Old:    "\t\tif o.Geo().Within(obj) {\n\t\t\treturn iter(o)\n\t\t}\n\t\treturn true\n\t})",
		New:    "\t\tif o.Rect().Max.X < obj.Rect().Max.X && o.Geo().Within(obj) {\n\t\t\treturn iter(o)\n\t\t}\n\t\treturn true\n\t})",
		Expect: "R2.exact-filter", Key: "Within/branch2/complete", Why: "a cheap reject in front of the exact test drops objects that touch the query's edge (the seeded change C02d did it with the float32 index box)"})
	mutant(&Mutant{Name: "neutral-within-guard-inverted", Props: []string{"C02", "C11"}, File: fColl, Neutral: true,
		Old: "\t\tif o.Geo().Within(obj) {\n\t\t\treturn iter(o)\n\t\t}\n\t\treturn true\n\t})",
		New: "\t\tif !o.Geo().Within(obj) {\n\t\t\treturn true\n\t\t}\n\t\treturn iter(o)\n\t})",
		Why: "the exact test written as an early return"})
}

func init() {
	// ---- fourth seeding round: log handle aliases, positional resume cursors -----------------------------------
	mutant(&Mutant{Name: "prewrite-writes-log-outside-lock", Props: []string{"C07"}, File: fServer,
		Old:    "\t\t\t\t\t\tfunc() {\n\t\t\t\t\t\t\t// prewrite\n\t\t\t\t\t\t\ts.mu.Lock()\n\t\t\t\t\t\t\tdefer s.mu.Unlock()\n\t\t\t\t\t\t\ts.flushAOF(false)\n\t\t\t\t\t\t\ts.aofdirty.Store(false)\n\t\t\t\t\t\t}()\n",
		New:    "\t\t\t\t\t\ts.mu.Lock()\n\t\t\t\t\t\tpending, logf := s.aofbuf, s.aof\n\t\t\t\t\t\ts.aofbuf = nil\n\t\t\t\t\t\ts.aofdirty.Store(false)\n\t\t\t\t\t\ts.mu.Unlock()\n\t\t\t\t\t\tif len(pending) > 0 {\n\t\t\t\t\t\t\tlogf.Write(pending)\n\t\t\t\t\t\t}\n",
		Expect: "R7.lock-write", Key: "Server.aof:logf.Write()", Why: "the seeded change C07d: the buffer is taken over under the lock but written to the file after the unlock, through a local that holds the handle; two connections' writes reach the file in either order"})
	mutant(&Mutant{Name: "shrink-key-cursor-is-a-position", Props: []string{"C09"}, File: fShrink,
		Old:    "\t\tvar nextkey string\n",
		New:    "\t\tvar nextkey string\n\t\tvar nextpos int\n",
		Edits:  []Edit{{fShrink, "\t\t\t\t\ts.cols.Ascend(nextkey,\n", "\t\t\t\t\tif k, _, ok := s.cols.GetAt(nextpos); ok && k < nextkey {\n\t\t\t\t\t\tnextpos++\n\t\t\t\t\t}\n\t\t\t\t\ts.cols.Ascend(nextkey,\n"}},
		Expect: "R9.resume-cursor", Key: "positional/Server.cols.GetAt", Why: "a position in the keyspace is kept from one critical section of the rewrite to the next (the seeded change C09d resumed the batch scan with GetAt(position))"})
}

func init() {
	// ---- R18.per-call-globals through a release helper (fourth seeding round) ----------------------------------
	mutant(&Mutant{Name: "release-helper-forgets-keys", Props: []string{"C18"}, File: fScripts,
		Old: "\tdefer s.luapool.Put(luaState)\n\tluaDeadline := lua.LNil\n",
		New: "\tdefer s.luapool.Release(luaState)\n\tluaDeadline := lua.LNil\n",
		Edits: []Edit{
			{fScripts, "func (pl *lStatePool) Shutdown() {", "func (pl *lStatePool) Release(L *lua.LState) {\n\tluaSetEvalCmd(L, lua.LNil)\n\tluaSetRawGlobals(\n\t\tL, map[string]lua.LValue{\n\t\t\t\"ARGV\":     lua.LNil,\n\t\t\t\"DEADLINE\": lua.LNil,\n\t\t})\n\tpl.Put(L)\n}\n\nfunc (pl *lStatePool) Shutdown() {"},
			{fScripts, "\tdefer luaSetEvalCmd(luaState, lua.LNil)\n\tdefer luaSetRawGlobals(\n\t\tluaState, map[string]lua.LValue{\n\t\t\t\"KEYS\":     lua.LNil,\n\t\t\t\"ARGV\":     lua.LNil,\n\t\t\t\"DEADLINE\": lua.LNil,\n\t\t})\n", ""}},
		Expect: "R18.per-call-globals", Key: "cmdEvalUnified→set{KEYS,ARGV,DEADLINE}", Why: "the seeded change C18d: the reset moved into a release helper that forgets KEYS; a later WHEREEVAL script reads the previous call's keys"})
	mutant(&Mutant{Name: "neutral-release-helper-resets-everything", Props: []string{"C18", "C16"}, File: fScripts, Neutral: true,
		Old: "\tdefer s.luapool.Put(luaState)\n\tluaDeadline := lua.LNil\n",
		New: "\tdefer s.luapool.Release(luaState)\n\tluaDeadline := lua.LNil\n",
		Edits: []Edit{
			{fScripts, "func (pl *lStatePool) Shutdown() {", "func (pl *lStatePool) Release(L *lua.LState) {\n\tluaSetEvalCmd(L, lua.LNil)\n\tluaSetRawGlobals(\n\t\tL, map[string]lua.LValue{\n\t\t\t\"KEYS\":     lua.LNil,\n\t\t\t\"ARGV\":     lua.LNil,\n\t\t\t\"DEADLINE\": lua.LNil,\n\t\t})\n\tpl.Put(L)\n}\n\nfunc (pl *lStatePool) Shutdown() {"},
			{fScripts, "\tdefer luaSetEvalCmd(luaState, lua.LNil)\n\tdefer luaSetRawGlobals(\n\t\tluaState, map[string]lua.LValue{\n\t\t\t\"KEYS\":     lua.LNil,\n\t\t\t\"ARGV\":     lua.LNil,\n\t\t\t\"DEADLINE\": lua.LNil,\n\t\t})\n", ""}},
		Why: "the same refactoring done right: the release helper resets all three globals and the eval command before the hand-back"})
}

func init() {
	// ---- fourth seeding round: C19d, C20d -----------------------------------------------------------------------
	mutant(&Mutant{Name: "get-hides-unswept-expired-object", Props: []string{"C19", "C01"}, File: fCrud,
		Old:    "\to := col.Get(id)\n\tif o == nil {\n\t\tif msg.OutputType == RESP {\n\t\t\treturn resp.NullValue(), nil\n\t\t}",
		New:    "\to := col.Get(id)\n\tif o == nil || (o.Expires() != 0 && start.UnixNano() >= o.Expires()) {\n\t\tif msg.OutputType == RESP {\n\t\t\treturn resp.NullValue(), nil\n\t\t}",
		Expect: "R14.visibility-by-sweeper-only", Key: "cmdGET→if", Why: "the seeded change C19d: GET answers 'not found' for an object whose deadline has passed while SCAN, COUNT and STATS still hold it until the sweep"})
	mutant(&Mutant{Name: "fence-reads-cached-collection", Props: []string{"C20", "C05"}, File: "internal/server/fence.go",
		Old:    "\tif details.command == \"fset\" {\n\t\tnofields := sw.nofields\n",
		New:    "\tif sw.col != nil && sw.col.Count() == 0 {\n\t\treturn nil\n\t}\n\tif details.command == \"fset\" {\n\t\tnofields := sw.nofields\n",
		Expect: "R20.no-cached-collection", Key: "fenceMatch→sw.col", Why: "fence evaluation consults the collection pointer stored when the fence was created (the seeded change C20d searched it for roaming neighbours): stale after DROP / RENAME / last DEL"})
}

func init() {
	// ---- R14.sweep-stop after the fourth seeding round ----------------------------------------------------------
	mutant(&Mutant{Name: "sweep-walk-stopped-by-one-collection", Props: []string{"C14"}, File: fExpire,
		Old: "\t\tcol.ScanExpires(func(o *object.Object) bool {\n",
		New: "\t\treturn col.ScanExpires(func(o *object.Object) bool {\n",
		Edits: []Edit{
			{fExpire, "\t\t\tmsgs = append(msgs, &Message{Args: []string{\"del\", key, o.ID()}})\n\t\t\treturn true\n\t\t})\n\t\treturn true\n\t})", "\t\t\tmsgs = append(msgs, &Message{Args: []string{\"del\", key, o.ID()}})\n\t\t\treturn true\n\t\t})\n\t})"},
			{fColl, "func (c *Collection) ScanExpires(iter func(o *object.Object) bool) {\n\tc.expires.Scan(iter)\n}", "func (c *Collection) ScanExpires(iter func(o *object.Object) bool) bool {\n\tkeepon := true\n\tc.expires.Scan(func(o *object.Object) bool {\n\t\tkeepon = iter(o)\n\t\treturn keepon\n\t})\n\treturn keepon\n}"}},
		Expect: "R14.sweep-stop", Key: "sweep-objects/walk-continues", Why: "the seeded change C14d: the per-collection stop at the first future deadline also ends the walk over the remaining collections"})
	mutant(&Mutant{Name: "neutral-sweep-batch-cap", Props: []string{"C14", "C07"}, File: fExpire, Neutral: true,
		Old: "\t\t\tif nano < o.Expires() {\n\t\t\t\treturn false\n\t\t\t}",
		New: "\t\t\tif nano < o.Expires() || len(msgs) == 16384 {\n\t\t\t\treturn false\n\t\t\t}",
		Why: "a cap on the number of deletions per sweep, as a second disjunct of the stop test (what is left is due again at the next sweep, 100 ms later)"})
}

func init() {
	// ---- R17.marshal-total, R17.finite-floats, R17.lua-json: the reverse of the three repairs ---------------------
	mutant(&Mutant{Name: "tryparsetype-accepts-nan", Props: []string{"C17"}, File: "internal/server/stats.go",
		Old:    "err == nil && !math.IsNaN(v) && !math.IsInf(v, 0) {",
		New:    "err == nil && !math.IsNaN(v) {",
		Expect: "R17.marshal-total", Key: "dynamic-map-store/", Why: "reverse of fix 297e8ed (half of it): CLIENT SETNAME inf, CLIENT LIST in JSON mode replies {\"ok\":true,\"list\":,…}"})
	mutant(&Mutant{Name: "parsefloat-accepts-nan", Props: []string{"C17"}, File: fCrud,
		Old:    "\tif err == nil && (math.IsNaN(v) || math.IsInf(v, 0)) {\n\t\treturn 0, strconv.ErrSyntax\n\t}\n",
		New:    "",
		Expect: "R17.finite-floats", Key: "server.parseFloat→ParseFloat(s)", Why: "reverse of fix 7cffd02: SET k a POINT nan 2 is stored and every later JSON reply carries a bare NaN"})
	mutant(&Mutant{Name: "set-point-parses-raw-float", Props: []string{"C17"}, File: fCrud,
		Old:    "\t\t\ty, err := parseFloat(slat)\n",
		New:    "\t\t\ty, err := strconv.ParseFloat(slat, 64)\n",
		Expect: "R17.finite-floats", Key: "ParseFloat(slat", Why: "one coordinate parsed without the finite check"})
	mutant(&Mutant{Name: "lua-number-printed-raw", Props: []string{"C17"}, File: fScripts,
		Old:    "\t\tif f := float64(val.(lua.LNumber)); math.IsNaN(f) || math.IsInf(f, 0) {\n",
		New:    "\t\tif f := float64(val.(lua.LNumber)); math.IsNaN(f) {\n",
		Expect: "R17.lua-json", Key: "return/val.String()", Why: "reverse of fix 4ed98e5 (half): EVAL \"return 1/0\" 0 replies \"result\":+Inf"})
	mutant(&Mutant{Name: "lua-object-key-raw", Props: []string{"C17"}, File: fScripts,
		Old:    "\t\t\t\tif lk.Type() != lua.LTString {\n\t\t\t\t\tkey = jsonString(lk.String())\n\t\t\t\t}\n",
		New:    "",
		Expect: "R17.lua-json", Key: "object-key/key", Why: "reverse of fix 4ed98e5: a boolean or fractional table key is written unquoted"})
}

func init() {
	// ---- fourth seeding round: C05d, C12d, C16d, C17d ------------------------------------------------------------
	mutant(&Mutant{Name: "live-buffer-batch-keeps-grown-array", Props: []string{"C05", "C10", "C07"}, File: fLive,
		Old:    "\t\t\tdetails := lb.details[0]\n\t\t\tlb.details = lb.details[1:]\n\t\t\tif len(lb.details) == 0 {\n\t\t\t\tlb.details = nil\n\t\t\t}\n",
		New:    "\t\t\tpending := lb.details\n\t\t\tif cap(lb.details) > 64 {\n\t\t\t\tlb.details = lb.details[:0]\n\t\t\t} else {\n\t\t\t\tlb.details = nil\n\t\t\t}\n\t\t\tdetails := pending[0]\n\t\t\tif len(pending) > 1 {\n\t\t\t\tlb.details = append(lb.details, pending[1:]...)\n\t\t\t}\n",
		Expect: "R10.batch-not-aliased", Key: "goLive→liveBuffer.details", Why: "the seeded change C05d in small: the pending batch is taken into a local and the queue keeps the same backing array on one arm of an if"})
	mutant(&Mutant{Name: "field-lookup-exits-on-root-name", Props: []string{"C12", "C01"}, File: "internal/field/list_binary.go",
		Old:    "\t\t} else {\n\t\t\tif name < fname {\n\t\t\t\tbreak\n\t\t\t}\n\t\t\tif fname == name {",
		New:    "\t\t} else {\n\t\t\tif isj && jname < fname {\n\t\t\t\tbreak\n\t\t\t}\n\t\t\tif !isj && name < fname {\n\t\t\t\tbreak\n\t\t\t}\n\t\t\tif fname == name {",
		Expect: "R12.sorted-lookup-consistent", Key: "Get/", Why: "the seeded change C12d in small: the early exit of the sorted scan is taken on the part of the name before the dot, the match on the full name"})
	mutant(&Mutant{Name: "connection-buffer-one-byte-larger", Props: []string{"C16"}, File: fServer,
		Old:    "\t\t\tpacket := make([]byte, 0xFFFF)\n",
		New:    "\t\t\tpacket := make([]byte, 64*1024)\n",
		Expect: "R16.buffer-agreement", Key: "capacities", Why: "the seeded change C16d: a full read leaves one byte that the pipeline reader's single Read cannot take"})
	mutant(&Mutant{Name: "stats-map-hoisted-out-of-loop", Props: []string{"C17"}, File: "internal/server/stats.go",
		Old:    "\t\tif col != nil {\n\t\t\tm := make(map[string]interface{})\n\t\t\tm[\"num_points\"] = col.PointCount()",
		New:    "\t\tif col != nil {\n\t\t\tm[\"num_points\"] = col.PointCount()",
		Edits:  []Edit{{"internal/server/stats.go", "\tvar ms = []map[string]interface{}{}\n", "\tvar ms = []map[string]interface{}{}\n\tm := make(map[string]interface{}, 4)\n"}},
		Expect: "R17.no-shared-element", Key: "cmdSTATS→append(ms, m)", Why: "the seeded change C17d: every element of the JSON list is the same map"})
}

func init() {
	// ---- R9.rewrite-sees-every-collection: a repaired scratch copy must be silent -------------------------------
	mutant(&Mutant{Name: "neutral-rename-refused-during-rewrite", Props: []string{"C09"}, File: fCrud, Neutral: true,
		Old: "\tvar updated bool\n\tnewCol, _ := s.cols.Get(newKey)\n",
		New: "\tif s.shrinking {\n\t\treturn retwerr(errKeyHasHooksSet)\n\t}\n\tvar updated bool\n\tnewCol, _ := s.cols.Get(newKey)\n",
		Why: "not behaviour-preserving: one possible repair of the known finding F30 (RENAME refused while a rewrite runs); the rule must be silent on it"})
}

func init() {
	// ---- R20.position-needs-spatial: the reverse of the two repairs -------------------------------------------------
	const fFence2 = "internal/server/fence.go"
	mutant(&Mutant{Name: "roam-neighbours-of-a-string", Props: []string{"C20", "C05"}, File: fFence2,
		Old:    "\tif obj == nil || !objIsSpatial(obj.Geo()) {\n",
		New:    "\tif obj == nil {\n",
		Expect: "R20.position-needs-spatial", Key: "fenceMatchNearbys→obj.Geo().Center()", Why: "reverse of fix a2b5a07: the neighbours of a previous STRING value are searched around 0N 0E and reported 'faraway'"})
	mutant(&Mutant{Name: "cross-from-a-string", Props: []string{"C05", "C20"}, File: fFence2,
		Old:    "if !nocross && details.old != nil && objIsSpatial(details.old.Geo()) {",
		New:    "if !nocross && details.old != nil {",
		Expect: "R20.position-needs-spatial", Key: "fenceMatch→details.old.Geo().Center()", Why: "reverse of fix efd4714: the segment from 0N 0E to the new position 'crosses' fences when the previous value was a string"})
}

func init() {
	// ---- fifth seeding round ---------------------------------------------------------------------------------------
	mutant(&Mutant{Name: "geosearch-skipped-outside-bounds", Props: []string{"C02"}, File: fColl,
		Old:    "\tc.spatial.Search(\n\t\tmin, max,\n\t\tfunc(_, _ [2]float32, o *object.Object) bool {\n\t\t\talive = iter(o)",
		New:    "\tif minX, minY, maxX, maxY := c.Bounds(); rect.Max.X < minX || rect.Min.X > maxX || rect.Max.Y < minY || rect.Min.Y > maxY {\n\t\treturn alive\n\t}\n\tc.spatial.Search(\n\t\tmin, max,\n\t\tfunc(_, _ [2]float32, o *object.Object) bool {\n\t\t\talive = iter(o)",
		Expect: "R2.search-unconditional", Key: "geoSearch→spatial.Search", Why: "the seeded change C02e: the index search is skipped when the query lies outside Bounds(), which is not computed like the index"})
	mutant(&Mutant{Name: "point-entry-not-rounded-up", Props: []string{"C13", "C02"}, File: fColl,
		Old:    "func rtreeRect(rect geometry.Rect) (min, max [2]float32) {\n\treturn [2]float32{",
		New:    "func rtreeRect(rect geometry.Rect) (min, max [2]float32) {\n\tif rect.Min == rect.Max {\n\t\tmin = [2]float32{rtreeValueDown(rect.Min.X), rtreeValueDown(rect.Min.Y)}\n\t\treturn min, min\n\t}\n\treturn [2]float32{",
		Expect: "R2.quantiser-corners", Key: "rtreeRect/return", Why: "the seeded change C13e: the upper corner of a point entry is the rounded-down corner"})
	mutant(&Mutant{Name: "spinlock-optimistic-reader", Props: []string{"C07"}, File: fServer,
		Old:    "func (l *rwspinlock) RLock() {\n\tfor {",
		New:    "func (l *rwspinlock) RLock() {\n\tif l.state.Add(1) > 0 {\n\t\treturn\n\t}\n\tl.state.Add(-1)\n\tfor {",
		Expect: "R7.lock-primitive", Key: "rwspinlock.RLock", Why: "the seeded change C07e"})
	mutant(&Mutant{Name: "spinlock-writer-ignores-readers", Props: []string{"C07"}, File: fServer,
		Old:    "\t\tif state == 0 && l.state.CompareAndSwap(state, -1) {",
		New:    "\t\tif state >= 0 && l.state.CompareAndSwap(state, -1) {",
		Expect: "R7.lock-primitive", Key: "rwspinlock.Lock", Why: "a writer that acquires while readers hold the lock"})
	mutant(&Mutant{Name: "flusher-writes-after-unlock", Props: []string{"C08", "C03"}, File: fServer,
		Old:    "\t\ts.mu.LockLowPriority()\n\t\tdefer s.mu.Unlock()\n\t\ts.flushAOF(true)\n",
		New:    "\t\ts.mu.LockLowPriority()\n\t\tpending, logf := s.aofbuf, s.aof\n\t\ts.aofbuf = nil\n\t\ts.mu.Unlock()\n\t\tif len(pending) > 0 {\n\t\t\tlogf.Write(pending)\n\t\t\tlogf.Sync()\n\t\t}\n",
		Expect: "R8.log-under-lock", Key: "Server.aof:logf.Write()", Why: "the seeded change C08e: the background flusher takes the buffer under the lock and writes it after the unlock"})
	mutant(&Mutant{Name: "live-log-skipped-while-shrinking", Props: []string{"C09"}, File: fAOF,
		Old:    "\t}\n\n\tif s.aof != nil {\n\t\ts.aofdirty.Store(true) // prewrite optimization flag",
		New:    "\t} else if s.aof != nil {\n\t\ts.aofdirty.Store(true) // prewrite optimization flag",
		Expect: "R9.shrinklog-capture", Key: "live-append-independent-of-shrinking", Why: "the seeded change C09e"})
	mutant(&Mutant{Name: "retention-default-aliased", Props: []string{"C10"}, File: fHooks,
		Old:    "\t\t\t\t\t\topts := &buntdb.SetOptions{\n\t\t\t\t\t\t\tExpires: true,\n\t\t\t\t\t\t\tTTL:     ttl,\n\t\t\t\t\t\t}\n",
		New:    "\t\t\t\t\t\topts := hookLogSetDefaults\n\t\t\t\t\t\topts.TTL = ttl\n",
		Expect: "R10.shared-defaults-immutable", Key: "defaults/hookLogSetDefaults", Why: "the seeded change C10e"})
	mutant(&Mutant{Name: "equals-compares-directly", Props: []string{"C12"}, File: "internal/field/field.go",
		Old:    "\treturn !v.Less(b) && !b.Less(v)\n",
		New:    "\tif v.kind != b.kind {\n\t\treturn false\n\t}\n\tif v.kind == Number {\n\t\treturn v.num == b.num\n\t}\n\treturn strings.EqualFold(v.data, b.data)\n",
		Expect: "R12.equals-from-order", Key: "Value.Equals", Why: "the seeded change C12e"})
	mutant(&Mutant{Name: "expiry-loop-shares-details", Props: []string{"C14", "C05"}, File: fExpire,
		Old:    "\tfor _, msg := range msgs {\n\t\t_, d, err := s.cmdDEL(msg)\n\t\tif err != nil {",
		New:    "\tvar d commandDetails\n\tvar err error\n\tfor _, msg := range msgs {\n\t\t_, d, err = s.cmdDEL(msg)\n\t\tif err != nil {",
		Expect: "R7.no-shared-retained-address", Key: "backgroundExpireObjects→writeAOF(&d)", Why: "the seeded change C14e in small: one commandDetails for all expiries of a sweep, its address retained per iteration"})
	mutant(&Mutant{Name: "empty-http-command-handed-on", Props: []string{"C16"}, File: fServer,
		Old:    "\t\t\tif len(msg.Args) == 0 {\n\t\t\t\treturn nil, errInvalidHTTP\n\t\t\t}\n\t\t\tmsgs = append(msgs, msg)",
		New:    "\t\t\tmsgs = append(msgs, msg)",
		Expect: "R16.empty-message-rejected", Key: "ReadMessages→append(msgs, msg)", Why: "the seeded change C16e"})
	mutant(&Mutant{Name: "field-names-recorded-after-limit-return", Props: []string{"C17"}, File: "internal/server/scanner.go",
		Old:    "\tif !sw.fullFields {\n\t\topts.obj.Fields().Scan(func(f field.Field) bool {\n\t\t\tsw.fkeys.Insert(f.Name())\n\t\t\treturn true\n\t\t})\n\t}\n\tsw.filled = append(sw.filled, opts)\n\tsw.numberItems++\n\tif sw.numberItems == sw.limit {\n\t\tsw.hitLimit = true\n\t\treturn false, nil\n\t}\n",
		New:    "\tsw.filled = append(sw.filled, opts)\n\tsw.numberItems++\n\tif sw.numberItems == sw.limit {\n\t\tsw.hitLimit = true\n\t\treturn false, nil\n\t}\n\tif !sw.fullFields {\n\t\topts.obj.Fields().Scan(func(f field.Field) bool {\n\t\t\tsw.fkeys.Insert(f.Name())\n\t\t\treturn true\n\t\t})\n\t}\n",
		Expect: "R17.fields-recorded-with-object", Key: "pushObject→sw.filled", Why: "the seeded change C17e"})
	mutant(&Mutant{Name: "neighbour-walk-stops-beyond-radius", Props: []string{"C20"}, File: "internal/server/fence.go",
		Old:    "\t\t\tif meters > fence.roam.meters {\n\t\t\t\treturn true // skip outside radius\n\t\t\t}",
		New:    "\t\t\tif meters > fence.roam.meters {\n\t\t\t\treturn false // nothing nearer can follow\n\t\t\t}",
		Expect: "R20.neighbour-scan-complete", Key: "callback-never-stops", Why: "the seeded change C20e in small"})
	mutant(&Mutant{Name: "field-list-updated-in-place", Props: []string{"C05", "C01"}, File: "internal/field/list_binary.go",
		Old:    "\t\t\t// replace\n\t\t\treturn List{putfield(b, field, s, i)}",
		New:    "\t\t\tif nd := field.Value().Data(); datakind(kind) && field.Value().Kind() == kind && len(nd) == len(data) {\n\t\t\t\tcopy(b[i-len(data):i], nd)\n\t\t\t\treturn fields\n\t\t\t}\n\t\t\t// replace\n\t\t\treturn List{putfield(b, field, s, i)}",
		Expect: "R5.field-list-persistent", Key: "(List).Set→copy into", Why: "the seeded change C05e"})
}

func init() {
	// ---- R9.replay-tolerates-later-state ------------------------------------------------------------------------
	mutant(&Mutant{Name: "loader-tolerates-only-missing-key", Props: []string{"C09"}, File: "internal/server/aof.go",
		Old:    "\treturn !(err == errKeyNotFound || err == errIDNotFound ||\n\t\terr == errHookChannelSameName)\n",
		New:    "\treturn err != errKeyNotFound && err != errHookChannelSameName\n",
		Expect: "R9.replay-tolerates-later-state", Key: "cmdFSET→errIDNotFound", Why: "an FSET captured during a rewrite whose object was deleted before the scan reached it stops the loader"})
	mutant(&Mutant{Name: "drop-refused-while-hooked", Props: []string{"C09"}, File: fCrud,
		Old:    "\t// >> Operation\n\tcol := s.cmdDROPop(key)\n",
		New:    "\t// >> Operation\n\thooked := false\n\ts.hooks.Ascend(nil, func(v interface{}) bool {\n\t\thooked = hooked || v.(*Hook).Key == key\n\t\treturn true\n\t})\n\tif hooked {\n\t\treturn retwerr(errKeyHasHooksSet)\n\t}\n\tcol := s.cmdDROPop(key)\n",
		Expect: "R9.replay-tolerates-later-state", Key: "cmdDROP→errKeyHasHooksSet", Why: "a new state-dependent refusal outside the loader's tolerated set"})
	mutant(&Mutant{Name: "neutral-fatal-predicate-as-switch", Props: []string{"C09"}, File: "internal/server/aof.go", Neutral: true,
		Old: "\treturn !(err == errKeyNotFound || err == errIDNotFound ||\n\t\terr == errHookChannelSameName)\n",
		New: "\tswitch err {\n\tcase errKeyNotFound, errIDNotFound, errHookChannelSameName:\n\t\treturn false\n\t}\n\treturn true\n",
		Why: "the same predicate as a tagged switch"})
	mutant(&Mutant{Name: "neutral-fatal-predicate-early-returns", Props: []string{"C09"}, File: "internal/server/aof.go", Neutral: true,
		Old: "\treturn !(err == errKeyNotFound || err == errIDNotFound ||\n\t\terr == errHookChannelSameName)\n",
		New: "\tif err == errKeyNotFound || errHookChannelSameName == err {\n\t\treturn false\n\t}\n\tmissing := errIDNotFound == err\n\treturn !missing\n",
		Why: "the same predicate with early returns and a local"})
}

func init() {
	mutant(&Mutant{Name: "loader-refuses-reused-hook-name", Props: []string{"C09"}, File: "internal/server/aof.go",
		Old:    "\treturn !(err == errKeyNotFound || err == errIDNotFound ||\n\t\terr == errHookChannelSameName)\n",
		New:    "\treturn !(err == errKeyNotFound || err == errIDNotFound)\n",
		Expect: "R9.replay-tolerates-later-state", Key: "cmdSetHook→errHookChannelSameName", Why: "reverse of fix f2ba58a: SETHOOK x, DELHOOK x, SETCHAN x during a rewrite makes the log unloadable"})
	mutant(&Mutant{Name: "hook-name-clash-error-made-on-the-spot", Props: []string{"C09"}, File: "internal/server/hooks.go",
		Old:    "\t\t\treturn NOMessage, d, errHookChannelSameName\n",
		New:    "\t\t\treturn NOMessage, d, errors.New(\"hooks and channels cannot share the same name\")\n",
		Expect: "R9.replay-tolerates-later-state", Key: "cmdSetHook→New(", Why: "an error made on the spot equals no sentinel the loader tolerates"})
}
