package main

import (
	"fmt"
	"go/ast"
	"go/token"
	"go/types"
	"strings"

	"golang.org/x/tools/go/cfg"
)

const objPath = modPath + "/internal/object"

func init() {
	register(&Rule{ID: "R16.object-contract", Props: []string{"C16", "C17"}, Floor: 3,
		Text: "functions of the server that use an *object.Object parameter without a nil test (reply builders such as buildObjectResponse) are only called with a definitely assigned object: the result of object.New, a value under a dominating non-nil test, a callback/function parameter, or a struct field whose store dominates the call",
		Run:  ruleObjectContract})
	register(&Rule{ID: "R16.one-reply", Props: []string{"C16", "C17"}, Floor: 10,
		Text: "in handleInputCommand, after any call of a reply writer (a local closure that writes to the client connection, or that calls one) no second writer call, no lock arm and no dispatch is reachable on any path, so that exactly one reply is written per command (a gate that writes an error and continues would desynchronise the pipeline)",
		Run:  ruleOneReply})
	register(&Rule{ID: "R16.pool-pairing", Props: []string{"C16"}, Floor: 3,
		Text: "every Lua state taken from the bounded pool (luapool.Get) is, on every path to the function's exits, put back (directly, deferred, or through the Close of an owner built from it) or handed to an owner aggregate; after a hand-off every return either passes the aggregate to the caller or is covered by a deferred closer of the aggregate — in particular every error return releases the state",
		Run:  rulePoolPairing})
	register(&Rule{ID: "R16.deadline-recover", Props: []string{"C16"}, Floor: 4,
		Text: "every dispatcher that can run a command with a deadline (handleInputCommand and the three script dispatchers) wraps the dispatch in a deferred recover that converts the \"deadline\" panic into the timeout error (sibling agreement)",
		Run:  ruleDeadlineRecover})
}

// ---------------------------------------------------------------------------
// object contract

// requiresNonNil: parameter indexes of *object.Object parameters that fn uses
// through a method call not dominated by a non-nil test.
func requiresNonNil(c *Ctx, fn *FuncInfo) map[int]bool {
	info := fn.Info()
	out := map[int]bool{}
	var params []types.Object
	for _, p := range fn.Decl.Type.Params.List {
		for _, n := range p.Names {
			params = append(params, info.ObjectOf(n))
		}
	}
	var fg *FlowGraph
	for i, po := range params {
		if po == nil || !isNamedType(po.Type(), objPath, "Object") {
			continue
		}
		if _, isPtr := po.Type().(*types.Pointer); !isPtr {
			continue
		}
		if fg == nil {
			fg = newFlowGraph(info, fn.Decl.Body)
		}
		uses := fg.Find(func(n ast.Node) bool {
			call, ok := n.(*ast.CallExpr)
			if !ok {
				return false
			}
			se, ok := ast.Unparen(call.Fun).(*ast.SelectorExpr)
			if !ok {
				return false
			}
			id, ok := ast.Unparen(se.X).(*ast.Ident)
			return ok && info.ObjectOf(id) == po
		})
		for _, u := range uses {
			guarded := false
			for k, v := range fg.identFacts(fg.DominatingFacts(u)) {
				if k.obj == po && k.isNil && !v {
					guarded = true
				}
			}
			if !guarded {
				out[i] = true
			}
		}
	}
	return out
}

func ruleObjectContract(c *Ctx) {
	// summaries
	req := map[*types.Func]map[int]bool{}
	for _, fn := range c.AllFuncs("internal/server") {
		if r := requiresNonNil(c, fn); len(r) > 0 {
			req[fn.Obj] = r
		}
	}
	c.stat("functions_requiring_a_non_nil_object", len(req))
	n := 0
	for _, fn := range c.AllFuncs("internal/server") {
		info := fn.Info()
		var fg *FlowGraph
		// callback and function parameters are non-nil by contract
		paramObjs := map[types.Object]bool{}
		ast.Inspect(fn.Decl, func(x ast.Node) bool {
			var ft *ast.FuncType
			switch y := x.(type) {
			case *ast.FuncDecl:
				ft = y.Type
			case *ast.FuncLit:
				ft = y.Type
			}
			if ft != nil && ft.Params != nil {
				for _, p := range ft.Params.List {
					for _, nm := range p.Names {
						paramObjs[info.ObjectOf(nm)] = true
					}
				}
			}
			return true
		})
		inspectNoLit(fn.Decl.Body, func(x ast.Node) bool {
			call, ok := x.(*ast.CallExpr)
			if !ok {
				return true
			}
			f := callee(info, call)
			r := req[f]
			if r == nil {
				return true
			}
			for i, a := range call.Args {
				if !r[i] {
					continue
				}
				n++
				key := fmt.Sprintf("%s→%s(arg%d %s)", funcName(fn.Obj), f.Name(), i, exprStr(a))
				if fg == nil {
					fg = newFlowGraph(info, fn.Decl.Body)
				}
				l := fg.LocOf(call)
				ok, why := definitelyObject(c, fn, fg, l, a, paramObjs)
				if ok {
					c.ok(key, call.Pos(), true, "%s", why)
				} else {
					c.bad(key, call.Pos(), "%s dereferences its object argument, but %s: a nil object reaches the reply builder and the server process panics", f.Name(), why)
				}
			}
			return true
		})
	}
	c.stat("contract_call_sites", n)
}

func definitelyObject(c *Ctx, fn *FuncInfo, fg *FlowGraph, at Loc, e ast.Expr, params map[types.Object]bool) (bool, string) {
	info := fn.Info()
	e = ast.Unparen(e)
	nonNilFact := func(match func(ast.Expr) bool) bool {
		if !at.Valid() {
			return false
		}
		for _, f := range fg.DominatingFacts(at) {
			be, ok := ast.Unparen(f.E).(*ast.BinaryExpr)
			if !ok {
				continue
			}
			for _, side := range [][2]ast.Expr{{be.X, be.Y}, {be.Y, be.X}} {
				if tv, ok := info.Types[side[1]]; ok && tv.IsNil() && match(side[0]) {
					if be.Op == token.NEQ && !f.Neg || be.Op == token.EQL && f.Neg {
						return true
					}
				}
			}
		}
		return false
	}
	isNew := func(x ast.Expr) bool {
		call, ok := ast.Unparen(x).(*ast.CallExpr)
		return ok && isFunc(callee(info, call), objPath, "New")
	}
	switch x := e.(type) {
	case *ast.CallExpr:
		if isNew(x) {
			return true, "the argument is a fresh object.New"
		}
	case *ast.Ident:
		o := info.ObjectOf(x)
		if params[o] {
			return true, "the argument is a function or callback parameter (non-nil by the iterator contract)"
		}
		if nonNilFact(func(y ast.Expr) bool { id, ok := ast.Unparen(y).(*ast.Ident); return ok && info.ObjectOf(id) == o }) {
			return true, "the argument is under a dominating non-nil test"
		}
		// all definitions are object.New
		defs, news := 0, 0
		ast.Inspect(fn.Decl.Body, func(n ast.Node) bool {
			if as, ok := n.(*ast.AssignStmt); ok && len(as.Lhs) == len(as.Rhs) {
				for i, l := range as.Lhs {
					if id, ok := l.(*ast.Ident); ok && info.ObjectOf(id) == o {
						defs++
						if isNew(as.Rhs[i]) {
							news++
						}
					}
				}
			}
			return true
		})
		if defs > 0 && defs == news {
			return true, "every definition of the argument is object.New"
		}
		return false, fmt.Sprintf("%s may be nil here (not a fresh object, no dominating non-nil test)", x.Name)
	case *ast.SelectorExpr:
		if nonNilFact(func(y ast.Expr) bool { return sameExpr(info, y, x) }) {
			return true, "the field is under a dominating non-nil test"
		}
		// a field of a parameter struct passed by value (opts.obj of ScanWriterParams): non-nil when every
		// composite literal of that struct type in the package sets the field to a definite object and no
		// statement stores anything else into it
		if id, ok := ast.Unparen(x.X).(*ast.Ident); ok && params[info.ObjectOf(id)] {
			if fv := selField(info, x); fv != nil {
				if ok, why := structFieldAlwaysObject(c, fv); ok {
					return true, why
				}
			}
		}
		// a store to the same field that dominates the call with a definitely non-nil value
		stores := fg.Find(func(n ast.Node) bool {
			as, ok := n.(*ast.AssignStmt)
			if !ok {
				return false
			}
			for _, l := range as.Lhs {
				if sameExpr(info, l, x) {
					return true
				}
			}
			return false
		})
		for _, s := range stores {
			if at.Valid() && fg.Dominates(s, at) {
				return true, "a store to the field dominates the call"
			}
		}
		return false, fmt.Sprintf("%s is only assigned on some paths (%d conditional stores) and is not tested against nil", exprStr(x), len(stores))
	}
	return false, "the argument is not recognisably non-nil"
}

// ---------------------------------------------------------------------------
// one reply

func ruleOneReply(c *Ctx) {
	ct := c.CT()
	if ct.Err != "" {
		c.und("tables", 0, "%s", ct.Err)
		return
	}
	hic := ct.HIC
	info := hic.Info()
	// reply writers, by role: local closures of handleInputCommand that write to the client connection
	// (a Write/WriteString/Fprintf with the *Client parameter as destination), or that call such a closure
	var clientParam types.Object
	for _, p := range hic.Decl.Type.Params.List {
		for _, nm := range p.Names {
			if isNamedType(info.ObjectOf(nm).Type(), modPath+"/internal/server", "Client") {
				clientParam = info.ObjectOf(nm)
			}
		}
	}
	lits := map[types.Object]*ast.FuncLit{}
	names := map[types.Object]string{}
	ast.Inspect(hic.Decl.Body, func(n ast.Node) bool {
		as, ok := n.(*ast.AssignStmt)
		if !ok || len(as.Lhs) != 1 || len(as.Rhs) != 1 {
			return true
		}
		id, ok := as.Lhs[0].(*ast.Ident)
		if !ok {
			return true
		}
		if l, ok := as.Rhs[0].(*ast.FuncLit); ok {
			lits[info.ObjectOf(id)] = l
			names[info.ObjectOf(id)] = id.Name
		}
		return true
	})
	writers := map[types.Object]string{}
	for changed := true; changed; {
		changed = false
		for o, l := range lits {
			if writers[o] != "" {
				continue
			}
			w := false
			ast.Inspect(l.Body, func(n ast.Node) bool {
				call, ok := n.(*ast.CallExpr)
				if !ok {
					return true
				}
				if id, ok := ast.Unparen(call.Fun).(*ast.Ident); ok && writers[info.ObjectOf(id)] != "" {
					w = true
				}
				if se, ok := ast.Unparen(call.Fun).(*ast.SelectorExpr); ok {
					if id, ok := ast.Unparen(se.X).(*ast.Ident); ok && clientParam != nil && info.ObjectOf(id) == clientParam && strings.HasPrefix(se.Sel.Name, "Write") {
						w = true
					}
				}
				if len(call.Args) > 0 {
					if id, ok := ast.Unparen(call.Args[0]).(*ast.Ident); ok && clientParam != nil && info.ObjectOf(id) == clientParam {
						if f := callee(info, call); f != nil && (isFunc(f, "io", "WriteString") || isFunc(f, "fmt", "Fprintf") || isFunc(f, "fmt", "Fprint")) {
							w = true
						}
					}
				}
				return true
			})
			if w {
				writers[o] = names[o]
				changed = true
			}
		}
	}
	if len(writers) < 2 {
		c.und("writers", hic.Decl.Pos(), "fewer than two reply writers (local closures of handleInputCommand that write to the client) found")
		return
	}
	fg := newFlowGraph(info, hic.Decl.Body)
	isWriterCall := func(n ast.Node) *ast.CallExpr {
		var hit *ast.CallExpr
		inspectNoLit(n, func(x ast.Node) bool {
			if call, ok := x.(*ast.CallExpr); ok {
				if id, ok := ast.Unparen(call.Fun).(*ast.Ident); ok && writers[info.ObjectOf(id)] != "" {
					hit = call
				}
			}
			return true
		})
		return hit
	}
	isDispatch := func(n ast.Node) bool {
		hit := false
		inspectNoLit(n, func(x ast.Node) bool {
			if call, ok := x.(*ast.CallExpr); ok {
				if f := callee(info, call); f != nil && f == ct.Command.Obj {
					hit = true
				}
			}
			return true
		})
		return hit
	}
	n := 0
	// every writer call in the body of handleInputCommand itself (not inside the writer literals): after it,
	// no second writer call and no dispatch is reachable — exactly one reply per command on every path
	for _, b := range fg.G.Blocks {
		if !fg.Reachable(b) {
			continue
		}
		for i, node := range b.Nodes {
			call := isWriterCall(node)
			if call == nil {
				continue
			}
			n++
			id := ast.Unparen(call.Fun).(*ast.Ident)
			key := fmt.Sprintf("%s@%s", writers[info.ObjectOf(id)], replyKeyArg(info, call))
			again, w := fg.Reach(PathQuery{From: Loc{b, i, node}, Correlate: true, Target: func(l Loc) bool {
				return isWriterCall(l.Node) != nil || isDispatch(l.Node) || l.Node.Pos() >= ct.LT.Stmt.Pos() && l.Node.Pos() < ct.LT.Stmt.End() && call.Pos() < ct.LT.Stmt.Pos()
			}})
			c.checkPath(!again, key, call.Pos(), w, "after this reply no second reply and no dispatch is reachable on any path", "a reply is written but the command continues: a second reply follows on the same path, or the command is executed after an error was already sent")
		}
	}
	c.stat("reply_writer_calls", n)
}

func replyKeyArg(info *types.Info, call *ast.CallExpr) string {
	if len(call.Args) == 0 {
		return "?"
	}
	if s, ok := constString(info, call.Args[0]); ok {
		if len(s) > 30 {
			s = s[:30]
		}
		return fmt.Sprintf("%q", s)
	}
	s := exprStr(call.Args[0])
	if len(s) > 40 {
		s = s[:40]
	}
	return s
}

// ---------------------------------------------------------------------------
// pool pairing

func isPoolGet(f *types.Func) bool {
	return isMethod(f, modPath+"/internal/server", "lStatePool", "Get")
}

func rulePoolPairing(c *Ctx) {
	n := 0
	for _, fn := range c.AllFuncs("internal/server") {
		if recvNamed(fn.Obj) != nil && recvNamed(fn.Obj).Obj().Name() == "lStatePool" {
			continue
		}
		info := fn.Info()
		var gets []*ast.CallExpr
		inspectNoLit(fn.Decl.Body, func(x ast.Node) bool {
			if call, ok := x.(*ast.CallExpr); ok && isPoolGet(callee(info, call)) {
				gets = append(gets, call)
			}
			return true
		})
		if len(gets) == 0 {
			continue
		}
		fg := newFlowGraph(info, fn.Decl.Body)
		for _, g := range gets {
			n++
			key := funcName(fn.Obj) + "→luapool.Get"
			gl := fg.LocOf(g)
			as, ok := gl.Block.Nodes[gl.Idx].(*ast.AssignStmt)
			if !gl.Valid() || !ok || len(as.Lhs) != 2 {
				c.und(key, g.Pos(), "result of luapool.Get is not assigned to (state, err)")
				continue
			}
			sid, ok1 := as.Lhs[0].(*ast.Ident)
			eid, ok2 := as.Lhs[1].(*ast.Ident)
			if !ok1 || !ok2 {
				c.und(key, g.Pos(), "result of luapool.Get is not assigned to identifiers")
				continue
			}
			state, errObj := info.ObjectOf(sid), info.ObjectOf(eid)
			mentionsState := func(n ast.Node) bool {
				hit := false
				ast.Inspect(n, func(x ast.Node) bool {
					if id, ok := x.(*ast.Ident); ok && info.ObjectOf(id) == state {
						hit = true
					}
					return true
				})
				return hit
			}
			// owners: local variables assigned a composite literal that contains the state
			owners := map[types.Object]bool{}
			ast.Inspect(fn.Decl.Body, func(x ast.Node) bool {
				if as, ok := x.(*ast.AssignStmt); ok && len(as.Lhs) == len(as.Rhs) {
					for i, r := range as.Rhs {
						if cl, ok := ast.Unparen(r).(*ast.CompositeLit); ok && mentionsState(cl) {
							if id, ok := as.Lhs[i].(*ast.Ident); ok {
								owners[info.ObjectOf(id)] = true
							}
						}
					}
				}
				return true
			})
			isOwnerExpr := func(e ast.Expr) bool {
				if cl, ok := ast.Unparen(e).(*ast.CompositeLit); ok && mentionsState(cl) {
					return true
				}
				if id, ok := ast.Unparen(e).(*ast.Ident); ok && owners[info.ObjectOf(id)] {
					return true
				}
				return false
			}
			var agg ast.Expr // aggregate that received an owner (t.whereevals)
			release := func(l Loc) bool {
				hit := false
				ast.Inspect(l.Node, func(x ast.Node) bool {
					if _, isLit := x.(*ast.FuncLit); isLit {
						return false
					}
					call, ok := x.(*ast.CallExpr)
					if !ok {
						return true
					}
					f := callee(info, call)
					if c.poolReturner(f).is && len(call.Args) == 1 && mentionsState(call.Args[0]) {
						hit = true
					}
					if f != nil && f.Name() == "Close" {
						if se, ok := ast.Unparen(call.Fun).(*ast.SelectorExpr); ok && isOwnerExpr(se.X) {
							if fi := c.FuncOf(f); fi != nil && closeClearsThenPuts(c, fi, nil) {
								hit = true
							}
						}
					}
					return true
				})
				return hit
			}
			handoff := func(l Loc) bool {
				as, ok := l.Node.(*ast.AssignStmt)
				if !ok || len(as.Lhs) != 1 || len(as.Rhs) != 1 {
					return false
				}
				call, ok := ast.Unparen(as.Rhs[0]).(*ast.CallExpr)
				if !ok {
					return false
				}
				id, ok := ast.Unparen(call.Fun).(*ast.Ident)
				if !ok || id.Name != "append" || len(call.Args) < 2 {
					return false
				}
				for _, a := range call.Args[1:] {
					if isOwnerExpr(a) {
						agg = as.Lhs[0]
						return true
					}
				}
				return false
			}
			errEdge := func(b *cfg.Block, si int) bool {
				// the err != nil edge of the test that immediately follows the Get
				for _, f := range fg.edgeFacts(b, si) {
					be, ok := ast.Unparen(f.E).(*ast.BinaryExpr)
					if !ok || f.Neg || be.Op != token.NEQ {
						continue
					}
					if id, ok := ast.Unparen(be.X).(*ast.Ident); ok && info.ObjectOf(id) == errObj {
						// only when no statement between the Get and this test reassigns err: the test block is the Get's block
						if b == gl.Block {
							return true
						}
					}
				}
				return false
			}
			leak, trail := fg.Reach(PathQuery{From: gl,
				Target: func(l Loc) bool { _, ok := l.Node.(*ast.ReturnStmt); return ok },
				Avoid:  func(l Loc) bool { return release(l) || handoff(l) },
				EdgeOK: func(b *cfg.Block, si int) bool { return !errEdge(b, si) }})
			if leak {
				var path []string
				for _, nd := range trail {
					path = append(path, c.posStr(nd.Pos()))
				}
				c.badPath(key, g.Pos(), path, "a return is reachable after luapool.Get without the state being put back or handed to an owner: the bounded pool (%d states) drains and scripting stops for every connection", 1000)
				continue
			}
			// a deferred Put must run last: every other deferred call that still uses the state has to be
			// registered after it (deferred calls run in reverse order)
			putDefers := fg.Find(func(x ast.Node) bool {
				d, ok := x.(*ast.DeferStmt)
				return ok && c.poolReturner(callee(info, d.Call)).is && len(d.Call.Args) == 1 && mentionsState(d.Call.Args[0])
			})
			lateUse := false
			for _, pd := range putDefers {
				for _, od := range fg.Find(func(x ast.Node) bool {
					d, ok := x.(*ast.DeferStmt)
					return ok && !c.poolReturner(callee(info, d.Call)).is && mentionsState(d)
				}) {
					if !fg.Dominates(pd, od) {
						lateUse = true
						c.bad(key+"/put-runs-last", od.Node.Pos(), "the deferred %s uses the Lua state but is registered before the deferred Put, so it runs after the state is back in the pool, where another connection may already be using it", exprStr(od.Node.(*ast.DeferStmt).Call.Fun))
					}
				}
			}
			if len(putDefers) > 0 && !lateUse {
				c.ok(key+"/put-runs-last", putDefers[0].Node.Pos(), true, "every other deferred use of the state is registered after the deferred Put")
			}
			if agg == nil {
				c.ok(key, g.Pos(), true, "the state is put back on every path")
				continue
			}
			// after a hand-off: every return passes the aggregate's root to the caller, or a deferred closer covers it
			root := agg
			for {
				if se, ok := ast.Unparen(root).(*ast.SelectorExpr); ok {
					root = se.X
					continue
				}
				break
			}
			rootID, _ := ast.Unparen(root).(*ast.Ident)
			var rootObj types.Object
			if rootID != nil {
				rootObj = info.ObjectOf(rootID)
			}
			escapes := func(l Loc) bool {
				// tout = t   (assignment of the root to another variable, e.g. a named result) or return ..., t, ...
				hit := false
				switch s := l.Node.(type) {
				case *ast.AssignStmt:
					for i, r := range s.Rhs {
						if id, ok := ast.Unparen(r).(*ast.Ident); ok && info.ObjectOf(id) == rootObj && i < len(s.Lhs) {
							hit = true
						}
					}
				case *ast.ReturnStmt:
					for _, r := range s.Results {
						if id, ok := ast.Unparen(r).(*ast.Ident); ok && info.ObjectOf(id) == rootObj {
							hit = true
						}
					}
				}
				return hit
			}
			deferredCloser := false
			for _, d := range fg.Find(func(x ast.Node) bool { _, ok := x.(*ast.DeferStmt); return ok }) {
				ds := d.Node.(*ast.DeferStmt)
				lit, ok := ast.Unparen(ds.Call.Fun).(*ast.FuncLit)
				if !ok {
					continue
				}
				closes := false
				ast.Inspect(lit.Body, func(x ast.Node) bool {
					if rs, ok := x.(*ast.RangeStmt); ok && sameExpr(info, rs.X, agg) {
						ast.Inspect(rs.Body, func(y ast.Node) bool {
							if call, ok := y.(*ast.CallExpr); ok {
								if f := callee(info, call); f != nil && f.Name() == "Close" {
									closes = true
								}
							}
							return true
						})
					}
					return true
				})
				if closes && fg.Dominates(d, gl) {
					deferredCloser = true
				}
			}
			// find the hand-off location(s) and search from them
			lost := false
			var lostTrail []ast.Node
			for _, h := range fg.Find(func(x ast.Node) bool { _, ok := x.(*ast.AssignStmt); return ok }) {
				if !handoff(h) {
					continue
				}
				r, tr := fg.Reach(PathQuery{From: h, Target: func(l Loc) bool { _, ok := l.Node.(*ast.ReturnStmt); return ok && !escapes(l) }, Avoid: escapes})
				if r {
					lost, lostTrail = true, tr
				}
			}
			if lost && !deferredCloser {
				var path []string
				for _, nd := range lostTrail {
					path = append(path, c.posStr(nd.Pos()))
				}
				c.badPath(key, g.Pos(), path, "after the state was handed to %s a return is reachable that neither passes the aggregate to the caller nor is covered by a deferred closer: the caller cannot close what it never receives, the pooled state is lost", exprStr(agg))
			} else {
				how := "every later return passes the aggregate to the caller"
				if lost {
					how = "returns that do not pass the aggregate on are covered by a deferred closer"
				}
				c.ok(key, g.Pos(), true, "released or handed to %s on every path; %s", exprStr(agg), how)
			}
		}
	}
	if n == 0 {
		c.bad("no-sites", 0, "no luapool.Get call found")
	}
}

// ---------------------------------------------------------------------------
// deadline recover

func ruleDeadlineRecover(c *Ctx) {
	names := []string{"handleInputCommand", "luaTile38AtomicRW", "luaTile38AtomicRO", "luaTile38NonAtomic"}
	for _, name := range names {
		fn := c.Func("internal/server", "Server", name)
		if fn == nil {
			c.und(name, 0, "not found")
			continue
		}
		info := fn.Info()
		// the literal that contains the dispatch call
		ok := false
		ast.Inspect(fn.Decl.Body, func(x ast.Node) bool {
			lit, isLit := x.(*ast.FuncLit)
			if !isLit {
				return true
			}
			hasDispatch := false
			inspectNoLit(lit.Body, func(y ast.Node) bool {
				if call, isCall := y.(*ast.CallExpr); isCall && isDispatcher(callee(info, call)) {
					hasDispatch = true
				}
				return true
			})
			if !hasDispatch {
				return true
			}
			// a deferred literal inside that calls recover() and compares with "deadline", under msg.Deadline != nil
			ast.Inspect(lit.Body, func(y ast.Node) bool {
				d, isD := y.(*ast.DeferStmt)
				if !isD {
					return true
				}
				dl, isL := ast.Unparen(d.Call.Fun).(*ast.FuncLit)
				if !isL {
					return true
				}
				rec, cmp, setsErr := false, false, false
				ast.Inspect(dl.Body, func(z ast.Node) bool {
					switch w := z.(type) {
					case *ast.CallExpr:
						if id, ok := ast.Unparen(w.Fun).(*ast.Ident); ok && id.Name == "recover" {
							rec = true
						}
					case *ast.BasicLit:
						if s, ok := constString(info, w); ok && s == "deadline" {
							cmp = true
						}
					case *ast.AssignStmt:
						for _, r := range w.Rhs {
							if id, ok := ast.Unparen(r).(*ast.Ident); ok && id.Name == "errTimeout" {
								setsErr = true
							}
						}
					}
					return true
				})
				if rec && cmp && setsErr {
					ok = true
				}
				return true
			})
			return true
		})
		c.check(ok, name, fn.Decl.Pos(), "the dispatch is wrapped in a deferred recover that turns the \"deadline\" panic into errTimeout", fmt.Sprintf("%s dispatches commands but does not recover the \"deadline\" panic: a TIMEOUT that fires kills the server process", name))
	}
	_ = strings.Join
}

var structFieldObjCache = map[*types.Var]string{}

// structFieldAlwaysObject: every composite literal of the struct that owns field fv (in internal/server) sets
// the field to a callback/function parameter or a fresh object.New, and every assignment to the field
// stores object.New(…).
func structFieldAlwaysObject(c *Ctx, fv *types.Var) (bool, string) {
	if w, ok := structFieldObjCache[fv]; ok {
		return w != "", w
	}
	structFieldObjCache[fv] = ""
	lits, good := 0, true
	for _, fn := range c.AllFuncs("internal/server") {
		if fn.Decl.Body == nil {
			continue
		}
		info := fn.Info()
		paramObjs := map[types.Object]bool{}
		ast.Inspect(fn.Decl, func(x ast.Node) bool {
			var ft *ast.FuncType
			switch y := x.(type) {
			case *ast.FuncDecl:
				ft = y.Type
			case *ast.FuncLit:
				ft = y.Type
			}
			if ft != nil && ft.Params != nil {
				for _, p := range ft.Params.List {
					for _, nm := range p.Names {
						paramObjs[info.ObjectOf(nm)] = true
					}
				}
			}
			return true
		})
		isNew := func(x ast.Expr) bool {
			call, ok := ast.Unparen(x).(*ast.CallExpr)
			return ok && isFunc(callee(info, call), objPath, "New")
		}
		var fg *FlowGraph
		ast.Inspect(fn.Decl.Body, func(n ast.Node) bool {
			switch x := n.(type) {
			case *ast.CompositeLit:
				tv, ok := info.Types[x]
				if !ok {
					return true
				}
				st, ok := tv.Type.Underlying().(*types.Struct)
				if !ok {
					return true
				}
				owns := false
				for i := 0; i < st.NumFields(); i++ {
					if st.Field(i) == fv {
						owns = true
					}
				}
				if !owns {
					return true
				}
				lits++
				set := false
				for _, el := range x.Elts {
					kv, ok := el.(*ast.KeyValueExpr)
					if !ok {
						good = false
						continue
					}
					if kid, ok := kv.Key.(*ast.Ident); ok && kid.Name == fv.Name() {
						set = true
						v := ast.Unparen(kv.Value)
						switch y := v.(type) {
						case *ast.Ident:
							if !paramObjs[info.ObjectOf(y)] {
								if fg == nil {
									fg = newFlowGraph(info, fn.Decl.Body)
								}
								if ok, _ := definitelyObject(c, fn, fg, fg.LocOfOuter(x), y, paramObjs); !ok {
									good = false
								}
							}
						case *ast.SelectorExpr:
							// details.obj and the like: decided where it is used
							if fg == nil {
								fg = newFlowGraph(info, fn.Decl.Body)
							}
							if ok, _ := definitelyObject(c, fn, fg, fg.LocOfOuter(x), y, paramObjs); !ok {
								good = false
							}
						default:
							if !isNew(v) {
								good = false
							}
						}
					}
				}
				if !set {
					good = false
				}
			case *ast.AssignStmt:
				if len(x.Lhs) == len(x.Rhs) {
					for i, l := range x.Lhs {
						if selField(info, l) == fv {
							r := ast.Unparen(x.Rhs[i])
							if id, ok := r.(*ast.Ident); ok {
								// a local that holds object.New(…) or the field's own previous value
								r = ast.Unparen(resolveLocalIn(info, fn.Decl.Body, id))
							}
							if !isNew(r) {
								if se, ok := r.(*ast.SelectorExpr); !ok || selField(info, se) != fv {
									good = false
								}
							}
						}
					}
				}
			}
			return true
		})
	}
	if lits > 0 && good {
		structFieldObjCache[fv] = "the field of the parameter struct is set to an object by every literal of its type"
	}
	w := structFieldObjCache[fv]
	return w != "", w
}
